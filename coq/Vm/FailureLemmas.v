(* C17: what the VM model (Vm/Model.v) reports when a run fails.
     1. `calls` / `steps`: the interpreter as a big-step RELATION that additionally records which activations
        have been entered and not left (function name + the block frames it has opened and not closed).
        `run_chain`: for a checked program (Verify.Check) every run of the executable interpreter is a
        derivation of that relation, and the call stack at a failure is EXACTLY the rendering of the recorded
        activations, innermost first.
     2. output: printed lines are never lost or reordered; their number is the number of `printn`
        instructions executed (minus the failing one).
     3. assert: the error of a failed assert carries the instruction's first argument (file:line:col).
     4. panics: which model errors stand for a Rust panic and where they can arise.
   Everything is for ALL programs / states / fuel; no axioms. *)
From MS Require Import Vm.Model Verify.Check Verify.Sound.
From Coq Require Import Lia.
Open Scope nat_scope.

(* ================================================================ 1. activations entered and not left *)
Definition activation := (list flabel * str)%type.        (* open blocks (innermost first), function *)
Definition render (c : list activation) : list flabel := flat_map (fun x => fst x ++ [LFun (snd x)]) c.
Definition wf_chain (c : list activation) : Prop := Forall (fun x => Forall (fun l => special l = true) (fst x)) c.

Fixpoint fun_names (st : list flabel) : list str :=
  match st with [] => [] | LFun n :: r => n :: fun_names r | _ :: r => fun_names r end.

Definition tick (name : str) (a : act) (i : instr) (g : gstate) : gstate :=
  add_trace g (name, N.of_nat (a_ip a), op i, N.of_nat (length (frames g)), N.of_nat (length (a_ops a))).
Definition ret_flag (rv : option value) : bool := match rv with Some _ => true | None => false end.
Definition deliver (a : act) (rv : option value) : act :=
  match rv with Some v => set_ops a (a_ops a ++ [v]) | None => a end.

Section Sem.
  Variable rc : str -> nat -> bool -> bool.
  Variable p : program.

  (* `steps name code bl a g r c`: the activation of `name` (code `code`), having `bl` open blocks, continues
     from (a, g) and ends with `r`; if `r` is a failure, `c` lists the activations that were active when it
     happened (innermost first, ending with this one), otherwise `c = []`.
     `calls name argv cb g r c`: the same for a whole call. *)
  Inductive steps : str -> list instr -> list flabel -> act -> gstate -> rres -> list activation -> Prop :=
  | st_end : forall name code bl a g g', nth_error code (a_ip a) = None -> pop_frame g = Some g' ->
      steps name code bl a g (RDone None g') []
  | st_end_bad : forall name code bl a g, nth_error code (a_ip a) = None -> pop_frame g = None ->
      steps name code bl a g (RFail (E_panic 0%N) g) [(bl, name)]
  | st_fail : forall name code bl a g i e, nth_error code (a_ip a) = Some i ->
      exec i a (tick name a i g) = SFail e ->
      steps name code bl a g (RFail e (tick name a i g)) [(bl, name)]
  | st_next : forall name code bl a g i a' g' r c, nth_error code (a_ip a) = Some i ->
      exec i a (tick name a i g) = SNext a' g' ->
      steps name code bl (set_ip a' (S (a_ip a'))) g' r c -> steps name code bl a g r c
  | st_goto : forall name code bl a g i off a' g' t r c, nth_error code (a_ip a) = Some i ->
      exec i a (tick name a i g) = SGoto off a' g' -> goto (length code) (a_ip a') off = Some t ->
      steps name code bl (set_ip a' t) g' r c -> steps name code bl a g r c
  | st_goto_bad : forall name code bl a g i off a' g', nth_error code (a_ip a) = Some i ->
      exec i a (tick name a i g) = SGoto off a' g' -> goto (length code) (a_ip a') off = None ->
      steps name code bl a g (RFail E_goto_range g') [(bl, name)]
  | st_push : forall name code bl a g i l a' g' r c, nth_error code (a_ip a) = Some i ->
      exec i a (tick name a i g) = SPush l a' g' ->
      steps name code (l :: bl) (set_ip (set_ss a' (S (a_ss a'))) (S (a_ip a'))) (push_frame g' l) r c ->
      steps name code bl a g r c
  | st_gotopop : forall name code bl a g i off n a' g' t g'' r c, nth_error code (a_ip a) = Some i ->
      exec i a (tick name a i g) = SGotoPop off n a' g' -> goto (length code) (a_ip a') off = Some t ->
      pop_frames n g' = Some g'' ->
      steps name code (skipn n bl) (set_ip a' t) g'' r c -> steps name code bl a g r c
  | st_gotopop_range : forall name code bl a g i off n a' g', nth_error code (a_ip a) = Some i ->
      exec i a (tick name a i g) = SGotoPop off n a' g' -> goto (length code) (a_ip a') off = None ->
      steps name code bl a g (RFail E_goto_range g') [(bl, name)]
  | st_gotopop_bad : forall name code bl a g i off n a' g' t, nth_error code (a_ip a) = Some i ->
      exec i a (tick name a i g) = SGotoPop off n a' g' -> goto (length code) (a_ip a') off = Some t ->
      pop_frames n g' = None ->
      steps name code bl a g (RFail (E_panic OP_JMP_POP) g') [(bl, name)]
  | st_done0 : forall name code bl a g i a' g' r c, nth_error code (a_ip a) = Some i ->
      exec i a (tick name a i g) = SPopScope a' g' -> a_ss a' = 0 ->
      steps name code bl (set_ip a' (S (a_ip a'))) g' r c -> steps name code bl a g r c
  | st_done : forall name code bl a g i a' g' k g'' r c, nth_error code (a_ip a) = Some i ->
      exec i a (tick name a i g) = SPopScope a' g' -> a_ss a' = S k -> pop_frame g' = Some g'' ->
      steps name code (tl bl) (set_ip (set_ss a' k) (S (a_ip a'))) g'' r c -> steps name code bl a g r c
  | st_done_bad : forall name code bl a g i a' g' k, nth_error code (a_ip a) = Some i ->
      exec i a (tick name a i g) = SPopScope a' g' -> a_ss a' = S k -> pop_frame g' = None ->
      steps name code bl a g (RFail (E_panic OP_DONE) g') [(bl, name)]
  | st_ret : forall name code bl a g i rv a' g', nth_error code (a_ip a) = Some i ->
      exec i a (tick name a i g) = SRet rv a' g' ->
      steps name code bl a g (RDone rv (with_frames g' (drop_to_function (frames g')))) []
  | st_call_done : forall name code bl a g i dest cb' argv' a' g' rv g2 r c, nth_error code (a_ip a) = Some i ->
      exec i a (tick name a i g) = SCall dest cb' argv' a' g' ->
      calls dest argv' cb' g' (RDone rv g2) [] -> rc name (a_ip a') (ret_flag rv) = true ->
      steps name code bl (set_ip (deliver a' rv) (S (a_ip a'))) g2 r c -> steps name code bl a g r c
  | st_call_arity : forall name code bl a g i dest cb' argv' a' g' rv g2, nth_error code (a_ip a) = Some i ->
      exec i a (tick name a i g) = SCall dest cb' argv' a' g' ->
      calls dest argv' cb' g' (RDone rv g2) [] -> rc name (a_ip a') (ret_flag rv) = false ->
      steps name code bl a g (RFail E_arity g2) [(bl, name)]
  | st_call_fail : forall name code bl a g i dest cb' argv' a' g' e g2 c, nth_error code (a_ip a) = Some i ->
      exec i a (tick name a i g) = SCall dest cb' argv' a' g' ->
      calls dest argv' cb' g' (RFail e g2) c ->
      steps name code bl a g (RFail e g2) (c ++ [(bl, name)])          (* the callee's activations, then this one *)
  with calls : str -> list value -> option (list (str * N)) -> gstate -> rres -> list activation -> Prop :=
  | c_missing : forall name argv cb g, assoc name p = None ->
      calls name argv cb g (RFail (E_no_function name) g) []            (* never entered *)
  | c_enter : forall name argv cb g code r c, assoc name p = Some code ->
      steps name code [] (act0 name argv cb) (push_frame g (LFun name)) r c ->
      calls name argv cb g r c.

  (* ---- sanity of the relation: no activation is reported for a run that ends; a failing activation is the
     last (outermost) entry of its own report *)
  Lemma steps_done_nil : forall name code bl a g r c, steps name code bl a g r c ->
    forall rv g', r = RDone rv g' -> c = [].
  Proof.
    induction 1; intros rv0 g0' E; try discriminate; try reflexivity; eauto.
  Qed.
  Lemma steps_fail_last : forall name code bl a g r c, steps name code bl a g r c ->
    forall e g', r = RFail e g' -> exists c' bl', c = c' ++ [(bl', name)].
  Proof.
    induction 1; intros e0 g0' E; try discriminate; eauto;
      try (exists [], bl; reflexivity); try (exists c, bl; reflexivity).
  Qed.
  Lemma calls_done_nil : forall name argv cb g rv g' c, calls name argv cb g (RDone rv g') c -> c = [].
  Proof. intros name argv cb g rv g' c H. inversion H; subst. eapply steps_done_nil; [eassumption|reflexivity]. Qed.
  Lemma calls_fail_last : forall name argv cb g e g' c, calls name argv cb g (RFail e g') c ->
    assoc name p <> None -> exists c' bl', c = c' ++ [(bl', name)].
  Proof.
    intros name argv cb g e g' c H Hn. inversion H; subst; [congruence|].
    eapply steps_fail_last; [eassumption|reflexivity].
  Qed.
End Sem.

(* ---------------------------------------------------------------- rendering *)
Lemma render_app : forall c1 c2, render (c1 ++ c2) = render c1 ++ render c2.
Proof. intros. unfold render. apply flat_map_app. Qed.
Lemma render_one : forall bl n, render [(bl, n)] = bl ++ [LFun n].
Proof. intros. unfold render. cbn. apply app_nil_r. Qed.

Lemma fun_names_app : forall x y, fun_names (x ++ y) = fun_names x ++ fun_names y.
Proof.
  induction x as [|l x IH]; intros y; [reflexivity|]. destruct l; cbn [app fun_names]; rewrite IH; reflexivity.
Qed.
Lemma fun_names_special : forall bl, Forall (fun l => special l = true) bl -> fun_names bl = [].
Proof.
  induction 1 as [|l bl Hl _ IH]; [reflexivity|]. destruct l; try discriminate; exact IH.
Qed.
(* the function lines of a rendered report = the active functions, innermost first *)
Lemma fun_names_render : forall c, wf_chain c -> fun_names (render c) = map snd c.
Proof.
  induction 1 as [|[bl n] c Hx _ IH]; [reflexivity|].
  change (render ((bl, n) :: c)) with ((bl ++ [LFun n]) ++ render c).
  rewrite !fun_names_app, IH. cbn [fst] in Hx. rewrite (fun_names_special _ Hx). reflexivity.
Qed.

(* ---------------------------------------------------------------- the frames of one activation, with labels *)
Definition shapeL (name : str) (base : list frame) (bl : list flabel) (fs : list frame) : Prop :=
  exists bf vs, fs = bf ++ {| lab := LFun name; vars := vs |} :: base /\ map lab bf = bl /\ Forall is_special bf.

Lemma shapeL_shape : forall name base bl fs, shapeL name base bl fs -> shape name base (length bl) fs.
Proof.
  intros name base bl fs [bf [vs [E [M F]]]]. exists bf, vs. split; [exact E|]. split; [|exact F].
  subst bl. symmetry. apply map_length.
Qed.

Lemma shapeL_labels : forall name base bl fs, shapeL name base bl fs ->
  map lab fs = render [(bl, name)] ++ map lab base /\ Forall (fun l => special l = true) bl.
Proof.
  intros name base bl fs [bf [vs [E [M F]]]]. subst fs bl. split.
  - rewrite render_one, map_app, <- app_assoc. reflexivity.
  - clear -F. induction F as [|f bf Hf _ IH]; constructor; assumption.
Qed.

Lemma shapeL_top_upd : forall name base bl fs fs', shapeL name base bl fs -> top_upd fs fs' -> shapeL name base bl fs'.
Proof.
  intros name base bl fs fs' [bf [vs [E [M F]]]] [U|[f [r [vs' [U1 U2]]]]].
  - subst fs'. exists bf, vs. auto.
  - subst fs fs'. destruct bf as [|b bf']; cbn [app] in U1; inversion U1; subst.
    + exists [], vs'. cbn. auto.
    + exists ({| lab := lab f; vars := vs' |} :: bf'), vs. cbn [app map lab]. split; [reflexivity|]. split; [reflexivity|].
      constructor; [exact (Forall_inv F)|exact (Forall_inv_tail F)].
Qed.

Lemma shapeL_push : forall name base bl fs l, shapeL name base bl fs -> special l = true ->
  shapeL name base (l :: bl) ({| lab := l; vars := [] |} :: fs).
Proof.
  intros name base bl fs l [bf [vs [E [M F]]]] Hl. subst fs.
  exists ({| lab := l; vars := [] |} :: bf), vs. cbn [app map lab]. split; [reflexivity|]. split; [rewrite M; reflexivity|].
  constructor; [exact Hl|exact F].
Qed.

Lemma shapeL_pop_frame : forall name base l bl g, shapeL name base (l :: bl) (frames g) ->
  exists g', pop_frame g = Some g' /\ shapeL name base bl (frames g').
Proof.
  intros name base l bl g [bf [vs [E [M F]]]]. destruct bf as [|b bf']; [discriminate|].
  cbn [app map] in *. unfold pop_frame. rewrite E. eexists. split; [reflexivity|].
  cbn. exists bf', vs. split; [reflexivity|]. split; [inversion M; reflexivity|exact (Forall_inv_tail F)].
Qed.

Lemma shapeL_pop_frames : forall name base k bl g, k <= length bl -> shapeL name base bl (frames g) ->
  exists g', pop_frames k g = Some g' /\ shapeL name base (skipn k bl) (frames g').
Proof.
  induction k as [|k IH]; intros bl g Hk Hs.
  - exists g. cbn. auto.
  - destruct bl as [|l bl]; [cbn in Hk; lia|]. destruct (shapeL_pop_frame _ _ _ _ _ Hs) as [g1 [P1 S1]].
    cbn [length] in Hk. destruct (IH bl g1 ltac:(lia) S1) as [g2 [P2 S2]].
    exists g2. cbn [pop_frames skipn]. rewrite P1. auto.
Qed.

(* ---------------------------------------------------------------- the run of a checked program is a derivation,
   and the stack at a failure is the rendering of the recorded activations *)
Section Chain.
  Variable rc : str -> nat -> bool -> bool.
  Variable p : program.

  Definition call_ok (r : rres) (dest : str) (argv : list value) (cb : option (list (str * N))) (g : gstate) : Prop :=
    match r with
    | RDone rv g' => frames g' = frames g /\ calls rc p dest argv cb g (RDone rv g') []
    | RFail e g' => exists c, map lab (frames g') = render c ++ map lab (frames g) /\ wf_chain c
                              /\ calls rc p dest argv cb g (RFail e g') c
    | RFuel => True end.

  Definition concl (name : str) (code : list instr) (base : list frame) (bl : list flabel) (a : act) (g : gstate)
             (r : rres) : Prop :=
    match r with
    | RDone rv g' => frames g' = base /\ steps rc p name code bl a g (RDone rv g') []
    | RFail e g' => exists c, map lab (frames g') = render c ++ map lab base /\ wf_chain c
                              /\ steps rc p name code bl a g (RFail e g') c
    | RFuel => True end.

  Lemma concl_lift : forall name code base bl a g bl2 a2 g2 r,
    (forall r c, steps rc p name code bl2 a2 g2 r c -> steps rc p name code bl a g r c) ->
    concl name code base bl2 a2 g2 r -> concl name code base bl a g r.
  Proof.
    intros name code base bl a g bl2 a2 g2 r H C. destruct r as [rv g'|e g'|]; cbn [concl] in *.
    - destruct C as [C1 C2]. split; [exact C1|apply H; exact C2].
    - destruct C as [c [C1 [C2 C3]]]. exists c. split; [exact C1|]. split; [exact C2|apply H; exact C3].
    - exact I.
  Qed.

  Lemma concl_here : forall name code base bl a g e g1,
    shapeL name base bl (frames g1) -> steps rc p name code bl a g (RFail e g1) [(bl, name)] ->
    concl name code base bl a g (RFail e g1).
  Proof.
    intros name code base bl a g e g1 Hsh Hst. destruct (shapeL_labels _ _ _ _ Hsh) as [L W].
    exists [(bl, name)]. split; [exact L|]. split; [|exact Hst]. constructor; [exact W|constructor].
  Qed.

  Lemma nxt_nat : forall ip, Z.to_nat (Z.of_nat ip + 1) = S ip.
  Proof. intros. lia. Qed.

  Lemma loop_chain : forall callee name code ds base,
    check code ds = true ->
    (forall dest argv cb g, call_ok (callee dest argv cb g) dest argv cb g) ->
    forall fuel a g bl,
      shapeL name base bl (frames g) -> pos_ok (length code) ds (a_ip a) (length bl) -> length bl <= a_ss a ->
      concl name code base bl a g (loop rc callee name code fuel a g).
  Proof.
    intros callee name code ds base Hc Hcal.
    induction fuel as [|fuel IH]; intros a g bl Hsh Hpos Hss; cbn [loop]; [exact I|].
    destruct Hpos as [[Hip Hd]|[Hip [s Hl]]].
    - (* fell off the end *)
      assert (E : nth_error code (a_ip a) = None) by (apply nth_error_None; lia). rewrite E.
      destruct bl as [|l bl]; [|discriminate].
      destruct Hsh as [bf [vs [Ef [Em Fs]]]]. destruct bf as [|b bf]; [|discriminate]. cbn [app] in Ef.
      assert (Ep : pop_frame g = Some (with_frames g base)) by (unfold pop_frame; rewrite Ef; reflexivity).
      rewrite Ep. cbn [concl]. split; [reflexivity|]. apply st_end; assumption.
    - destruct (check_at_inv _ _ _ _ _ Hc Hl) as [i [d [Hi [Hd [Hs [Hj Hcov]]]]]].
      rewrite Hi. cbv zeta.
      change (add_trace g (name, N.of_nat (a_ip a), op i, N.of_nat (length (frames g)), N.of_nat (length (a_ops a))))
        with (tick name a i g).
      set (g1 := tick name a i g).
      assert (Hsh1 : shapeL name base bl (frames g1)) by exact Hsh.
      assert (Hex : exec i a g1 = exec_d d a g1) by (unfold exec; rewrite Hd; reflexivity).
      destruct s as [|n0 s']; [congruence|].
      assert (Hctl := exec_d_ctl d a g1 (a_ip a) (length bl) n0 (tgtA (length code) ds)).
      assert (Hfr := exec_d_frames d a g1).
      assert (Hcov0 : covers (abs_step d (a_ip a) (length bl) n0) (fun t d' _ => tgtA (length code) ds t d')).
      { eapply covers_mono; [|apply Hcov; left; reflexivity]. intros t d' n'. apply edge_ok_tgtA. }
      specialize (Hctl Hcov0). clear Hcov0 Hcov.
      rewrite Hex.
      destruct (exec_d d a g1) as [a' g'|off a' g'|l a' g'|off k a' g'|a' g'|rv a' g'|dest cb' argv' a' g'|e] eqn:Eex;
        clear Eex.
      + (* SNext *)
        destruct Hfr as [[Hup Ht] [E1 E2]]. destruct Hctl as [_ Hp].
        eapply concl_lift; [intros r c Hst; eapply st_next; eassumption|].
        apply IH.
        * eapply shapeL_top_upd; eassumption.
        * cbn [set_ip a_ip]. rewrite E2. unfold nxt in Hp. rewrite nxt_nat in Hp. exact Hp.
        * cbn [set_ip a_ss]. lia.
      + (* SGoto *)
        destruct Hfr as [Eg [E1 E2]]. subst g'. destruct Hctl as [[_ Hp] Hjo].
        rewrite E2. assert (Hgo := goto_some _ _ _ (Hj _ Hjo)). rewrite Hgo.
        eapply concl_lift; [intros r c Hst; eapply st_goto; [exact Hi|exact Hex|rewrite E2; exact Hgo|exact Hst]|].
        apply IH; [exact Hsh1|exact Hp|cbn [set_ip a_ss]; lia].
      + (* SPush *)
        destruct Hfr as [Eg [E1 E2]]. subst g'. destruct Hctl as [[_ Hp] Hl'].
        eapply concl_lift; [intros r c Hst; eapply st_push; eassumption|].
        apply IH.
        * cbn. apply shapeL_push; assumption.
        * cbn [set_ip set_ss a_ip length]. rewrite E2. unfold nxt in Hp. rewrite nxt_nat in Hp. exact Hp.
        * cbn [set_ip set_ss a_ss length]. lia.
      + (* SGotoPop *)
        destruct Hfr as [Eg [E1 E2]]. subst g'. destruct Hctl as [Hk [[_ Hp] Hjo]].
        rewrite E2. assert (Hgo := goto_some _ _ _ (Hj _ Hjo)). rewrite Hgo.
        destruct (shapeL_pop_frames _ _ _ _ _ Hk Hsh1) as [g2 [P2 S2]]. rewrite P2.
        eapply concl_lift; [intros r c Hst; eapply st_gotopop; [exact Hi|exact Hex|rewrite E2; exact Hgo|exact P2|exact Hst]|].
        apply IH.
        * exact S2.
        * rewrite skipn_length. exact Hp.
        * rewrite skipn_length. cbn [set_ip a_ss]. lia.
      + (* SPopScope *)
        destruct Hfr as [Eg [E1 E2]]. subst g'. destruct Hctl as [k [Ek [_ Hp]]].
        destruct bl as [|l bl]; [discriminate|]. cbn [length] in Ek. inversion Ek; subst k.
        destruct (a_ss a') as [|k'] eqn:Ess; [cbn [length] in Hss; lia|].
        destruct (shapeL_pop_frame _ _ _ _ _ Hsh1) as [g2 [P2 S2]]. rewrite P2.
        eapply concl_lift; [intros r c Hst; eapply st_done; eassumption|].
        apply IH.
        * exact S2.
        * cbn [set_ip set_ss a_ip]. rewrite E2. unfold nxt in Hp. rewrite nxt_nat in Hp. exact Hp.
        * cbn [set_ip set_ss a_ss tl]. cbn [length] in Hss. lia.
      + (* SRet *)
        destruct Hfr as [Eg _]. subst g'. cbn [concl with_frames frames]. split.
        * eapply shape_drop. eapply shapeL_shape. exact Hsh1.
        * eapply st_ret; eassumption.
      + (* SCall *)
        destruct Hfr as [Eg [E1 E2]]. subst g'. destruct Hctl as [_ Hp].
        specialize (Hcal dest argv' cb' g1).
        destruct (callee dest argv' cb' g1) as [rv g2|e g2|]; cbn [call_ok] in Hcal.
        * destruct Hcal as [Hfr2 Hcs].
          assert (Hsh2 : shapeL name base bl (frames g2)) by (rewrite Hfr2; exact Hsh1).
          change (match rv with Some _ => true | None => false end) with (ret_flag rv).
          change (match rv with Some v => set_ops a' (a_ops a' ++ [v]) | None => a' end) with (deliver a' rv).
          destruct (rc name (a_ip a') (ret_flag rv)) eqn:Erc; cbn [negb].
          -- eapply concl_lift; [intros r c Hst; eapply st_call_done; eassumption|].
             apply IH.
             ++ exact Hsh2.
             ++ cbn [set_ip a_ip]. rewrite E2. unfold nxt in Hp. rewrite nxt_nat in Hp. exact Hp.
             ++ destruct rv; cbn [deliver set_ip set_ops a_ss]; lia.
          -- apply concl_here; [exact Hsh2|]. eapply st_call_arity; eassumption.
        * destruct Hcal as [c0 [L0 [W0 Hcs]]].
          destruct (shapeL_labels _ _ _ _ Hsh1) as [L1 W1].
          exists (c0 ++ [(bl, name)]). split; [|split].
          -- rewrite L0, L1, render_app, <- app_assoc. reflexivity.
          -- apply Forall_app. split; [exact W0|]. constructor; [exact W1|constructor].
          -- eapply st_call_fail; eassumption.
        * exact I.
      + (* SFail *)
        apply concl_here; [exact Hsh1|]. eapply st_fail; eassumption.
  Qed.

  Lemma run_chain : checked p -> forall fuel name argv cb g,
    call_ok (run_fn_gen rc fuel p name argv cb g) name argv cb g.
  Proof.
    intros Hp. induction fuel as [|fuel IH]; intros name argv cb g; [exact I|].
    rewrite run_fn_gen_S. destruct (assoc name p) as [code|] eqn:Ea.
    - destruct (Hp _ _ Ea) as [ds Hc].
      assert (H := loop_chain (run_fn_gen rc fuel p) name code ds (frames g) Hc IH fuel
                              (act0 name argv cb) (push_frame g (LFun name)) []).
      assert (Hsh : shapeL name (frames g) [] (frames (push_frame g (LFun name)))).
      { exists [], []. cbn. auto. }
      assert (Hpos : pos_ok (length code) ds (a_ip (act0 name argv cb)) (length (@nil flabel))).
      { cbn [act0 a_ip length]. destruct code as [|i code'].
        - left. split; reflexivity.
        - right. split; [cbn; lia|]. destruct (check_entry _ _ Hc ltac:(discriminate)) as [s [Hs _]]. exists s. exact Hs. }
      specialize (H Hsh Hpos (le_n 0)).
      destruct (loop rc (run_fn_gen rc fuel p) name code fuel (act0 name argv cb) (push_frame g (LFun name)))
        as [rv g2|e g2|]; cbn [concl call_ok] in *.
      + destruct H as [H1 H2]. split; [exact H1|]. eapply c_enter; eassumption.
      + destruct H as [c [H1 [H2 H3]]]. exists c. split; [exact H1|]. split; [exact H2|]. eapply c_enter; eassumption.
      + exact I.
    - cbn [call_ok]. exists []. split; [reflexivity|]. split; [constructor|]. apply c_missing. exact Ea.
  Qed.
End Chain.

(* for every checked program: a failing call leaves on the stack exactly the activations the derivation records *)
Theorem fail_stack_is_active_calls : forall rc p, checked p ->
  forall fuel name argv cb g e g', run_fn_gen rc fuel p name argv cb g = RFail e g' ->
  exists c, calls rc p name argv cb g (RFail e g') c
         /\ map lab (frames g') = render c ++ map lab (frames g)
         /\ fun_names (render c) = map snd c.
Proof.
  intros rc p Hp fuel name argv cb g e g' H. assert (C := run_chain rc p Hp fuel name argv cb g).
  rewrite H in C. destruct C as [c [C1 [C2 C3]]]. exists c. split; [exact C3|]. split; [exact C1|].
  apply fun_names_render. exact C2.
Qed.

Theorem done_is_derivation : forall rc p, checked p ->
  forall fuel name argv cb g rv g', run_fn_gen rc fuel p name argv cb g = RDone rv g' ->
  calls rc p name argv cb g (RDone rv g') [].
Proof.
  intros rc p Hp fuel name argv cb g rv g' H. assert (C := run_chain rc p Hp fuel name argv cb g).
  rewrite H in C. apply C.
Qed.

(* Program::execute: the reported trace *)
Theorem trace_is_call_chain : forall p, checked p ->
  forall fuel entry o e st tr, execute fuel p entry = (o, RuntimeErr e st, tr) ->
  exists g' c, calls (fun _ _ _ => true) p entry [] None g0 (RFail e g') c
            /\ st = render c
            /\ fun_names st = map snd c
            /\ (assoc entry p <> None -> exists c' bl, c = c' ++ [(bl, entry)]).
Proof.
  intros p Hp fuel entry o e st tr H. unfold execute, run_fn in H.
  destruct (run_fn_gen (fun _ _ _ => true) fuel p entry [] None g0) as [rv g'|e' g'|] eqn:E.
  - destruct (frames g'); inversion H.
  - inversion H; subst. clear H.
    destruct (fail_stack_is_active_calls _ p Hp _ _ _ _ _ _ _ E) as [c [C1 [C2 C3]]].
    cbn [g0 frames map] in C2. rewrite app_nil_r in C2.
    exists g', c. split; [exact C1|]. split; [exact C2|]. split; [rewrite C2; exact C3|].
    intros Hn. eapply calls_fail_last; eassumption.
  - inversion H.
Qed.

(* ================================================================ helpers: case analysis in a hypothesis *)
Ltac breakH H :=
  repeat match type of H with
  | context [match ?x with _ => _ end] =>
      lazymatch x with
      | context [match _ with _ => _ end] => fail
      | _ => (is_var x; destruct x) || destruct x eqn:?
      end
  end.

(* ================================================================ decoding: one opcode per decoded form *)
Definition dop (d : dinstr) : N :=
  match d with
  | DMakeInt _ => OP_MAKE_INT | DMakeBool _ => OP_MAKE_BOOL | DMakeStr _ => OP_MAKE_STR
  | DReserve => OP_RESERVE_PRIMITIVE | DVoid => OP_VOID | DPop => OP_POP | DPrint => OP_PRINTN
  | DBinOp _ => OP_BIN_OP | DNeg => OP_NEG | DNot => OP_NOT | DEqu => OP_EQU | DNeq => OP_NEQ | DRev2 => OP_FAST_REV2
  | DStore _ => OP_STORE | DStoreFast _ => OP_STORE_FAST | DStoreObject _ => OP_STORE_OBJECT
  | DLoad _ => OP_LOAD | DLoadFast _ => OP_LOAD_FAST | DLoadCallback _ => OP_LOAD_CALLBACK
  | DDelete _ => OP_DELETE_NAME_SCOPED | DDeleteRef _ => OP_DELETE_NAME_REFERENCE_SCOPED | DArg _ => OP_ARG
  | DIf _ => OP_IF_STMT | DWhile _ => OP_WHILE_LOOP | DElse => OP_ELSE_STMT | DDone => OP_DONE
  | DJmp _ => OP_JMP | DJmpPop _ _ => OP_JMP_POP | DStoreSkip _ _ _ => OP_STORE_SKIP
  | DAssert _ => OP_ASSERT | DUnwrap _ => OP_UNWRAP | DUnwrapInto _ => OP_UNWRAP_INTO | DJmpNotNil _ => OP_JMP_NOT_NIL
  | DMakeFunction _ _ => OP_MAKE_FUNCTION | DCall _ => OP_CALL | DCallSelf => OP_CALL_SELF | DRet => OP_RET
  | DRetMod => OP_RET_MOD | DBinOpAssign _ _ => OP_BIN_OP_ASSIGN
  end.

Ltac split_op H :=
  repeat match type of H with
  | context [if (?x =? ?y)%N then _ else _] =>
      let E := fresh "Eop" in destruct (x =? y)%N eqn:E; [apply N.eqb_eq in E | clear E]
  end.

Lemma decode_op : forall i d, decode i = DOk d -> dop d = op i.
Proof.
  intros i d H. unfold decode, dec_name, dec_off in H. cbv zeta in H.
  split_op H; try discriminate; breakH H; try discriminate; inversion H; subst d; cbn [dop]; symmetry; assumption.
Qed.

Lemma decode_err : forall i e, decode i = DErr e -> e = E_bad_arg (op i) \/ e = E_unsupported (op i).
Proof.
  intros i e H. unfold decode, dec_name, dec_off in H. cbv zeta in H.
  split_op H; breakH H; try discriminate; inversion H; subst e; auto.
Qed.

(* an `assert` instruction decodes to DAssert carrying its first argument, and nothing else does *)
Lemma decode_assert : forall i, op i = OP_ASSERT -> decode i = DOk (DAssert (arg1 i)).
Proof. intros [o args] H. cbn [op] in H. subst o. reflexivity. Qed.
Lemma decode_assert_inv : forall i s, decode i = DOk (DAssert s) -> op i = OP_ASSERT /\ s = arg1 i.
Proof.
  intros i s H. assert (Ho := decode_op _ _ H). cbn [dop] in Ho. split; [congruence|].
  rewrite decode_assert in H by congruence. inversion H. reflexivity.
Qed.
Lemma decode_print : forall i, decode i = DOk DPrint -> op i = OP_PRINTN.
Proof. intros i H. apply decode_op in H. cbn [dop] in H. congruence. Qed.

(* ================================================================ 2. output *)
Lemma bind_local_out : forall g n v g', bind_local g n v = Some g' -> out g' = out g /\ trace g' = trace g.
Proof.
  intros g n v g' H. unfold bind_local in H. destruct (frames g); [discriminate|]. cbn in H. inversion H. split; reflexivity.
Qed.
Lemma store_var_out : forall g n v g', store_var g n v = Some g' -> out g' = out g /\ trace g' = trace g.
Proof.
  intros g n v g' H. unfold store_var in H. destruct (find_in_function n (frames g)).
  - inversion H. split; reflexivity.
  - eapply bind_local_out; exact H.
Qed.
Lemma pop_frame_out : forall g g', pop_frame g = Some g' -> out g' = out g.
Proof. intros g g' H. unfold pop_frame in H. destruct (frames g); inversion H. reflexivity. Qed.
Lemma pop_frames_out : forall k g g', pop_frames k g = Some g' -> out g' = out g.
Proof.
  induction k as [|k IH]; intros g g' H; cbn [pop_frames] in H; [inversion H; reflexivity|].
  destruct (pop_frame g) as [g1|] eqn:E; [|discriminate]. rewrite (IH _ _ H). eapply pop_frame_out; exact E.
Qed.

(* one instruction: only a successful `printn` writes, and it appends exactly one line *)
Definition out_step (d : dinstr) (a : act) (g g' : gstate) : Prop :=
  trace g' = trace g /\
  (out g' = out g \/ (d = DPrint /\ exists l, join_show (a_ops a) = Some l /\ out g' = out g ++ [l])).

Lemma exec_d_out : forall d a g,
  match exec_d d a g with
  | SNext _ g' => out_step d a g g'
  | SGoto _ _ g' | SPush _ _ g' | SGotoPop _ _ _ g' | SPopScope _ g' | SRet _ _ g' | SCall _ _ _ _ g' => g' = g
  | SFail _ => True end.
Proof.
  intros d a g. unfold exec_d, out_step. destruct d; cbv beta iota zeta; break; try exact I; try reflexivity;
    try (split; [reflexivity|left; reflexivity]);
    try (match goal with H : bind_local _ _ _ = Some _ |- _ => apply bind_local_out in H; destruct H as [H1 H2] end;
         split; [assumption|left; assumption]);
    try (match goal with H : store_var _ _ _ = Some _ |- _ => apply store_var_out in H; destruct H as [H1 H2] end;
         split; [assumption|left; assumption]).
  split; [reflexivity|]. right. split; [reflexivity|]. eexists. split; reflexivity.
Qed.

Lemma print_step : forall a g a' g', exec_d DPrint a g = SNext a' g' ->
  exists l, join_show (a_ops a) = Some l /\ out g' = out g ++ [l].
Proof.
  intros a g a' g' H. cbn in H. destruct (join_show (a_ops a)) as [l|]; [|discriminate].
  inversion H. exists l. split; reflexivity.
Qed.

Lemma print_only : forall a g, match exec_d DPrint a g with SNext _ _ | SFail _ => True | _ => False end.
Proof. intros a g. cbn. destruct (join_show (a_ops a)); exact I. Qed.

Definition is_print (ev : tev) : bool := let '(_, _, o, _, _) := ev in (o =? OP_PRINTN)%N.
Definition prints_in (tr : list tev) : nat := length (filter is_print tr).
(* the failing instruction was a `printn` (it is in the trace but wrote nothing) *)
Definition print_failed (e : err) : bool :=
  match e with E_unsupported o | E_bad_arg o => (o =? OP_PRINTN)%N | _ => false end.

Lemma prints_in_app : forall x y, prints_in (x ++ y) = prints_in x + prints_in y.
Proof. intros. unfold prints_in. rewrite filter_app, app_length. reflexivity. Qed.

(* what one whole instruction (trace record + execution) does to trace and output *)
Definition ext (g g' : gstate) (k : nat) : Prop :=
  exists new lines, trace g' = new ++ trace g /\ out g' = out g ++ lines /\ length lines + k = prints_in new.

Lemma ext_refl : forall g g', trace g' = trace g -> out g' = out g -> ext g g' 0.
Proof. intros g g' T O. exists [], []. rewrite T, O, app_nil_r. auto. Qed.
Lemma ext_trans : forall g1 g2 g3 k, ext g1 g2 0 -> ext g2 g3 k -> ext g1 g3 k.
Proof.
  intros g1 g2 g3 k [n1 [l1 [T1 [O1 C1]]]] [n2 [l2 [T2 [O2 C2]]]]. exists (n2 ++ n1), (l1 ++ l2).
  rewrite T2, T1, O2, O1, !app_assoc, prints_in_app, app_length. split; [reflexivity|]. split; [reflexivity|]. lia.
Qed.

Lemma print_failed_exec_d : forall d a g e, exec_d d a g = SFail e -> print_failed e = true -> d = DPrint.
Proof.
  intros d a g e H P. unfold exec_d in H. destruct d; try reflexivity; cbv beta iota zeta in H; breakH H;
    try discriminate; inversion H; subst e; try discriminate P;
    match goal with Hb : bin_op_sem _ _ _ = OE _ |- _ =>
      unfold bin_op_sem, arith in Hb; breakH Hb; try discriminate; inversion Hb; subst; discriminate P end.
Qed.

Lemma instr_ext : forall name i a g,
  match exec i a (tick name a i g) with
  | SNext _ g' | SGoto _ _ g' | SPush _ _ g' | SGotoPop _ _ _ g' | SPopScope _ g' | SRet _ _ g' | SCall _ _ _ _ g' => ext g g' 0
  | SFail e => ext g (tick name a i g) (if print_failed e then 1 else 0) end.
Proof.
  intros name i a g. set (g1 := tick name a i g).
  assert (T1 : trace g1 = [(name, N.of_nat (a_ip a), op i, N.of_nat (length (frames g)), N.of_nat (length (a_ops a)))] ++ trace g) by reflexivity.
  assert (O1 : out g1 = out g) by reflexivity.
  unfold exec. destruct (decode i) as [d|e] eqn:Ed.
  - assert (Ho := decode_op _ _ Ed).
    assert (Hstay : forall g', g' = g1 -> (op i =? OP_PRINTN)%N = false -> ext g g' 0).
    { intros g' -> Hn. eexists _, []. split; [exact T1|]. split; [rewrite O1, app_nil_r; reflexivity|].
      unfold prints_in. cbn [filter is_print app]. rewrite Hn. reflexivity. }
    assert (Hnp : d <> DPrint -> (op i =? OP_PRINTN)%N = false).
    { intros Hd. rewrite <- Ho. destruct d; try congruence; reflexivity. }
    assert (Hx := exec_d_out d a g1).
    destruct (exec_d d a g1) as [a' g'|off a' g'|l a' g'|off k a' g'|a' g'|rv a' g'|dest cb' argv' a' g'|e] eqn:Eex.
    + destruct Hx as [Tx [Ox|[Dx [l [Jx Ox]]]]].
      * destruct (N.eqb_spec (op i) OP_PRINTN) as [Ep|Ep].
        -- (* a printn that does not change the output: impossible *)
           assert (d = DPrint) by (destruct d; cbn [dop] in Ho; rewrite Ep in Ho; try discriminate Ho; reflexivity).
           subst d. destruct (print_step _ _ _ _ Eex) as [l [_ Ol]]. rewrite Ol in Ox.
           apply (f_equal (@length _)) in Ox. rewrite app_length in Ox. cbn in Ox. lia.
        -- eexists _, []. split; [rewrite Tx; exact T1|]. split; [rewrite Ox, O1, app_nil_r; reflexivity|].
           unfold prints_in. cbn [filter is_print app]. apply N.eqb_neq in Ep. rewrite Ep. reflexivity.
      * subst d. cbn [dop] in Ho. eexists _, [l]. split; [rewrite Tx; exact T1|]. split; [rewrite Ox, O1; reflexivity|].
        unfold prints_in. cbn [filter is_print app]. rewrite <- Ho, N.eqb_refl. reflexivity.
    + apply Hstay; [exact Hx|]. apply Hnp. intros ->. assert (Hq := print_only a g1). rewrite Eex in Hq. exact Hq.
    + apply Hstay; [exact Hx|]. apply Hnp. intros ->. assert (Hq := print_only a g1). rewrite Eex in Hq. exact Hq.
    + apply Hstay; [exact Hx|]. apply Hnp. intros ->. assert (Hq := print_only a g1). rewrite Eex in Hq. exact Hq.
    + apply Hstay; [exact Hx|]. apply Hnp. intros ->. assert (Hq := print_only a g1). rewrite Eex in Hq. exact Hq.
    + apply Hstay; [exact Hx|]. apply Hnp. intros ->. assert (Hq := print_only a g1). rewrite Eex in Hq. exact Hq.
    + apply Hstay; [exact Hx|]. apply Hnp. intros ->. assert (Hq := print_only a g1). rewrite Eex in Hq. exact Hq.
    + destruct (print_failed e) eqn:Pf.
      * assert (d = DPrint) by (eapply print_failed_exec_d; eassumption). subst d. cbn [dop] in Ho.
        eexists _, []. split; [exact T1|]. split; [rewrite O1, app_nil_r; reflexivity|].
        unfold prints_in. cbn [filter is_print app]. rewrite <- Ho, N.eqb_refl. reflexivity.
      * destruct (N.eqb_spec (op i) OP_PRINTN) as [Ep|Ep].
        -- assert (d = DPrint) by (destruct d; cbn [dop] in Ho; rewrite Ep in Ho; try discriminate Ho; reflexivity).
           subst d. cbn in Eex. destruct (join_show (a_ops a)); inversion Eex; subst e. discriminate Pf.
        -- apply Hstay; reflexivity.
  - destruct (decode_err _ _ Ed) as [-> | ->]; cbn [print_failed];
      (destruct (op i =? OP_PRINTN)%N eqn:Ep;
       eexists _, []; (split; [exact T1|]); (split; [rewrite O1, app_nil_r; reflexivity|]);
       unfold prints_in; cbn [filter is_print app]; rewrite Ep; reflexivity).
Qed.

Definition out_ok (r : rres) (g : gstate) : Prop :=
  match r with
  | RDone _ g' => ext g g' 0
  | RFail e g' => ext g g' (if print_failed e then 1 else 0)
  | RFuel => True end.

Lemma out_ok_trans : forall r g1 g2, ext g1 g2 0 -> out_ok r g2 -> out_ok r g1.
Proof. intros r g1 g2 H12 H. destruct r; cbn [out_ok] in *; [| |exact I]; eapply ext_trans; eassumption. Qed.

Lemma loop_out : forall rc callee name code,
  (forall dest argv cb g, out_ok (callee dest argv cb g) g) ->
  forall fuel a g, out_ok (loop rc callee name code fuel a g) g.
Proof.
  intros rc callee name code Hcal. induction fuel as [|fuel IH]; intros a g; cbn [loop]; [exact I|].
  destruct (nth_error code (a_ip a)) as [i|] eqn:Hi.
  2:{ destruct (pop_frame g) as [g'|] eqn:Ep; cbn [out_ok print_failed].
      - apply ext_refl; [eapply pop_frame_trace; exact Ep|eapply pop_frame_out; exact Ep].
      - apply ext_refl; reflexivity. }
  cbv zeta.
  change (add_trace g (name, N.of_nat (a_ip a), op i, N.of_nat (length (frames g)), N.of_nat (length (a_ops a))))
    with (tick name a i g).
  assert (Hx := instr_ext name i a g).
  destruct (exec i a (tick name a i g)) as [a' g'|off a' g'|l a' g'|off k a' g'|a' g'|rv a' g'|dest cb' argv' a' g'|e].
  - eapply out_ok_trans; [exact Hx|apply IH].
  - destruct (goto (length code) (a_ip a') off); [eapply out_ok_trans; [exact Hx|apply IH]|exact Hx].
  - eapply out_ok_trans; [exact Hx|]. eapply out_ok_trans; [|apply IH]. apply ext_refl; reflexivity.
  - destruct (goto (length code) (a_ip a') off); [|exact Hx].
    destruct (pop_frames k g') as [g2|] eqn:Ep; [|exact Hx].
    eapply out_ok_trans; [exact Hx|]. eapply out_ok_trans; [|apply IH].
    apply ext_refl; [eapply pop_frames_trace; exact Ep|eapply pop_frames_out; exact Ep].
  - destruct (a_ss a') as [|k']; [eapply out_ok_trans; [exact Hx|apply IH]|].
    destruct (pop_frame g') as [g2|] eqn:Ep; [|exact Hx].
    eapply out_ok_trans; [exact Hx|]. eapply out_ok_trans; [|apply IH].
    apply ext_refl; [eapply pop_frame_trace; exact Ep|eapply pop_frame_out; exact Ep].
  - cbn [out_ok]. eapply ext_trans; [exact Hx|]. apply ext_refl; reflexivity.
  - specialize (Hcal dest argv' cb' g').
    destruct (callee dest argv' cb' g') as [rv g2|e g2|]; cbn [out_ok] in Hcal.
    + destruct (negb (rc name (a_ip a') match rv with Some _ => true | None => false end)).
      * cbn [out_ok print_failed]. eapply ext_trans; eassumption.
      * eapply out_ok_trans; [exact Hx|]. eapply out_ok_trans; [exact Hcal|apply IH].
    + cbn [out_ok]. eapply ext_trans; eassumption.
    + exact I.
  - exact Hx.
Qed.

Lemma run_out : forall rc p fuel name argv cb g, out_ok (run_fn_gen rc fuel p name argv cb g) g.
Proof.
  intros rc p. induction fuel as [|fuel IH]; intros name argv cb g; [exact I|].
  rewrite run_fn_gen_S. destruct (assoc name p) as [code|].
  - eapply out_ok_trans; [|apply loop_out; exact IH]. apply ext_refl; reflexivity.
  - cbn [out_ok print_failed]. apply ext_refl; reflexivity.
Qed.

(* printed lines are never lost or reordered, whatever the program does and however the call ends *)
Theorem output_monotone : forall rc p fuel name argv cb g,
  match run_fn_gen rc fuel p name argv cb g with
  | RDone _ g' | RFail _ g' => exists lines, out g' = out g ++ lines
  | RFuel => True end.
Proof.
  intros rc p fuel name argv cb g. assert (H := run_out rc p fuel name argv cb g).
  destruct (run_fn_gen rc fuel p name argv cb g); cbn [out_ok] in H; [| |exact I];
    destruct H as [new [lines [_ [O _]]]]; exists lines; exact O.
Qed.

(* ... and their number is the number of `printn` instructions executed, not counting a failing one *)
Theorem output_counts : forall rc p fuel name argv cb g,
  match run_fn_gen rc fuel p name argv cb g with
  | RDone _ g' => exists new lines, trace g' = new ++ trace g /\ out g' = out g ++ lines /\ length lines = prints_in new
  | RFail e g' => exists new lines, trace g' = new ++ trace g /\ out g' = out g ++ lines /\
                                    length lines + (if print_failed e then 1 else 0) = prints_in new
  | RFuel => True end.
Proof.
  intros rc p fuel name argv cb g. assert (H := run_out rc p fuel name argv cb g).
  destruct (run_fn_gen rc fuel p name argv cb g); cbn [out_ok] in H; [| exact H |exact I].
  destruct H as [new [lines [T [O C]]]]. exists new, lines. rewrite Nat.add_0_r in C. auto.
Qed.

Lemma prints_in_rev : forall tr, prints_in (rev tr) = prints_in tr.
Proof.
  unfold prints_in. induction tr as [|ev tr IH]; [reflexivity|].
  cbn [rev]. rewrite filter_app, app_length, IH. cbn [filter]. destruct (is_print ev); cbn [length]; lia.
Qed.

(* Program::execute: the reported output is one line per `printn` executed before the failing instruction *)
Theorem output_before_failure : forall p fuel entry o oc tr, execute fuel p entry = (o, oc, tr) ->
  match oc with
  | Done | StackMismatch _ => length o = prints_in tr
  | RuntimeErr e _ => length o + (if print_failed e then 1 else 0) = prints_in tr
  | OutOfFuel => True end.
Proof.
  intros p fuel entry o oc tr H. unfold execute, run_fn in H.
  assert (C := output_counts (fun _ _ _ => true) p fuel entry [] None g0).
  destruct (run_fn_gen (fun _ _ _ => true) fuel p entry [] None g0) as [rv g'|e g'|].
  - destruct C as [new [lines [T [O C]]]]. cbn [g0 trace out app] in T, O. rewrite app_nil_r in T.
    injection H as Ho Hoc Htr. subst o oc tr. rewrite prints_in_rev, T, O, C. destruct (frames g'); reflexivity.
  - destruct C as [new [lines [T [O C]]]]. cbn [g0 trace out app] in T, O. rewrite app_nil_r in T.
    injection H as Ho Hoc Htr. subst o oc tr. rewrite prints_in_rev, T, O. exact C.
  - inversion H. exact I.
Qed.

(* ================================================================ where a failure is raised *)
Definition control_err (e : err) : Prop :=
  e = E_goto_range \/ e = E_panic OP_JMP_POP \/ e = E_panic OP_DONE \/ e = E_panic 0%N \/ e = E_arity
  \/ exists n, e = E_no_function n.
(* raised by the instruction `i` at `a_ip a` of `fn`; the reported state is the one the instruction ran in,
   its trace record being the newest *)
Definition at_instr (p : program) (e : err) (g' : gstate) : Prop :=
  exists fn code a i g, assoc fn p = Some code /\ nth_error code (a_ip a) = Some i /\ g' = tick fn a i g
                        /\ exec i a g' = SFail e.
Definition site (p : program) (e : err) (g' : gstate) : Prop := control_err e \/ at_instr p e g'.

Lemma loop_site : forall rc p callee name code, assoc name p = Some code ->
  (forall dest argv cb g e g', callee dest argv cb g = RFail e g' -> site p e g') ->
  forall fuel a g e g', loop rc callee name code fuel a g = RFail e g' -> site p e g'.
Proof.
  intros rc p callee name code Ha Hcal. induction fuel as [|fuel IH]; intros a g e g' H; cbn [loop] in H; [discriminate|].
  destruct (nth_error code (a_ip a)) as [i|] eqn:Hi.
  2:{ destruct (pop_frame g); inversion H. left. unfold control_err. auto 10. }
  cbv zeta in H.
  change (add_trace g (name, N.of_nat (a_ip a), op i, N.of_nat (length (frames g)), N.of_nat (length (a_ops a))))
    with (tick name a i g) in H.
  destruct (exec i a (tick name a i g)) as [a1 g1|off a1 g1|l a1 g1|off k a1 g1|a1 g1|rv a1 g1|dest cb' argv' a1 g1|e1] eqn:Eex.
  - eapply IH; exact H.
  - destruct (goto (length code) (a_ip a1) off); [eapply IH; exact H|]. inversion H. left. unfold control_err. auto 10.
  - eapply IH; exact H.
  - destruct (goto (length code) (a_ip a1) off); [|inversion H; left; unfold control_err; auto 10].
    destruct (pop_frames k g1); [eapply IH; exact H|]. inversion H. left. unfold control_err. auto 10.
  - destruct (a_ss a1); [eapply IH; exact H|].
    destruct (pop_frame g1); [eapply IH; exact H|]. inversion H. left. unfold control_err. auto 10.
  - discriminate.
  - destruct (callee dest argv' cb' g1) as [rv g2|e2 g2|] eqn:Ec.
    + destruct (negb (rc name (a_ip a1) match rv with Some _ => true | None => false end)).
      * inversion H. left. unfold control_err. auto 10.
      * eapply IH; exact H.
    + inversion H; subst. eapply Hcal; exact Ec.
    + discriminate.
  - inversion H; subst. right. exists name, code, a, i, g. auto.
Qed.

Theorem fail_site : forall rc p fuel name argv cb g e g',
  run_fn_gen rc fuel p name argv cb g = RFail e g' -> site p e g'.
Proof.
  intros rc p. induction fuel as [|fuel IH]; intros name argv cb g e g' H; [discriminate|].
  rewrite run_fn_gen_S in H. destruct (assoc name p) as [code|] eqn:Ea.
  - eapply loop_site; [exact Ea|exact IH|exact H].
  - inversion H. left. unfold control_err. eauto 10.
Qed.

(* ================================================================ errors of the binary operators *)
Lemma bin_op_sem_errs : forall sym l r e, bin_op_sem sym l r = OE e ->
  e = E_div_zero \/ e = E_unsupported OP_BIN_OP \/
  (e = E_overflow OP_BIN_OP /\ exists x y z, l = VInt x /\ r = VInt y /\ i32_ok z = false /\
     (z = (x + y)%Z \/ z = (x - y)%Z \/ z = (x * y)%Z \/ z = Z.quot x y \/ z = Z.rem x y)).
Proof.
  intros sym l r e H. unfold bin_op_sem, arith in H. breakH H; try discriminate; inversion H; subst e; auto;
    right; right; (split; [reflexivity|]); do 3 eexists; (split; [reflexivity|]); (split; [reflexivity|]);
    (split; [eassumption|]); auto 6.
Qed.

(* ================================================================ 3. assert *)
(* a failing assert instruction with a position argument yields exactly that position *)
Lemma assert_step : forall sp a g v, a_ops a = [v] -> val_equals 100 v (VBool true) = Some false ->
  exec_d (DAssert (Some sp)) a g = SFail (E_assert sp).
Proof. intros sp a g v Ho Hv. unfold exec_d. cbv beta iota zeta. rewrite Ho, Hv. reflexivity. Qed.

Lemma assert_instr_step : forall i sp rest a g v, op i = OP_ASSERT -> args i = sp :: rest ->
  a_ops a = [v] -> val_equals 100 v (VBool true) = Some false -> exec i a g = SFail (E_assert sp).
Proof.
  intros i sp rest a g v Hop Hargs Ho Hv. unfold exec. rewrite (decode_assert _ Hop). unfold arg1. rewrite Hargs.
  eapply assert_step; eassumption.
Qed.

(* ... and E_assert arises nowhere else: only at an `assert` instruction, with its first argument *)
Lemma exec_d_assert_inv : forall d a g sp, exec_d d a g = SFail (E_assert sp) ->
  d = DAssert (Some sp) /\ exists v, a_ops a = [v] /\ val_equals 100 v (VBool true) = Some false.
Proof.
  intros d a g sp H. unfold exec_d in H. destruct d; cbv beta iota zeta in H; breakH H; try discriminate;
    try (inversion H; subst; split; [reflexivity|eexists; split; [reflexivity|assumption]]);
    match goal with Hb : bin_op_sem _ _ _ = OE _ |- _ =>
      inversion H; subst; apply bin_op_sem_errs in Hb; destruct Hb as [Hb|[Hb|[Hb _]]]; discriminate Hb end.
Qed.

Lemma exec_assert_inv : forall i a g sp, exec i a g = SFail (E_assert sp) ->
  op i = OP_ASSERT /\ arg1 i = Some sp /\ exists v, a_ops a = [v] /\ val_equals 100 v (VBool true) = Some false.
Proof.
  intros i a g sp H. unfold exec in H. destruct (decode i) as [d|e] eqn:Ed.
  - apply exec_d_assert_inv in H. destruct H as [Hd Hv]. subst d.
    apply decode_assert_inv in Ed. destruct Ed as [E1 E2]. auto.
  - inversion H; subst. destruct (decode_err _ _ Ed); discriminate.
Qed.

(* run level: a run that ends with E_assert sp stopped at an `assert` instruction of the program whose
   position argument is sp; that instruction is the newest trace record *)
Theorem assert_names_position : forall rc p fuel name argv cb g sp g',
  run_fn_gen rc fuel p name argv cb g = RFail (E_assert sp) g' ->
  exists fn code a i g1, assoc fn p = Some code /\ nth_error code (a_ip a) = Some i /\
    op i = OP_ASSERT /\ arg1 i = Some sp /\ g' = tick fn a i g1.
Proof.
  intros rc p fuel name argv cb g sp g' H. apply fail_site in H. destruct H as [H|H].
  - destruct H as [H|[H|[H|[H|[H|[n H]]]]]]; discriminate H.
  - destruct H as [fn [code [a [i [g1 [H1 [H2 [H3 H4]]]]]]]]. apply exec_assert_inv in H4.
    destruct H4 as [E1 [E2 _]]. exists fn, code, a, i, g1. auto.
Qed.

(* ================================================================ 4. panics *)
Lemma delete_names_some : forall ns vs, delete_names ns vs <> inl None.
Proof.
  induction ns as [|n ns IH]; intros vs; cbn [delete_names]; [discriminate|].
  destruct (assoc n vs); [apply IH|discriminate].
Qed.

(* integer overflow (a Rust panic in every build): only the arithmetic of bin_op / bin_op_assign and unary minus *)
Lemma exec_d_overflow_inv : forall d a g o, exec_d d a g = SFail (E_overflow o) ->
  (o = OP_BIN_OP /\ ((exists sym, d = DBinOp sym) \/ (exists sym n, d = DBinOpAssign sym n))) \/
  (o = OP_NEG /\ d = DNeg /\ exists r z, a_ops a = r ++ [VInt z] /\ i32_ok (- z) = false).
Proof.
  intros d a g o H. unfold exec_d in H. destruct d; cbv beta iota zeta in H; breakH H; try discriminate;
    try (inversion H; subst; right; split; [reflexivity|]; split; [reflexivity|];
         match goal with Hu : unsnoc _ = Some _ |- _ => apply unsnoc_some in Hu end; eauto);
    match goal with Hb : bin_op_sem _ _ _ = OE _ |- _ =>
      inversion H; subst; apply bin_op_sem_errs in Hb; destruct Hb as [Hb|[Hb|[Hb _]]]; try discriminate Hb;
      inversion Hb; left; split; [reflexivity|]; eauto end.
Qed.

(* the other model errors that stand for a Rust panic *)
Definition empty_operands (o : N) : Prop := o = OP_NEG \/ o = OP_NOT \/ o = OP_UNWRAP \/ o = OP_JMP_NOT_NIL.
Definition no_frame (o : N) : Prop :=
  o = OP_STORE \/ o = OP_STORE_FAST \/ o = OP_DELETE_NAME_SCOPED \/ o = OP_DELETE_NAME_REFERENCE_SCOPED
  \/ o = OP_STORE_SKIP \/ o = OP_UNWRAP_INTO.
Definition dangling (o : N) : Prop :=
  o = OP_LOAD \/ o = OP_LOAD_FAST \/ o = OP_LOAD_CALLBACK \/ o = OP_DELETE_NAME_REFERENCE_SCOPED \/ o = OP_BIN_OP_ASSIGN.

Lemma bind_local_none : forall g n v, bind_local g n v = None -> frames g = [].
Proof. intros g n v H. unfold bind_local in H. destruct (frames g); [reflexivity|]. cbn in H. discriminate. Qed.
Lemma store_var_none : forall g n v, store_var g n v = None -> frames g = [].
Proof.
  intros g n v H. unfold store_var in H. destruct (find_in_function n (frames g)); [discriminate|].
  eapply bind_local_none; exact H.
Qed.

Lemma exec_d_panic_inv : forall d a g o, exec_d d a g = SFail (E_panic o) ->
  (empty_operands o /\ a_ops a = [])                                 (* an operand is missing *)
  \/ (no_frame o /\ frames g = [])                                   (* there is no frame to bind in *)
  \/ (o = OP_CALL_SELF /\ current_function (frames g) = None)        (* call_self outside a function *)
  \/ (o = OP_ASSERT /\ d = DAssert None)                             (* assert without its position argument *)
  \/ dangling o.                                                     (* a name bound to a cell that does not exist
                                                                        (bin_op_assign: or a missing operand) *)
Proof.
  intros d a g o H. unfold exec_d in H.
  destruct d; cbv beta iota zeta in H; breakH H; try discriminate;
    try (match goal with Hb : bin_op_sem _ _ _ = OE _ |- _ =>
           inversion H; subst; apply bin_op_sem_errs in Hb; destruct Hb as [Hb|[Hb|[Hb _]]]; discriminate Hb end);
    inversion H; subst o;
    try (match goal with Hd : delete_names _ _ = inl None |- _ => apply delete_names_some in Hd; contradiction end);
    try (left; split; [unfold empty_operands; auto|];
         match goal with Hu : unsnoc _ = None |- _ => apply unsnoc_none in Hu; exact Hu end);
    try (right; left; split; [unfold no_frame; auto 10|];
         first [ assumption | reflexivity
               | match goal with Hs : store_var _ _ _ = None |- _ => eapply store_var_none; exact Hs end
               | match goal with Hs : bind_local _ _ _ = None |- _ => eapply bind_local_none; exact Hs end ]);
    try (right; right; left; split; [reflexivity|first [assumption|reflexivity]]);
    try (right; right; right; left; split; reflexivity);
    try (right; right; right; right; unfold dangling; auto 10).
Qed.

Lemma current_function_special : forall blocks r, Forall (fun f => special (lab f) = true) blocks ->
  current_function (blocks ++ r) = current_function r.
Proof.
  induction 1 as [|f blocks Hf _ IH]; [reflexivity|]. cbn [app current_function].
  destruct (lab f); [discriminate|exact IH..].
Qed.
Lemma chain_current_function : forall extra r, chain extra -> extra <> [] -> current_function (extra ++ r) <> None.
Proof.
  intros extra r H Hne. destruct H as [|blocks n vs rest F _]; [congruence|].
  rewrite <- app_assoc, current_function_special by exact F. cbn. discriminate.
Qed.

(* In the model a failure that stands for a Rust panic is one of:
     E_overflow OP_BIN_OP / OP_NEG   integer overflow of + - * / % (bin_op, bin_op_assign) and unary minus
                                      -- the recorded finding `overflow-is-a-panic`
     E_panic OP_ASSERT               an assert instruction without position argument (the compiler always emits one)
     E_panic of `dangling`           a name bound to a missing heap cell (excluded by the heap invariant of the
                                      C01/C07 simulation, not here)
   for every program accepted by the verified structural checker, run under the arity hook of C09:
   no missing-operand panic, no frame-structure panic, no missing frame, no call_self outside a function. *)
Definition known_panic (e : err) : Prop :=
  match e with
  | E_overflow o => o = OP_BIN_OP \/ o = OP_NEG
  | E_panic o => o = OP_ASSERT \/ dangling o
  | _ => True end.

Theorem panic_only_known : forall dss p, labelled_by dss p ->
  forall fuel name argv cb g e g', run_fn_gen (rc_of dss p) fuel p name argv cb g = RFail e g' -> known_panic e.
Proof.
  intros dss p Hp fuel name argv cb g e g' H.
  assert (Hc : checked p) by (eapply labelled_checked; exact Hp).
  assert (Hfs := frames_safe (rc_of dss p) p Hc fuel name argv cb g). rewrite H in Hfs.
  destruct Hfs as [Hns [extra [Hfr [Hch [Hno Hne]]]]].
  assert (Hsh := shapes_safe dss p Hp _ _ _ _ _ _ _ H).
  destruct (fail_site _ _ _ _ _ _ _ _ _ H) as [Hs|Hs].
  - destruct Hs as [E|[E|[E|[E|[E|[n E]]]]]]; subst e; try exact I; exfalso; apply Hns; unfold structural; auto.
  - destruct Hs as [fn [code [a [i [g1 [H1 [H2 [H3 H4]]]]]]]]. unfold exec in H4.
    destruct (decode i) as [d|e0] eqn:Ed.
    2:{ inversion H4; subst. destruct (decode_err _ _ Ed) as [-> | ->]; exact I. }
    destruct e; try exact I; cbn [known_panic].
    + apply exec_d_overflow_inv in H4. destruct H4 as [[E _]|[E _]]; auto.
    + assert (Hex : extra <> []).
      { apply Hne. intros Hn. destruct (Hno Hn) as [E _]. discriminate E. }
      apply exec_d_panic_inv in H4. destruct H4 as [[Ho _]|[[_ Hf]|[[_ Hcf]|[[Ho _]|Hd]]]].
      * exfalso. apply Hsh. unfold shape_err. destruct Ho as [->|[->|[->| ->]]]; auto.
      * exfalso. rewrite Hfr in Hf. apply app_eq_nil in Hf. destruct Hf. contradiction.
      * exfalso. rewrite Hfr in Hcf. revert Hcf. apply chain_current_function; assumption.
      * left. exact Ho.
      * right. exact Hd.
Qed.

(* the plain interpreter (no hook), any checked program: what an integer-overflow panic is *)
Theorem overflow_sites : forall rc p fuel name argv cb g o g',
  run_fn_gen rc fuel p name argv cb g = RFail (E_overflow o) g' ->
  exists fn code a i g1 d, assoc fn p = Some code /\ nth_error code (a_ip a) = Some i /\ g' = tick fn a i g1 /\
    decode i = DOk d /\
    ((o = OP_BIN_OP /\ ((exists sym, d = DBinOp sym) \/ (exists sym n, d = DBinOpAssign sym n))) \/
     (o = OP_NEG /\ d = DNeg /\ exists r z, a_ops a = r ++ [VInt z] /\ i32_ok (- z) = false)).
Proof.
  intros rc p fuel name argv cb g o g' H. destruct (fail_site _ _ _ _ _ _ _ _ _ H) as [Hs|Hs].
  - destruct Hs as [E|[E|[E|[E|[E|[n E]]]]]]; discriminate E.
  - destruct Hs as [fn [code [a [i [g1 [H1 [H2 [H3 H4]]]]]]]]. unfold exec in H4.
    destruct (decode i) as [d|e0] eqn:Ed.
    + exists fn, code, a, i, g1, d. repeat (split; [assumption || reflexivity|]).
      eapply exec_d_overflow_inv; exact H4.
    + inversion H4; subst. destruct (decode_err _ _ Ed); discriminate.
Qed.
