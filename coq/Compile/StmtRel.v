(* C01, statement level -- part 2: the simulation relation between the scope stack of the reference semantics
   (Lang/Eval.v: `locals`, innermost first, cells in `store`) and the frame stack of the VM model
   (Vm/Model.v: block frames <if>/<else>/<while> on top of the function frame, cells in `cells`).

   The relation is LOOKUP based and closed under taking suffixes:
     Rfr st cs l fs   at every nesting level k < |l|: every source name resolves in `skipn k l` (lookup_scopes)
                      iff it resolves in `skipn k fs` (find_in_function), to cells holding related values;
                      the first |l|-1 frames are block frames, frame |l|-1 is the function frame;
     bij l fs         the induced relation between source cells and VM cells is one-to-one (no aliasing);
     NS l             no shadowing between scopes;  pin_ok_  VM cells outside the relation that keep their value.
   Registers (#n) and loop registers (L#n) are ignored: they are not user names (uname). *)
From MS Require Import Lang.Eval.
From MS Require Import Vm.Model Lang.Syntax Compile.Compile Compile.ExprBase Compile.ExprSim.
From Coq Require Import Lia.
Open Scope nat_scope.

(* ================================================================ lists *)
Lemma nth_error_set_nth_same : forall A n (v : A) l, n < length l -> nth_error (set_nth n v l) n = Some v.
Proof.
  intros A. induction n as [|n IH]; intros v [|x l] H; cbn [length] in H; try lia; cbn [set_nth nth_error].
  - reflexivity.
  - apply IH. lia.
Qed.
Lemma nth_error_set_nth_other : forall A n m (v : A) l, n <> m -> nth_error (set_nth n v l) m = nth_error l m.
Proof.
  intros A. induction n as [|n IH]; intros m v [|x l] H; cbn [set_nth]; try reflexivity.
  - destruct m; [congruence|reflexivity].
  - destruct m; [reflexivity|]. cbn [nth_error]. apply IH. congruence.
Qed.
Lemma set_nth_length : forall A n (v : A) l, length (set_nth n v l) = length l.
Proof. intros A. induction n as [|n IH]; intros v [|x l]; cbn [set_nth length]; try reflexivity. now rewrite IH. Qed.

Lemma skipn_S_tl : forall A n (l : list A), skipn (S n) l = skipn n (tl l).
Proof. intros A n [|x l]; [cbn [tl]; now rewrite !skipn_nil|reflexivity]. Qed.

(* ================================================================ the relation *)
(* the hidden source name of the counter of an anonymous `from` loop (Lang/Eval.v) *)
Definition hid : str := [0%N].
(* user names: not a register (#n), not a loop register (L#n), not the hidden counter *)
Definition uname0 (x : str) : Prop :=
  src_name x /\ match x with 76%N :: 35%N :: _ => False | _ => True end /\ x <> hid.

Section Names.
(* the names of the module-level FUNCTIONS visible in the current activation: they are kept out of the data
   relation (their cells hold closures / VFun values and are never assigned) *)
Context {funs : list str}.

Definition uname (x : str) : Prop := uname0 x /\ ~ In x funs.
Lemma uname_src : forall x, uname x -> src_name x.
Proof. intros x H. exact (proj1 (proj1 H)). Qed.
Lemma uname_not_lregn : forall x n, uname x -> x <> lregn n.
Proof. intros x n [[_ [H _]] _] E. subst x. exact H. Qed.
Lemma uname_not_hid : forall x, uname x -> x <> hid.
Proof. intros x [[_ [_ H]] _]. exact H. Qed.
Lemma uname_nfun : forall x, uname x -> ~ In x funs.
Proof. intros x H. exact (proj2 H). Qed.

Definition cellrel (st : list rvalue) (cs : list value) (c c' : N) : Prop :=
  exists v, nth_error st (N.to_nat c) = Some v /\ first_order v /\ nth_error cs (N.to_nat c') = Some (inj v).

Definition orel {A B} (R : A -> B -> Prop) (x : option A) (y : option B) : Prop :=
  match x, y with Some a, Some b => R a b | None, None => True | _, _ => False end.

Definition look (st : list rvalue) (cs : list value) (l : list scope) (fs : list frame) : Prop :=
  forall x, uname x -> orel (cellrel st cs) (lookup_scopes x l) (find_in_function x fs).

Fixpoint Rfr (st : list rvalue) (cs : list value) (l : list scope) (fs : list frame) {struct l} : Prop :=
  match l, fs with
  | _ :: l', f :: fs' =>
    look st cs l fs /\
    match l' with
    | [] => special (lab f) = false
    | _ :: _ => special (lab f) = true /\ Rfr st cs l' fs'
    end
  | _, _ => False
  end.

Fixpoint pairs (l : list scope) (fs : list frame) (c c' : N) {struct l} : Prop :=
  match l, fs with
  | _ :: l', _ :: fs' =>
    (exists x, uname x /\ lookup_scopes x l = Some c /\ find_in_function x fs = Some c') \/ pairs l' fs' c c'
  | _, _ => False
  end.

Definition bij (l : list scope) (fs : list frame) : Prop :=
  forall c1 c1' c2 c2', pairs l fs c1 c1' -> pairs l fs c2 c2' -> (c1 = c2 <-> c1' = c2').

Lemma Rfr_look : forall st cs l fs, Rfr st cs l fs -> look st cs l fs.
Proof. intros st cs [|sc l] [|f fs] H; cbn in H; try contradiction. exact (proj1 H). Qed.

Lemma Rfr_ne : forall st cs l fs, Rfr st cs l fs -> l <> [] /\ fs <> [].
Proof. intros st cs [|sc l] [|f fs] H; cbn in H; try contradiction. split; discriminate. Qed.

Lemma Rfr_length : forall st cs l fs, Rfr st cs l fs -> length l <= length fs.
Proof.
  intros st cs. induction l as [|sc l IH]; intros [|f fs] H; cbn in H; try contradiction.
  destruct H as [_ H]. destruct l as [|sc' l]; cbn [length]; [lia|].
  destruct H as [_ H]. specialize (IH fs H). cbn [length] in IH. lia.
Qed.

Lemma orel_impl : forall A B (R R' : A -> B -> Prop) x y, (forall a b, R a b -> R' a b) -> orel R x y -> orel R' x y.
Proof. intros A B R R' [a|] [b|] H; cbn; auto. Qed.

(* ---------------------------------------------------------------- every related pair holds related values *)
Lemma pairs_cellrel : forall st cs l fs c c', Rfr st cs l fs -> pairs l fs c c' -> cellrel st cs c c'.
Proof.
  intros st cs. induction l as [|sc l IH]; intros [|f fs] c c' H Hp; cbn in H; try contradiction.
  destruct H as [Hl H]. cbn [pairs] in Hp. destruct Hp as [(x & Hx & E1 & E2)|Hp].
  - specialize (Hl x Hx). rewrite E1, E2 in Hl. exact Hl.
  - destruct l as [|sc' l]; [destruct Hp|]. destruct H as [_ H]. exact (IH fs c c' H Hp).
Qed.

Lemma cellrel_valid : forall st cs c c', cellrel st cs c c' -> N.to_nat c < length st /\ N.to_nat c' < length cs.
Proof.
  intros st cs c c' (v & H1 & _ & H2). split; apply nth_error_Some; congruence.
Qed.

(* ---------------------------------------------------------------- suffixes (leaving a block) *)
Lemma Rfr_pop : forall st cs sc sc' l f fs, Rfr st cs (sc :: sc' :: l) (f :: fs) -> Rfr st cs (sc' :: l) fs.
Proof. intros st cs sc sc' l f fs H. cbn [Rfr] in H. exact (proj2 (proj2 H)). Qed.

Lemma Rfr_top_special : forall st cs sc sc' l f fs, Rfr st cs (sc :: sc' :: l) (f :: fs) -> special (lab f) = true.
Proof. intros st cs sc sc' l f fs H. cbn [Rfr] in H. exact (proj1 (proj2 H)). Qed.

Lemma bij_pop : forall sc l f fs, bij (sc :: l) (f :: fs) -> bij l fs.
Proof.
  intros sc l f fs H c1 c1' c2 c2' H1 H2. apply H; cbn [pairs]; right; assumption.
Qed.

Lemma Rfr_skipn : forall st cs m l fs, Rfr st cs l fs -> m < length l -> Rfr st cs (skipn m l) (skipn m fs).
Proof.
  intros st cs. induction m as [|m IH]; intros l fs H Hm; [exact H|].
  destruct l as [|sc l]; [cbn in Hm; lia|]. destruct fs as [|f fs]; [cbn in H; contradiction|].
  destruct l as [|sc' l]; [cbn in Hm; lia|].
  cbn [skipn]. apply IH; [eapply Rfr_pop; exact H|cbn [length] in *; lia].
Qed.

Lemma bij_skipn : forall m l fs, bij l fs -> bij (skipn m l) (skipn m fs).
Proof.
  induction m as [|m IH]; intros l fs H; [exact H|].
  destruct l as [|sc l]; [intros c1 c1' c2 c2' []|].
  destruct fs as [|f fs]; [intros c1 c1' c2 c2' Hp; destruct (skipn (S m) (sc :: l)); destruct Hp|].
  cbn [skipn]. apply IH. eapply bij_pop. exact H.
Qed.

(* ---------------------------------------------------------------- more cells (expression evaluation, registers) *)
Lemma cellrel_mono : forall st cs x y c c', cellrel st cs c c' -> cellrel (st ++ x) (cs ++ y) c c'.
Proof.
  intros st cs x y c c' (v & H1 & Hf & H2). exists v. split; [|split; [exact Hf|]].
  - rewrite nth_error_app1; [exact H1|]. apply nth_error_Some. congruence.
  - rewrite nth_error_app1; [exact H2|]. apply nth_error_Some. congruence.
Qed.

Lemma Rfr_mono : forall st cs x y l fs, Rfr st cs l fs -> Rfr (st ++ x) (cs ++ y) l fs.
Proof.
  intros st cs x y. induction l as [|sc l IH]; intros [|f fs] H; cbn in H; try contradiction.
  destruct H as [Hl H]. cbn [Rfr]. split.
  - intros z Hz. eapply orel_impl; [|exact (Hl z Hz)]. intros a b. apply cellrel_mono.
  - destruct l as [|sc' l]; [exact H|]. destruct H as [Hs H]. split; [exact Hs|]. apply IH. exact H.
Qed.

(* ---------------------------------------------------------------- the top frame changes, lookups of source names do not *)
Lemma Rfr_top : forall st cs l f f' fs, Rfr st cs l (f :: fs) -> lab f' = lab f ->
  (forall x, uname x -> find_in_function x (f' :: fs) = find_in_function x (f :: fs)) ->
  Rfr st cs l (f' :: fs).
Proof.
  intros st cs [|sc l] f f' fs H Hlab Hfind; cbn in H; [contradiction|].
  destruct H as [Hl H]. cbn [Rfr]. split.
  - intros x Hx. rewrite (Hfind x Hx). exact (Hl x Hx).
  - rewrite Hlab. exact H.
Qed.

Lemma pairs_top : forall l f f' fs c c',
  (forall x, uname x -> find_in_function x (f' :: fs) = find_in_function x (f :: fs)) ->
  pairs l (f' :: fs) c c' <-> pairs l (f :: fs) c c'.
Proof.
  intros [|sc l] f f' fs c c' Hfind; cbn [pairs]; [tauto|].
  split; (intros [(x & Hx & E1 & E2)|Hp]; [left; exists x; split; [exact Hx|split; [exact E1|]]|right; exact Hp]).
  - rewrite <- (Hfind x Hx). exact E2.
  - rewrite (Hfind x Hx). exact E2.
Qed.

Lemma bij_top : forall l f f' fs, bij l (f :: fs) ->
  (forall x, uname x -> find_in_function x (f' :: fs) = find_in_function x (f :: fs)) ->
  bij l (f' :: fs).
Proof.
  intros l f f' fs H Hfind c1 c1' c2 c2' H1 H2.
  apply (pairs_top l f f' fs _ _ Hfind) in H1, H2. exact (H _ _ _ _ H1 H2).
Qed.

(* ---------------------------------------------------------------- writing a related pair of cells *)
Lemma Rfr_update : forall st cs c c' v, first_order v -> N.to_nat c < length st -> N.to_nat c' < length cs ->
  forall l fs, Rfr st cs l fs -> (forall cy cy', pairs l fs cy cy' -> (cy = c <-> cy' = c')) ->
  Rfr (set_nth (N.to_nat c) v st) (set_nth (N.to_nat c') (inj v) cs) l fs.
Proof.
  intros st cs c c' v Hfo Hc Hc'. induction l as [|sc l IH]; intros [|f fs] H Hb; cbn in H; try contradiction.
  destruct H as [Hl H]. cbn [Rfr]. split.
  - intros x Hx. specialize (Hl x Hx).
    destruct (lookup_scopes x (sc :: l)) as [cy|] eqn:E1, (find_in_function x (f :: fs)) as [cy'|] eqn:E2;
      cbn [orel] in *; try assumption.
    assert (Hp : pairs (sc :: l) (f :: fs) cy cy') by (cbn [pairs]; left; exists x; auto).
    specialize (Hb cy cy' Hp). destruct Hl as (v0 & G1 & Hf0 & G2).
    destruct (N.eq_dec cy c) as [->|Hne].
    + assert (cy' = c') by (apply Hb; reflexivity). subst cy'.
      exists v. split; [apply nth_error_set_nth_same; exact Hc|]. split; [exact Hfo|].
      apply nth_error_set_nth_same; exact Hc'.
    + assert (Hne' : cy' <> c') by (intros E; apply Hne, Hb; exact E).
      exists v0. split; [|split; [exact Hf0|]].
      * rewrite nth_error_set_nth_other; [exact G1|]. intros E. apply Hne. now apply N2Nat.inj.
      * rewrite nth_error_set_nth_other; [exact G2|]. intros E. apply Hne'. now apply N2Nat.inj.
  - destruct l as [|sc' l]; [exact H|]. destruct H as [Hs H]. split; [exact Hs|].
    apply IH; [exact H|]. intros cy cy' Hp. apply Hb. cbn [pairs]. right. exact Hp.
Qed.

(* ---------------------------------------------------------------- declaring a new variable in the innermost scope *)
Lemma Rfr_declare : forall st cs sc l f fs x v,
  Rfr st cs (sc :: l) (f :: fs) -> uname x -> lookup_scopes x (sc :: l) = None -> first_order v ->
  Rfr (st ++ [v]) (cs ++ [inj v]) (assoc_set x (N.of_nat (length st)) sc :: l)
      ({| lab := lab f; vars := assoc_set x (N.of_nat (length cs)) (vars f) |} :: fs).
Proof.
  intros st cs sc l f fs x v H Hx Hnone Hfo.
  pose proof (Rfr_mono st cs [v] [inj v] _ _ H) as Hm. cbn [Rfr] in Hm |- *. destruct Hm as [Hl Hm].
  split; [|exact Hm].
  intros y Hy. cbn [lookup_scopes find_in_function vars lab].
  destruct (list_eq_dec N.eq_dec y x) as [->|Hne].
  - rewrite !assoc_set_same. cbn [orel]. exists v. rewrite !Nnat.Nat2N.id.
    split; [|split; [exact Hfo|]]; rewrite nth_error_app2 by lia; rewrite Nat.sub_diag; reflexivity.
  - rewrite !assoc_set_other by exact Hne. exact (Hl y Hy).
Qed.

Lemma pairs_declare : forall sc l f fs x cn cn' c c',
  pairs (assoc_set x cn sc :: l) ({| lab := lab f; vars := assoc_set x cn' (vars f) |} :: fs) c c' ->
  (c = cn /\ c' = cn') \/ pairs (sc :: l) (f :: fs) c c'.
Proof.
  intros sc l f fs x cn cn' c c' Hp. cbn [pairs] in Hp |- *. destruct Hp as [(y & Hy & E1 & E2)|Hp]; [|right; right; exact Hp].
  cbn [lookup_scopes find_in_function vars lab] in E1, E2.
  destruct (list_eq_dec N.eq_dec y x) as [->|Hne].
  - rewrite assoc_set_same in E1, E2. left. split; congruence.
  - rewrite assoc_set_other in E1, E2 by exact Hne. right. left. exists y. auto.
Qed.

Lemma bij_declare : forall st cs sc l f fs x,
  Rfr st cs (sc :: l) (f :: fs) -> bij (sc :: l) (f :: fs) ->
  bij (assoc_set x (N.of_nat (length st)) sc :: l)
      ({| lab := lab f; vars := assoc_set x (N.of_nat (length cs)) (vars f) |} :: fs).
Proof.
  intros st cs sc l f fs x H Hb c1 c1' c2 c2' H1 H2.
  apply pairs_declare in H1, H2.
  assert (Hv : forall c c', pairs (sc :: l) (f :: fs) c c' -> c <> N.of_nat (length st) /\ c' <> N.of_nat (length cs)).
  { intros c c' Hp. apply (pairs_cellrel st cs _ _ _ _ H) in Hp. apply cellrel_valid in Hp. lia. }
  destruct H1 as [[-> ->]|H1], H2 as [[-> ->]|H2].
  - tauto.
  - destruct (Hv _ _ H2). split; intros E; congruence.
  - destruct (Hv _ _ H1). split; intros E; congruence.
  - exact (Hb _ _ _ _ H1 H2).
Qed.

(* ---------------------------------------------------------------- entering a block *)
Lemma Rfr_push : forall st cs l fs lb, Rfr st cs l fs -> special lb = true ->
  Rfr st cs ([] :: l) ({| lab := lb; vars := [] |} :: fs).
Proof.
  intros st cs l fs lb H Hs. destruct (Rfr_ne _ _ _ _ H) as [Hl _].
  destruct l as [|sc l]; [congruence|]. cbn [Rfr]. split; [|split; [exact Hs|exact H]].
  intros x Hx. cbn [lookup_scopes assoc find_in_function vars lab]. rewrite Hs.
  exact (Rfr_look _ _ _ _ H x Hx).
Qed.

Lemma pairs_push : forall l fs lb c c', special lb = true ->
  pairs ([] :: l) ({| lab := lb; vars := [] |} :: fs) c c' -> pairs l fs c c'.
Proof.
  intros l fs lb c c' Hs Hp. cbn [pairs] in Hp. destruct Hp as [(x & Hx & E1 & E2)|Hp]; [|exact Hp].
  cbn [lookup_scopes assoc find_in_function vars lab] in E1, E2. rewrite Hs in E2.
  destruct l as [|sc l]; [discriminate|]. destruct fs as [|f fs]; [discriminate|].
  cbn [pairs]. left. exists x. auto.
Qed.

Lemma bij_push : forall l fs lb, bij l fs -> special lb = true -> bij ([] :: l) ({| lab := lb; vars := [] |} :: fs).
Proof.
  intros l fs lb H Hs c1 c1' c2 c2' H1 H2. apply pairs_push in H1, H2; try exact Hs. exact (H _ _ _ _ H1 H2).
Qed.

(* ================================================================ no shadowing: a name is bound in at most one scope *)
Fixpoint NS (l : list scope) : Prop :=
  match l with
  | [] => True
  | sc :: r => (forall y, y <> hid -> assoc y sc <> None -> lookup_scopes y r = None) /\ NS r
  end.

Lemma NS_tl : forall l, NS l -> NS (tl l).
Proof. intros [|sc l] H; [exact Logic.I|exact (proj2 H)]. Qed.
Lemma NS_skipn : forall m l, NS l -> NS (skipn m l).
Proof. induction m as [|m IH]; intros l H; [exact H|]. destruct l as [|sc l]; [exact Logic.I|]. cbn [skipn]. apply IH. exact (proj2 H). Qed.
Lemma NS_push : forall l, NS l -> NS ([] :: l).
Proof. intros l H. cbn [NS]. split; [intros y _ Hy; cbn in Hy; congruence|exact H]. Qed.
Lemma NS_declare : forall sc l x c, NS (sc :: l) -> x = hid \/ lookup_scopes x (sc :: l) = None -> NS (assoc_set x c sc :: l).
Proof.
  intros sc l x c [H1 H2] Hn. cbn [NS]. split; [|exact H2].
  intros y Hyh Hy.
  destruct (list_eq_dec N.eq_dec y x) as [->|Hne].
  - destruct Hn as [Hn|Hn]; [congruence|]. cbn [lookup_scopes] in Hn. destruct (assoc x sc) eqn:Ex; [discriminate|exact Hn].
  - rewrite assoc_set_other in Hy by exact Hne. now apply H1.
Qed.
Lemma NS_undeclare : forall sc l x, NS (sc :: l) -> NS (assoc_del x sc :: l).
Proof.
  intros sc l x [H1 H2]. cbn [NS]. split; [|exact H2]. intros y Hyh Hy. apply H1; [exact Hyh|].
  intros E. apply Hy. clear -E. induction sc as [|[k v] sc IH]; [reflexivity|]. cbn [assoc assoc_del] in *.
  destruct (str_eqb k x) eqn:Ekx; destruct (str_eqb k y) eqn:Eky; try discriminate; cbn [assoc]; rewrite ?Eky; auto.
Qed.
(* under NS a name bound in an outer scope is not bound in the innermost one *)
Lemma NS_lookup_tl : forall sc l x c, NS (sc :: l) -> x <> hid -> lookup_scopes x l = Some c -> lookup_scopes x (sc :: l) = Some c.
Proof.
  intros sc l x c [H1 _] Hx Hl. cbn [lookup_scopes]. destruct (assoc x sc) eqn:E; [|exact Hl].
  rewrite H1 in Hl by congruence. discriminate.
Qed.

Lemma lookup_tl_ne : forall l x, lookup_scopes x (tl l) <> None -> lookup_scopes x l <> None.
Proof. intros [|sc l] x H; [exact H|]. cbn [tl lookup_scopes] in *. destruct (assoc x sc); [discriminate|exact H]. Qed.

(* ================================================================ pinned cells *)
(* cells outside the relation that must keep their value: on the VM side the end register of a `from` loop and,
   across a call, every cell that existed before; on the source side every cell that existed before the call *)
Record pinset := { vpin : N -> value -> Prop; spin : N -> rvalue -> Prop }.
Definition no_pins : pinset := {| vpin := fun _ _ => False; spin := fun _ _ => False |}.
Definition add_vpin (P : pinset) (c : N) (w : value) : pinset :=
  {| vpin := fun cy w' => (cy = c /\ w' = w) \/ vpin P cy w'; spin := spin P |}.

Definition pins_ok (P : pinset) (l : list scope) (fs : list frame) (st : list rvalue) (cs : list value) : Prop :=
  (forall cy w, vpin P cy w -> nth_error cs (N.to_nat cy) = Some w /\ forall c, ~ pairs l fs c cy) /\
  (forall c v, spin P c v -> nth_error st (N.to_nat c) = Some v /\ forall c', ~ pairs l fs c c').

Lemma pins_update_ : forall P l fs st cs c c' v w, pins_ok P l fs st cs -> pairs l fs c c' ->
  pins_ok P l fs (set_nth (N.to_nat c) v st) (set_nth (N.to_nat c') w cs).
Proof.
  intros P l fs st cs c c' v w [H1 H2] Hp. split.
  - intros cy w0 Hq. destruct (H1 cy w0 Hq) as [A B]. split; [|exact B].
    rewrite nth_error_set_nth_other; [exact A|]. intros E. apply N2Nat.inj in E. subst cy. exact (B c Hp).
  - intros c0 v0 Hq. destruct (H2 c0 v0 Hq) as [A B]. split; [|exact B].
    rewrite nth_error_set_nth_other; [exact A|]. intros E. apply N2Nat.inj in E. subst c0. exact (B c' Hp).
Qed.

Lemma pins_mono_ : forall P l fs st cs x y, pins_ok P l fs st cs -> pins_ok P l fs (st ++ x) (cs ++ y).
Proof.
  intros P l fs st cs x y [H1 H2]. split.
  - intros cy w Hq. destruct (H1 cy w Hq) as [A B]. split; [|exact B].
    rewrite nth_error_app1; [exact A|]. apply nth_error_Some. congruence.
  - intros c0 v Hq. destruct (H2 c0 v Hq) as [A B]. split; [|exact B].
    rewrite nth_error_app1; [exact A|]. apply nth_error_Some. congruence.
Qed.

Lemma pins_declare_ : forall P sc l f fs st cs x v w, pins_ok P (sc :: l) (f :: fs) st cs ->
  pins_ok P (assoc_set x (N.of_nat (length st)) sc :: l)
            ({| lab := lab f; vars := assoc_set x (N.of_nat (length cs)) (vars f) |} :: fs)
            (st ++ [v]) (cs ++ [w]).
Proof.
  intros P sc l f fs st cs x v w [H1 H2]. split.
  - intros cy w0 Hq. destruct (H1 cy w0 Hq) as [A B]. split.
    + rewrite nth_error_app1; [exact A|]. apply nth_error_Some. congruence.
    + intros c0 Hp. apply pairs_declare in Hp. destruct Hp as [[_ E]|Hp]; [|exact (B c0 Hp)].
      subst cy. rewrite Nnat.Nat2N.id in A. assert (length cs < length cs) by (apply nth_error_Some; congruence). lia.
  - intros c0 v0 Hq. destruct (H2 c0 v0 Hq) as [A B]. split.
    + rewrite nth_error_app1; [exact A|]. apply nth_error_Some. congruence.
    + intros c0' Hp. apply pairs_declare in Hp. destruct Hp as [[E _]|Hp]; [|exact (B c0' Hp)].
      subst c0. rewrite Nnat.Nat2N.id in A. assert (length st < length st) by (apply nth_error_Some; congruence). lia.
Qed.

Lemma pins_sub_ : forall P l fs l' fs' st cs, pins_ok P l fs st cs ->
  (forall c c', pairs l' fs' c c' -> pairs l fs c c') -> pins_ok P l' fs' st cs.
Proof.
  intros P l fs l' fs' st cs [H1 H2] Hs. split.
  - intros cy w Hq. destruct (H1 cy w Hq) as [A B]. split; [exact A|]. intros c0 Hp. exact (B c0 (Hs _ _ Hp)).
  - intros c0 v Hq. destruct (H2 c0 v Hq) as [A B]. split; [exact A|]. intros c0' Hp. exact (B c0' (Hs _ _ Hp)).
Qed.

Lemma pins_push_ : forall P l fs st cs lb, pins_ok P l fs st cs -> special lb = true ->
  pins_ok P ([] :: l) ({| lab := lb; vars := [] |} :: fs) st cs.
Proof. intros P l fs st cs lb H Hs. eapply pins_sub_; [exact H|]. intros c c' Hp. eapply pairs_push; eassumption. Qed.

Lemma pins_pop_ : forall P sc l f fs st cs, pins_ok P (sc :: l) (f :: fs) st cs -> pins_ok P l fs st cs.
Proof. intros P sc l f fs st cs H. eapply pins_sub_; [exact H|]. intros c c' Hp. cbn [pairs]. right. exact Hp. Qed.

Lemma pins_top_ : forall P l f f' fs st cs, pins_ok P l (f :: fs) st cs ->
  (forall x, uname x -> find_in_function x (f' :: fs) = find_in_function x (f :: fs)) ->
  pins_ok P l (f' :: fs) st cs.
Proof.
  intros P l f f' fs st cs H Hfind. eapply pins_sub_; [exact H|]. intros c c' Hp.
  eapply pairs_top; [|exact Hp]. intros x Hx. symmetry. now apply Hfind.
Qed.

Lemma pins_weaken_ : forall P c w l fs st cs, pins_ok (add_vpin P c w) l fs st cs -> pins_ok P l fs st cs.
Proof.
  intros P c w l fs st cs [H1 H2]. split; [|exact H2]. intros cy w0 Hq. apply H1. cbn [add_vpin vpin]. now right.
Qed.

(* a pinset with fewer pins *)
Lemma pins_imp_ : forall P P' l fs st cs, pins_ok P l fs st cs ->
  (forall cy w, vpin P' cy w -> vpin P cy w) -> (forall c v, spin P' c v -> spin P c v) -> pins_ok P' l fs st cs.
Proof. intros P P' l fs st cs [H1 H2] Hv Hs. split; [intros cy w Hq; exact (H1 cy w (Hv _ _ Hq))|intros c v Hq; exact (H2 c v (Hs _ _ Hq))]. Qed.

(* ---------------------------------------------------------------- the innermost scope changes, lookups of user names do not *)
Lemma Rfr_scope : forall st cs sc sc' l fs, Rfr st cs (sc :: l) fs ->
  (forall x, uname x -> assoc x sc' = assoc x sc) -> Rfr st cs (sc' :: l) fs.
Proof.
  intros st cs sc sc' l [|f fs] H Hs; cbn in H; [contradiction|]. destruct H as [Hl H]. cbn [Rfr]. split; [|exact H].
  intros x Hx. specialize (Hl x Hx). cbn [lookup_scopes] in *. now rewrite (Hs x Hx).
Qed.
Lemma pairs_scope : forall sc sc' l fs c c', (forall x, uname x -> assoc x sc' = assoc x sc) ->
  pairs (sc' :: l) fs c c' <-> pairs (sc :: l) fs c c'.
Proof.
  intros sc sc' l [|f fs] c c' Hs; cbn [pairs]; [tauto|].
  split; (intros [(x & Hx & E1 & E2)|Hp]; [left; exists x; split; [exact Hx|split; [|exact E2]]|right; exact Hp]);
    cbn [lookup_scopes] in *; [rewrite <- (Hs x Hx)|rewrite (Hs x Hx)]; exact E1.
Qed.
Lemma bij_scope : forall sc sc' l fs, bij (sc :: l) fs -> (forall x, uname x -> assoc x sc' = assoc x sc) -> bij (sc' :: l) fs.
Proof.
  intros sc sc' l fs H Hs c1 c1' c2 c2' H1 H2. apply (pairs_scope sc sc' l fs _ _ Hs) in H1, H2. exact (H _ _ _ _ H1 H2).
Qed.

(* ---------------------------------------------------------------- the relation only looks at the cells in `pairs` *)
Lemma Rfr_pairs_vals : forall st cs st' cs' l fs, Rfr st cs l fs ->
  (forall c c' v, pairs l fs c c' -> nth_error st (N.to_nat c) = Some v -> nth_error st' (N.to_nat c) = Some v) ->
  (forall c c' w, pairs l fs c c' -> nth_error cs (N.to_nat c') = Some w -> nth_error cs' (N.to_nat c') = Some w) ->
  Rfr st' cs' l fs.
Proof.
  intros st cs st' cs'. induction l as [|sc l IH]; intros [|f fs] H Hs Hc; cbn in H; try contradiction.
  destruct H as [Hl H]. cbn [Rfr]. split.
  - intros x Hx. specialize (Hl x Hx).
    destruct (lookup_scopes x (sc :: l)) as [cy|] eqn:E1, (find_in_function x (f :: fs)) as [cy'|] eqn:E2;
      cbn [orel] in *; try assumption.
    assert (Hp : pairs (sc :: l) (f :: fs) cy cy') by (cbn [pairs]; left; exists x; auto).
    destruct Hl as (v & A1 & A2 & A3). exists v. split; [exact (Hs _ _ _ Hp A1)|]. split; [exact A2|exact (Hc _ _ _ Hp A3)].
  - destruct l as [|sc' l]; [exact H|]. destruct H as [Hsp H]. split; [exact Hsp|]. apply IH; [exact H| |].
    + intros c c' v Hp. apply (Hs c c' v). cbn [pairs]. right. exact Hp.
    + intros c c' w Hp. apply (Hc c c' w). cbn [pairs]. right. exact Hp.
Qed.

Lemma lookup_app_some : forall x l r c, lookup_scopes x l = Some c -> lookup_scopes x (l ++ r) = Some c.
Proof.
  intros x. induction l as [|sc l IH]; intros r c H; [discriminate|]. cbn [app lookup_scopes] in *.
  destruct (assoc x sc); [exact H|]. now apply IH.
Qed.

(* `ret` drops the block frames and the function frame: what remains are the frames below the activation *)
Lemma Rfr_drop : forall st cs l fs, Rfr st cs l fs -> drop_to_function fs = skipn (length l) fs.
Proof.
  intros st cs. induction l as [|sc l IH]; intros [|f fs] H; cbn in H; try contradiction.
  destruct H as [_ H]. destruct l as [|sc' l].
  - cbn [drop_to_function length skipn]. now rewrite H.
  - destruct H as [Hs H]. cbn [drop_to_function]. rewrite Hs. rewrite (IH fs H). reflexivity.
Qed.

(* ================================================================ function names: resolved the same way at every level *)
(* the VM's `load f`: own frames, then the captured cells (a_cb) *)
Definition lookup_fs (cb : option (list (str * N))) (fs : list frame) (f : str) : option N :=
  match find_in_function f fs with
  | Some c => Some c
  | None => match cb with Some m => assoc f m | None => None end
  end.

Definition flook (cb : option (list (str * N))) (cap l : list scope) (fs : list frame) (f : str) (c c' : N) : Prop :=
  forall k, k < length l -> lookup_scopes f (skipn k l ++ cap) = Some c /\ lookup_fs cb (skipn k fs) f = Some c'.

Lemma flook_push : forall cb cap l fs f c c' lb, flook cb cap l fs f c c' -> l <> [] -> special lb = true ->
  flook cb cap ([] :: l) ({| lab := lb; vars := [] |} :: fs) f c c'.
Proof.
  intros cb cap l fs f c c' lb H Hl Hs k Hk. destruct k as [|k].
  - cbn [skipn app lookup_scopes assoc]. unfold lookup_fs. cbn [find_in_function vars lab assoc]. rewrite Hs.
    destruct l as [|sc l]; [congruence|]. exact (H 0 ltac:(cbn; lia)).
  - cbn [skipn]. apply H. cbn [length] in Hk. lia.
Qed.
Lemma flook_pop : forall cb cap sc l f0 fs f c c', flook cb cap (sc :: l) (f0 :: fs) f c c' -> flook cb cap l fs f c c'.
Proof. intros cb cap sc l f0 fs f c c' H k Hk. apply (H (S k)). cbn [length]. lia. Qed.
Lemma flook_top : forall cb cap sc sc' l f0 f0' fs f c c', flook cb cap (sc :: l) (f0 :: fs) f c c' ->
  assoc f sc' = assoc f sc -> find_in_function f (f0' :: fs) = find_in_function f (f0 :: fs) ->
  flook cb cap (sc' :: l) (f0' :: fs) f c c'.
Proof.
  intros cb cap sc sc' l f0 f0' fs f c c' H Ha Hf k Hk. destruct k as [|k].
  - destruct (H 0 ltac:(cbn; lia)) as [H1 H2]. cbn [skipn app lookup_scopes] in *. unfold lookup_fs in *.
    rewrite Ha, Hf. split; assumption.
  - exact (H (S k) Hk).
Qed.
Lemma flook_skipn : forall cb cap m l fs f c c', flook cb cap l fs f c c' -> m < length l ->
  flook cb cap (skipn m l) (skipn m fs) f c c'.
Proof.
  intros cb cap. induction m as [|m IH]; intros l fs f c c' H Hm; [exact H|].
  destruct l as [|sc l]; [cbn in Hm; lia|]. destruct fs as [|f0 fs].
  - intros k Hk. cbn [skipn]. rewrite skipn_nil. specialize (H (S m + k)). rewrite skipn_length in Hk. cbn [length] in *.
    destruct (H ltac:(lia)) as [H1 H2]. rewrite skipn_nil in H2.
    replace (skipn k (skipn m l)) with (skipn (S m + k) (sc :: l)); [split; assumption|].
    cbn [Nat.add skipn]. clear. revert l. induction m as [|m IHm]; intros l; [reflexivity|].
    destruct l; [now rewrite !skipn_nil|]. cbn [Nat.add skipn]. apply IHm.
  - cbn [skipn]. apply IH; [eapply flook_pop; exact H|cbn [length] in Hm; lia].
Qed.

(* ---------------------------------------------------------------- the relation only looks at the VALUES of cells:
   it survives anything that keeps the value of every existing cell (a call) *)
Lemma Rfr_vals : forall st cs st' cs',
  (forall c v, nth_error st c = Some v -> nth_error st' c = Some v) ->
  (forall c w, nth_error cs c = Some w -> nth_error cs' c = Some w) ->
  forall l fs, Rfr st cs l fs -> Rfr st' cs' l fs.
Proof.
  intros st cs st' cs' Hs Hc. induction l as [|sc l IH]; intros [|f fs] H; cbn in H; try contradiction.
  destruct H as [Hl H]. cbn [Rfr]. split.
  - intros z Hz. eapply orel_impl; [|exact (Hl z Hz)]. intros a b (v & A1 & A2 & A3). exists v. auto.
  - destruct l as [|sc' l]; [exact H|]. destruct H as [Hsp H]. split; [exact Hsp|]. apply IH. exact H.
Qed.
Lemma pins_vals_ : forall P l fs st cs st' cs',
  (forall c v, nth_error st c = Some v -> nth_error st' c = Some v) ->
  (forall c w, nth_error cs c = Some w -> nth_error cs' c = Some w) ->
  pins_ok P l fs st cs -> pins_ok P l fs st' cs'.
Proof.
  intros P l fs st cs st' cs' Hs Hc [H1 H2]. split.
  - intros cy w Hq. destruct (H1 cy w Hq) as [A B]. split; [now apply Hc|exact B].
  - intros c0 v Hq. destruct (H2 c0 v Hq) as [A B]. split; [now apply Hs|exact B].
Qed.

End Names.
Arguments uname funs x : clear implicits.
Arguments look funs st cs l fs : clear implicits.
Arguments Rfr funs st cs l fs : clear implicits.
Arguments pairs funs l fs c c' : clear implicits.
Arguments bij funs l fs : clear implicits.
Arguments pins_ok funs P l fs st cs : clear implicits.
