(* C01, statement level -- part 2: the simulation relation between the scope stack of the reference semantics
   (Lang/Eval.v: `locals`, innermost first, cells in `store`) and the frame stack of the VM model
   (Vm/Model.v: block frames <if>/<else>/<while> on top of the function frame, cells in `cells`).

   The relation is LOOKUP based and closed under taking suffixes:
     Rfr st cs l fs   at every nesting level k < |l|: every source name resolves in `skipn k l` (lookup_scopes)
                      iff it resolves in `skipn k fs` (find_in_function), to cells holding related values;
                      the first |l|-1 frames are block frames, frame |l|-1 is the function frame;
     bij l fs         the induced relation between source cells and VM cells is one-to-one (no aliasing);
     NS l             no shadowing between scopes;  pin_ok_  VM cells outside the relation that keep their value.
   Registers (#n) and loop registers (L#n) are ignored: they are not user names (uname). *)
From MS Require Import Lang.Eval.
From MS Require Import Vm.Model Lang.Syntax Compile.Compile Compile.ExprBase Compile.ExprSim.
From Coq Require Import Lia.
Open Scope nat_scope.

(* ================================================================ lists *)
Lemma nth_error_set_nth_same : forall A n (v : A) l, n < length l -> nth_error (set_nth n v l) n = Some v.
Proof.
  intros A. induction n as [|n IH]; intros v [|x l] H; cbn [length] in H; try lia; cbn [set_nth nth_error].
  - reflexivity.
  - apply IH. lia.
Qed.
Lemma nth_error_set_nth_other : forall A n m (v : A) l, n <> m -> nth_error (set_nth n v l) m = nth_error l m.
Proof.
  intros A. induction n as [|n IH]; intros m v [|x l] H; cbn [set_nth]; try reflexivity.
  - destruct m; [congruence|reflexivity].
  - destruct m; [reflexivity|]. cbn [nth_error]. apply IH. congruence.
Qed.
Lemma set_nth_length : forall A n (v : A) l, length (set_nth n v l) = length l.
Proof. intros A. induction n as [|n IH]; intros v [|x l]; cbn [set_nth length]; try reflexivity. now rewrite IH. Qed.

Lemma skipn_S_tl : forall A n (l : list A), skipn (S n) l = skipn n (tl l).
Proof. intros A n [|x l]; [cbn [tl]; now rewrite !skipn_nil|reflexivity]. Qed.

(* ================================================================ the relation *)
(* user names: not a register (#n) and not a loop register (L#n) *)
Definition uname (x : str) : Prop :=
  src_name x /\ match x with 76%N :: 35%N :: _ => False | _ => True end.
Lemma uname_src : forall x, uname x -> src_name x.
Proof. intros x H. exact (proj1 H). Qed.
Lemma uname_not_lregn : forall x n, uname x -> x <> lregn n.
Proof. intros x n [_ H] E. subst x. exact H. Qed.

Definition cellrel (st : list rvalue) (cs : list value) (c c' : N) : Prop :=
  exists v, nth_error st (N.to_nat c) = Some v /\ first_order v /\ nth_error cs (N.to_nat c') = Some (inj v).

Definition orel {A B} (R : A -> B -> Prop) (x : option A) (y : option B) : Prop :=
  match x, y with Some a, Some b => R a b | None, None => True | _, _ => False end.

Definition look (st : list rvalue) (cs : list value) (l : list scope) (fs : list frame) : Prop :=
  forall x, uname x -> orel (cellrel st cs) (lookup_scopes x l) (find_in_function x fs).

Fixpoint Rfr (st : list rvalue) (cs : list value) (l : list scope) (fs : list frame) {struct l} : Prop :=
  match l, fs with
  | _ :: l', f :: fs' =>
    look st cs l fs /\
    match l' with
    | [] => special (lab f) = false
    | _ :: _ => special (lab f) = true /\ Rfr st cs l' fs'
    end
  | _, _ => False
  end.

Fixpoint pairs (l : list scope) (fs : list frame) (c c' : N) {struct l} : Prop :=
  match l, fs with
  | _ :: l', _ :: fs' =>
    (exists x, uname x /\ lookup_scopes x l = Some c /\ find_in_function x fs = Some c') \/ pairs l' fs' c c'
  | _, _ => False
  end.

Definition bij (l : list scope) (fs : list frame) : Prop :=
  forall c1 c1' c2 c2', pairs l fs c1 c1' -> pairs l fs c2 c2' -> (c1 = c2 <-> c1' = c2').

Lemma Rfr_look : forall st cs l fs, Rfr st cs l fs -> look st cs l fs.
Proof. intros st cs [|sc l] [|f fs] H; cbn in H; try contradiction. exact (proj1 H). Qed.

Lemma Rfr_ne : forall st cs l fs, Rfr st cs l fs -> l <> [] /\ fs <> [].
Proof. intros st cs [|sc l] [|f fs] H; cbn in H; try contradiction. split; discriminate. Qed.

Lemma Rfr_length : forall st cs l fs, Rfr st cs l fs -> length l <= length fs.
Proof.
  intros st cs. induction l as [|sc l IH]; intros [|f fs] H; cbn in H; try contradiction.
  destruct H as [_ H]. destruct l as [|sc' l]; cbn [length]; [lia|].
  destruct H as [_ H]. specialize (IH fs H). cbn [length] in IH. lia.
Qed.

Lemma orel_impl : forall A B (R R' : A -> B -> Prop) x y, (forall a b, R a b -> R' a b) -> orel R x y -> orel R' x y.
Proof. intros A B R R' [a|] [b|] H; cbn; auto. Qed.

(* ---------------------------------------------------------------- every related pair holds related values *)
Lemma pairs_cellrel : forall st cs l fs c c', Rfr st cs l fs -> pairs l fs c c' -> cellrel st cs c c'.
Proof.
  intros st cs. induction l as [|sc l IH]; intros [|f fs] c c' H Hp; cbn in H; try contradiction.
  destruct H as [Hl H]. cbn [pairs] in Hp. destruct Hp as [(x & Hx & E1 & E2)|Hp].
  - specialize (Hl x Hx). rewrite E1, E2 in Hl. exact Hl.
  - destruct l as [|sc' l]; [destruct Hp|]. destruct H as [_ H]. exact (IH fs c c' H Hp).
Qed.

Lemma cellrel_valid : forall st cs c c', cellrel st cs c c' -> N.to_nat c < length st /\ N.to_nat c' < length cs.
Proof.
  intros st cs c c' (v & H1 & _ & H2). split; apply nth_error_Some; congruence.
Qed.

(* ---------------------------------------------------------------- suffixes (leaving a block) *)
Lemma Rfr_pop : forall st cs sc sc' l f fs, Rfr st cs (sc :: sc' :: l) (f :: fs) -> Rfr st cs (sc' :: l) fs.
Proof. intros st cs sc sc' l f fs H. cbn [Rfr] in H. exact (proj2 (proj2 H)). Qed.

Lemma Rfr_top_special : forall st cs sc sc' l f fs, Rfr st cs (sc :: sc' :: l) (f :: fs) -> special (lab f) = true.
Proof. intros st cs sc sc' l f fs H. cbn [Rfr] in H. exact (proj1 (proj2 H)). Qed.

Lemma bij_pop : forall sc l f fs, bij (sc :: l) (f :: fs) -> bij l fs.
Proof.
  intros sc l f fs H c1 c1' c2 c2' H1 H2. apply H; cbn [pairs]; right; assumption.
Qed.

Lemma Rfr_skipn : forall st cs m l fs, Rfr st cs l fs -> m < length l -> Rfr st cs (skipn m l) (skipn m fs).
Proof.
  intros st cs. induction m as [|m IH]; intros l fs H Hm; [exact H|].
  destruct l as [|sc l]; [cbn in Hm; lia|]. destruct fs as [|f fs]; [cbn in H; contradiction|].
  destruct l as [|sc' l]; [cbn in Hm; lia|].
  cbn [skipn]. apply IH; [eapply Rfr_pop; exact H|cbn [length] in *; lia].
Qed.

Lemma bij_skipn : forall m l fs, bij l fs -> bij (skipn m l) (skipn m fs).
Proof.
  induction m as [|m IH]; intros l fs H; [exact H|].
  destruct l as [|sc l]; [intros c1 c1' c2 c2' []|].
  destruct fs as [|f fs]; [intros c1 c1' c2 c2' Hp; destruct (skipn (S m) (sc :: l)); destruct Hp|].
  cbn [skipn]. apply IH. eapply bij_pop. exact H.
Qed.

(* ---------------------------------------------------------------- more cells (expression evaluation, registers) *)
Lemma cellrel_mono : forall st cs x y c c', cellrel st cs c c' -> cellrel (st ++ x) (cs ++ y) c c'.
Proof.
  intros st cs x y c c' (v & H1 & Hf & H2). exists v. split; [|split; [exact Hf|]].
  - rewrite nth_error_app1; [exact H1|]. apply nth_error_Some. congruence.
  - rewrite nth_error_app1; [exact H2|]. apply nth_error_Some. congruence.
Qed.

Lemma Rfr_mono : forall st cs x y l fs, Rfr st cs l fs -> Rfr (st ++ x) (cs ++ y) l fs.
Proof.
  intros st cs x y. induction l as [|sc l IH]; intros [|f fs] H; cbn in H; try contradiction.
  destruct H as [Hl H]. cbn [Rfr]. split.
  - intros z Hz. eapply orel_impl; [|exact (Hl z Hz)]. intros a b. apply cellrel_mono.
  - destruct l as [|sc' l]; [exact H|]. destruct H as [Hs H]. split; [exact Hs|]. apply IH. exact H.
Qed.

(* ---------------------------------------------------------------- the top frame changes, lookups of source names do not *)
Lemma Rfr_top : forall st cs l f f' fs, Rfr st cs l (f :: fs) -> lab f' = lab f ->
  (forall x, uname x -> find_in_function x (f' :: fs) = find_in_function x (f :: fs)) ->
  Rfr st cs l (f' :: fs).
Proof.
  intros st cs [|sc l] f f' fs H Hlab Hfind; cbn in H; [contradiction|].
  destruct H as [Hl H]. cbn [Rfr]. split.
  - intros x Hx. rewrite (Hfind x Hx). exact (Hl x Hx).
  - rewrite Hlab. exact H.
Qed.

Lemma pairs_top : forall l f f' fs c c',
  (forall x, uname x -> find_in_function x (f' :: fs) = find_in_function x (f :: fs)) ->
  pairs l (f' :: fs) c c' <-> pairs l (f :: fs) c c'.
Proof.
  intros [|sc l] f f' fs c c' Hfind; cbn [pairs]; [tauto|].
  split; (intros [(x & Hx & E1 & E2)|Hp]; [left; exists x; split; [exact Hx|split; [exact E1|]]|right; exact Hp]).
  - rewrite <- (Hfind x Hx). exact E2.
  - rewrite (Hfind x Hx). exact E2.
Qed.

Lemma bij_top : forall l f f' fs, bij l (f :: fs) ->
  (forall x, uname x -> find_in_function x (f' :: fs) = find_in_function x (f :: fs)) ->
  bij l (f' :: fs).
Proof.
  intros l f f' fs H Hfind c1 c1' c2 c2' H1 H2.
  apply (pairs_top l f f' fs _ _ Hfind) in H1, H2. exact (H _ _ _ _ H1 H2).
Qed.

(* ---------------------------------------------------------------- writing a related pair of cells *)
Lemma Rfr_update : forall st cs c c' v, first_order v -> N.to_nat c < length st -> N.to_nat c' < length cs ->
  forall l fs, Rfr st cs l fs -> (forall cy cy', pairs l fs cy cy' -> (cy = c <-> cy' = c')) ->
  Rfr (set_nth (N.to_nat c) v st) (set_nth (N.to_nat c') (inj v) cs) l fs.
Proof.
  intros st cs c c' v Hfo Hc Hc'. induction l as [|sc l IH]; intros [|f fs] H Hb; cbn in H; try contradiction.
  destruct H as [Hl H]. cbn [Rfr]. split.
  - intros x Hx. specialize (Hl x Hx).
    destruct (lookup_scopes x (sc :: l)) as [cy|] eqn:E1, (find_in_function x (f :: fs)) as [cy'|] eqn:E2;
      cbn [orel] in *; try assumption.
    assert (Hp : pairs (sc :: l) (f :: fs) cy cy') by (cbn [pairs]; left; exists x; auto).
    specialize (Hb cy cy' Hp). destruct Hl as (v0 & G1 & Hf0 & G2).
    destruct (N.eq_dec cy c) as [->|Hne].
    + assert (cy' = c') by (apply Hb; reflexivity). subst cy'.
      exists v. split; [apply nth_error_set_nth_same; exact Hc|]. split; [exact Hfo|].
      apply nth_error_set_nth_same; exact Hc'.
    + assert (Hne' : cy' <> c') by (intros E; apply Hne, Hb; exact E).
      exists v0. split; [|split; [exact Hf0|]].
      * rewrite nth_error_set_nth_other; [exact G1|]. intros E. apply Hne. now apply N2Nat.inj.
      * rewrite nth_error_set_nth_other; [exact G2|]. intros E. apply Hne'. now apply N2Nat.inj.
  - destruct l as [|sc' l]; [exact H|]. destruct H as [Hs H]. split; [exact Hs|].
    apply IH; [exact H|]. intros cy cy' Hp. apply Hb. cbn [pairs]. right. exact Hp.
Qed.

(* ---------------------------------------------------------------- declaring a new variable in the innermost scope *)
Lemma Rfr_declare : forall st cs sc l f fs x v,
  Rfr st cs (sc :: l) (f :: fs) -> uname x -> lookup_scopes x (sc :: l) = None -> first_order v ->
  Rfr (st ++ [v]) (cs ++ [inj v]) (assoc_set x (N.of_nat (length st)) sc :: l)
      ({| lab := lab f; vars := assoc_set x (N.of_nat (length cs)) (vars f) |} :: fs).
Proof.
  intros st cs sc l f fs x v H Hx Hnone Hfo.
  pose proof (Rfr_mono st cs [v] [inj v] _ _ H) as Hm. cbn [Rfr] in Hm |- *. destruct Hm as [Hl Hm].
  split; [|exact Hm].
  intros y Hy. cbn [lookup_scopes find_in_function vars lab].
  destruct (list_eq_dec N.eq_dec y x) as [->|Hne].
  - rewrite !assoc_set_same. cbn [orel]. exists v. rewrite !Nnat.Nat2N.id.
    split; [|split; [exact Hfo|]]; rewrite nth_error_app2 by lia; rewrite Nat.sub_diag; reflexivity.
  - rewrite !assoc_set_other by exact Hne. exact (Hl y Hy).
Qed.

Lemma pairs_declare : forall sc l f fs x cn cn' c c',
  pairs (assoc_set x cn sc :: l) ({| lab := lab f; vars := assoc_set x cn' (vars f) |} :: fs) c c' ->
  (c = cn /\ c' = cn') \/ pairs (sc :: l) (f :: fs) c c'.
Proof.
  intros sc l f fs x cn cn' c c' Hp. cbn [pairs] in Hp |- *. destruct Hp as [(y & Hy & E1 & E2)|Hp]; [|right; right; exact Hp].
  cbn [lookup_scopes find_in_function vars lab] in E1, E2.
  destruct (list_eq_dec N.eq_dec y x) as [->|Hne].
  - rewrite assoc_set_same in E1, E2. left. split; congruence.
  - rewrite assoc_set_other in E1, E2 by exact Hne. right. left. exists y. auto.
Qed.

Lemma bij_declare : forall st cs sc l f fs x,
  Rfr st cs (sc :: l) (f :: fs) -> bij (sc :: l) (f :: fs) ->
  bij (assoc_set x (N.of_nat (length st)) sc :: l)
      ({| lab := lab f; vars := assoc_set x (N.of_nat (length cs)) (vars f) |} :: fs).
Proof.
  intros st cs sc l f fs x H Hb c1 c1' c2 c2' H1 H2.
  apply pairs_declare in H1, H2.
  assert (Hv : forall c c', pairs (sc :: l) (f :: fs) c c' -> c <> N.of_nat (length st) /\ c' <> N.of_nat (length cs)).
  { intros c c' Hp. apply (pairs_cellrel st cs _ _ _ _ H) in Hp. apply cellrel_valid in Hp. lia. }
  destruct H1 as [[-> ->]|H1], H2 as [[-> ->]|H2].
  - tauto.
  - destruct (Hv _ _ H2). split; intros E; congruence.
  - destruct (Hv _ _ H1). split; intros E; congruence.
  - exact (Hb _ _ _ _ H1 H2).
Qed.

(* ---------------------------------------------------------------- entering a block *)
Lemma Rfr_push : forall st cs l fs lb, Rfr st cs l fs -> special lb = true ->
  Rfr st cs ([] :: l) ({| lab := lb; vars := [] |} :: fs).
Proof.
  intros st cs l fs lb H Hs. destruct (Rfr_ne _ _ _ _ H) as [Hl _].
  destruct l as [|sc l]; [congruence|]. cbn [Rfr]. split; [|split; [exact Hs|exact H]].
  intros x Hx. cbn [lookup_scopes assoc find_in_function vars lab]. rewrite Hs.
  exact (Rfr_look _ _ _ _ H x Hx).
Qed.

Lemma pairs_push : forall l fs lb c c', special lb = true ->
  pairs ([] :: l) ({| lab := lb; vars := [] |} :: fs) c c' -> pairs l fs c c'.
Proof.
  intros l fs lb c c' Hs Hp. cbn [pairs] in Hp. destruct Hp as [(x & Hx & E1 & E2)|Hp]; [|exact Hp].
  cbn [lookup_scopes assoc find_in_function vars lab] in E1, E2. rewrite Hs in E2.
  destruct l as [|sc l]; [discriminate|]. destruct fs as [|f fs]; [discriminate|].
  cbn [pairs]. left. exists x. auto.
Qed.

Lemma bij_push : forall l fs lb, bij l fs -> special lb = true -> bij ([] :: l) ({| lab := lb; vars := [] |} :: fs).
Proof.
  intros l fs lb H Hs c1 c1' c2 c2' H1 H2. apply pairs_push in H1, H2; try exact Hs. exact (H _ _ _ _ H1 H2).
Qed.

(* ================================================================ no shadowing: a name is bound in at most one scope *)
Fixpoint NS (l : list scope) : Prop :=
  match l with
  | [] => True
  | sc :: r => (forall y, assoc y sc <> None -> lookup_scopes y r = None) /\ NS r
  end.

Lemma NS_tl : forall l, NS l -> NS (tl l).
Proof. intros [|sc l] H; [exact Logic.I|exact (proj2 H)]. Qed.
Lemma NS_skipn : forall m l, NS l -> NS (skipn m l).
Proof. induction m as [|m IH]; intros l H; [exact H|]. destruct l as [|sc l]; [exact Logic.I|]. cbn [skipn]. apply IH. exact (proj2 H). Qed.
Lemma NS_push : forall l, NS l -> NS ([] :: l).
Proof. intros l H. cbn [NS]. split; [intros y Hy; cbn in Hy; congruence|exact H]. Qed.
Lemma NS_declare : forall sc l x c, NS (sc :: l) -> lookup_scopes x (sc :: l) = None -> NS (assoc_set x c sc :: l).
Proof.
  intros sc l x c [H1 H2] Hn. cbn [NS]. split; [|exact H2].
  intros y Hy. cbn [lookup_scopes] in Hn. destruct (assoc x sc) eqn:Ex; [discriminate|].
  destruct (list_eq_dec N.eq_dec y x) as [->|Hne]; [exact Hn|].
  rewrite assoc_set_other in Hy by exact Hne. now apply H1.
Qed.
(* under NS a name bound in an outer scope is not bound in the innermost one *)
Lemma NS_lookup_tl : forall sc l x c, NS (sc :: l) -> lookup_scopes x l = Some c -> lookup_scopes x (sc :: l) = Some c.
Proof.
  intros sc l x c [H1 _] Hl. cbn [lookup_scopes]. destruct (assoc x sc) eqn:E; [|exact Hl].
  rewrite H1 in Hl by congruence. discriminate.
Qed.

Lemma lookup_tl_ne : forall l x, lookup_scopes x (tl l) <> None -> lookup_scopes x l <> None.
Proof. intros [|sc l] x H; [exact H|]. cbn [tl lookup_scopes] in *. destruct (assoc x sc); [discriminate|exact H]. Qed.

(* ================================================================ pinned VM cells *)
(* a VM cell that belongs to no source variable and must keep its value (the end register of a `from` loop) *)
Definition pin_ok_ (l : list scope) (fs : list frame) (cs : list value) (p : N * value) : Prop :=
  nth_error cs (N.to_nat (fst p)) = Some (snd p) /\ forall c, ~ pairs l fs c (fst p).

Lemma pins_update_ : forall pins l fs cs c c' w, Forall (pin_ok_ l fs cs) pins -> pairs l fs c c' ->
  Forall (pin_ok_ l fs (set_nth (N.to_nat c') w cs)) pins.
Proof.
  intros pins l fs cs c c' w H Hp. eapply Forall_impl; [|exact H]. intros [cy w0] [H1 H2]; unfold pin_ok_; cbn [fst snd] in *. split; [|exact H2].
  rewrite nth_error_set_nth_other; [exact H1|]. intros E. apply N2Nat.inj in E. subst cy. exact (H2 c Hp).
Qed.

Lemma pins_mono_ : forall pins l fs cs extra, Forall (pin_ok_ l fs cs) pins -> Forall (pin_ok_ l fs (cs ++ extra)) pins.
Proof.
  intros pins l fs cs extra H. eapply Forall_impl; [|exact H]. intros [cy w0] [H1 H2]; unfold pin_ok_; cbn [fst snd] in *. split; [|exact H2].
  rewrite nth_error_app1; [exact H1|]. apply nth_error_Some. congruence.
Qed.

Lemma pins_declare_ : forall pins sc l f fs cs x cn w, Forall (pin_ok_ (sc :: l) (f :: fs) cs) pins ->
  Forall (pin_ok_ (assoc_set x cn sc :: l) ({| lab := lab f; vars := assoc_set x (N.of_nat (length cs)) (vars f) |} :: fs)
                  (cs ++ [w])) pins.
Proof.
  intros pins sc l f fs cs x cn w H. eapply Forall_impl; [|exact H]. intros [cy w0] [H1 H2]; unfold pin_ok_; cbn [fst snd] in *. split.
  - rewrite nth_error_app1; [exact H1|]. apply nth_error_Some. congruence.
  - intros c0 Hp. apply pairs_declare in Hp. destruct Hp as [[_ E]|Hp]; [|exact (H2 c0 Hp)].
    subst cy. rewrite Nnat.Nat2N.id in H1. assert (length cs < length cs) by (apply nth_error_Some; congruence). lia.
Qed.

Lemma pins_push_ : forall pins l fs cs lb, Forall (pin_ok_ l fs cs) pins -> special lb = true ->
  Forall (pin_ok_ ([] :: l) ({| lab := lb; vars := [] |} :: fs) cs) pins.
Proof.
  intros pins l fs cs lb H Hs. eapply Forall_impl; [|exact H]. intros [cy w0] [H1 H2]. split; [exact H1|].
  intros c0 Hp. apply pairs_push in Hp; [|exact Hs]. exact (H2 c0 Hp).
Qed.

Lemma pins_pop_ : forall pins sc l f fs cs, Forall (pin_ok_ (sc :: l) (f :: fs) cs) pins -> Forall (pin_ok_ l fs cs) pins.
Proof.
  intros pins sc l f fs cs H. eapply Forall_impl; [|exact H]. intros [cy w0] [H1 H2]. split; [exact H1|].
  intros c0 Hp. apply (H2 c0). cbn [pairs]. right. exact Hp.
Qed.

Lemma pins_top_ : forall pins l f f' fs cs, Forall (pin_ok_ l (f :: fs) cs) pins ->
  (forall x, uname x -> find_in_function x (f' :: fs) = find_in_function x (f :: fs)) ->
  Forall (pin_ok_ l (f' :: fs) cs) pins.
Proof.
  intros pins l f f' fs cs H Hfind. eapply Forall_impl; [|exact H]. intros [cy w0] [H1 H2]. split; [exact H1|].
  intros c0 Hp. apply (H2 c0). eapply pairs_top; [|exact Hp]. intros x Hx. symmetry. now apply Hfind.
Qed.
