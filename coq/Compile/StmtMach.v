(* C01, statement level -- part 1: the interpreter loop as a small-step machine INCLUDING block frames.
   `xstep` is the body of the `fix loop` of run_fn_gen (Vm/Model.v) for every outcome except call / ret
   (the fragment is call-free): SNext, SGoto, SFail as ExprSim.step, plus SPush (if_stmt / while_loop / else_stmt),
   SGotoPop (jmp_pop) and SPopScope (done).  `xloop_running` / `xloop_failed` tie it to Verify.Sound.loop. *)
From MS Require Import Vm.Model Lang.Syntax Compile.Compile Verify.Sound Compile.ExprBase Compile.ExprSim.
From Coq Require Import Lia.
Open Scope nat_scope.

Section XSteps.
  Variable p : program.                    (* the whole program: callees are run by run_fn (big step) *)
  Variable name : str.
  Variable code : list instr.

  Definition xstep (a : act) (g : gstate) : rstatus :=
    match nth_error code (a_ip a) with
    | None => Escaped
    | Some i =>
      let g := trc name a g i in
      match Model.exec i a g with
      | SFail e => Failed e g
      | SNext a g => Running (set_ip a (S (a_ip a))) g
      | SGoto off a g => match goto (length code) (a_ip a) off with
                         | Some t => Running (set_ip a t) g | None => Failed E_goto_range g end
      | SPush l a g => Running (set_ip (set_ss a (S (a_ss a))) (S (a_ip a))) (push_frame g l)
      | SGotoPop off n a g =>
        match goto (length code) (a_ip a) off with
        | None => Failed E_goto_range g
        | Some t => match pop_frames n g with
                    | Some g' => Running (set_ip a t) g' | None => Failed (E_panic OP_JMP_POP) g end
        end
      | SPopScope a g =>
        match a_ss a with
        | O => Running (set_ip a (S (a_ip a))) g
        | S k => match pop_frame g with
                 | Some g' => Running (set_ip (set_ss a k) (S (a_ip a))) g'
                 | None => Failed (E_panic OP_DONE) g end
        end
      | SRet _ _ _ => Escaped
      | SCall _ _ _ _ _ => Escaped
      end
    end.

  Fixpoint xsteps (n : nat) (r : rstatus) : rstatus :=
    match n with
    | O => r
    | S n => match r with Running a g => xsteps n (xstep a g) | _ => r end
    end.

  Definition xreach (r r' : rstatus) : Prop := exists n, xsteps n r = r'.

  Lemma xsteps_stop_failed : forall n e g, xsteps n (Failed e g) = Failed e g.
  Proof. destruct n; reflexivity. Qed.
  Lemma xsteps_stop_escaped : forall n, xsteps n Escaped = Escaped.
  Proof. destruct n; reflexivity. Qed.

  Lemma xsteps_trans : forall n m r a g r', xsteps n r = Running a g -> xsteps m (Running a g) = r' -> xsteps (n + m) r = r'.
  Proof.
    induction n as [|n IH]; intros m r a g r' H1 H2.
    - cbn in H1. subst r. exact H2.
    - destruct r as [a0 g0|e0 g0|].
      + cbn [xsteps Nat.add] in *. eapply IH; eassumption.
      + rewrite xsteps_stop_failed in H1. discriminate.
      + rewrite xsteps_stop_escaped in H1. discriminate.
  Qed.

  Lemma xreach_refl : forall r, xreach r r.
  Proof. intros r. exists 0. reflexivity. Qed.
  Lemma xreach_step : forall a g r, xstep a g = r -> xreach (Running a g) r.
  Proof. intros a g r H. exists 1. cbn [xsteps]. rewrite H. reflexivity. Qed.
  Lemma xreach_trans : forall r a g r', xreach r (Running a g) -> xreach (Running a g) r' -> xreach r r'.
  Proof. intros r a g r' [n H1] [m H2]. exists (n + m). eapply xsteps_trans; eassumption. Qed.

  (* ---------------------------------------------------------------- xstep extends ExprSim.step *)
  Lemma step_xstep : forall a g, step name code a g <> Escaped -> xstep a g = step name code a g.
  Proof.
    intros a g H. unfold step, xstep in *.
    destruct (nth_error code (a_ip a)) as [i|]; [|reflexivity].
    destruct (Model.exec i a (trc name a g i)); try reflexivity; congruence.
  Qed.

  Lemma steps_xsteps_running : forall n a g a' g', steps name code n (Running a g) = Running a' g' ->
    xsteps n (Running a g) = Running a' g'.
  Proof.
    induction n as [|n IH]; intros a g a' g' H; [exact H|].
    cbn [steps xsteps] in *.
    destruct (step name code a g) as [a1 g1|e1 g1|] eqn:E.
    - rewrite step_xstep by congruence. rewrite E. apply IH. exact H.
    - rewrite steps_stop_failed in H. discriminate.
    - rewrite steps_stop_escaped in H. discriminate.
  Qed.

  Lemma steps_xsteps_failed : forall n a g e g', steps name code n (Running a g) = Failed e g' ->
    xsteps n (Running a g) = Failed e g'.
  Proof.
    induction n as [|n IH]; intros a g e g' H; [exact H|].
    cbn [steps xsteps] in *.
    destruct (step name code a g) as [a1 g1|e1 g1|] eqn:E.
    - rewrite step_xstep by congruence. rewrite E. apply IH. exact H.
    - rewrite step_xstep by congruence. rewrite E. rewrite steps_stop_failed in H. rewrite xsteps_stop_failed. exact H.
    - rewrite steps_stop_escaped in H. discriminate.
  Qed.

  Lemma reaches_xreach_running : forall a g a' g', reaches name code (Running a g) (Running a' g') ->
    xreach (Running a g) (Running a' g').
  Proof. intros a g a' g' [n H]. exists n. now apply steps_xsteps_running. Qed.
  Lemma reaches_xreach_failed : forall a g e g', reaches name code (Running a g) (Failed e g') ->
    xreach (Running a g) (Failed e g').
  Proof. intros a g e g' [n H]. exists n. now apply steps_xsteps_failed. Qed.

  (* ---------------------------------------------------------------- the tie to the interpreter loop *)
  Lemma xloop_running : forall rc callee n a g a' g', xsteps n (Running a g) = Running a' g' ->
    forall fuel, loop rc callee name code (n + fuel) a g = loop rc callee name code fuel a' g'.
  Proof.
    intros rc callee. induction n as [|n IH]; intros a g a' g' H fuel.
    - cbn in H. inversion H; subst. reflexivity.
    - cbn [xsteps] in H. cbn [Nat.add loop]. unfold xstep in H.
      destruct (nth_error code (a_ip a)) as [i|]; [|rewrite xsteps_stop_escaped in H; discriminate].
      fold (trc name a g i).
      destruct (Model.exec i a (trc name a g i)) as [a1 g1|off a1 g1|l a1 g1|off k a1 g1|a1 g1| | |e];
        try (rewrite xsteps_stop_escaped in H; discriminate).
      + apply IH. exact H.
      + destruct (goto (length code) (a_ip a1) off) as [t|].
        * apply IH. exact H.
        * rewrite xsteps_stop_failed in H. discriminate.
      + apply IH. exact H.
      + destruct (goto (length code) (a_ip a1) off) as [t|]; [|rewrite xsteps_stop_failed in H; discriminate].
        destruct (pop_frames k g1) as [g2|]; [|rewrite xsteps_stop_failed in H; discriminate].
        apply IH. exact H.
      + destruct (a_ss a1) as [|k]; [apply IH; exact H|].
        destruct (pop_frame g1) as [g2|]; [|rewrite xsteps_stop_failed in H; discriminate].
        apply IH. exact H.
      + rewrite xsteps_stop_failed in H. discriminate.
  Qed.

  Lemma xloop_failed : forall rc callee n a g e g', xsteps n (Running a g) = Failed e g' ->
    forall fuel, loop rc callee name code (n + fuel) a g = RFail e g'.
  Proof.
    intros rc callee. induction n as [|n IH]; intros a g e g' H fuel.
    - cbn in H. discriminate.
    - cbn [xsteps] in H. cbn [Nat.add loop]. unfold xstep in H.
      destruct (nth_error code (a_ip a)) as [i|]; [|rewrite xsteps_stop_escaped in H; discriminate].
      fold (trc name a g i).
      destruct (Model.exec i a (trc name a g i)) as [a1 g1|off a1 g1|l a1 g1|off k a1 g1|a1 g1| | |e1];
        try (rewrite xsteps_stop_escaped in H; discriminate).
      + apply IH. exact H.
      + destruct (goto (length code) (a_ip a1) off) as [t|].
        * apply IH. exact H.
        * rewrite xsteps_stop_failed in H. inversion H; subst. reflexivity.
      + apply IH. exact H.
      + destruct (goto (length code) (a_ip a1) off) as [t|];
          [|rewrite xsteps_stop_failed in H; inversion H; subst; reflexivity].
        destruct (pop_frames k g1) as [g2|]; [|rewrite xsteps_stop_failed in H; inversion H; subst; reflexivity].
        apply IH. exact H.
      + destruct (a_ss a1) as [|k]; [apply IH; exact H|].
        destruct (pop_frame g1) as [g2|]; [|rewrite xsteps_stop_failed in H; inversion H; subst; reflexivity].
        apply IH. exact H.
      + rewrite xsteps_stop_failed in H. inversion H; subst. reflexivity.
  Qed.

  (* ---------------------------------------------------------------- one instruction, by outcome *)
  (* runs of the current activation: machine steps, and CALLS taken in one big step (the callee is the interpreter
     itself, run_fn with some fuel) *)
  Definition next_act (a1 : act) (rv : option value) : act :=
    set_ip (match rv with Some v => set_ops a1 (a_ops a1 ++ [v]) | None => a1 end) (S (a_ip a1)).

  Inductive xrun : act -> gstate -> act -> gstate -> Prop :=
  | xr_refl : forall a g, xrun a g a g
  | xr_step : forall a g a1 g1 a' g', xstep a g = Running a1 g1 -> xrun a1 g1 a' g' -> xrun a g a' g'
  | xr_call : forall a g i d dest cb argv a1 g1 fuel rv g2 a' g',
      nth_error code (a_ip a) = Some i -> decode i = DOk d ->
      exec_d d a (trc name a g i) = SCall dest cb argv a1 g1 ->
      run_fn fuel p dest argv cb g1 = RDone rv g2 ->
      xrun (next_act a1 rv) g2 a' g' -> xrun a g a' g'.

  Definition xfail_at (a : act) (g : gstate) (e : err) (g' : gstate) : Prop :=
    xstep a g = Failed e g' \/
    exists i d dest cb argv a1 g1 fuel,
      nth_error code (a_ip a) = Some i /\ decode i = DOk d /\
      exec_d d a (trc name a g i) = SCall dest cb argv a1 g1 /\ run_fn fuel p dest argv cb g1 = RFail e g'.
  Definition xfail (a : act) (g : gstate) (e : err) (g' : gstate) : Prop :=
    exists a1 g1, xrun a g a1 g1 /\ xfail_at a1 g1 e g'.

  Lemma xrun_refl : forall a g, xrun a g a g.
  Proof. intros. apply xr_refl. Qed.
  Lemma xrun_trans : forall a g a1 g1 a2 g2, xrun a g a1 g1 -> xrun a1 g1 a2 g2 -> xrun a g a2 g2.
  Proof.
    intros a g a1 g1 a2 g2 H. revert a2 g2. induction H; intros ax gx Hnext; [exact Hnext| |].
    - eapply xr_step; [eassumption|]. now apply IHxrun.
    - eapply xr_call; try eassumption. now apply IHxrun.
  Qed.
  Lemma xrun_fail : forall a g a1 g1 e g2, xrun a g a1 g1 -> xfail a1 g1 e g2 -> xfail a g e g2.
  Proof. intros a g a1 g1 e g2 H (a2 & g3 & H2 & H3). exists a2, g3. split; [eapply xrun_trans; eassumption|exact H3]. Qed.
  Lemma xrun_step1 : forall a g a1 g1, xstep a g = Running a1 g1 -> xrun a g a1 g1.
  Proof. intros. eapply xr_step; [eassumption|apply xr_refl]. Qed.
  Lemma xfail_step1 : forall a g e g', xstep a g = Failed e g' -> xfail a g e g'.
  Proof. intros a g e g' H. exists a, g. split; [apply xr_refl|now left]. Qed.

  Lemma xreach_xrun : forall n a g a' g', xsteps n (Running a g) = Running a' g' -> xrun a g a' g'.
  Proof.
    induction n as [|n IH]; intros a g a' g' H.
    - cbn in H. inversion H; subst. apply xr_refl.
    - cbn [xsteps] in H. destruct (xstep a g) as [a1 g1|e1 g1|] eqn:E.
      + eapply xr_step; [exact E|]. now apply IH.
      + rewrite xsteps_stop_failed in H. discriminate.
      + rewrite xsteps_stop_escaped in H. discriminate.
  Qed.
  Lemma xreach_xfail : forall n a g e g', xsteps n (Running a g) = Failed e g' -> xfail a g e g'.
  Proof.
    induction n as [|n IH]; intros a g e g' H; [discriminate|].
    cbn [xsteps] in H. destruct (xstep a g) as [a1 g1|e1 g1|] eqn:E.
    - eapply xrun_fail; [eapply xrun_step1; exact E|]. now apply IH.
    - rewrite xsteps_stop_failed in H. inversion H; subst. now apply xfail_step1.
    - rewrite xsteps_stop_escaped in H. discriminate.
  Qed.
  Lemma run_ok_xrun : forall d lo hi a g a' g', run_ok name code d lo hi a g a' g' -> xrun a g a' g'.
  Proof. intros d lo hi a g a' g' [R _]. destruct (reaches_xreach_running _ _ _ _ R) as [n H]. eapply xreach_xrun. exact H. Qed.
  Lemma reaches_xfail : forall a g e g', reaches name code (Running a g) (Failed e g') -> xfail a g e g'.
  Proof. intros a g e g' R. destruct (reaches_xreach_failed _ _ _ _ R) as [n H]. eapply xreach_xfail. exact H. Qed.

  Lemma xstep_next : forall a g i dI ip a1 g1, a_ip a = ip -> nth_error code ip = Some i -> decode i = DOk dI ->
    exec_d dI a (trc name a g i) = SNext a1 g1 ->
    xrun a g (set_ip a1 (S (a_ip a1))) g1.
  Proof.
    intros a g i dI ip a1 g1 Hip Hf Hd He. apply xrun_step1. unfold xstep. rewrite Hip, Hf. unfold Model.exec.
    rewrite Hd, He. reflexivity.
  Qed.

  Lemma xstep_fail : forall a g i dI ip e, a_ip a = ip -> nth_error code ip = Some i -> decode i = DOk dI ->
    exec_d dI a (trc name a g i) = SFail e ->
    xfail a g e (trc name a g i).
  Proof.
    intros a g i dI ip e Hip Hf Hd He. apply xfail_step1. unfold xstep. rewrite Hip, Hf. unfold Model.exec.
    rewrite Hd, He. reflexivity.
  Qed.

  Lemma xstep_goto : forall a g i dI ip off a1 g1 t, a_ip a = ip -> nth_error code ip = Some i -> decode i = DOk dI ->
    exec_d dI a (trc name a g i) = SGoto off a1 g1 -> goto (length code) (a_ip a1) off = Some t ->
    xrun a g (set_ip a1 t) g1.
  Proof.
    intros a g i dI ip off a1 g1 t Hip Hf Hd He Hg. apply xrun_step1. unfold xstep. rewrite Hip, Hf. unfold Model.exec.
    rewrite Hd, He, Hg. reflexivity.
  Qed.

  Lemma xstep_push : forall a g i dI ip l a1 g1, a_ip a = ip -> nth_error code ip = Some i -> decode i = DOk dI ->
    exec_d dI a (trc name a g i) = SPush l a1 g1 ->
    xrun a g (set_ip (set_ss a1 (S (a_ss a1))) (S (a_ip a1))) (push_frame g1 l).
  Proof.
    intros a g i dI ip l a1 g1 Hip Hf Hd He. apply xrun_step1. unfold xstep. rewrite Hip, Hf. unfold Model.exec.
    rewrite Hd, He. reflexivity.
  Qed.

  Lemma xstep_gotopop : forall a g i dI ip off n a1 g1 t g2, a_ip a = ip -> nth_error code ip = Some i -> decode i = DOk dI ->
    exec_d dI a (trc name a g i) = SGotoPop off n a1 g1 -> goto (length code) (a_ip a1) off = Some t ->
    pop_frames n g1 = Some g2 ->
    xrun a g (set_ip a1 t) g2.
  Proof.
    intros a g i dI ip off n a1 g1 t g2 Hip Hf Hd He Hg Hp. apply xrun_step1. unfold xstep. rewrite Hip, Hf. unfold Model.exec.
    rewrite Hd, He, Hg, Hp. reflexivity.
  Qed.

  Lemma xstep_popscope : forall a g i dI ip a1 g1 k g2, a_ip a = ip -> nth_error code ip = Some i -> decode i = DOk dI ->
    exec_d dI a (trc name a g i) = SPopScope a1 g1 -> a_ss a1 = S k -> pop_frame g1 = Some g2 ->
    xrun a g (set_ip (set_ss a1 k) (S (a_ip a1))) g2.
  Proof.
    intros a g i dI ip a1 g1 k g2 Hip Hf Hd He Hs Hp. apply xrun_step1. unfold xstep. rewrite Hip, Hf. unfold Model.exec.
    rewrite Hd, He, Hs, Hp. reflexivity.
  Qed.
End XSteps.

(* ================================================================ decoding the statement-level instructions *)
Lemma dec_store : forall x, decode (mkI OP_STORE [x]) = DOk (DStore x).
Proof. reflexivity. Qed.
Lemma dec_void : decode (mkI OP_VOID []) = DOk DVoid.
Proof. reflexivity. Qed.
Lemma dec_printn : decode (mkI OP_PRINTN [s_star]) = DOk DPrint.
Proof. reflexivity. Qed.
Lemma dec_assert : forall sp, decode (mkI OP_ASSERT [sp]) = DOk (DAssert (Some sp)).
Proof. reflexivity. Qed.
Lemma dec_bin_op_assign : forall sym x, decode (mkI OP_BIN_OP_ASSIGN [sym; x]) = DOk (DBinOpAssign sym x).
Proof. reflexivity. Qed.
Lemma dec_else : decode (mkI OP_ELSE_STMT []) = DOk DElse.
Proof. reflexivity. Qed.
Lemma dec_done : decode (mkI OP_DONE []) = DOk DDone.
Proof. reflexivity. Qed.

Lemma dec_if : forall n, small n -> decode (mkI OP_IF_STMT [sN n]) = DOk (DIf (Z.of_nat n)).
Proof.
  intros n H.
  change (decode (mkI OP_IF_STMT [sN n])) with
    (match parse_Z (sN n) with Some z => DOk (DIf z) | None => DErr (E_bad_arg OP_IF_STMT) end).
  rewrite parse_sN by exact H. reflexivity.
Qed.
Lemma dec_while : forall n, small n -> decode (mkI OP_WHILE_LOOP [sN n]) = DOk (DWhile (Z.of_nat n)).
Proof.
  intros n H.
  change (decode (mkI OP_WHILE_LOOP [sN n])) with
    (match parse_Z (sN n) with Some z => DOk (DWhile z) | None => DErr (E_bad_arg OP_WHILE_LOOP) end).
  rewrite parse_sN by exact H. reflexivity.
Qed.
Lemma dec_jmp : forall n, small n -> decode (mkI OP_JMP [sN n]) = DOk (DJmp (Z.of_nat n)).
Proof.
  intros n H.
  change (decode (mkI OP_JMP [sN n])) with
    (match parse_Z (sN n) with Some z => DOk (DJmp z) | None => DErr (E_bad_arg OP_JMP) end).
  rewrite parse_sN by exact H. reflexivity.
Qed.

Lemma parse_nat_sN : forall n, small n -> parse_nat (sN n) = Some n.
Proof.
  intros n H. unfold parse_nat. rewrite parse_sN by exact H.
  destruct (Z.of_nat n <? 0)%Z eqn:E; [apply Z.ltb_lt in E; lia|]. now rewrite Nat2Z.id.
Qed.

Lemma parse_neg_off : forall n, small n -> parse_Z (neg_off n) = Some (- Z.of_nat n)%Z.
Proof.
  intros n H. unfold neg_off, sN, show_Z.
  destruct (Z.of_nat n <? 0)%Z eqn:E; [apply Z.ltb_lt in E; lia|].
  assert (Hz : (0 <= Z.of_nat n < 10 ^ Z.of_nat 50)%Z) by (unfold small in H; change (Z.of_nat 50) with 50%Z; lia).
  destruct (show_pos_spec 50 (Z.of_nat n) [] Hz ltac:(discriminate)) as (ds & E1 & Hne & Hr & Hp).
  rewrite E1, app_nil_r. destruct ds as [|c r]; [congruence|].
  change (parse_Z (45%N :: c :: r)) with (option_map Z.opp (parse_digits 0 (c :: r))).
  specialize (Hp 0%Z []). rewrite app_nil_r in Hp. rewrite Hp. cbn [parse_digits option_map]. f_equal.
Qed.

(* jmp_pop with two arguments: forward jump, pop n frames (a resolved break / continue) *)
Lemma dec_jmp_pop2 : forall off n, small off -> small n ->
  decode (mkI OP_JMP_POP [sN off; sN n]) = DOk (DJmpPop (Z.of_nat off) n).
Proof.
  intros off n Ho Hn.
  change (decode (mkI OP_JMP_POP [sN off; sN n])) with
    (match parse_Z (sN off), parse_nat (sN n) with
     | Some o, Some k => DOk (DJmpPop o k) | _, _ => DErr (E_bad_arg OP_JMP_POP) end).
  rewrite parse_sN by exact Ho. rewrite parse_nat_sN by exact Hn. reflexivity.
Qed.
(* the back edge of a loop: one argument, pops ONE frame *)
Lemma dec_jmp_pop_back : forall n, small n ->
  decode (mkI OP_JMP_POP [neg_off n]) = DOk (DJmpPop (- Z.of_nat n)%Z 1).
Proof.
  intros n H.
  change (decode (mkI OP_JMP_POP [neg_off n])) with
    (match parse_Z (neg_off n) with Some o => DOk (DJmpPop o 1) | None => DErr (E_bad_arg OP_JMP_POP) end).
  rewrite parse_neg_off by exact H. reflexivity.
Qed.

Lemma goto_back : forall len ip n, n <= ip -> ip < len -> goto len ip (- Z.of_nat n)%Z = Some (ip - n).
Proof. intros len ip n H1 H2. rewrite goto_some by lia. f_equal. lia. Qed.

(* ================================================================ a global invariant of the machine: in every frame
   a name is bound at most once (bindings are made by assoc_set, removed by assoc_del, frames start empty) *)
Definition keys_nd (l : list (str * N)) : Prop := NoDup (map fst l).
Definition frames_nd (fs : list frame) : Prop := Forall (fun f => keys_nd (vars f)) fs.

Lemma in_keys_assoc_set : forall k (v : N) x l, In x (map fst (assoc_set k v l)) -> x = k \/ In x (map fst l).
Proof.
  intros k v x. induction l as [|[k' v'] l IH]; cbn [assoc_set map fst In].
  - intros [H|[]]; auto.
  - destruct (str_eqb k' k) eqn:E; cbn [map fst In].
    + apply str_eqb_iff in E. subst k'. intros [H|H]; auto.
    + intros [H|H]; [auto|]. destruct (IH H); auto.
Qed.
Lemma keys_nd_assoc_set : forall k (v : N) l, keys_nd l -> keys_nd (assoc_set k v l).
Proof.
  unfold keys_nd. intros k v. induction l as [|[k' v'] l IH]; intros H; cbn [assoc_set map fst].
  - constructor; [intros []|constructor].
  - cbn [map fst] in H. inversion H as [|? ? Hn Hd]; subst. destruct (str_eqb k' k) eqn:E; cbn [map fst].
    + apply str_eqb_iff in E. subst k'. constructor; assumption.
    + constructor; [|now apply IH]. intros Hin. apply in_keys_assoc_set in Hin as [->|Hin]; [|contradiction].
      rewrite str_eqb_refl in E. discriminate.
Qed.
Lemma in_keys_assoc_del : forall k x (l : list (str * N)), In x (map fst (assoc_del k l)) -> In x (map fst l).
Proof.
  intros k x. induction l as [|[k' v'] l IH]; cbn [assoc_del map fst In]; [auto|].
  destruct (str_eqb k' k); cbn [map fst In]; [auto|]. intros [H|H]; auto.
Qed.
Lemma keys_nd_assoc_del : forall k (l : list (str * N)), keys_nd l -> keys_nd (assoc_del k l).
Proof.
  unfold keys_nd. intros k. induction l as [|[k' v'] l IH]; intros H; cbn [assoc_del map fst]; [exact H|].
  cbn [map fst] in H. inversion H as [|? ? Hn Hd]; subst. destruct (str_eqb k' k); [exact Hd|].
  cbn [map fst]. constructor; [|now apply IH]. intros Hin. apply Hn. eapply in_keys_assoc_del. exact Hin.
Qed.
Lemma assoc_none_notin : forall k (l : list (str * N)), ~ In k (map fst l) -> assoc k l = None.
Proof.
  intros k. induction l as [|[k' v'] l IH]; intros H; [reflexivity|]. cbn [assoc map fst In] in *.
  destruct (str_eqb k' k) eqn:E; [apply str_eqb_iff in E; subst; exfalso; apply H; now left|]. apply IH. tauto.
Qed.
Lemma assoc_del_nd_none : forall k (l : list (str * N)), keys_nd l -> assoc k (assoc_del k l) = None.
Proof.
  unfold keys_nd. intros k. induction l as [|[k' v'] l IH]; intros H; [reflexivity|].
  cbn [map fst] in H. inversion H as [|? ? Hn Hd]; subst. cbn [assoc_del].
  destruct (str_eqb k' k) eqn:E.
  - apply str_eqb_iff in E. subst k'. now apply assoc_none_notin.
  - cbn [assoc]. rewrite E. now apply IH.
Qed.

Lemma nd_top : forall f fs vs, frames_nd (f :: fs) -> keys_nd vs -> frames_nd ({| lab := lab f; vars := vs |} :: fs).
Proof. intros f fs vs H Hv. inversion H; subst. constructor; assumption. Qed.

Lemma nd_bind_local : forall g n v g', bind_local g n v = Some g' -> frames_nd (frames g) -> frames_nd (frames g').
Proof.
  intros g n v g' H Hn. unfold bind_local in H. destruct (frames g) as [|f fs] eqn:E; [discriminate|].
  cbn [cell_new] in H. inversion H; subst g'. cbn [with_frames frames]. apply nd_top; [exact Hn|].
  apply keys_nd_assoc_set. inversion Hn; assumption.
Qed.
Lemma nd_store_var : forall g n v g', store_var g n v = Some g' -> frames_nd (frames g) -> frames_nd (frames g').
Proof.
  intros g n v g' H Hn. unfold store_var in H. destruct (find_in_function n (frames g)).
  - inversion H; subst. exact Hn.
  - eapply nd_bind_local; eassumption.
Qed.
Lemma nd_delete_names : forall ns vs vs', keys_nd vs -> delete_names ns vs = inl (Some vs') -> keys_nd vs'.
Proof.
  induction ns as [|n ns IH]; intros vs vs' H E; cbn [delete_names] in E.
  - inversion E; subst. exact H.
  - destruct (assoc n vs); [|discriminate]. eapply IH; [|exact E]. now apply keys_nd_assoc_del.
Qed.
Lemma nd_pop_frames : forall n g g', pop_frames n g = Some g' -> frames_nd (frames g) -> frames_nd (frames g').
Proof.
  induction n as [|n IH]; intros g g' H Hn; cbn [pop_frames] in H; [inversion H; subst; exact Hn|].
  unfold pop_frame in H. destruct (frames g) as [|f fs] eqn:E; [discriminate|].
  eapply IH; [exact H|]. cbn [with_frames frames]. inversion Hn; assumption.
Qed.

Definition sres_nd (r : sres) : Prop :=
  match r with
  | SNext _ g | SGoto _ _ g | SPush _ _ g | SGotoPop _ _ _ g | SPopScope _ g | SRet _ _ g | SCall _ _ _ _ g =>
    frames_nd (frames g)
  | SFail _ => True
  end.

Lemma exec_d_nd : forall d a g, frames_nd (frames g) -> sres_nd (exec_d d a g).
Proof.
  intros d a g Hn. destruct d; unfold exec_d;
    repeat match goal with
           | |- sres_nd (match ?x with _ => _ end) => destruct x eqn:?
           | |- sres_nd (let '(_, _) := ?x in _) => destruct x eqn:?
           end; cbn [sres_nd]; try exact Logic.I; try exact Hn;
    try (eapply nd_bind_local; eassumption); try (eapply nd_store_var; eassumption).
  all: cbn [with_frames frames];
       match goal with Hn' : frames_nd (_ :: _) |- _ =>
         apply nd_top; [exact Hn'|]; inversion Hn'; subst;
         first [ eapply nd_delete_names; eassumption | apply keys_nd_assoc_del; assumption ] end.
Qed.

Lemma xstep_nd : forall name code a g a' g', xstep name code a g = Running a' g' ->
  frames_nd (frames g) -> frames_nd (frames g').
Proof.
  intros name code a g a' g' H Hn. unfold xstep in H.
  destruct (nth_error code (a_ip a)) as [i|]; [|discriminate].
  assert (Hn' : frames_nd (frames (trc name a g i))) by exact Hn.
  unfold Model.exec in H. destruct (decode i) as [d|e]; [|discriminate].
  pose proof (exec_d_nd d a (trc name a g i) Hn') as Hs.
  destruct (exec_d d a (trc name a g i)) as [a1 g1|off a1 g1|l a1 g1|off k a1 g1|a1 g1| | |e]; cbn [sres_nd] in Hs; try discriminate.
  - inversion H; subst. exact Hs.
  - destruct (goto (length code) (a_ip a1) off); inversion H; subst. exact Hs.
  - inversion H; subst. unfold push_frame. cbn [with_frames frames]. constructor; [constructor|exact Hs].
  - destruct (goto (length code) (a_ip a1) off); [|discriminate].
    destruct (pop_frames k g1) as [g2|] eqn:E; inversion H; subst. eapply nd_pop_frames; eassumption.
  - destruct (a_ss a1); [inversion H; subst; exact Hs|].
    destruct (pop_frame g1) as [g2|] eqn:E; inversion H; subst.
    apply (nd_pop_frames 1 g1 g'); [cbn [pop_frames]; now rewrite E|exact Hs].
Qed.

Lemma xsteps_nd : forall name code n a g a' g', xsteps name code n (Running a g) = Running a' g' ->
  frames_nd (frames g) -> frames_nd (frames g').
Proof.
  intros name code. induction n as [|n IH]; intros a g a' g' H Hn.
  - cbn in H. inversion H; subst. exact Hn.
  - cbn [xsteps] in H. destruct (xstep name code a g) as [a1 g1|e1 g1|] eqn:E.
    + eapply IH; [exact H|]. eapply xstep_nd; eassumption.
    + rewrite xsteps_stop_failed in H. discriminate.
    + rewrite xsteps_stop_escaped in H. discriminate.
Qed.

Lemma xreach_nd : forall name code a g a' g', xreach name code (Running a g) (Running a' g') ->
  frames_nd (frames g) -> frames_nd (frames g').
Proof. intros name code a g a' g' [n H]. eapply xsteps_nd. exact H. Qed.


(* ================================================================ more fuel does not change a finished run *)
Lemma loop_mono : forall rc (callee callee' : str -> list value -> option (list (str * N)) -> gstate -> rres) name code,
  (forall d av cb g r, callee d av cb g = r -> r <> RFuel -> callee' d av cb g = r) ->
  forall f a g r, loop rc callee name code f a g = r -> r <> RFuel ->
  forall j, loop rc callee' name code (f + j) a g = r.
Proof.
  intros rc callee callee' name code Hc. induction f as [|f IH]; intros a g r H Hr j; [cbn in H; congruence|].
  cbn [Nat.add loop] in *. destruct (nth_error code (a_ip a)) as [i|]; [|exact H].
  destruct (Model.exec i a _) as [a1 g1|off a1 g1|l a1 g1|off k a1 g1|a1 g1|rv a1 g1|dest cb argv a1 g1|e]; try exact H.
  - now apply IH.
  - destruct (goto (length code) (a_ip a1) off); [now apply IH|exact H].
  - now apply IH.
  - destruct (goto (length code) (a_ip a1) off); [|exact H]. destruct (pop_frames k g1); [now apply IH|exact H].
  - destruct (a_ss a1); [now apply IH|]. destruct (pop_frame g1); [now apply IH|exact H].
  - destruct (callee dest argv cb g1) as [rv g2|e g2|] eqn:E.
    + rewrite (Hc _ _ _ _ _ E ltac:(discriminate)). destruct (negb _); [exact H|now apply IH].
    + rewrite (Hc _ _ _ _ _ E ltac:(discriminate)). exact H.
    + congruence.
Qed.

Lemma run_fn_gen_mono : forall rc p f name argv cb g r, run_fn_gen rc f p name argv cb g = r -> r <> RFuel ->
  forall j, run_fn_gen rc (f + j) p name argv cb g = r.
Proof.
  intros rc p. induction f as [|f IH]; intros name argv cb g r H Hr j; [cbn in H; congruence|].
  cbn [Nat.add]. rewrite run_fn_gen_S in *. destruct (assoc name p) as [code|]; [|exact H].
  eapply loop_mono; [|exact H|exact Hr]. intros d av cb0 g0 r0 E Hr0. now apply IH.
Qed.

Lemma run_fn_mono : forall p f f' name argv cb g r, run_fn f p name argv cb g = r -> r <> RFuel -> f <= f' ->
  run_fn f' p name argv cb g = r.
Proof.
  intros p f f' name argv cb g r H Hr Hle. replace f' with (f + (f' - f)) by lia. now apply run_fn_gen_mono.
Qed.

(* ================================================================ the tie of xrun / xfail to the interpreter loop *)
Definition rcT : str -> nat -> bool -> bool := fun _ _ _ => true.

Lemma xrun_loop : forall p name code a g a' g', xrun p name code a g a' g' ->
  exists N n, forall f0, N <= f0 -> forall k,
    loop rcT (run_fn f0 p) name code (n + k) a g = loop rcT (run_fn f0 p) name code k a' g'.
Proof.
  intros p name code a g a' g' H. induction H as [a g|a g a1 g1 a' g' Hs _ IH|a g i d dest cb argv a1 g1 fuel rv g2 a' g' Hi Hd He Hr _ IH].
  - exists 0, 0. intros f0 _ k. reflexivity.
  - destruct IH as (N & n & IH). exists N, (S n). intros f0 Hf k.
    change (S n + k) with (1 + (n + k)).
    rewrite (xloop_running name code rcT (run_fn f0 p) 1 a g a1 g1); [now apply IH|].
    cbn [xsteps]. now rewrite Hs.
  - destruct IH as (N & n & IH). exists (Nat.max fuel N), (S n). intros f0 Hf k.
    cbn [Nat.add loop]. rewrite Hi. unfold Model.exec. rewrite Hd.
    change (add_trace g (name, N.of_nat (a_ip a), op i, N.of_nat (length (frames g)), N.of_nat (length (a_ops a))))
      with (trc name a g i).
    rewrite He. rewrite (run_fn_mono p fuel f0 dest argv cb g1 _ Hr ltac:(discriminate) ltac:(lia)).
    cbn [rcT negb]. apply IH. lia.
Qed.

Lemma xfail_loop : forall p name code a g e g', xfail p name code a g e g' ->
  exists N n, forall f0, N <= f0 -> forall k, loop rcT (run_fn f0 p) name code (n + k) a g = RFail e g'.
Proof.
  intros p name code a g e g' (a1 & g1 & Hr & Hf).
  destruct (xrun_loop _ _ _ _ _ _ _ Hr) as (N & n & Hrun).
  destruct Hf as [Hf|(i & d & dest & cb & argv & a2 & g2 & fuel & Hi & Hd & He & Hc)].
  - exists N, (n + 1). intros f0 Hf0 k. rewrite <- Nat.add_assoc. rewrite (Hrun f0 Hf0).
    apply (xloop_failed name code rcT (run_fn f0 p) 1 a1 g1 e g'). cbn [xsteps]. now rewrite Hf.
  - exists (Nat.max fuel N), (n + 1). intros f0 Hf0 k. rewrite <- Nat.add_assoc. rewrite (Hrun f0 ltac:(lia)).
    cbn [Nat.add loop]. rewrite Hi. unfold Model.exec. rewrite Hd.
    change (add_trace g1 (name, N.of_nat (a_ip a1), op i, N.of_nat (length (frames g1)), N.of_nat (length (a_ops a1))))
      with (trc name a1 g1 i).
    rewrite He. rewrite (run_fn_mono p fuel f0 dest argv cb g2 _ Hc ltac:(discriminate) ltac:(lia)). reflexivity.
Qed.
