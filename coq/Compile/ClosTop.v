(* C01 / C07, closures -- part 4: every related closure does what call_clos does (induction on the fuel of the
   reference semantics), and whole modules: Eval.run vs Model.execute of cprogram. *)
From Coq Require Import List Arith ZArith Lia Bool.
Import ListNotations.
From MS Require Import Base.Str Vm.Model Lang.Syntax Lang.Eval Compile.Compile Compile.ExprBase Compile.ExprSim.
From MS Require Import Verify.Sound Compile.StmtMach Compile.StmtRel Compile.StmtFrag Compile.StmtSim Compile.StmtFun.
From MS Require Import Compile.ClosFrag Compile.ClosRel Compile.ClosSim.
From MS Require Compile.CaptureSpec.
Open Scope nat_scope.

(* ================================================================ the last instruction of a statement *)
Section Last.
Variable path : str.
Variable SF : sfk.

Lemma tailc_snoc : forall l i, tailc (l ++ [i]) = if (op i =? OP_RET)%N then [] else [mkI OP_VOID []; mkI OP_RET []].
Proof. intros l i. unfold tailc. rewrite rev_app_distr. reflexivity. Qed.

(* outside a loop the items of the fragment are instructions *)
Lemma sc_all_CI : forall st B CD r c lr sl k, kstmt SF false B CD st = Some r -> Forall is_CI (fst (sc path c lr sl k st)).
Proof.
  intros st B CD r c lr sl k H.
  exact (proj2 (proj2 (comp_both path) st SF false B CD r H c sl {| fid := k; lreg := lr; fbuf := [] |}) eq_refl).
Qed.
Lemma bc_all_CI : forall l B CD r c lr sl k, kblock SF false B CD l = Some r -> Forall is_CI (fst (bc path c lr sl k l)).
Proof.
  intros l B CD r c lr sl k H.
  exact (proj2 (comp_block path l ltac:(apply Forall_forall; intros st _; apply (proj2 (comp_both path))) SF false B CD r H c sl {| fid := k; lreg := lr; fbuf := [] |}) eq_refl).
Qed.

Lemma sc_last : forall st B CD B' rets c lr k, kstmt SF false B CD st = Some (B', rets) ->
  exists pre i, fst (sc path c lr None k st) = pre ++ [CI i] /\ (op i = OP_RET -> isret st = true).
Proof.
  intros st B CD B' rets c lr k H. destruct st; try discriminate.
  - rewrite sc_Assign. destruct (ec path c lr k e) as [ce fe]. exists (map CI ce), (mkI OP_STORE [x]). split; [reflexivity|discriminate].
  - rewrite sc_Modify. destruct (ec path c lr k e) as [ce fe]. exists (map CI ce), (mkI OP_STORE_OBJECT [x]). split; [reflexivity|discriminate].
  - rewrite sc_OpAssign. destruct (ec path (S c) lr k e) as [ce fe]. exists (map CI ce ++ [I OP_BIN_OP_ASSIGN [binop_sym o ++ [61%N]; x]]), (mkI OP_VOID []).
    split; [cbn [fst]; now rewrite <- app_assoc|discriminate].
  - rewrite sc_Print. destruct (ec path c lr k e) as [ce fe]. exists (map CI ce ++ [I OP_PRINTN [s_star]]), (mkI OP_VOID []).
    split; [cbn [fst]; now rewrite <- app_assoc|discriminate].
  - rewrite sc_Assert. destruct (ec path c lr k e) as [ce fe]. exists (map CI ce), (mkI OP_ASSERT [span]). split; [reflexivity|discriminate].
  - rewrite sc_Expr. destruct (ec path c lr k e) as [ce fe]. exists (map CI ce), (mkI OP_VOID []). split; [reflexivity|discriminate].
  - rewrite sc_SIf. destruct (ec path c lr k c0) as [cc fc]. destruct (bc path c lr (option_map S None) (k + length fc) body) as [cb0 fb].
    eexists. exists (mkI OP_DONE []). split; [cbn [fst]; rewrite !app_assoc; reflexivity|discriminate].
  - rewrite sc_SIfElse. destruct (ec path c lr k c0) as [cc fc]. destruct (bc path c lr (option_map S None) (k + length fc) body) as [cb0 fb].
    destruct (bc path c lr (option_map S None) (k + length fc + length fb) els) as [ce0 fe].
    eexists. exists (mkI OP_DONE []). split; [cbn [fst]; rewrite app_comm_cons, !app_assoc; reflexivity|discriminate].
  - rewrite sc_SIfElif. destruct (ec path c lr k c0) as [cc fc]. destruct (bc path c lr (option_map S None) (k + length fc) body) as [cb0 fb].
    destruct (sc path c lr (option_map S None) (k + length fc + length fb) st) as [ce0 fe].
    eexists. exists (mkI OP_DONE []). split; [cbn [fst]; rewrite app_comm_cons, !app_assoc; reflexivity|discriminate].
  - rewrite sc_SWhile. destruct (ec path c lr k c0) as [cc fc]. destruct (bc path c lr (Some 1) (k + length fc) body) as [cb0 fb].
    cbn [fst]. unfold I. rewrite resolve_snoc_CI.
    eexists. eexists. split; [rewrite !app_assoc; reflexivity|discriminate].
  - rewrite kstmt_SFrom in H. rewrite sc_SFrom. cbv zeta.
    destruct (ec path c (from_lr1 lr name) k a) as [ca fa]. destruct (ec path c (from_lr1 lr name) (k + length fa) b) as [cb_ fb].
    destruct (bc path c (S (S (from_lr1 lr name))) (Some 1) (k + length fa + length fb) body) as [cbody fbd].
    destruct (stepc path c (S (S (from_lr1 lr name))) (k + length fa + length fb + length fbd) step) as [cs fs]. cbn [fst].
    destruct collide.
    + unfold I. rewrite resolve_snoc_CI. rewrite app_nil_r.
      eexists. eexists. split; [rewrite !app_assoc; reflexivity|discriminate].
    + eexists. exists (mkI OP_DELETE_NAME_SCOPED [from_idn lr name; lregn (S (from_lr1 lr name)); lregn (S (S (from_lr1 lr name)))]). split; [rewrite !app_assoc; reflexivity|discriminate].
  - destruct e as [e|].
    + rewrite sc_Return. destruct (ec path c lr k e) as [ce fe]. exists (map CI ce), (mkI OP_RET []). split; [reflexivity|reflexivity].
    + exists [], (mkI OP_RET []). split; reflexivity.
Qed.

Lemma bc_app : forall c lr sl l1 l2 k, fst (bc path c lr sl k (l1 ++ l2)) =
  fst (bc path c lr sl k l1) ++ fst (bc path c lr sl (k + length (snd (bc path c lr sl k l1))) l2).
Proof.
  intros c lr sl. induction l1 as [|st l1 IH]; intros l2 k.
  - cbn [app bc fst snd length]. now rewrite Nat.add_0_r.
  - cbn [app bc]. destruct (sc path c lr sl k st) as [cs fs]. specialize (IH l2 (k + length fs)).
    destruct (bc path c lr sl (k + length fs) (l1 ++ l2)) as [cl fl]. destruct (bc path c lr sl (k + length fs) l1) as [cl1 fl1].
    cbn [fst snd] in *. rewrite IH, app_length, Nat.add_assoc, app_assoc. reflexivity.
Qed.

Lemma kblock_snoc : forall l il B CD st B' rets, kblock SF il B CD (l ++ [st]) = Some (B', rets) -> exists B1 B2 r2, kstmt SF il B1 CD st = Some (B2, r2).
Proof.
  induction l as [|x l IH]; intros il B CD st B' rets H; cbn [app kblock] in H.
  - destruct (kstmt SF il B CD st) as [[B1 r1]|] eqn:E; [|discriminate]. eauto.
  - destruct (kstmt SF il B CD x) as [[B1 r1]|]; [|discriminate]. destruct (kblock SF il B1 CD (l ++ [st])) as [[B3 r3]|] eqn:E; [|discriminate]. eauto.
Qed.

Lemma bc_ends_ret : forall body B CD B' rets c lr k, kblock SF false B CD body = Some (B', rets) ->
  tailc (strip (fst (bc path c lr None k body))) = [] -> endsret body = true.
Proof.
  intros body B CD B' rets c lr k Hk Ht.
  destruct (rev body) as [|st rl] eqn:E.
  - apply (f_equal (@rev stmt)) in E. rewrite rev_involutive in E. subst body. discriminate.
  - apply (f_equal (@rev stmt)) in E. rewrite rev_involutive in E. cbn [rev] in E. subst body.
    rewrite endsret_snoc. destruct (kblock_snoc _ _ _ _ _ _ _ Hk) as (B1 & B2 & r2 & Hst).
    rewrite bc_app in Ht.
    set (k' := k + length (snd (bc path c lr None k (rev rl)))) in *.
    assert (E1 : fst (bc path c lr None k' [st]) = fst (sc path c lr None k' st)).
    { cbn [bc]. destruct (sc path c lr None k' st) as [cs fs]. cbn [fst]. now rewrite app_nil_r. }
    rewrite E1 in Ht. destruct (sc_last st B1 CD B2 r2 c lr k' Hst) as (pre & i & Es & Hl). rewrite Es, app_assoc, strip_snoc in Ht.
    cbn [strip] in Ht. rewrite tailc_snoc in Ht.
    apply Hl. destruct (op i =? OP_RET)%N eqn:Eo; [now apply N.eqb_eq|discriminate].
Qed.
End Last.

(* a body that surely ends with `return e` does not complete normally *)
Lemma last_ret_sig : forall l fuel env s env' s', last_ret l = true -> exec_block fuel env l s = SOk SigNormal env' s' -> False.
Proof.
  induction l as [|st l IH]; intros fuel env s env' s' Hl He; [discriminate Hl|].
  destruct fuel as [|fuel]; [discriminate He|]. rewrite exec_block_cons in He.
  destruct l as [|st2 l2].
  - cbn [last_ret] in Hl. destruct st as [| | | | | | | | | | | | |[e|]]; try discriminate Hl.
    destruct fuel as [|fuel]; [discriminate He|]. rewrite exec_SReturn in He.
    destruct (eval fuel env e s) as [v s1|s1|f s1|]; discriminate He.
  - destruct (Eval.exec fuel env st s) as [[| | |rv] e1 s1|f s1|]; try discriminate He.
    eapply IH; [exact Hl|exact He].
Qed.

(* ================================================================ calls *)
Section Calls.
Variable path : str.
Variable prog : program.

Local Notation vrel := (ClosRel.vrel path prog).
Local Notation heap_ok := (ClosRel.heap_ok path prog).
Local Notation clos_ok := (ClosRel.clos_ok path prog).
Local Notation installed := (ClosRel.installed prog).

(* the relation at the entry of a function: one empty scope / the fresh function frame *)
Lemma Cl_entry : forall b s g1 G cenv loc cbf selfv SF,
  heap_ok b s g1 -> out g1 = rout s -> frames_nd (frames g1) ->
  (forall x kx, In (x, kx) G -> uname0 x /\ exists c c', lookup_scopes x cenv = Some c /\ cbget cbf x = Some c' /\ b c c' kx) ->
  NoDup (map fst G) ->
  cur_ok path prog cbf loc SF b {| locals := [[]]; captured := cenv; cur := selfv |} ->
  Cl path prog allP cbf G (frames g1) loc SF b [] {| locals := [[]]; captured := cenv; cur := selfv |} s (push_frame g1 (LFun loc)).
Proof.
  intros b s g1 G cenv loc cbf selfv SF Hh Ho Hnd HG HndG Hcur.
  constructor; cbn [locals captured cur push_frame with_frames frames out cells length skipn]; try assumption; try reflexivity.
  - cbn [Rfr2]. split; [|reflexivity]. intros x Hx. cbn. exact Logic.I.
  - intros x k E. discriminate.
  - intros x k E. apply HG. clear -E. induction G as [|[y ky] t IH]; [discriminate|]. cbn [assoc] in E.
    destruct (str_eqb y x) eqn:Exy; [apply str_eqb_iff in Exy; subst y; inversion E; now left|right; now apply IH].
  - cbn. split; [intros y _ Hy; congruence|exact Logic.I].
  - constructor; [constructor|exact Hnd].
Qed.

(* binding the parameters: `arg k; store p` for each p *)
Section Params.
Variable name : str.
Variable code : list instr.
Variable cb : option (list (str * N)).
Variable CD : kctx.
Variable base : list frame.
Variable SF : sfk.
Hypothesis Hsmall : small (1 + 2 * length code + 8).
Local Notation ClA := (Cl path prog allP cb CD base name SF).

Lemma params_sim : forall ps pk vs ws k Bk acc b a g env s allws,
  code_at code (2 * k) (pcodeP k ps) -> a_ip a = 2 * k -> a_args a = allws -> a_ops a = [] ->
  (forall j w, nth_error ws j = Some w -> nth_error allws (k + j) = Some w) ->
  ClA b Bk env s g -> locals env = [acc] -> bound2 Bk env ->
  NoDup ps -> (forall x, In x ps -> ~ In x (map fst Bk)) -> forallb src_nameb ps = true ->
  vrels path prog b pk vs ws -> length ps = length pk -> small (k + length ps) -> 2 * (k + length ps) <= length code ->
  match bind_params ps vs s acc with
  | Some (sc, s') => exists a' g' env' b',
      xrun prog name code a g a' g' /\ a_ip a' = 2 * (k + length ps) /\ a_ops a' = [] /\
      ClA b' (rev (combine ps pk) ++ Bk) env' s' g' /\
      locals env' = [sc] /\ captured env' = captured env /\ cur env' = cur env /\
      bound2 (rev (combine ps pk) ++ Bk) env' /\ act_same a a' /\ a_ss a' = a_ss a /\
      bext b b' s g /\ tl (frames g') = tl (frames g) /\ keep b g g' /\ lens s s' g g'
  | None => False
  end.
Proof.
  induction ps as [|p ps IH]; intros pk vs ws k Bk acc b a g env s allws Hc Hip Hargs Hops Hnth HC El Hb Hnd Hfresh Hsrc Hvs Hlen Hsm Hend.
  - destruct pk; [|discriminate]. destruct vs; [|destruct ws; contradiction]. destruct ws; [|contradiction]. cbn [bind_params].
    exists a, g, env, b. cbn [length rev combine app] in *.
    split; [apply xrun_refl|]. split; [lia|]. split; [exact Hops|]. split; [exact HC|]. split; [exact El|]. split; [reflexivity|].
    split; [reflexivity|]. split; [exact Hb|]. split; [apply act_same_refl|]. split; [reflexivity|].
    split; [apply bext_refl|]. split; [reflexivity|]. split; [apply keep_refl|apply lens_refl].
  - destruct pk as [|k1 pk]; [discriminate|]. destruct vs as [|v vs]; [destruct ws; contradiction|]. destruct ws as [|w ws]; [contradiction|].
    cbn [vrels] in Hvs. destruct Hvs as [Hv Hvs]. cbn [length] in *. cbn [bind_params].
    cbn [forallb] in Hsrc. apply andb_true_iff in Hsrc as [Hsp Hsrc].
    apply NoDup_cons_iff in Hnd as [Hpn Hnd'].
    cbn [pcodeP] in Hc. apply code_at_cons in Hc as [Hi1 Hc]. apply code_at_cons in Hc as [Hi2 Hc].
    pose proof (src_nameb_ok p Hsp) as Hpu.
    (* arg k *)
    set (i1 := mkI OP_ARG [sN k]) in *.
    set (a1 := set_ip (set_ops a [w]) (S (a_ip a))).
    set (g1 := trc name a g i1).
    assert (R1 : xrun prog name code a g a1 g1).
    { eapply (xstep_next prog name code a g i1 _ (a_ip a) (set_ops a [w])); [reflexivity|rewrite Hip; exact Hi1| |].
      - apply dec_arg. eapply small_le; [|exact Hsm]. lia.
      - unfold exec_d. rewrite Hargs. replace k with (k + 0) at 1 by lia. rewrite (Hnth 0 w eq_refl). now rewrite Hops. }
    (* store p : the parameter is a fresh name of the function scope *)
    assert (Hpn0 : lookup_scopes p (locals env) = None).
    { destruct (lookup_scopes p (locals env)) eqn:E; [|reflexivity]. exfalso.
      apply (Hfresh p (or_introl eq_refl)). apply (bound2_in _ _ _ Hb (proj2 (proj2 Hpu))). congruence. }
    assert (HpB : assoc p Bk = None).
    { destruct (assoc p Bk) as [kk|] eqn:E; [|reflexivity]. exfalso. apply (Hfresh p (or_introl eq_refl)).
      clear -E. induction Bk as [|[y ky] t IH]; [discriminate|]. cbn [assoc map fst In] in *.
      destruct (str_eqb y p) eqn:E1; [left; now apply str_eqb_iff|right; now apply IH]. }
    set (i2 := mkI OP_STORE [p]) in *.
    set (g1t := trc name a1 g1 i2).
    assert (HC1t : ClA b Bk env s g1t) by (eapply Cl_same; [exact HC|reflexivity|reflexivity|reflexivity]).
    destruct (frames g1t) as [|f fs] eqn:Ef; [exact (False_ind _ (proj2 (Rfr2_ne _ _ _ _ (cl_fr _ _ _ _ _ _ _ _ _ _ _ _ _ HC1t)) Ef))|].
    destruct (Cl_declare path prog allP cb CD base name SF b Bk env s g1t p k1 v w acc [] f fs HC1t Hpu Hv El Ef Hpn0 HpB (trace g1t)) as [HC2 He2].
    cbv zeta in HC2, He2.
    match type of HC2 with Cl _ _ _ _ _ _ _ _ _ _ ?E ?S ?G => set (env1 := E) in *; set (s1 := S) in *; set (g2 := G) in * end.
    set (a2 := set_ip (set_ops a1 []) (S (a_ip a1))).
    assert (R2 : xrun prog name code a g a2 g2).
    { eapply xrun_trans; [exact R1|].
      eapply (xstep_next prog name code a1 g1 i2 _ (a_ip a1) (set_ops a1 [])); [reflexivity| |apply dec_store|].
      - cbn [a1 set_ip a_ip]. rewrite Hip. exact Hi2.
      - apply (exec_store p a1 g1t w g2); [reflexivity|].
        assert (Hf : find_in_function p (frames g1t) = None).
        { pose proof (Rfr2_look _ _ _ _ (cl_fr _ _ _ _ _ _ _ _ _ _ _ _ _ HC1t) p Hpu) as Hl. rewrite Hpn0 in Hl.
          destruct (find_in_function p (frames g1t)); [exact (False_ind _ (Hl Logic.I))|reflexivity]. }
        unfold store_var. rewrite Hf. unfold bind_local. rewrite Ef. reflexivity. }
    assert (Hb1 : bound2 ((p, k1) :: Bk) env1) by (eapply (bound2_declare Bk env p k1 _ acc [] env1 Hb El); [reflexivity|exact Hpu]).
    assert (Eal : alloc s v = (s1, N.of_nat (length (store s)))) by reflexivity.
    rewrite Eal.
    pose proof (IH pk vs ws (S k) ((p, k1) :: Bk) (assoc_set p (N.of_nat (length (store s))) acc)
                    (add_pair b (N.of_nat (length (store s))) (N.of_nat (length (cells g1t))) k1) a2 g2 env1 s1 allws) as IH'.
    specialize (IH' ltac:(replace (2 * S k) with (S (S (2 * k))) by lia; exact Hc)
                    ltac:(cbn [a2 a1 set_ip a_ip]; lia) Hargs eq_refl
                    ltac:(intros j w0 Hj; replace (S k + j) with (k + S j) by lia; exact (Hnth (S j) w0 Hj))
                    HC2 eq_refl Hb1 Hnd'
                    ltac:(intros x Hx [<-|Hin]; [exact (Hpn Hx)|exact (Hfresh x (or_intror Hx) Hin)])
                    Hsrc ltac:(eapply vrels_mono; [exact (proj1 He2)|exact Hvs]) ltac:(lia)
                    ltac:(eapply small_le; [|exact Hsm]; lia) ltac:(lia)).
    destruct (bind_params ps vs s1 (assoc_set p (N.of_nat (length (store s))) acc)) as [[sc s']|]; [|exact IH'].
    destruct IH' as (a' & g' & env' & b' & R' & Hip' & Hops' & HC' & El' & Ec' & Eu' & Hb' & Ha' & Hss' & He' & Ht' & Hk' & Hl').
    exists a', g', env', b'. split; [eapply xrun_trans; [exact R2|exact R']|]. split; [rewrite Hip'; lia|]. split; [exact Hops'|].
    split; [cbn [combine rev]; rewrite <- app_assoc; exact HC'|]. split; [exact El'|]. split; [exact Ec'|]. split; [exact Eu'|].
    split; [cbn [combine rev]; rewrite <- app_assoc; exact Hb'|].
    split; [destruct Ha' as (A1 & A2 & A3); repeat split; assumption|]. split; [exact Hss'|].
    assert (Hl2 : lens s s1 g g2) by (split; [cbn [s1 store]; rewrite app_length; lia|cbn [g2 cells g1t g1 trc add_trace]; rewrite app_length; lia]).
    split; [eapply bext_trans; [exact He2|exact He'|exact (proj1 Hl2)|exact (proj2 Hl2)]|].
    split; [rewrite Ht'; cbn [g2 frames tl]; change (frames g) with (frames g1t); now rewrite Ef|].
    split; [apply (keep_trans b (add_pair b (N.of_nat (length (store s))) (N.of_nat (length (cells g1t))) k1) s g g2 g'); [apply (keep_cells_app _ _ _ [w]); reflexivity|exact He2|exact Hk']|eapply lens_trans; eassumption].
Qed.
End Params.

Lemma tailc_cases : forall cb, tailc cb = [mkI OP_VOID []; mkI OP_RET []] \/ tailc cb = [].
Proof. intros cb. unfold tailc. destruct (rev cb) as [|i r]; [now left|]. destruct (op i =? OP_RET)%N; [now right|now left]. Qed.

(* ================================================================ every related closure does what call_clos does *)
Theorem call_sim_all : forall fuel, call_sim path prog fuel.
Proof.
  induction fuel as [fuel IH] using lt_wf_ind.
  intros b s g1 pk r ps body cenv loc cbf vs ws Hh Ho Hnd Hclos Hvs.
  pose proof Hclos as Hclos0.
  destruct Hclos as (G & d & lr & k & Hkf & Eloc & Hinst & HG).
  destruct Hkf as (Epk & Hndp & Hsrc & EG & Htot & B' & rets & Hkb & Hrets).
  rewrite ec_EFn in Hinst. cbv zeta in Hinst. cbn [snd] in Hinst. apply (installed_app prog) in Hinst as [Hinb Hinf].
  set (fcd := fcode path d lr k ps body) in *.
  destruct (Hinf loc (S d + lr) fcd ltac:(left; rewrite Eloc; reflexivity)) as [Hcode Hsm0].
  assert (Hsm : small (S d + 2 * length fcd + 8)) by (eapply small_le; [|exact Hsm0]; lia).
  destruct (vrels_length path prog _ _ _ _ Hvs) as [Hlv Hlw].
  assert (Hlp : length ps = length pk) by (rewrite Epk, map_length; reflexivity).
  unfold call_clos_.
  set (fv := RClos ps body cenv) in *.
  set (its := fst (bc path (S d) lr None k body)) in *.
  assert (Hits : Forall is_CI its) by (exact (bc_all_CI path _ body _ G _ (S d) lr None k Hkb)).
  set (cb0 := strip its) in *.
  assert (Efc : fcd = pcodeP 0 ps ++ cb0 ++ tailc cb0) by reflexivity.
  assert (Hlenc : length fcd = 2 * length ps + length cb0 + length (tailc cb0)).
  { rewrite Efc, !app_length, pcodeP_length. lia. }
  set (env0 := {| locals := [[]]; captured := cenv; cur := Some fv |}).
  set (a0 := act0 loc ws cbf). set (gP := push_frame g1 (LFun loc)).
  assert (HndG : NoDup (map fst G)) by (rewrite EG; apply CaptureSpec.free_vars_NoDup).
  pose proof (Cl_entry b s g1 G cenv loc cbf (Some fv) (Some (pk, r)) Hh Ho Hnd HG HndG
                ltac:(exists ps, body, cenv; split; [reflexivity|exact Hclos0])) as HC0. fold env0 gP in HC0.
  assert (Hsm1 : small (1 + 2 * length fcd + 8)) by (eapply small_le; [|exact Hsm]; lia).
  pose proof (params_sim loc fcd cbf G (frames g1) (Some (pk, r)) ps pk vs ws 0 [] [] b a0 gP env0 s ws
                ltac:(intros j i Hj; rewrite Efc; cbn [Nat.mul Nat.add]; rewrite nth_error_app1; [exact Hj|apply nth_error_Some; congruence])
                eq_refl eq_refl eq_refl ltac:(intros j w Hj; exact Hj) HC0 eq_refl
                ltac:(split; [intros x _; cbn; split; [congruence|intros []]|intros x []])
                Hndp ltac:(intros x _ []) Hsrc Hvs Hlp
                ltac:(eapply small_le; [|exact Hsm]; rewrite Hlenc; lia) ltac:(rewrite Hlenc; lia)) as Hprm.
  destruct (bind_params ps vs s []) as [[sc s1]|]; [|contradiction].
  destruct Hprm as (a1 & gq & env1 & b1 & R1 & Hip1 & Hops1 & HC1 & El1 & Ec1 & Eu1 & Hb1 & Ha1 & Hss1 & He1 & Ht1 & Hk1 & Hl1).
  rewrite app_nil_r in HC1, Hb1. cbn [Nat.add] in Hip1.
  assert (Eenv : env1 = {| locals := [sc]; captured := cenv; cur := Some fv |}) by (rewrite (fenv_eta env1), El1, Ec1, Eu1; reflexivity).
  subst env1.
  (* the body *)
  pose proof (bspec_all path prog loc fcd cbf G (frames g1) (Some (pk, r)) (S d) Hsm fuel IH allP (fun _ _ => Logic.I) (fun _ => Logic.I) body b1 (rev (combine ps pk)) lr false None 0 0 k fuel (2 * length ps)
                a1 gq {| locals := [sc]; captured := cenv; cur := Some fv |} s1 B' rets (le_n _) Hkb Hb1 Hinb) as H.
  fold its in H.
  assert (Hlits : length its = length cb0) by (unfold cb0; rewrite <- (CI_strip its Hits) at 1; apply map_length).
  rewrite Hlits in H.
  specialize (H ltac:(apply items_at_strip; [exact Hits|]; fold cb0; rewrite Efc, <- (pcodeP_length ps 0); apply code_at_embed)
                ltac:(destruct (tailc_cases cb0) as [Et|Et]; [left; rewrite Hlenc, Et; cbn [length]; lia|
                      right; split; [exact (bc_ends_ret path _ body _ G B' rets (S d) lr k Hkb Et)|rewrite Hlenc, Et; cbn [length]; lia]])
                ltac:(split; [discriminate|intros m Hm; discriminate Hm])
                ltac:(unfold lrok; eapply small_le; [|exact Hsm0]; lia)
                Hip1 ltac:(rewrite (proj2 (proj2 Ha1)); reflexivity) Hops1 ltac:(cbn [locals length]; lia) HC1).
  assert (Egp : cells gP = cells g1) by reflexivity.
  assert (Hbext : forall b' s' g', bext b1 b' s1 gq -> lens s1 s' gq g' -> bext b b' s g1).
  { intros b' s' g' E L. destruct (bext_trans _ _ _ _ _ _ _ He1 E (proj1 Hl1) (proj2 Hl1)) as [X1 X2]. split; [exact X1|].
    intros c c' k0 Hbc. destruct (X2 c c' k0 Hbc) as [H0|[H1 H2]]; [now left|right; rewrite <- Egp; auto]. }
  assert (Hkeep : forall g', keep b1 gq g' -> keep b g1 g').
  { intros g' K c' w0 Hc' Hn0. apply (keep_trans b b1 s gP gq g' Hk1 He1 K); [unfold cell_get in *; rewrite Egp; exact Hc'|exact Hn0]. }
  assert (Hlens : forall s' g', lens s1 s' gq g' -> lens s s' g1 g').
  { intros s' g' L. destruct (lens_trans _ _ _ _ _ _ Hl1 L) as [X1 X2]. split; [exact X1|rewrite <- Egp; exact X2]. }
  destruct (exec_block fuel {| locals := [sc]; captured := cenv; cur := Some fv |} body s1) as [sig env2 s2|fl s2|] eqn:Eex; [| |exact Logic.I].
  2:{ (* the body fails *)
      eapply fail_post_map; [|exact H]. intros (e & g' & Hf & Hr & Hof).
      destruct (run_fn_fail prog loc fcd ws cbf g1 e g' Hcode ltac:(eapply xrun_fail; [exact R1|exact Hf])) as [fuel' Hrun].
      exists fuel', e, g'. auto. }
  cbn [spost] in H. destruct H as [Hd2 H].
  destruct sig as [| | |[v|]].
  2:{ destruct H as (m & _ & _ & _ & Hsl & _). discriminate Hsl. }
  2:{ destruct H as (m & _ & _ & _ & Hsl & _). discriminate Hsl. }
  - (* the body completes without `return`: no value *)
    destruct H as (_ & a2 & g2 & b2 & SM2 & Hip2 & Hops2 & HC2 & _).
    split; [destruct Htot as [Ht|Ht]; [exact Ht|exfalso; exact (last_ret_sig _ _ _ _ _ _ Ht Eex)]|].
    unfold smid in SM2. destruct SM2 as (R2 & E2 & T2 & A2 & S2 & K2 & L2).
    pose proof (same_tl_length {| locals := [sc]; captured := cenv; cur := Some fv |} env2 ltac:(cbn; discriminate) Hd2) as Hl2.
    cbn [locals length] in Hl2.
    pose proof (cl_base _ _ _ _ _ _ _ _ _ _ _ _ _ HC2) as Hbase. rewrite Hl2 in Hbase.
    destruct (frames g2) as [|f2 fs2] eqn:Ef2; [exfalso; exact (proj2 (Rfr2_ne _ _ _ _ (cl_fr _ _ _ _ _ _ _ _ _ _ _ _ _ HC2)) Ef2)|].
    cbn [skipn] in Hbase. subst fs2.
    pose proof (Rfr2_drop _ _ _ _ (cl_fr _ _ _ _ _ _ _ _ _ _ _ _ _ HC2)) as Hdrop. rewrite Hl2, Ef2 in Hdrop. cbn [skipn] in Hdrop.
    assert (Hfin : forall gf, frames gf = frames g1 -> out gf = out g2 -> cells gf = cells g2 ->
              bext b b2 s g1 /\ heap_ok b2 s2 gf /\ frames gf = frames g1 /\ out gf = rout s2 /\ keep b g1 gf /\ lens s s2 g1 gf).
    { intros gf F1 F2 F3. split; [exact (Hbext _ _ _ E2 L2)|]. split; [eapply heap_ok_same; [exact (cl_heap _ _ _ _ _ _ _ _ _ _ _ _ _ HC2)|reflexivity|exact F3]|].
      split; [exact F1|]. split; [rewrite F2; exact (cl_out _ _ _ _ _ _ _ _ _ _ _ _ _ HC2)|].
      split; [intros c' w0 Hc' Hn0; unfold cell_get; rewrite F3; exact (Hkeep _ K2 c' w0 Hc' Hn0)|].
      destruct (Hlens _ _ L2) as [X1 X2]. split; [exact X1|rewrite F3; exact X2]. }
    destruct (tailc_cases cb0) as [Et|Et].
    + (* void; ret *)
      assert (Hl : exists gf, (forall f0 k0, loop rcT (run_fn f0 prog) loc fcd (S (S (S k0))) a2 g2 = RDone None gf) /\
                              frames gf = frames g1 /\ out gf = out g2 /\ cells gf = cells g2).
      { eexists. split; [intros f0 k0|].
        - cbn [loop]. rewrite Hip2, Efc, Et.
          rewrite nth_error_app2 by (rewrite pcodeP_length; lia). rewrite pcodeP_length.
          rewrite nth_error_app2 by lia. replace (2 * length ps + length cb0 - 2 * length ps - length cb0) with 0 by lia.
          cbn [nth_error]. unfold Model.exec. change (decode (mkI OP_VOID [])) with (DOk DVoid). cbn [exec_d set_ip set_ops a_ip].
          rewrite Hip2. rewrite nth_error_app2 by (rewrite pcodeP_length; lia). rewrite pcodeP_length.
          rewrite nth_error_app2 by lia.
          replace (S (2 * length ps + length cb0) - 2 * length ps - length cb0) with 1 by lia.
          cbn [nth_error]. change (decode (mkI OP_RET [])) with (DOk DRet). cbn [exec_d a_ops set_ops set_ip].
          cbn [add_trace frames]. rewrite Ef2, Hdrop. reflexivity.
        - cbn [with_frames frames out cells add_trace]. auto. }
      destruct Hl as (gf & Hl & F1 & F2 & F3).
      destruct (run_fn_finish prog loc fcd ws cbf g1 a2 g2 _ Hcode ltac:(eapply xrun_trans; [exact R1|exact R2]) Hl) as [fuel' Hrun].
      exists fuel', gf, b2. split; [exact Hrun|]. exact (Hfin gf F1 F2 F3).
    + (* the code ends here: the interpreter pops the function frame *)
      assert (Hl : forall f0 k0, loop rcT (run_fn f0 prog) loc fcd (S (S (S k0))) a2 g2 = RDone None (with_frames g2 (frames g1))).
      { intros f0 k0. cbn [loop]. rewrite Hip2, Efc, Et. rewrite app_nil_r.
        replace (nth_error (pcodeP 0 ps ++ cb0) (2 * length ps + length cb0)) with (@None instr).
        - unfold pop_frame. rewrite Ef2. reflexivity.
        - symmetry. apply nth_error_None. rewrite app_length, pcodeP_length. lia. }
      destruct (run_fn_finish prog loc fcd ws cbf g1 a2 g2 _ Hcode ltac:(eapply xrun_trans; [exact R1|exact R2]) Hl) as [fuel' Hrun].
      exists fuel', (with_frames g2 (frames g1)), b2. split; [exact Hrun|]. apply Hfin; reflexivity.
  - (* return v *)
    destruct H as (a2 & g2 & b2 & w & k1 & R2 & Hi2 & Hops2 & E2 & Hh2 & Hv2 & Hk2 & Ho2 & Hdr2 & K2 & L2).
    assert (Hl : exists gf, (forall f0 k0, loop rcT (run_fn f0 prog) loc fcd (S (S (S k0))) a2 g2 = RDone (Some w) gf) /\
                            frames gf = frames g1 /\ out gf = out g2 /\ cells gf = cells g2).
    { eexists. split; [intros f0 k0|].
      - cbn [loop]. rewrite Hi2. unfold Model.exec. change (decode (mkI OP_RET [])) with (DOk DRet). cbn [exec_d].
        rewrite Hops2. cbn [add_trace frames]. rewrite Hdr2. reflexivity.
      - cbn [with_frames frames out cells add_trace]. auto. }
    destruct Hl as (gf & Hl & F1 & F2 & F3).
    destruct (run_fn_finish prog loc fcd ws cbf g1 a2 g2 _ Hcode ltac:(eapply xrun_trans; [exact R1|exact R2]) Hl) as [fuel' Hrun].
    exists fuel', gf, b2, w. split; [exact Hrun|]. split; [exact (Hbext _ _ _ E2 L2)|].
    split; [eapply heap_ok_same; [exact Hh2|reflexivity|exact F3]|]. split; [destruct (Hrets k1 Hk2) as [<-|[-> ->]]; exact Hv2|].
    split; [exact F1|]. split; [rewrite F2; exact Ho2|].
    split; [intros c' w0 Hc' Hn0; unfold cell_get; rewrite F3; exact (Hkeep _ K2 c' w0 Hc' Hn0)|].
    destruct (Hlens _ _ L2) as [X1 X2]. split; [exact X1|rewrite F3; exact X2].
  - (* return (no value) *)
    destruct H as (a2 & g2 & b2 & R2 & Hi2 & Hops2 & E2 & Hh2 & Hk2 & Ho2 & Hdr2 & K2 & L2).
    split; [destruct (Hrets KN Hk2) as [<-|[-> _]]; reflexivity|].
    assert (Hl : exists gf, (forall f0 k0, loop rcT (run_fn f0 prog) loc fcd (S (S (S k0))) a2 g2 = RDone None gf) /\
                            frames gf = frames g1 /\ out gf = out g2 /\ cells gf = cells g2).
    { eexists. split; [intros f0 k0|].
      - cbn [loop]. rewrite Hi2. unfold Model.exec. change (decode (mkI OP_RET [])) with (DOk DRet). cbn [exec_d].
        rewrite Hops2. cbn [add_trace frames]. rewrite Hdr2. reflexivity.
      - cbn [with_frames frames out cells add_trace]. auto. }
    destruct Hl as (gf & Hl & F1 & F2 & F3).
    destruct (run_fn_finish prog loc fcd ws cbf g1 a2 g2 _ Hcode ltac:(eapply xrun_trans; [exact R1|exact R2]) Hl) as [fuel' Hrun].
    exists fuel', gf, b2. split; [exact Hrun|]. split; [exact (Hbext _ _ _ E2 L2)|].
    split; [eapply heap_ok_same; [exact Hh2|reflexivity|exact F3]|].
    split; [exact F1|]. split; [rewrite F2; exact Ho2|].
    split; [intros c' w0 Hc' Hn0; unfold cell_get; rewrite F3; exact (Hkeep _ K2 c' w0 Hc' Hn0)|].
    destruct (Hlens _ _ L2) as [X1 X2]. split; [exact X1|rewrite F3; exact X2].
Qed.
End Calls.

(* ================================================================ whole modules *)
Definition instr_eq_dec : forall a b : instr, {a = b} + {a <> b}.
Proof. decide equality; [apply (list_eq_dec (list_eq_dec N.eq_dec))|apply N.eq_dec]. Defined.
Definition code_eqb (a b : list instr) : bool := if list_eq_dec instr_eq_dec a b then true else false.
Lemma code_eqb_eq : forall a b, code_eqb a b = true -> a = b.
Proof. intros a b H. unfold code_eqb in H. destruct (list_eq_dec instr_eq_dec a b); [assumption|discriminate]. Qed.
Definition smallb2 (n : nat) : bool := (Z.of_nat n <? 10 ^ 50)%Z.
Lemma smallb2_sound : forall n, smallb2 n = true -> small n.
Proof. intros n H. unfold smallb2 in H. unfold small. now apply Z.ltb_lt. Qed.

(* every function the code defines is in the program, with that code *)
Definition installedb (prog : program) (fb : fbl) : bool :=
  forallb (fun x => match assoc (fst (fst x)) prog with Some c => code_eqb c (snd x) | None => false end &&
                    smallb2 (snd (fst x) + 2 * length (snd x) + 8)) fb.
Lemma installedb_sound : forall prog fb, installedb prog fb = true -> installed prog fb.
Proof.
  intros prog fb H n cc code Hin. unfold installedb in H. rewrite forallb_forall in H. specialize (H _ Hin). cbn [fst snd] in H.
  apply andb_true_iff in H as [H1 H2]. destruct (assoc n prog) as [c|]; [|discriminate]. apply code_eqb_eq in H1. subst c.
  split; [reflexivity|now apply smallb2_sound].
Qed.

(* the decidable fragment with first-class functions: the module is well-kinded, and the code generator's output is what
   ec / sc / bc say (checked on the program itself; Compile/ClosFrag.v comp_both shows it always is) *)
Definition in_fragment2 (path : str) (p : source) : bool :=
  match kblock None false [] [] p with
  | Some _ =>
    let prog := cprogram path p in
    let mc := strip (fst (bc path 0 0 None 0 p)) ++ [ret_mod] in
    installedb prog (snd (bc path 0 0 None 0 p)) &&
    match assoc (s_module_fn path) prog with Some c => code_eqb c mc | None => false end &&
    smallb2 (0 + 2 * length mc + 8)
  | None => false
  end.

Theorem closure_module_correct : forall path p, in_fragment2 path p = true ->
  forall fuel, snd (run fuel p) <> ROFuel -> no_claim (snd (run fuel p)) \/
  exists fuel', fst (fst (execute fuel' (cprogram path p) (s_module_fn path))) = fst (run fuel p) /\
                vm_outcome_ok (snd (run fuel p)) (snd (fst (execute fuel' (cprogram path p) (s_module_fn path)))).
Proof.
  intros path p Hin fuel Hnf. unfold in_fragment2 in Hin.
  destruct (kblock None false [] [] p) as [[B' rets]|] eqn:Hk; [|discriminate].
  set (P := cprogram path p) in *. set (name := s_module_fn path) in *.
  set (its := fst (bc path 0 0 None 0 p)) in *.
  assert (Hits : Forall is_CI its) by (exact (bc_all_CI path None p [] [] _ 0 0 None 0 Hk)).
  set (cbm := strip its) in *. set (mc := cbm ++ [ret_mod]) in *.
  cbv zeta in Hin. rewrite !andb_true_iff in Hin. destruct Hin as [[Hinst Hcode] Hsm].
  apply installedb_sound in Hinst. apply smallb2_sound in Hsm.
  destruct (assoc name P) as [c|] eqn:Ecode; [|discriminate]. apply code_eqb_eq in Hcode. subst c.
  set (b0 := (fun _ _ _ => False) : cinj).
  set (env0 := {| locals := [[]]; captured := []; cur := None |}).
  set (s0 := {| store := []; rout := [] |}).
  set (a0 := act0 name [] None). set (gP := push_frame g0 (LFun name)).
  assert (Hh0 : heap_ok path P b0 s0 g0) by (split; [intros c c' k []|intros c1 c1' k1 c2 c2' k2 []]).
  pose proof (Cl_entry path P b0 s0 g0 [] [] name None None None Hh0 eq_refl ltac:(constructor) ltac:(intros x kx []) ltac:(constructor) Logic.I) as HC0.
  fold env0 gP in HC0.
  assert (Hlits : length its = length cbm) by (unfold cbm; rewrite <- (CI_strip its Hits) at 1; apply map_length).
  pose proof (bspec_all path P name mc None [] [] None 0 Hsm fuel (fun f _ => call_sim_all path P f) allP (fun _ _ => Logic.I) (fun _ => Logic.I) p b0 [] 0 false None 0 0 0 fuel 0 a0 gP env0 s0 B' rets
                (le_n _) Hk ltac:(split; [intros x _; cbn; split; [congruence|intros []]|intros x []]) Hinst) as H.
  fold its in H. rewrite Hlits in H.
  specialize (H ltac:(apply items_at_strip; [exact Hits|]; exact (code_at_embed [] cbm [ret_mod]))
                ltac:(left; unfold mc; rewrite app_length; cbn [length]; lia)
                ltac:(split; [discriminate|intros m Hm; discriminate Hm])
                ltac:(unfold lrok; eapply small_le; [|exact Hsm]; lia)
                eq_refl eq_refl eq_refl ltac:(cbn; lia) HC0).
  cbn [Nat.add] in H.
  unfold run in *. fold env0 s0 in Hnf |- *.
  destruct (exec_block fuel env0 p s0) as [sig env' s'|f s'|]; [| |cbn in Hnf; congruence].
  - cbn [spost] in H. destruct H as [Hd H]. destruct sig as [| | |[v|]].
    2:{ destruct H as (m & _ & _ & _ & Hsl & _). discriminate Hsl. }
    2:{ destruct H as (m & _ & _ & _ & Hsl & _). discriminate Hsl. }
    + destruct H as (_ & a' & g' & b' & SM & Hip & Hops & HC & _).
      unfold smid in SM. destruct SM as (Hn & _).
      pose proof (same_tl_length env0 env' ltac:(cbn; discriminate) Hd) as Hl. cbn [env0 locals length] in Hl.
      pose proof (Rfr2_drop _ _ _ _ (cl_fr _ _ _ _ _ _ _ _ _ _ _ _ _ HC)) as Hdrop. rewrite Hl in Hdrop.
      pose proof (cl_base _ _ _ _ _ _ _ _ _ _ _ _ _ HC) as Hbase. rewrite Hl in Hbase. rewrite Hbase in Hdrop.
      destruct (xrun_loop _ _ _ _ _ _ _ Hn) as (N & n & Hloop).
      set (f0 := Nat.max N (n + 1)).
      assert (Hrun : exists tr'', run_fn (S f0) P name [] None g0 = RDone (Some VModule) {| cells := cells g'; frames := []; out := out g'; trace := tr'' |}).
      { eexists. unfold run_fn. rewrite run_fn_gen_S, Ecode.
        change (run_fn_gen (fun _ _ _ => true) f0 P) with (run_fn f0 P).
        change (fun (_ : str) (_ : nat) (_ : bool) => true) with rcT.
        replace f0 with (n + (f0 - n)) at 2 by (unfold f0; lia).
        fold a0 gP. rewrite (Hloop f0 ltac:(unfold f0; lia)).
        destruct (f0 - n) as [|k] eqn:Ek; [unfold f0 in Ek; lia|].
        cbn [loop]. rewrite Hip. unfold mc. rewrite nth_error_app2 by lia. rewrite Nat.sub_diag.
        cbn [nth_error]. unfold Model.exec. change (decode ret_mod) with (DOk DRetMod). cbn [exec_d].
        rewrite Hops. cbn [add_trace frames with_frames]. rewrite Hdrop. reflexivity. }
      destruct Hrun as (tr'' & Hrun). right.
      exists (S f0). unfold execute. fold P name. rewrite Hrun. cbn [fst snd frames out].
      split; [exact (cl_out _ _ _ _ _ _ _ _ _ _ _ _ _ HC)|exact Logic.I].
    + (* a `return` at module level ends the module *)
      destruct H as (a' & g' & b' & w & k & Hn & Hi & Hops & _ & _ & _ & _ & Ho & Hdrop & _).
      destruct (xrun_loop _ _ _ _ _ _ _ Hn) as (N & n & Hloop).
      set (f0 := Nat.max N (n + 1)).
      assert (Hrun : exists tr'', run_fn (S f0) P name [] None g0 = RDone (Some w) {| cells := cells g'; frames := []; out := out g'; trace := tr'' |}).
      { eexists. unfold run_fn. rewrite run_fn_gen_S, Ecode.
        change (run_fn_gen (fun _ _ _ => true) f0 P) with (run_fn f0 P).
        change (fun (_ : str) (_ : nat) (_ : bool) => true) with rcT.
        replace f0 with (n + (f0 - n)) at 2 by (unfold f0; lia).
        fold a0 gP. rewrite (Hloop f0 ltac:(unfold f0; lia)).
        destruct (f0 - n) as [|k1] eqn:Ek; [unfold f0 in Ek; lia|].
        cbn [loop]. rewrite Hi. unfold Model.exec. change (decode (mkI OP_RET [])) with (DOk DRet). cbn [exec_d].
        rewrite Hops. cbn [add_trace frames with_frames]. rewrite Hdrop. reflexivity. }
      destruct Hrun as (tr'' & Hrun). right.
      exists (S f0). unfold execute. fold P name. rewrite Hrun. cbn [fst snd frames out].
      split; [exact Ho|exact Logic.I].
    + (* a bare `return` at module level *)
      destruct H as (a' & g' & b' & Hn & Hi & Hops & _ & _ & _ & Ho & Hdrop & _).
      destruct (xrun_loop _ _ _ _ _ _ _ Hn) as (N & n & Hloop).
      set (f0 := Nat.max N (n + 1)).
      assert (Hrun : exists tr'', run_fn (S f0) P name [] None g0 = RDone None {| cells := cells g'; frames := []; out := out g'; trace := tr'' |}).
      { eexists. unfold run_fn. rewrite run_fn_gen_S, Ecode.
        change (run_fn_gen (fun _ _ _ => true) f0 P) with (run_fn f0 P).
        change (fun (_ : str) (_ : nat) (_ : bool) => true) with rcT.
        replace f0 with (n + (f0 - n)) at 2 by (unfold f0; lia).
        fold a0 gP. rewrite (Hloop f0 ltac:(unfold f0; lia)).
        destruct (f0 - n) as [|k1] eqn:Ek; [unfold f0 in Ek; lia|].
        cbn [loop]. rewrite Hi. unfold Model.exec. change (decode (mkI OP_RET [])) with (DOk DRet). cbn [exec_d].
        rewrite Hops. cbn [add_trace frames with_frames]. rewrite Hdrop. reflexivity. }
      destruct Hrun as (tr'' & Hrun). right.
      exists (S f0). unfold execute. fold P name. rewrite Hrun. cbn [fst snd frames out].
      split; [exact Ho|exact Logic.I].
  - cbn [spost] in H. apply fail_post_inv in H. destruct H as [[->| ->]|H]; [left; left; reflexivity|left; right; reflexivity|right].
    destruct H as (e & g' & Hn & Hr & Ho).
    destruct (run_fn_fail P name mc [] None g0 e g' Ecode Hn) as [fuel' Hrun].
    exists fuel'. unfold execute. fold P name. rewrite Hrun. cbn [fst snd]. split; [exact Ho|exact Hr].
Qed.
