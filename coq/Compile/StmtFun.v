(* C01, statement level -- part 5: FUNCTIONS.
   fun_sim      the compiled code of a closure-free function (parameters and locals only), run by run_fn,
                does what `call_clos` of the reference semantics does: same return value / no value / failure,
                every cell that existed before the call keeps its value, the caller's frames are restored
                (also on an early `return` from inside nested blocks), the printed lines agree.
   The body is any statement list of the fragment of StmtFrag.v (StmtSim.block_sim). *)
From MS Require Import Lang.Eval.
From MS Require Import Vm.Model Lang.Syntax Compile.Compile Verify.Sound Compile.ExprBase Compile.ExprSim.
From MS Require Import Compile.StmtMach Compile.StmtRel Compile.StmtFrag Compile.StmtSim.
From Coq Require Import Lia.
Open Scope nat_scope.

(* the prologue of a function: arg k; store p_k *)
Fixpoint pcodeP (k : nat) (ps : list str) : list instr :=
  match ps with [] => [] | x :: l => mkI OP_ARG [sN k] :: mkI OP_STORE [x] :: pcodeP (S k) l end.
Lemma pcodeP_length : forall ps k, length (pcodeP k ps) = 2 * length ps.
Proof. induction ps as [|x l IH]; intros k; cbn [pcodeP length]; [reflexivity|]. rewrite IH. lia. Qed.

Lemma dec_arg : forall k, small k -> decode (mkI OP_ARG [sN k]) = DOk (DArg k).
Proof.
  intros k H.
  change (decode (mkI OP_ARG [sN k])) with
    (match parse_nat (sN k) with Some n => DOk (DArg n) | None => DErr (E_bad_arg OP_ARG) end).
  now rewrite parse_nat_sN.
Qed.
Lemma dec_ret : decode (mkI OP_RET []) = DOk DRet.
Proof. reflexivity. Qed.

(* ================================================================ the activation of a closure-free function *)
Section Callee.
Variable prog : program.
Variable base : list frame.                     (* the caller's frames *)
Variable name : str.
Variable code : list instr.
Hypothesis Hsmall : small (1 + 2 * length code + 8).

Local Notation RstC := (Rst base [] [] [] (fun f : str => f) None).
Local Notation RgC := (Rg base [] [] [] (fun f : str => f) None).
Local Notation boundC := (bound_in [] []).

Lemma HL0 : forall f : str, In f [] -> In f (fnames []).
Proof. intros f []. Qed.
Lemma HF0 : forall f : str, In f (fnames []) -> uname0 f.
Proof. intros f []. Qed.
Lemma HK0 : forall f : str, In f (fnames []) <->
  assoc f ([] : list (str * (N * N * list scope * option (list (str * N))))) <> None.
Proof. intros f. cbn. split; [intros []|congruence]. Qed.

(* binding the parameters: `arg k; store p` for each p, vs bind_params *)
Lemma params_run : forall ps vs k Bk acc pins a g env s allvs,
  code_at code (2 * k) (pcodeP k ps) -> a_ip a = 2 * k -> a_args a = map inj allvs ->
  (forall j v, nth_error vs j = Some v -> nth_error allvs (k + j) = Some v) ->
  RstC pins env s a g -> locals env = [acc] -> boundC Bk env ->
  NoDup ps -> (forall x, In x ps -> ~ In x Bk) -> forallb src_nameb ps = true ->
  Forall first_order vs -> length vs = length ps -> small (k + length ps) ->
  2 * (k + length ps) <= length code ->
  match bind_params ps vs s acc with
  | Some (sc, s') => exists a' g' env',
      xrun prog name code a g a' g' /\ a_ip a' = 2 * (k + length ps) /\ RstC pins env' s' a' g' /\
      locals env' = [sc] /\ captured env' = captured env /\ cur env' = cur env /\
      boundC (rev ps ++ Bk) env' /\ act_same a a' /\ a_ss a' = a_ss a
  | None => False
  end.
Proof.
  induction ps as [|p ps IH]; intros vs k Bk acc pins a g env s allvs Hc Hip Hargs Hnth HR El Hb Hnd Hfresh Hsrc Hfo Hlen Hsm Hend.
  - destruct vs; [|discriminate]. cbn [bind_params]. exists a, g, env. cbn [length rev app] in *.
    split; [apply xrun_refl|]. split; [lia|]. split; [exact HR|]. split; [exact El|]. split; [reflexivity|].
    split; [reflexivity|]. split; [exact Hb|]. split; [apply act_same_refl|reflexivity].
  - destruct vs as [|v vs]; [discriminate|]. cbn [length] in *. cbn [bind_params].
    cbn [forallb] in Hsrc. apply Bool.andb_true_iff in Hsrc as [Hsp Hsrc].
    inversion Hnd as [|? ? Hpn Hnd']; subst. inversion Hfo as [|? ? Hfv Hfo']; subst.
    cbn [pcodeP] in Hc. apply code_at_cons in Hc as [Hi1 Hc]. apply code_at_cons in Hc as [Hi2 Hc].
    destruct HR as (HG & Hops & Hss).
    assert (Hpu : uname [] p) by (apply (uname_of_b [] p Hsp); reflexivity).
    (* arg k *)
    set (i1 := mkI OP_ARG [sN k]) in *.
    set (a1 := set_ip (set_ops a [inj v]) (S (a_ip a))).
    set (g1 := trc name a g i1).
    assert (R1 : xrun prog name code a g a1 g1).
    { eapply (xstep_next prog name code a g i1 _ (a_ip a) (set_ops a [inj v])); [reflexivity|rewrite Hip; exact Hi1| |].
      - apply dec_arg. eapply small_le; [|exact Hsm]. lia.
      - unfold exec_d. rewrite Hargs, nth_error_map, (Hnth 0 v eq_refl ltac:(idtac)) || idtac.
        rewrite Hargs, nth_error_map. replace k with (k + 0) at 1 by lia. rewrite (Hnth 0 v eq_refl). cbn [option_map].
        now rewrite Hops. }
    (* store p : the parameter is a fresh name of the function scope *)
    assert (Hpn0 : lookup_scopes p (locals env) = None).
    { destruct (lookup_scopes p (locals env)) eqn:E; [|reflexivity]. exfalso.
      destruct (proj1 (proj1 Hb p) ltac:(congruence)) as [Hin|[]]. exact (Hfresh p (or_introl eq_refl) Hin). }
    destruct (declare env s p v) as [env1 s1] eqn:Edec.
    assert (Eas : assign env s p v = (env1, s1)) by (unfold assign; rewrite Hpn0; exact Edec).
    set (i2 := mkI OP_STORE [p]) in *.
    destruct (store_rel base [] [] [] (fun f => f) None HK0 env s (trc name a1 g1 i2) p v env1 s1
                ltac:(apply Rg_trc; apply Rg_trc; exact HG) Hpu Hfv Eas) as (g2 & Hst & HG2 & Hd & Hbx & Htl).
    set (a2 := set_ip (set_ops a1 []) (S (a_ip a1))).
    assert (R2 : xrun prog name code a g a2 g2).
    { eapply xrun_trans; [exact R1|].
      eapply (xstep_next prog name code a1 g1 i2 _ (a_ip a1) (set_ops a1 [])); [reflexivity| |apply dec_store|].
      - cbn [a1 set_ip a_ip]. rewrite Hip. replace (S (2 * k)) with (S (2 * k)) by lia. exact Hi2.
      - unfold exec_d. cbn [a1 set_ip set_ops a_ops]. rewrite Hst. reflexivity. }
    assert (El1 : locals env1 = [assoc_set p (N.of_nat (length (store s))) acc] /\ captured env1 = captured env /\ cur env1 = cur env /\
                  s1 = fst (alloc s v)).
    { unfold declare, alloc in Edec. rewrite El in Edec. inversion Edec. cbn [fst]. auto. }
    destruct El1 as (El1 & Ec1 & Eu1 & Es1).
    assert (Ebp : bind_params ps vs (fst (alloc s v)) (assoc_set p (snd (alloc s v)) acc) =
                  (let '(s0, c0) := alloc s v in bind_params ps vs s0 (assoc_set p c0 acc))) by reflexivity.
    pose proof (IH vs (S k) (p :: Bk) (assoc_set p (N.of_nat (length (store s))) acc) pins a2 g2 env1 s1 allvs) as IH'.
    assert (Hb1 : boundC (p :: Bk) env1) by (eapply (bound_in_assign [] []); eassumption).
    specialize (IH' ltac:(replace (2 * S k) with (S (S (2 * k))) by lia; exact Hc)
                    ltac:(cbn [a2 a1 set_ip a_ip]; lia) Hargs
                    ltac:(intros j v0 Hj; replace (S k + j) with (k + S j) by lia; exact (Hnth (S j) v0 Hj))).
    specialize (IH' ltac:(split; [exact HG2|split; [reflexivity|]]; cbn [a2 a1 set_ip set_ops a_ss];
                          rewrite (same_tl_length _ _ ltac:(eapply Rg_ne; exact HG) Hd); exact Hss)
                    El1 Hb1 Hnd'
                    ltac:(intros x Hx [<-|Hin]; [exact (Hpn Hx)|exact (Hfresh x (or_intror Hx) Hin)])
                    Hsrc Hfo' ltac:(lia) ltac:(eapply small_le; [|exact Hsm]; lia) ltac:(lia)).
    unfold alloc at 1. cbn [fst snd]. rewrite Es1 in IH'. unfold alloc in IH'. cbn [fst] in IH'.
    destruct (bind_params ps vs {| store := store s ++ [v]; rout := rout s |} (assoc_set p (N.of_nat (length (store s))) acc)) as [[sc s']|]; [|exact IH'].
    destruct IH' as (a' & g' & env' & R' & Hip' & HR' & El' & Ec' & Eu' & Hb' & Ha' & Hss').
    exists a', g', env'. split; [eapply xrun_trans; [exact R2|exact R']|]. split; [rewrite Hip'; lia|]. split; [exact HR'|].
    split; [exact El'|]. split; [congruence|]. split; [congruence|]. split.
    { cbn [rev]. rewrite <- app_assoc. exact Hb'. }
    split; [destruct Ha' as (A1 & A2 & A3); repeat split; assumption|exact Hss'].
Qed.
End Callee.

(* ================================================================ from a run of the activation to run_fn *)
Lemma run_fn_finish : forall prog name code argv cb g a' g' R,
  assoc name prog = Some code ->
  xrun prog name code (act0 name argv cb) (push_frame g (LFun name)) a' g' ->
  (forall f0 k, loop rcT (run_fn f0 prog) name code (S (S (S k))) a' g' = R) ->
  exists fuel', run_fn fuel' prog name argv cb g = R.
Proof.
  intros prog name code argv cb g a' g' R Hc Hx Hfin.
  destruct (xrun_loop _ _ _ _ _ _ _ Hx) as (N & n & Hloop).
  set (f0 := Nat.max N (n + 3)). exists (S f0). unfold run_fn. rewrite run_fn_gen_S, Hc.
  change (run_fn_gen (fun _ _ _ => true) f0 prog) with (run_fn f0 prog).
  change (fun (_ : str) (_ : nat) (_ : bool) => true) with rcT.
  replace f0 with (n + (f0 - n)) at 2 by (unfold f0; lia). rewrite (Hloop f0 ltac:(unfold f0; lia)).
  destruct (f0 - n) as [|[|[|k]]] eqn:E; try (unfold f0 in E; lia). apply Hfin.
Qed.

Lemma run_fn_fail : forall prog name code argv cb g e g',
  assoc name prog = Some code ->
  xfail prog name code (act0 name argv cb) (push_frame g (LFun name)) e g' ->
  exists fuel', run_fn fuel' prog name argv cb g = RFail e g'.
Proof.
  intros prog name code argv cb g e g' Hc Hx.
  destruct (xfail_loop _ _ _ _ _ _ _ Hx) as (N & n & Hloop).
  set (f0 := Nat.max N n). exists (S f0). unfold run_fn. rewrite run_fn_gen_S, Hc.
  change (run_fn_gen (fun _ _ _ => true) f0 prog) with (run_fn f0 prog).
  change (fun (_ : str) (_ : nat) (_ : bool) => true) with rcT.
  replace f0 with (n + (f0 - n)) at 2 by (unfold f0; lia). apply (Hloop f0). unfold f0. lia.
Qed.

Lemma fenv_eta : forall e, e = {| locals := locals e; captured := captured e; cur := cur e |}.
Proof. intros []. reflexivity. Qed.

(* the relation at the entry of a function: one empty scope / the fresh function frame; every cell that exists is
   pinned on both sides *)
Definition call_pins (s : rstate) (g : gstate) : pinset :=
  {| vpin := fun c w => cell_get g c = Some w; spin := fun c v => sget s c = Some v |}.

Lemma Rst_entry : forall loc argv s g1 cenv fv,
  out g1 = rout s -> frames_nd (frames g1) ->
  Rst (frames g1) [] [] [] (fun f : str => f) None (call_pins s g1)
      {| locals := [[]]; captured := cenv; cur := fv |} s (act0 loc argv None) (push_frame g1 (LFun loc)).
Proof.
  intros loc argv s g1 cenv fv Ho Hnd. split; [|split; [reflexivity|cbn; lia]].
  constructor; cbn [locals captured store rout cells frames out push_frame with_frames length skipn]; try reflexivity; try assumption.
  - cbn [StmtRel.Rfr]. split; [|reflexivity]. intros x Hx. cbn. exact Logic.I.
  - intros c1 c1' c2 c2' H1. cbn in H1. destruct H1 as [(x & _ & E & _)|[]]. discriminate.
  - intros x Hx. cbn in Hx. congruence.
  - cbn. split; [intros y Hy; congruence|exact Logic.I].
  - split.
    + intros cy w Hq. split; [exact Hq|]. intros c0 Hp. cbn in Hp. destruct Hp as [(x & _ & E & _)|[]]. discriminate.
    + intros c0 v Hq. split; [exact Hq|]. intros c0' Hp. cbn in Hp. destruct Hp as [(x & _ & E & _)|[]]. discriminate.
  - constructor; [constructor|exact Hnd].
  - split; [intros cy w (f & c0 & ce & cbf & E & _); discriminate|intros c0 v (f & c0' & ce & cbf & ps & body & E & _); discriminate].
  - intros f c0 c0' ce cbf E. discriminate.
Qed.

(* ================================================================ a call of a closure-free function *)
Definition call_res (prog : program) (loc : str) (argv : list value) (cbf : option (list (str * N)))
           (s : rstate) (g1 : gstate) (r : eres) : Prop :=
  match r with
  | EVal v s' => first_order v /\ exists fuel' g2,
        run_fn fuel' prog loc argv cbf g1 = RDone (Some (inj v)) g2 /\ val_keep s s' g1 g2
  | ENoVal s' => exists fuel' g2, run_fn fuel' prog loc argv cbf g1 = RDone None g2 /\ val_keep s s' g1 g2
  | EFail fl s' => fail_post fl (exists fuel' e g2,
        run_fn fuel' prog loc argv cbf g1 = RFail e g2 /\ err_rel_s fl e /\ out g2 = rout s')
  | EFuel => True
  end.

Lemma keep_of_Rg : forall base s g1 env' s' g', Rg base [] [] [] (fun f : str => f) None (call_pins s g1) env' s' g' ->
  (forall c0 v, sget s c0 = Some v -> sget s' c0 = Some v) /\ (forall c0 w, cell_get g1 c0 = Some w -> cell_get g' c0 = Some w).
Proof.
  intros base s g1 env' s' g' HG. destruct (Rg_pins _ _ _ _ _ _ _ _ _ HG) as [H1 H2]. split.
  - intros c0 v Hv. exact (proj1 (H2 c0 v Hv)).
  - intros c0 w Hw. exact (proj1 (H1 c0 w Hw)).
Qed.

Theorem fun_sim : forall prog loc ps body tail,
  let fcode := pcodeP 0 ps ++ strip (bitems 1 0 None body) ++ tail in
  assoc loc prog = Some fcode ->
  (tail = [mkI OP_VOID []; mkI OP_RET []] \/ (tail = [] /\ ends_ret body = true)) ->
  NoDup ps -> forallb src_nameb ps = true -> ok_block [] false (rev ps) body = true ->
  small (1 + 2 * length fcode + 8) ->
  forall fuel vs s g1 cenv,
  Forall first_order vs -> length vs = length ps -> out g1 = rout s -> frames_nd (frames g1) ->
  call_res prog loc (map inj vs) None s g1 (call_clos_ fuel (RClos ps body cenv) vs s).
Proof.
  intros prog loc ps body tail fcode Hcode Htail Hnd Hsrc Hok Hsm fuel vs s g1 cenv Hfo Hlen Ho Hnd1.
  unfold call_clos_.
  set (fv := RClos ps body cenv).
  set (pinsC := call_pins s g1).
  set (env0 := {| locals := [[]]; captured := cenv; cur := Some fv |}).
  set (a0 := act0 loc (map inj vs) None). set (gP := push_frame g1 (LFun loc)).
  pose proof (Rst_entry loc (map inj vs) s g1 cenv (Some fv) Ho Hnd1) as HR0. fold pinsC env0 a0 gP in HR0.
  assert (Hlenc : length fcode = 2 * length ps + length (strip (bitems 1 0 None body)) + length tail).
  { unfold fcode. rewrite !app_length, pcodeP_length. lia. }
  assert (Hpar : 2 * (0 + length ps) <= length fcode) by lia.
  (* the parameters *)
  assert (Hprm : match bind_params ps vs s [] with
                 | Some (sc, s') => exists a' g' env',
                     xrun prog loc fcode a0 gP a' g' /\ a_ip a' = 2 * length ps /\
                     Rst (frames g1) [] [] [] (fun f : str => f) None pinsC env' s' a' g' /\
                     locals env' = [sc] /\ captured env' = cenv /\ cur env' = Some fv /\
                     bound_in [] [] (rev ps) env' /\ act_same a0 a'
                 | None => False end).
  { pose proof (params_run prog (frames g1) loc fcode ps vs 0 [] [] pinsC a0 gP env0 s vs
                    ltac:(intros j i Hj; unfold fcode; cbn [Nat.mul Nat.add]; rewrite nth_error_app1; [exact Hj|apply nth_error_Some; congruence])
                    eq_refl eq_refl ltac:(intros j v Hj; exact Hj) HR0 eq_refl
                    ltac:(split; [intros x; cbn; split; [congruence|intros [[]|[]]]|intros x []])
                    Hnd ltac:(intros x _ []) Hsrc Hfo Hlen
                    ltac:(eapply small_le; [|exact Hsm]; rewrite Hlenc; lia) Hpar) as H.
    destruct (bind_params ps vs s []) as [[sc s']|]; [|exact H].
    destruct H as (a' & g' & env' & R & Hip & HR & El & Ec & Eu & Hb & Ha & _).
    exists a', g', env'. rewrite app_nil_r in Hb. cbn [Nat.add] in Hip. auto 10. }
  destruct (bind_params ps vs s []) as [[sc s1]|]; [|contradiction].
  destruct Hprm as (a1 & gq & env1 & R1 & Hip1 & HR1 & El1 & Ec1 & Eu1 & Hb1 & Ha1).
  assert (Eenv : env1 = {| locals := [sc]; captured := cenv; cur := Some fv |}) by (rewrite (fenv_eta env1), El1, Ec1, Eu1; reflexivity).
  subst env1.
  (* the body *)
  pose proof (cblock_correct (frames g1) [] [] [] (fun f => f) None HL0 HF0 HK0 [] body (rev ps) Hok 1
                {| fid := 0; lreg := 0; fbuf := [] |} pinsC prog loc (pcodeP 0 ps) tail a1 gq {| locals := [sc]; captured := cenv; cur := Some fv |} s1 fuel) as H.
  cbv zeta in H. rewrite (cblockT_ok [] 1 body [] false (rev ps) None _ Hok) in H. cbn [fst lreg] in H. fold fcode in H.
  rewrite pcodeP_length in H.
  specialize (H ltac:(destruct Htail as [->|[-> He]]; [left; discriminate|right; exact He]) Hsm Hip1
                ltac:(rewrite (proj2 (proj2 Ha1)); reflexivity) HR1 Hb1
                ltac:(intros fuel' _ f ps0 body0 c0 c0' ce cbf vs0 s0 g0 E; discriminate)).
  destruct (exec_block fuel {| locals := [sc]; captured := cenv; cur := Some fv |} body s1) as [sig env2 s2|fl s2|];
    cbn [call_res]; [| |exact Logic.I].
  2:{ (* the body fails *)
      eapply fail_post_map; [|exact H]. intros (e & g' & Hf & Hr & Hof).
      destruct (run_fn_fail prog loc fcode (map inj vs) None g1 e g' Hcode ltac:(eapply xrun_fail; [exact R1|exact Hf])) as [fuel' Hrun].
      exists fuel', e, g'. auto. }
  destruct sig as [| | |[v|]]; try contradiction.
  - (* the body completes without `return`: no value *)
    destruct H as (a2 & g2 & R2 & Hip2 & (HG2 & Hops2 & Hss2) & Ha2 & Hd2 & _ & _).
    pose proof (same_tl_length {| locals := [sc]; captured := cenv; cur := Some fv |} env2 ltac:(cbn; discriminate) Hd2) as Hl2.
    cbn [locals length] in Hl2.
    pose proof (Rg_base _ _ _ _ _ _ _ _ _ HG2) as Hbase. rewrite Hl2 in Hbase.
    destruct (keep_of_Rg _ _ _ _ _ _ HG2) as [Ks Kc].
    destruct (frames g2) as [|f2 fs2] eqn:Ef2; [exfalso; exact (proj2 (Rfr_ne _ _ _ _ (Rg_fr _ _ _ _ _ _ _ _ _ HG2)) Ef2)|].
    cbn [skipn] in Hbase. subst fs2.
    pose proof (Rg_drop _ _ _ _ _ _ _ _ _ HG2) as Hdrop. rewrite Ef2 in Hdrop.
    assert (Hkeep : forall gf, frames gf = frames g1 -> out gf = out g2 -> cells gf = cells g2 -> val_keep s s2 g1 gf).
    { intros gf F1 F2 F3. split; [exact F1|]. split; [rewrite F2; exact (Rg_out _ _ _ _ _ _ _ _ _ HG2)|]. split; [exact Ks|].
      intros c0 w Hw. unfold cell_get. rewrite F3. exact (Kc c0 w Hw). }
    destruct Htail as [->|[-> Her]].
    + (* void; ret *)
      assert (Hl : exists gf, (forall f0 k, loop rcT (run_fn f0 prog) loc fcode (S (S (S k))) a2 g2 = RDone None gf) /\
                              frames gf = frames g1 /\ out gf = out g2 /\ cells gf = cells g2).
      { eexists. split; [intros f0 k|].
        - cbn [loop]. rewrite Hip2. unfold fcode.
          rewrite nth_error_app2 by (rewrite pcodeP_length; lia). rewrite pcodeP_length.
          rewrite nth_error_app2 by lia. replace (2 * length ps + length (strip (bitems 1 0 None body)) - 2 * length ps - length (strip (bitems 1 0 None body))) with 0 by lia.
          cbn [nth_error]. unfold Model.exec. change (decode (mkI OP_VOID [])) with (DOk DVoid). cbn [exec_d set_ip set_ops a_ip].
          rewrite Hip2. rewrite nth_error_app2 by (rewrite pcodeP_length; lia). rewrite pcodeP_length.
          rewrite nth_error_app2 by lia.
          replace (S (2 * length ps + length (strip (bitems 1 0 None body))) - 2 * length ps - length (strip (bitems 1 0 None body))) with 1 by lia.
          cbn [nth_error]. change (decode (mkI OP_RET [])) with (DOk DRet). cbn [exec_d a_ops set_ops set_ip].
          cbn [add_trace frames]. rewrite Ef2, Hdrop. reflexivity.
        - cbn [with_frames frames out cells add_trace]. auto. }
      destruct Hl as (gf & Hl & F1 & F2 & F3).
      destruct (run_fn_finish prog loc fcode (map inj vs) None g1 a2 g2 _ Hcode ltac:(eapply xrun_trans; [exact R1|exact R2]) Hl) as [fuel' Hrun].
      exists fuel', gf. split; [exact Hrun|]. apply Hkeep; assumption.
    + (* the code ends here: the interpreter pops the function frame *)
      assert (Hl : forall f0 k, loop rcT (run_fn f0 prog) loc fcode (S (S (S k))) a2 g2 = RDone None (with_frames g2 (frames g1))).
      { intros f0 k. cbn [loop]. rewrite Hip2. unfold fcode. rewrite app_nil_r.
        replace (nth_error (pcodeP 0 ps ++ strip (bitems 1 0 None body)) (2 * length ps + length (strip (bitems 1 0 None body)))) with (@None instr).
        - unfold pop_frame. rewrite Ef2. reflexivity.
        - symmetry. apply nth_error_None. rewrite app_length, pcodeP_length. lia. }
      destruct (run_fn_finish prog loc fcode (map inj vs) None g1 a2 g2 _ Hcode ltac:(eapply xrun_trans; [exact R1|exact R2]) Hl) as [fuel' Hrun].
      exists fuel'. eexists. split; [exact Hrun|]. apply Hkeep; reflexivity.
  - (* return v *)
    destruct H as (env3 & a2 & g2 & R2 & Hi2 & Hops2 & Hfov & HG2 & Ha2). split; [exact Hfov|].
    destruct (keep_of_Rg _ _ _ _ _ _ HG2) as [Ks Kc].
    pose proof (Rg_drop _ _ _ _ _ _ _ _ _ HG2) as Hdrop.
    assert (Hl : exists gf, (forall f0 k, loop rcT (run_fn f0 prog) loc fcode (S (S (S k))) a2 g2 = RDone (Some (inj v)) gf) /\
                            frames gf = frames g1 /\ out gf = out g2 /\ cells gf = cells g2).
    { eexists. split; [intros f0 k|].
      - cbn [loop]. rewrite Hi2. unfold Model.exec. change (decode (mkI OP_RET [])) with (DOk DRet). cbn [exec_d].
        rewrite Hops2. cbn [add_trace frames]. rewrite Hdrop. reflexivity.
      - cbn [with_frames frames out cells add_trace]. auto. }
    destruct Hl as (gf & Hl & F1 & F2 & F3).
    destruct (run_fn_finish prog loc fcode (map inj vs) None g1 a2 g2 _ Hcode ltac:(eapply xrun_trans; [exact R1|exact R2]) Hl) as [fuel' Hrun].
    exists fuel', gf. split; [exact Hrun|]. split; [exact F1|]. split; [rewrite F2; exact (Rg_out _ _ _ _ _ _ _ _ _ HG2)|]. split; [exact Ks|].
    intros c0 w Hw. unfold cell_get. rewrite F3. exact (Kc c0 w Hw).
Qed.

(* ================================================================ the code generator on a function literal *)
Section FnCode.
Variable path : str.

Definition ftail (cb : list citem) : list citem := if ends_in_ret cb then [] else [I OP_VOID []; I OP_RET []].

Lemma cexpr_EFn_eq : forall d ps body st, cexpr path d (EFn ps body) st =
  (let '(cb, st) := cblockT path (S d) None body st in
   let name := fn_name path (fid st) in
   ([I OP_MAKE_FUNCTION (name :: free_vars ps body)],
    {| fid := S (fid st); lreg := lreg st;
       fbuf := fbuf st ++ [(name, strip (map CI (pcodeP 0 ps) ++ cb ++ ftail cb))] |})).
Proof.
  intros d ps body st.
  change (cexpr path d (EFn ps body) st) with
    (let '(cb, st) :=
       (fix cbody (l : list stmt) (st : cst) {struct l} : list citem * cst :=
          match l with
          | [] => ([], st)
          | s :: l => let '(cs, st) := cstmt path (S d) None s st in
                      let '(cl, st) := cbody l st in (cs ++ cl, st)
          end) body st in
     let cb := if ends_in_ret cb then cb else cb ++ [I OP_VOID []; I OP_RET []] in
     let name := fn_name path (fid st) in
     ([I OP_MAKE_FUNCTION (name :: free_vars ps body)],
      {| fid := S (fid st); lreg := lreg st;
         fbuf := fbuf st ++ [(name, strip ((fix cparams (k : nat) (l : list str) : list citem :=
                                              match l with [] => [] | x :: l => I OP_ARG [sN k] :: I OP_STORE [x] :: cparams (S k) l end) 0 ps ++ cb))] |})).
  assert (E1 : forall l st0,
            (fix cbody (l : list stmt) (st : cst) {struct l} : list citem * cst :=
               match l with
               | [] => ([], st)
               | s :: l => let '(cs, st) := cstmt path (S d) None s st in
                           let '(cl, st) := cbody l st in (cs ++ cl, st)
               end) l st0 = cblockT path (S d) None l st0).
  { induction l as [|s l IH]; intros st0; [reflexivity|]. cbn [cblockT]. destruct (cstmt path (S d) None s st0) as [cs st1].
    rewrite IH. reflexivity. }
  assert (E2 : forall l k,
            (fix cparams (k : nat) (l : list str) : list citem :=
               match l with [] => [] | x :: l => I OP_ARG [sN k] :: I OP_STORE [x] :: cparams (S k) l end) k l
            = map CI (pcodeP k l)).
  { induction l as [|x l IH]; intros k; [reflexivity|]. cbn [pcodeP map]. rewrite IH. reflexivity. }
  rewrite E1, E2. destruct (cblockT path (S d) None body st) as [cb st1]. cbv zeta. unfold ftail.
  destruct (ends_in_ret cb); [now rewrite app_nil_r|reflexivity].
Qed.
End FnCode.

(* ================================================================ `ends_in_ret` of the compiler vs the source *)
Definition ret_item (it : citem) : bool := match it with CI i => (op i =? OP_RET)%N | _ => false end.

Lemma resolve_snoc_CI : forall F S l idx i, resolve F S idx (l ++ [CI i]) = resolve F S idx l ++ [CI i].
Proof.
  intros F S. induction l as [|it l IH]; intros idx i; [reflexivity|].
  destruct it; cbn [app resolve]; now rewrite IH.
Qed.

Lemma sitems_snoc : forall FT il B c lr sl st, ok_stmt FT il B st = true ->
  exists pre last, sitems c lr sl st = pre ++ [last] /\ (ret_item last = true -> is_ret st = true).
Proof.
  intros FT il B c lr sl st H. destruct st; try discriminate.
  - eexists. eexists. split; [cbn [sitems]; reflexivity|discriminate].
  - exists (map CI (pcode (S c) e) ++ [I OP_BIN_OP_ASSIGN [binop_sym o ++ [61%N]; x]]), (I OP_VOID []).
    split; [cbn [sitems]; now rewrite <- app_assoc|discriminate].
  - exists (map CI (xcode c e) ++ [I OP_PRINTN [s_star]]), (I OP_VOID []).
    split; [cbn [sitems]; now rewrite <- app_assoc|discriminate].
  - eexists. eexists. split; [cbn [sitems]; reflexivity|discriminate].
  - eexists. eexists. split; [cbn [sitems]; reflexivity|discriminate].
  - rewrite sitems_SIf. cbv zeta. eexists. exists (I OP_DONE []). split; [|discriminate].
    rewrite !app_assoc. reflexivity.
  - rewrite sitems_SIfElse. cbv zeta. eexists. exists (I OP_DONE []). split; [|discriminate].
    rewrite app_comm_cons. rewrite !app_assoc. reflexivity.
  - rewrite sitems_SIfElif. cbv zeta. eexists. exists (I OP_DONE []). split; [|discriminate].
    rewrite app_comm_cons. rewrite !app_assoc. reflexivity.
  - rewrite sitems_SWhile. cbv zeta.
    match goal with |- context [resolve ?F0 ?S0 ?i0 (?l0 ++ [I ?o0 ?a0])] =>
      change (resolve F0 S0 i0 (l0 ++ [I o0 a0])) with (resolve F0 S0 i0 (l0 ++ [CI (mkI o0 a0)])) end.
    rewrite resolve_snoc_CI. eexists. eexists. split; [rewrite !app_assoc; reflexivity|discriminate].
  - destruct name as [x|]; [|discriminate]. destruct collide; [discriminate|]. rewrite sitems_SFrom. cbv zeta.
    eexists. exists (I OP_DELETE_NAME_SCOPED [x; lregn (S lr)]). split; [|discriminate].
    rewrite !app_assoc. reflexivity.
  - exists [], (CBrk (match sl with Some n => n | None => 0 end)). split; [reflexivity|discriminate].
  - exists [], (CCont (match sl with Some n => n | None => 0 end)). split; [reflexivity|discriminate].
  - destruct e as [e|]; [|discriminate]. eexists. eexists. split; [cbn [sitems]; reflexivity|reflexivity].
Qed.

Lemma ends_ret_snoc : forall l st, ends_ret (l ++ [st]) = is_ret st.
Proof.
  induction l as [|x l IH]; intros st; [reflexivity|]. cbn [app]. destruct l as [|y l]; [reflexivity|].
  change (ends_ret (x :: (y :: l) ++ [st])) with (ends_ret ((y :: l) ++ [st])). apply IH.
Qed.
Lemma bitems_app : forall c lr sl l1 l2, bitems c lr sl (l1 ++ l2) = bitems c lr sl l1 ++ bitems c lr sl l2.
Proof. induction l1 as [|x l IH]; intros l2; [reflexivity|]. cbn [app bitems]. now rewrite IH, app_assoc. Qed.
Lemma ok_block_snoc : forall FT il B l st, ok_block FT il B (l ++ [st]) = true -> exists B', ok_stmt FT il B' st = true.
Proof.
  intros FT il. intros B l. revert B. induction l as [|x l IH]; intros B st H; cbn [app ok_block] in H.
  - apply Bool.andb_true_iff in H as [H _]. eauto.
  - apply Bool.andb_true_iff in H as [_ H]. eauto.
Qed.

Lemma ends_in_ret_body : forall FT B c lr body, ok_block FT false B body = true ->
  ends_in_ret (bitems c lr None body) = true -> ends_ret body = true.
Proof.
  intros FT B c lr body Hok H.
  destruct (rev body) as [|st rl] eqn:E.
  - apply (f_equal (@rev stmt)) in E. rewrite rev_involutive in E. subst body. discriminate.
  - apply (f_equal (@rev stmt)) in E. rewrite rev_involutive in E. cbn [rev] in E. subst body.
    rewrite ends_ret_snoc. destruct (ok_block_snoc _ _ _ _ _ Hok) as [B' Hst].
    destruct (sitems_snoc FT false B' c lr None st Hst) as (pre & last & Es & Hl). apply Hl.
    rewrite bitems_app in H. cbn [bitems] in H. rewrite app_nil_r, Es, app_assoc in H.
    unfold ends_in_ret in H. rewrite rev_app_distr in H. cbn [rev app] in H. destruct last; [exact H|discriminate|discriminate].
Qed.

(* ================================================================ modules: function definitions, then the main code *)
Definition def_stmt (d : str * (list str * list stmt)) : stmt := SAssign (fst d) (EFn (fst (snd d)) (snd (snd d))).

(* the compiled code of a function *)
Definition fcode_of (ps : list str) (body : list stmt) : list instr :=
  pcodeP 0 ps ++ strip (bitems 1 0 None body) ++ strip (ftail (bitems 1 0 None body)).

(* every function of the table is closure-free and in the fragment *)
Definition fn_ok (d : str * (list str * list stmt)) : Prop :=
  let '(f, (ps, body)) := d in
  src_nameb f = true /\ NoDup ps /\ forallb src_nameb ps = true /\ ok_block [] false (rev ps) body = true /\
  free_vars ps body = [] /\ small (1 + 2 * length (fcode_of ps body) + 8).

Section Module.
Variable path : str.

Fixpoint dfbuf (k : nat) (FT : ftab) : list (str * list instr) :=
  match FT with [] => [] | (f, (ps, body)) :: t => (fn_name path k, fcode_of ps body) :: dfbuf (S k) t end.
Fixpoint dcode (k : nat) (FT : ftab) : list instr :=
  match FT with [] => [] | (f, _) :: t => mkI OP_MAKE_FUNCTION [fn_name path k] :: mkI OP_STORE [f] :: dcode (S k) t end.

Lemma dcode_length : forall FT k, length (dcode k FT) = 2 * length FT.
Proof. induction FT as [|[f r] t IH]; intros k; cbn [dcode length]; [reflexivity|]. rewrite IH. lia. Qed.

Lemma cstmt_SAssign : forall c sl x e st, cstmt path c sl (SAssign x e) st =
  let '(ce, st) := cexpr path c e st in (ce ++ [I OP_STORE [x]], st).
Proof. reflexivity. Qed.

Lemma cblock0_defs : forall FT main st, Forall fn_ok FT -> lreg st = 0 ->
  cblock0 path (map def_stmt FT ++ main) st =
  (let '(cm, st') := cblock0 path main {| fid := fid st + length FT; lreg := 0; fbuf := fbuf st ++ dfbuf (fid st) FT |} in
   (map CI (dcode (fid st) FT) ++ cm, st')).
Proof.
  induction FT as [|[f [ps body]] t IH]; intros main st HF Hlr.
  - cbn [map app dfbuf dcode length]. rewrite Nat.add_0_r, app_nil_r. destruct st as [fi lr fb]. cbn [lreg fid fbuf] in *. subst lr.
    destruct (cblock0 path main {| fid := fi; lreg := 0; fbuf := fb |}); reflexivity.
  - pose proof (Forall_inv HF) as (Hf & Hnd & Hsrc & Hok & Hfv & Hsm). pose proof (Forall_inv_tail HF) as HF'.
    cbn [map app cblock0]. unfold def_stmt at 1. cbn [fst snd]. rewrite cstmt_SAssign, cexpr_EFn_eq.
    rewrite (cblockT_ok path 1 body [] false (rev ps) None st Hok). rewrite Hlr. cbv zeta.
    rewrite Hfv. rewrite IH by (try exact HF'; reflexivity). cbn [fid lreg fbuf].
    replace (fid st + length ((f, (ps, body)) :: t)) with (S (fid st) + length t) by (cbn [length]; lia).
    cbn [dfbuf dcode map]. unfold fcode_of. rewrite !strip_app, strip_map_CI. rewrite <- !app_assoc. cbn [app].
    destruct (cblock0 path main _); reflexivity.
Qed.
End Module.

(* ================================================================ executing the definitions *)
Fixpoint dscope (k : nat) (FT : ftab) : scope :=
  match FT with [] => [] | (f, _) :: t => (f, N.of_nat k) :: dscope (S k) t end.
Fixpoint dcells (path : str) (k : nat) (FT : ftab) : list value :=
  match FT with [] => [] | _ :: t => VFun (fn_name path k) None :: dcells path (S k) t end.

Lemma dscope_app : forall P k d, dscope k (P ++ [d]) = dscope k P ++ [(fst d, N.of_nat (k + length P))].
Proof.
  induction P as [|[f r] t IH]; intros k [f0 r0]; cbn [app dscope length fst].
  - now rewrite Nat.add_0_r.
  - rewrite IH. cbn [fst]. replace (S k + length t) with (k + S (length t)) by lia. reflexivity.
Qed.
Lemma dcells_app : forall path P k d, dcells path k (P ++ [d]) = dcells path k P ++ [VFun (fn_name path (k + length P)) None].
Proof.
  intros path. induction P as [|x t IH]; intros k d; cbn [app dcells length].
  - now rewrite Nat.add_0_r.
  - rewrite IH. replace (S k + length t) with (k + S (length t)) by lia. reflexivity.
Qed.
Lemma dcells_length : forall path P k, length (dcells path k P) = length P.
Proof. intros path. induction P as [|x t IH]; intros k; cbn [dcells length]; [reflexivity|now rewrite IH]. Qed.
Lemma assoc_dscope_none : forall f P k, ~ In f (fnames P) -> assoc f (dscope k P) = (None : option N).
Proof.
  intros f. induction P as [|[f0 r] t IH]; intros k H; [reflexivity|]. cbn [dscope assoc fnames map fst In] in *.
  rewrite str_eqb_neq by (intros ->; apply H; now left). apply IH. intros Hin. apply H. now right.
Qed.
Lemma assoc_dscope_nth : forall P k i d, NoDup (fnames P) -> nth_error P i = Some d ->
  assoc (fst d) (dscope k P) = Some (N.of_nat (k + i)).
Proof.
  induction P as [|[f0 r] t IH]; intros k i d Hnd Hi; [destruct i; discriminate|].
  cbn [fnames map fst] in Hnd. inversion Hnd as [|? ? Hn Hnd']; subst. destruct i as [|i].
  - cbn in Hi. inversion Hi; subst d. cbn [dscope assoc fst]. rewrite str_eqb_refl, Nat.add_0_r. reflexivity.
  - cbn [nth_error] in Hi. cbn [dscope assoc].
    assert (Hne : f0 <> fst d).
    { intros ->. apply Hn. unfold fnames. apply in_map. eapply nth_error_In. exact Hi. }
    rewrite str_eqb_neq by exact Hne. rewrite (IH (S k) i d Hnd' Hi). f_equal. lia.
Qed.

Section Defs.
Variable path : str.
Variable prog : program.
Variable name : str.
Variable code : list instr.

(* the state after the definitions P have been executed *)
Record dinv (P : ftab) (env : fenv) (s : rstate) (a : act) (g : gstate) : Prop := {
  di_loc : locals env = [dscope 0 P];
  di_cap : captured env = [];
  di_len : length (store s) = length P;
  di_clo : forall i f ps body, nth_error P i = Some (f, (ps, body)) ->
           nth_error (store s) i = Some (RClos ps body [dscope 0 (firstn i P)]);
  di_rout : rout s = [];
  di_fr : frames g = [{| lab := LFun name; vars := dscope 0 P |}];
  di_cells : cells g = dcells path 0 P;
  di_out : out g = [];
  di_ops : a_ops a = [];
  di_ip : a_ip a = 2 * length P;
  di_cb : a_cb a = None;
  di_ss : a_ss a = 0
}.

Lemma dec_make_function1 : forall loc, decode (mkI OP_MAKE_FUNCTION [loc]) = DOk (DMakeFunction loc []).
Proof. reflexivity. Qed.

Lemma defs_run : forall Q P env s a g main fuel,
  NoDup (fnames (P ++ Q)) -> code_at code (2 * length P) (dcode path (length P) Q) ->
  dinv P env s a g ->
  exists env' s' a' g', xrun prog name code a g a' g' /\ dinv (P ++ Q) env' s' a' g' /\ act_same a a' /\
    (exec_block fuel env (map def_stmt Q ++ main) s = SFuel \/
     exists fuel0, exec_block fuel env (map def_stmt Q ++ main) s = exec_block fuel0 env' main s').
Proof.
  induction Q as [|[f [ps body]] Q IH]; intros P env s a g main fuel Hnd Hc Hinv.
  - exists env, s, a, g. rewrite app_nil_r. split; [apply xrun_refl|]. split; [exact Hinv|]. split; [apply act_same_refl|].
    right. exists fuel. reflexivity.
  - cbn [dcode] in Hc. apply code_at_cons in Hc as [Hi1 Hc]. apply code_at_cons in Hc as [Hi2 Hc].
    destruct Hinv as [Hloc Hcap Hlen Hclo Hro Hfr Hce Hou Hops Hip Hcb Hss].
    assert (Hfn : ~ In f (fnames P)).
    { unfold fnames in *. rewrite map_app in Hnd. cbn [map fst] in Hnd. apply NoDup_remove_2 in Hnd.
      intros Hin. apply Hnd. apply in_or_app. now left. }
    (* the reference semantics *)
    set (fv := RClos ps body ([dscope 0 P] ++ [])).
    set (env1 := {| locals := [dscope 0 P ++ [(f, N.of_nat (length (store s)))]]; captured := captured env; cur := cur env |}).
    set (s1 := {| store := store s ++ [fv]; rout := rout s |}).
    assert (Hex : forall fu, Eval.exec (S (S fu)) env (def_stmt (f, (ps, body))) s = SOk SigNormal env1 s1).
    { intros fu. unfold def_stmt. cbn [fst snd]. rewrite exec_SAssign.
      change (eval (S fu) env (EFn ps body) s) with (EVal (RClos ps body (locals env ++ captured env)) s).
      rewrite Hloc, Hcap. unfold assign. rewrite Hloc. cbn [lookup_scopes]. rewrite (assoc_dscope_none f P 0 Hfn).
      unfold declare, alloc. rewrite Hloc. rewrite assoc_set_absent by (apply assoc_dscope_none; exact Hfn). reflexivity. }
    (* the machine: make_function, store *)
    set (i1 := mkI OP_MAKE_FUNCTION [fn_name path (length P)]) in *.
    set (a1 := set_ip (set_ops a [VFun (fn_name path (length P)) None]) (S (a_ip a))).
    set (g1 := trc name a g i1).
    assert (R1 : xrun prog name code a g a1 g1).
    { eapply (xstep_next prog name code a g i1 _ (a_ip a) (set_ops a [VFun (fn_name path (length P)) None]));
        [reflexivity|rewrite Hip; exact Hi1|apply dec_make_function1|]. cbn [exec_d]. now rewrite Hops. }
    set (i2 := mkI OP_STORE [f]) in *.
    set (g1t := trc name a1 g1 i2).
    set (g2 := {| cells := cells g ++ [VFun (fn_name path (length P)) None];
                  frames := [{| lab := LFun name; vars := dscope 0 P ++ [(f, N.of_nat (length (cells g)))] |}];
                  out := out g; trace := trace g1t |}).
    set (a2 := set_ip (set_ops a1 []) (S (a_ip a1))).
    assert (R2 : xrun prog name code a g a2 g2).
    { eapply xrun_trans; [exact R1|].
      eapply (xstep_next prog name code a1 g1 i2 _ (a_ip a1) (set_ops a1 [])); [reflexivity| |apply dec_store|].
      - cbn [a1 set_ip a_ip]. rewrite Hip. exact Hi2.
      - unfold exec_d. cbn [a1 set_ip set_ops a_ops]. unfold store_var. fold g1t. change (frames g1t) with (frames g). rewrite Hfr.
        cbn [find_in_function vars lab special]. rewrite (assoc_dscope_none f P 0 Hfn).
        unfold bind_local. change (frames g1t) with (frames g). rewrite Hfr. cbn [cell_new with_frames cells frames out trace lab vars].
        rewrite assoc_set_absent by (apply assoc_dscope_none; exact Hfn). reflexivity. }
    assert (Hinv2 : dinv (P ++ [(f, (ps, body))]) env1 s1 a2 g2).
    { constructor; cbn [env1 s1 g2 a2 a1 locals captured store rout frames cells out set_ip set_ops a_ops a_ip a_cb a_ss].
      - rewrite dscope_app, Hlen. reflexivity.
      - exact Hcap.
      - rewrite !app_length. cbn [length]. lia.
      - intros i f0 ps0 body0 Hi. destruct (Nat.lt_ge_cases i (length P)) as [Hlt|Hge].
        + rewrite nth_error_app1 in Hi by exact Hlt. rewrite nth_error_app1 by lia.
          rewrite firstn_app. replace (i - length P) with 0 by lia. cbn [firstn]. rewrite app_nil_r. exact (Hclo i f0 ps0 body0 Hi).
        + rewrite nth_error_app2 in Hi by exact Hge. destruct (i - length P) as [|j] eqn:Ej; [|destruct j; discriminate].
          cbn in Hi. inversion Hi; subst f0 ps0 body0. rewrite nth_error_app2 by lia.
          replace (i - length (store s)) with 0 by lia. assert (i = length P) by lia. subst i.
          rewrite firstn_app, Nat.sub_diag, firstn_all. cbn [firstn nth_error fv app]. rewrite app_nil_r. reflexivity.
      - exact Hro.
      - rewrite dscope_app. cbn [fst Nat.add]. rewrite Hce, dcells_length. reflexivity.
      - rewrite dcells_app, Hce. reflexivity.
      - exact Hou.
      - reflexivity.
      - rewrite Hip, app_length. cbn [length]. lia.
      - exact Hcb.
      - exact Hss. }
    destruct (IH (P ++ [(f, (ps, body))]) env1 s1 a2 g2 main (pred fuel)) as (env' & s' & a' & g' & R' & Hinv' & Ha' & Hexb).
    + now rewrite <- app_assoc.
    + rewrite app_length. cbn [length]. replace (2 * (length P + 1)) with (S (S (2 * length P))) by lia.
      replace (length P + 1) with (S (length P)) by lia. exact Hc.
    + exact Hinv2.
    + exists env', s', a', g'. split; [eapply xrun_trans; [exact R2|exact R']|]. split; [now rewrite <- app_assoc in Hinv'|].
      split; [destruct Ha' as (A1 & A2 & A3); repeat split; assumption|].
      cbn [map app]. destruct fuel as [|[|[|fu]]]; [left; reflexivity|left; reflexivity|left; reflexivity|].
      rewrite exec_block_cons, Hex. exact Hexb.
Qed.
End Defs.

(* ================================================================ the function table of a module *)
Fixpoint findex (f : str) (FT : ftab) : nat :=
  match FT with [] => 0 | d :: t => if str_eqb (fst d) f then 0 else S (findex f t) end.
Fixpoint dfc (pre : ftab) (FT : ftab) : list (str * (N * N * list scope * option (list (str * N)))) :=
  match FT with
  | [] => []
  | d :: t => (fst d, (N.of_nat (length pre), N.of_nat (length pre), [dscope 0 pre], None)) :: dfc (pre ++ [d]) t
  end.

Lemma dfc_assoc : forall FT pre f x, assoc f (dfc pre FT) = Some x ->
  exists ps body, nth_error FT (findex f FT) = Some (f, (ps, body)) /\ assoc f FT = Some (ps, body) /\
    x = (N.of_nat (length pre + findex f FT), N.of_nat (length pre + findex f FT),
         [dscope 0 (pre ++ firstn (findex f FT) FT)], None).
Proof.
  induction FT as [|[f0 [ps0 body0]] t IH]; intros pre f x H; [discriminate|].
  cbn [dfc assoc fst findex] in *. destruct (str_eqb f0 f) eqn:E.
  - apply str_eqb_iff in E. subst f0. injection H as <-. exists ps0, body0. cbn [nth_error firstn].
    rewrite Nat.add_0_r, app_nil_r. repeat split.
  - destruct (IH _ _ _ H) as (ps & body & H1 & H2 & H3). exists ps, body. cbn [nth_error firstn]. split; [exact H1|]. split; [exact H2|].
    rewrite H3. rewrite app_length, <- app_assoc. cbn [length app]. replace (length pre + 1 + findex f t) with (length pre + S (findex f t)) by lia.
    reflexivity.
Qed.
Lemma dfc_none : forall FT pre f, In f (fnames FT) <-> assoc f (dfc pre FT) <> None.
Proof.
  induction FT as [|[f0 r] t IH]; intros pre f; cbn [fnames map fst In dfc assoc].
  - split; [intros []|congruence].
  - destruct (str_eqb f0 f) eqn:E.
    + apply str_eqb_iff in E. subst f0. split; [congruence|now left].
    + split.
      * intros [->|H]; [rewrite str_eqb_refl in E; discriminate|]. now apply IH.
      * intros H. right. exact (proj2 (IH _ _) H).
Qed.
Lemma dscope_keys : forall FT k, map fst (dscope k FT) = fnames FT.
Proof. induction FT as [|[f r] t IH]; intros k; cbn [dscope map fst fnames]; [reflexivity|]. f_equal. apply IH. Qed.
Lemma assoc_dscope_in : forall FT k x, assoc x (dscope k FT) <> None <-> In x (fnames FT).
Proof.
  induction FT as [|[f r] t IH]; intros k x; cbn [dscope assoc fnames map fst In].
  - split; [congruence|intros []].
  - destruct (str_eqb f x) eqn:E.
    + apply str_eqb_iff in E. subst x. split; [now left|congruence].
    + split.
      * intros H. right. exact (proj1 (IH _ _) H).
      * intros [->|H]; [rewrite str_eqb_refl in E; discriminate|]. now apply IH.
Qed.
Lemma dcells_nth : forall path FT k i, i < length FT -> nth_error (dcells path k FT) i = Some (VFun (fn_name path (k + i)) None).
Proof.
  intros path. induction FT as [|d t IH]; intros k i Hi; cbn [length] in Hi; [lia|]. destruct i as [|i]; cbn [dcells nth_error].
  - now rewrite Nat.add_0_r.
  - rewrite IH by lia. do 3 f_equal. lia.
Qed.
Lemma findex_nth : forall FT f d, nth_error FT (findex f FT) = Some d -> findex f FT < length FT.
Proof. intros FT f d H. apply nth_error_Some. congruence. Qed.

(* names of compiled functions are pairwise different, and different from the module's *)
Lemma fn_name_inj : forall path a b, small a -> small b -> fn_name path a = fn_name path b -> a = b.
Proof.
  intros path a b Ha Hb E. unfold fn_name in E. apply app_inv_head in E. apply app_inv_head in E. now apply sN_inj.
Qed.
Lemma fn_name_module : forall path k, fn_name path k <> s_module_fn path.
Proof.
  intros path k E. unfold fn_name, s_module_fn in E. apply app_inv_head in E. discriminate.
Qed.
Lemma assoc_dfbuf : forall path FT k i f ps body rest, small (k + length FT) ->
  nth_error FT i = Some (f, (ps, body)) -> assoc (fn_name path (k + i)) (dfbuf path k FT ++ rest) = Some (fcode_of ps body).
Proof.
  intros path. induction FT as [|[f0 [ps0 body0]] t IH]; intros k i f ps body rest Hs Hi; [destruct i; discriminate|].
  cbn [length] in Hs. destruct i as [|i]; cbn [nth_error] in Hi; cbn [dfbuf app assoc].
  - inversion Hi; subst. now rewrite Nat.add_0_r, str_eqb_refl.
  - assert (Hl : i < length t) by (apply nth_error_Some; congruence).
    rewrite str_eqb_neq.
    + replace (k + S i) with (S k + i) by lia. apply (IH (S k) i f ps body rest); [|exact Hi].
      eapply small_le; [|exact Hs]. lia.
    + intros E. apply fn_name_inj in E; [lia| |]; eapply small_le; try exact Hs; lia.
Qed.
Lemma assoc_dfbuf_module : forall path FT k mc, assoc (s_module_fn path) (dfbuf path k FT ++ [(s_module_fn path, mc)]) = Some mc.
Proof.
  intros path. induction FT as [|[f0 [ps0 body0]] t IH]; intros k mc; cbn [dfbuf app assoc].
  - now rewrite str_eqb_refl.
  - rewrite str_eqb_neq by (intros E; exact (fn_name_module _ _ E)). apply IH.
Qed.

(* ================================================================ after the definitions: the statement relation holds *)
Definition mfloc (path : str) (FT : ftab) (f : str) : str := fn_name path (findex f FT).

Lemma no_pairs_defs : forall FT name c c',
  ~ StmtRel.pairs (fnames FT) [dscope 0 FT] [{| lab := LFun name; vars := dscope 0 FT |}] c c'.
Proof.
  intros FT name c c' H. cbn [StmtRel.pairs] in H. destruct H as [(x & Hx & E & _)|[]].
  cbn [lookup_scopes] in E. rewrite assoc_dscope_none in E by exact (uname_nfun x Hx). discriminate.
Qed.

Lemma Rst_defs : forall path name FT env s a g,
  NoDup (fnames FT) -> dinv path name FT env s a g ->
  Rst [] FT (fnames FT) (dfc [] FT) (mfloc path FT) None no_pins env s a g /\ bound_in FT (fnames FT) [] env.
Proof.
  intros path name FT env s a g Hnd [Hloc Hcap Hlen Hclo Hro Hfr Hce Hou Hops Hip Hcb Hss].
  split; [split; [|split; [exact Hops|rewrite Hloc, Hss; cbn; lia]]|].
  - constructor; rewrite ?Hloc, ?Hfr, ?Hcap, ?Hce.
    + cbn [StmtRel.Rfr]. split; [|reflexivity]. intros x Hx. cbn [lookup_scopes find_in_function vars lab special].
      rewrite assoc_dscope_none by exact (uname_nfun x Hx). exact Logic.I.
    + intros c1 c1' c2 c2' H1. exfalso. exact (no_pairs_defs _ _ _ _ H1).
    + now rewrite Hou, Hro.
    + reflexivity.
    + intros x Hx. right. cbn [lookup_scopes] in Hx. apply (assoc_dscope_in FT 0 x).
      destruct (assoc x (dscope 0 FT)); [congruence|exact Hx].
    + cbn [NS lookup_scopes]. split; [intros; reflexivity|exact Logic.I].
    + split; intros ? ? [].
    + constructor; [|constructor]. cbn [vars]. unfold keys_nd. now rewrite dscope_keys.
    + split.
      * intros cy w (f & c0 & ce & cbf & E & ->). destruct (dfc_assoc _ _ _ _ E) as (ps & body & H1 & H2 & H3).
        inversion H3; subst. cbn [length Nat.add]. rewrite Nat2N.id. split; [|intros c; apply no_pairs_defs].
        rewrite dcells_nth by (eapply findex_nth; exact H1). reflexivity.
      * intros c0 v (f & c0' & ce & cbf & ps & body & E & E2 & ->). destruct (dfc_assoc _ _ _ _ E) as (ps' & body' & H1 & H2 & H3).
        rewrite H2 in E2. inversion E2; subst ps' body'. inversion H3; subst. cbn [length Nat.add app]. rewrite Nat2N.id.
        split; [|intros c; apply no_pairs_defs]. exact (Hclo _ _ _ _ H1).
    + intros f c0 c0' ce cbf E k Hk. cbn [length] in Hk. assert (k = 0) by lia. subst k. cbn [skipn app].
      destruct (dfc_assoc _ _ _ _ E) as (ps & body & H1 & H2 & H3). inversion H3; subst. cbn [length Nat.add].
      pose proof (assoc_dscope_nth FT 0 _ _ Hnd H1) as Ha. cbn [fst Nat.add] in Ha.
      unfold lookup_fs. cbn [lookup_scopes find_in_function vars]. rewrite Ha. split; reflexivity.
  - split; [|intros x []]. intros x. rewrite Hloc. cbn [lookup_scopes]. split.
    + intros H. right. apply (assoc_dscope_in FT 0 x). destruct (assoc x (dscope 0 FT)); [congruence|exact H].
    + intros [[]|H]. apply (assoc_dscope_in FT 0 x) in H. destruct (assoc x (dscope 0 FT)); [congruence|exact H].
Qed.

Lemma strip_ftail : forall cb, strip (ftail cb) = [mkI OP_VOID []; mkI OP_RET []] \/ (strip (ftail cb) = [] /\ ends_in_ret cb = true).
Proof. intros cb. unfold ftail. destruct (ends_in_ret cb); [right; split; reflexivity|left; reflexivity]. Qed.

Lemma call_ok_defs : forall path FT prog fuel, Forall fn_ok FT ->
  (forall i f ps body, nth_error FT i = Some (f, (ps, body)) -> assoc (fn_name path i) prog = Some (fcode_of ps body)) ->
  call_ok FT (dfc [] FT) (mfloc path FT) prog fuel.
Proof.
  intros path FT prog fuel HF Hprog f ps body c0 c0' cenv cbf vs s g1 Ef Ec Hvs Hlen Ho Hnd _.
  destruct (dfc_assoc _ _ _ _ Ec) as (ps' & body' & H1 & H2 & H3). rewrite H2 in Ef. inversion Ef; subst ps' body'.
  inversion H3; subst. clear H3.
  pose proof (proj1 (Forall_forall _ _) HF _ (nth_error_In _ _ H1)) as (Hf & Hndp & Hsrc & Hok & Hfv & Hsm).
  pose proof (fun_sim prog (mfloc path FT f) ps body (strip (ftail (bitems 1 0 None body)))) as HS. cbv zeta in HS.
  fold (fcode_of ps body) in HS. specialize (HS (Hprog _ _ _ _ H1)).
  assert (Ht : strip (ftail (bitems 1 0 None body)) = [mkI OP_VOID []; mkI OP_RET []] \/
               (strip (ftail (bitems 1 0 None body)) = [] /\ ends_ret body = true)).
  { destruct (strip_ftail (bitems 1 0 None body)) as [H|[H H']]; [now left|right]. split; [exact H|].
    exact (ends_in_ret_body [] (rev ps) 1 0 body Hok H'). }
  specialize (HS Ht Hndp Hsrc Hok Hsm fuel vs s g1 [dscope 0 ([] ++ firstn (findex f FT) FT)] Hvs Hlen Ho Hnd).
  unfold call_res in HS. exact HS.
Qed.

Section ModuleFun.
Variable path : str.

Definition fmodule (FT : ftab) (main : list stmt) : source := map def_stmt FT ++ main.
Definition fmodule_code (FT : ftab) (main : list stmt) : list instr :=
  dcode path 0 FT ++ strip (bitems 0 0 None main) ++ [ret_mod].

Lemma cprogram_fmodule : forall FT main, Forall fn_ok FT -> ok_block FT false [] main = true ->
  cprogram path (fmodule FT main) = dfbuf path 0 FT ++ [(s_module_fn path, fmodule_code FT main)].
Proof.
  intros FT main HF Hok. unfold cprogram, fmodule. rewrite (cblock0_defs path FT main {| fid := 0; lreg := 0; fbuf := [] |} HF eq_refl). cbn [fid fbuf lreg app Nat.add].
  rewrite cblock0_eq, (cblockT_ok path 0 main FT false [] None _ Hok). cbn [lreg fbuf].
  rewrite strip_app, strip_map_CI. unfold fmodule_code. now rewrite <- app_assoc.
Qed.

(* C01 for modules that define closure-free functions first and then call them (in expression position) from the
   module's own code, at any nesting depth *)
Theorem module_fun_correct : forall FT main,
  Forall fn_ok FT -> NoDup (fnames FT) -> ok_block FT false [] main = true ->
  small (2 * length (fmodule_code FT main) + 8) ->
  let p := fmodule FT main in
  forall fuel, snd (run fuel p) <> ROFuel -> no_claim (snd (run fuel p)) \/
  exists fuel', fst (fst (execute fuel' (cprogram path p) (s_module_fn path))) = fst (run fuel p) /\
                vm_outcome_ok (snd (run fuel p)) (snd (fst (execute fuel' (cprogram path p) (s_module_fn path)))).
Proof.
  intros FT main HF Hnd Hok Hsm p fuel Hnf.
  set (name := s_module_fn path).
  set (P := cprogram path p).
  set (mc := fmodule_code FT main).
  assert (EP : P = dfbuf path 0 FT ++ [(name, mc)]) by (apply cprogram_fmodule; assumption).
  assert (Ecode : assoc name P = Some mc) by (rewrite EP; apply assoc_dfbuf_module).
  assert (HlenFT : small (length FT)).
  { eapply small_le; [|exact Hsm]. unfold fmodule_code. rewrite app_length, dcode_length. lia. }
  assert (Hprog : forall i f ps body, nth_error FT i = Some (f, (ps, body)) -> assoc (fn_name path i) P = Some (fcode_of ps body)).
  { intros i f ps body Hi. rewrite EP. exact (assoc_dfbuf path FT 0 i f ps body _ HlenFT Hi). }
  set (env0 := {| locals := [[]]; captured := []; cur := None |}).
  set (s0 := {| store := []; rout := [] |}).
  set (a0 := act0 name [] None).
  set (g00 := push_frame g0 (LFun name)).
  assert (Hd0 : dinv path name [] env0 s0 a0 g00).
  { constructor; try reflexivity. intros i f ps body Hi. destruct i; discriminate. }
  destruct (defs_run path P name mc FT [] env0 s0 a0 g00 main fuel) as (env1 & s1 & a1 & g1 & R1 & Hd1 & Ha1 & Hex).
  { exact Hnd. }
  { unfold mc, fmodule_code. cbn [length Nat.mul]. exact (code_at_embed [] (dcode path 0 FT) _). }
  { exact Hd0. }
  cbn [app] in Hd1.
  unfold run in *. fold env0 s0 in Hnf |- *. change (map def_stmt FT ++ main) with p in Hex.
  destruct Hex as [Hex|[fuel0 Hex]]; [rewrite Hex in Hnf; cbn in Hnf; congruence|].
  rewrite Hex in *. clear Hex.
  destruct (Rst_defs path name FT env1 s1 a1 g1 Hnd Hd1) as [HR HB].
  assert (Hf0 : forall f, In f (fnames FT) -> uname0 f).
  { intros f Hin. unfold fnames in Hin. apply in_map_iff in Hin as ([f' [ps body]] & <- & Hin).
    exact (src_nameb_ok _ (proj1 (proj1 (Forall_forall _ _) HF _ Hin))). }
  pose proof (cblock_correct [] FT (fnames FT) (dfc [] FT) (mfloc path FT) None (fun f H => H) Hf0 (dfc_none FT [])
                path main [] Hok 0 {| fid := 0; lreg := 0; fbuf := [] |} no_pins P name (dcode path 0 FT) [ret_mod]
                a1 g1 env1 s1 fuel0) as H.
  cbv zeta in H. rewrite (cblockT_ok path 0 main FT false [] None _ Hok) in H. cbn [fst lreg] in H.
  fold (fmodule_code FT main) in H. fold mc in H.
  specialize (H ltac:(left; discriminate) Hsm ltac:(rewrite (di_ip _ _ _ _ _ _ _ Hd1), dcode_length; reflexivity)
                (di_cb _ _ _ _ _ _ _ Hd1) HR HB
                ltac:(intros fuel' _; apply call_ok_defs; assumption)).
  set (fin := length (dcode path 0 FT) + length (strip (bitems 0 0 None main))) in *.
  destruct (exec_block fuel0 env1 main s1) as [sig env' s'|f s'|]; [| |cbn in Hnf; congruence].
  - destruct sig as [| | |[v|]]; try contradiction.
    2:{ destruct H as (env'' & a' & g' & Hn & Hi & Hops & Hfo & HG & Ha).
      pose proof (xrun_trans _ _ _ _ _ _ _ _ _ R1 Hn) as Hn0.
      pose proof (Rg_drop _ _ _ _ _ _ _ _ _ HG) as Hdrop.
      destruct (xrun_loop _ _ _ _ _ _ _ Hn0) as (N & n & Hloop).
      set (f0 := Nat.max N (n + 1)).
      set (gf := with_frames (add_trace g' (name, N.of_nat (a_ip a'), op (mkI OP_RET []), N.of_nat (length (frames g')),
                                            N.of_nat (length [inj v]))) []).
      assert (Hrun : run_fn (S f0) P name [] None g0 = RDone (Some (inj v)) gf).
      { unfold run_fn. rewrite run_fn_gen_S, Ecode.
        change (run_fn_gen (fun _ _ _ => true) f0 P) with (run_fn f0 P).
        change (fun (_ : str) (_ : nat) (_ : bool) => true) with rcT.
        replace f0 with (n + (f0 - n)) at 2 by (unfold f0; lia).
        fold a0 g00. rewrite (Hloop f0 ltac:(unfold f0; lia)).
        destruct (f0 - n) as [|k] eqn:Ek; [unfold f0 in Ek; lia|].
        cbn [loop]. rewrite Hi. unfold Model.exec. change (decode (mkI OP_RET [])) with (DOk DRet). cbn [exec_d].
        rewrite Hops. cbn [add_trace frames]. rewrite Hdrop. reflexivity. }
      right. exists (S f0). unfold execute. fold P name. rewrite Hrun. cbn [fst snd gf with_frames frames out add_trace].
      split; [exact (Rg_out _ _ _ _ _ _ _ _ _ HG)|exact Logic.I]. }
    destruct H as (a' & g' & Hn & Hip & (HG & Hops & Hss) & Ha & Hd).
    pose proof (xrun_trans _ _ _ _ _ _ _ _ _ R1 Hn) as Hn0.
    destruct Hd as (Hd & HB' & _).
    assert (Hl1 : locals env1 = [dscope 0 FT]) by exact (di_loc _ _ _ _ _ _ _ Hd1).
    pose proof (same_tl_length env1 env' ltac:(rewrite Hl1; discriminate) Hd) as Hl. rewrite Hl1 in Hl. cbn [length] in Hl.
    pose proof (Rg_base _ _ _ _ _ _ _ _ _ HG) as Hbase. rewrite Hl in Hbase.
    pose proof (Rg_fr _ _ _ _ _ _ _ _ _ HG) as Hfr.
    destruct (locals env') as [|sc [|sc' l']]; cbn [length] in Hl; try discriminate.
    destruct g' as [cs' fs' o' tr']. cbn [frames out] in *.
    destruct fs' as [|f fs]; [cbn in Hfr; contradiction|]. cbn [skipn] in Hbase. subst fs.
    cbn [StmtRel.Rfr] in Hfr. destruct Hfr as [_ Hsp].
    destruct (xrun_loop _ _ _ _ _ _ _ Hn0) as (N & n & Hloop).
    set (f0 := Nat.max N (n + 1)).
    assert (Hrun : exists tr'', run_fn (S f0) P name [] None g0
                   = RDone (Some VModule) {| cells := cs'; frames := []; out := o'; trace := tr'' |}).
    { eexists. unfold run_fn. rewrite run_fn_gen_S, Ecode.
      change (run_fn_gen (fun _ _ _ => true) f0 P) with (run_fn f0 P).
      change (fun (_ : str) (_ : nat) (_ : bool) => true) with rcT.
      replace f0 with (n + (f0 - n)) at 2 by (unfold f0; lia).
      fold a0 g00. rewrite (Hloop f0 ltac:(unfold f0; lia)).
      destruct (f0 - n) as [|k] eqn:Ek; [unfold f0 in Ek; lia|].
      cbn [loop]. rewrite Hip. unfold mc, fmodule_code at 1. rewrite app_assoc, nth_error_app2 by (rewrite app_length; fold fin; lia).
      rewrite app_length. fold fin. rewrite Nat.sub_diag.
      cbn [nth_error]. unfold Model.exec. change (decode ret_mod) with (DOk DRetMod). cbn [exec_d].
      rewrite Hops. cbn [add_trace frames with_frames drop_to_function cells out trace]. rewrite Hsp. reflexivity. }
    destruct Hrun as [tr'' Hrun]. right.
    exists (S f0). unfold execute. fold P name. rewrite Hrun. cbn [fst snd frames out].
    split; [exact (Rg_out _ _ _ _ _ _ _ _ _ HG)|exact Logic.I].
  - apply fail_post_inv in H. destruct H as [[->| ->]|H]; [left; left; reflexivity|left; right; reflexivity|right].
    destruct H as (e & g' & Hn & Hr & Ho).
    pose proof (xrun_fail _ _ _ _ _ _ _ _ _ R1 Hn) as Hn0.
    destruct (xfail_loop _ _ _ _ _ _ _ Hn0) as (N & n & Hloop).
    assert (Hrun : run_fn (S (Nat.max N n)) P name [] None g0 = RFail e g').
    { unfold run_fn. rewrite run_fn_gen_S, Ecode.
      change (run_fn_gen (fun _ _ _ => true) (Nat.max N n) P) with (run_fn (Nat.max N n) P).
      change (fun (_ : str) (_ : nat) (_ : bool) => true) with rcT.
      replace (Nat.max N n) with (n + (Nat.max N n - n)) at 2 by lia.
      apply (Hloop (Nat.max N n)). lia. }
    exists (S (Nat.max N n)). unfold execute. fold P name. rewrite Hrun.
    cbn [fst snd]. split; [exact Ho|exact Hr].
Qed.
End ModuleFun.
