(* C01, statement level -- part 5: FUNCTIONS.
   fun_sim      the compiled code of a closure-free function (parameters and locals only), run by run_fn,
                does what `call_clos` of the reference semantics does: same return value / no value / failure,
                every cell that existed before the call keeps its value, the caller's frames are restored
                (also on an early `return` from inside nested blocks), the printed lines agree.
   The body is any statement list of the fragment of StmtFrag.v (StmtSim.block_sim). *)
From MS Require Import Lang.Eval.
From MS Require Import Vm.Model Lang.Syntax Compile.Compile Verify.Sound Compile.ExprBase Compile.ExprSim.
From MS Require Import Compile.StmtMach Compile.StmtRel Compile.StmtFrag Compile.StmtSim.
From Coq Require Import Lia.
Open Scope nat_scope.

(* the prologue of a function: arg k; store p_k *)
Fixpoint pcodeP (k : nat) (ps : list str) : list instr :=
  match ps with [] => [] | x :: l => mkI OP_ARG [sN k] :: mkI OP_STORE [x] :: pcodeP (S k) l end.
Lemma pcodeP_length : forall ps k, length (pcodeP k ps) = 2 * length ps.
Proof. induction ps as [|x l IH]; intros k; cbn [pcodeP length]; [reflexivity|]. rewrite IH. lia. Qed.

Lemma dec_arg : forall k, small k -> decode (mkI OP_ARG [sN k]) = DOk (DArg k).
Proof.
  intros k H.
  change (decode (mkI OP_ARG [sN k])) with
    (match parse_nat (sN k) with Some n => DOk (DArg n) | None => DErr (E_bad_arg OP_ARG) end).
  now rewrite parse_nat_sN.
Qed.
Lemma dec_ret : decode (mkI OP_RET []) = DOk DRet.
Proof. reflexivity. Qed.

(* ================================================================ the activation of a closure-free function *)
(* ================================================================ from a run of the activation to run_fn *)
Lemma run_fn_finish : forall prog name code argv cb g a' g' R,
  assoc name prog = Some code ->
  xrun prog name code (act0 name argv cb) (push_frame g (LFun name)) a' g' ->
  (forall f0 k, loop rcT (run_fn f0 prog) name code (S (S (S k))) a' g' = R) ->
  exists fuel', run_fn fuel' prog name argv cb g = R.
Proof.
  intros prog name code argv cb g a' g' R Hc Hx Hfin.
  destruct (xrun_loop _ _ _ _ _ _ _ Hx) as (N & n & Hloop).
  set (f0 := Nat.max N (n + 3)). exists (S f0). unfold run_fn. rewrite run_fn_gen_S, Hc.
  change (run_fn_gen (fun _ _ _ => true) f0 prog) with (run_fn f0 prog).
  change (fun (_ : str) (_ : nat) (_ : bool) => true) with rcT.
  replace f0 with (n + (f0 - n)) at 2 by (unfold f0; lia). rewrite (Hloop f0 ltac:(unfold f0; lia)).
  destruct (f0 - n) as [|[|[|k]]] eqn:E; try (unfold f0 in E; lia). apply Hfin.
Qed.

Lemma run_fn_fail : forall prog name code argv cb g e g',
  assoc name prog = Some code ->
  xfail prog name code (act0 name argv cb) (push_frame g (LFun name)) e g' ->
  exists fuel', run_fn fuel' prog name argv cb g = RFail e g'.
Proof.
  intros prog name code argv cb g e g' Hc Hx.
  destruct (xfail_loop _ _ _ _ _ _ _ Hx) as (N & n & Hloop).
  set (f0 := Nat.max N n). exists (S f0). unfold run_fn. rewrite run_fn_gen_S, Hc.
  change (run_fn_gen (fun _ _ _ => true) f0 prog) with (run_fn f0 prog).
  change (fun (_ : str) (_ : nat) (_ : bool) => true) with rcT.
  replace f0 with (n + (f0 - n)) at 2 by (unfold f0; lia). apply (Hloop f0). unfold f0. lia.
Qed.

Lemma fenv_eta : forall e, e = {| locals := locals e; captured := captured e; cur := cur e |}.
Proof. intros []. reflexivity. Qed.

(* the relation at the entry of a function: one empty scope / the fresh function frame; every cell that exists is
   pinned on both sides *)
Definition call_pins (s : rstate) (g : gstate) : pinset :=
  {| vpin := fun c w => cell_get g c = Some w; spin := fun c v => sget s c = Some v |}.


Lemma HL0 : forall (FT : ftab) (f : str), In f [] -> In f (fnames FT).
Proof. intros FT f []. Qed.

(* the pins of a table of function cells *)
Definition fpins_of (FT : ftab) (fcells : list (str * (N * N * list scope * option (list (str * N))))) (floc : str -> str) : pinset :=
  {| vpin := fun c' w => exists f c cenv cbf, assoc f fcells = Some (c, c', cenv, cbf) /\ w = VFun (floc f) cbf;
     spin := fun c v => exists f c' cenv cbf ps body, assoc f fcells = Some (c, c', cenv, cbf) /\
                                                     assoc f FT = Some (ps, body) /\ v = RClos ps body cenv |}.

Section Callee.
Variable prog : program.
(* the functions the callee sees (through its captured environment / its callback cells) *)
Variable FT : ftab.
Variable fcells : list (str * (N * N * list scope * option (list (str * N)))).
Variable floc : str -> str.
Hypothesis Hfun0 : forall f, In f (fnames FT) -> uname0 f.
Hypothesis Hfck : forall f, In f (fnames FT) <-> assoc f fcells <> None.
Variable cbf : option (list (str * N)).     (* the callee's captured cells *)
Variable selfv : option rvalue.
Variable name : str.
(* the data variables the callee captures (name -> source cell) *)
Variable cdsc : scope.

Section Entry.
Variable fpins : pinset.

Section Params.
Variable base : list frame.                     (* the caller's frames *)
Variable code : list instr.
Hypothesis Hsmall : small (1 + 2 * length code + 8).

Local Notation RstC := (Rst base FT [] fcells cbf selfv name fpins cdsc []).
Local Notation boundC := (bound_in FT []).

(* binding the parameters: `arg k; store p` for each p, vs bind_params *)
Lemma params_run : forall ps vs k Bk acc pins a g env s allvs,
  code_at code (2 * k) (pcodeP k ps) -> a_ip a = 2 * k -> a_args a = map inj allvs ->
  (forall j v, nth_error vs j = Some v -> nth_error allvs (k + j) = Some v) ->
  RstC pins env s a g -> locals env = [acc] -> boundC Bk env ->
  NoDup ps -> (forall x, In x ps -> ~ In x Bk) -> forallb src_nameb ps = true ->
  (forall x, In x ps -> ~ In x (fnames FT)) ->
  Forall first_order vs -> length vs = length ps -> small (k + length ps) ->
  2 * (k + length ps) <= length code ->
  match bind_params ps vs s acc with
  | Some (sc, s') => exists a' g' env',
      xrun prog name code a g a' g' /\ a_ip a' = 2 * (k + length ps) /\ RstC pins env' s' a' g' /\
      locals env' = [sc] /\ captured env' = captured env /\ cur env' = cur env /\
      boundC (rev ps ++ Bk) env' /\ act_same a a' /\ a_ss a' = a_ss a
  | None => False
  end.
Proof.
  induction ps as [|p ps IH]; intros vs k Bk acc pins a g env s allvs Hc Hip Hargs Hnth HR El Hb Hnd Hfresh Hsrc Hnf Hfo Hlen Hsm Hend.
  - destruct vs; [|discriminate]. cbn [bind_params]. exists a, g, env. cbn [length rev app] in *.
    split; [apply xrun_refl|]. split; [lia|]. split; [exact HR|]. split; [exact El|]. split; [reflexivity|].
    split; [reflexivity|]. split; [exact Hb|]. split; [apply act_same_refl|reflexivity].
  - destruct vs as [|v vs]; [discriminate|]. cbn [length] in *. cbn [bind_params].
    cbn [forallb] in Hsrc. apply Bool.andb_true_iff in Hsrc as [Hsp Hsrc].
    inversion Hnd as [|? ? Hpn Hnd']; subst. inversion Hfo as [|? ? Hfv Hfo']; subst.
    cbn [pcodeP] in Hc. apply code_at_cons in Hc as [Hi1 Hc]. apply code_at_cons in Hc as [Hi2 Hc].
    destruct HR as (HG & Hops & Hss).
    assert (Hpu : uname (fnames FT) p).
    { apply (uname_of_b FT p Hsp). destruct (mem_str p (fnames FT)) eqn:Em; [|reflexivity].
      exfalso. exact (Hnf p (or_introl eq_refl) (mem_str_In _ _ Em)). }
    (* arg k *)
    set (i1 := mkI OP_ARG [sN k]) in *.
    set (a1 := set_ip (set_ops a [inj v]) (S (a_ip a))).
    set (g1 := trc name a g i1).
    assert (R1 : xrun prog name code a g a1 g1).
    { eapply (xstep_next prog name code a g i1 _ (a_ip a) (set_ops a [inj v])); [reflexivity|rewrite Hip; exact Hi1| |].
      - apply dec_arg. eapply small_le; [|exact Hsm]. lia.
      - unfold exec_d. rewrite Hargs, nth_error_map, (Hnth 0 v eq_refl ltac:(idtac)) || idtac.
        rewrite Hargs, nth_error_map. replace k with (k + 0) at 1 by lia. rewrite (Hnth 0 v eq_refl). cbn [option_map].
        now rewrite Hops. }
    (* store p : the parameter is a fresh name of the function scope *)
    assert (Hpn0 : lookup_scopes p (locals env) = None).
    { destruct (lookup_scopes p (locals env)) eqn:E; [|reflexivity]. exfalso.
      destruct (proj1 (proj1 Hb p (uname_not_hid _ Hpu)) ltac:(congruence)) as [Hin|[]]. exact (Hfresh p (or_introl eq_refl) Hin). }
    destruct (declare env s p v) as [env1 s1] eqn:Edec.
    assert (Eas : assign env s p v = (env1, s1)) by (unfold assign; rewrite Hpn0; exact Edec).
    set (i2 := mkI OP_STORE [p]) in *.
    destruct (store_rel base FT [] fcells cbf Hfck selfv name fpins cdsc [] env s (trc name a1 g1 i2) p v env1 s1
                ltac:(apply Rg_trc; apply Rg_trc; exact HG) Hpu Hfv Eas) as (g2 & Hst & HG2 & Hd & Hbx & Htl & _).
    set (a2 := set_ip (set_ops a1 []) (S (a_ip a1))).
    assert (R2 : xrun prog name code a g a2 g2).
    { eapply xrun_trans; [exact R1|].
      eapply (xstep_next prog name code a1 g1 i2 _ (a_ip a1) (set_ops a1 [])); [reflexivity| |apply dec_store|].
      - cbn [a1 set_ip a_ip]. rewrite Hip. replace (S (2 * k)) with (S (2 * k)) by lia. exact Hi2.
      - unfold exec_d. cbn [a1 set_ip set_ops a_ops]. rewrite Hst. reflexivity. }
    assert (El1 : locals env1 = [assoc_set p (N.of_nat (length (store s))) acc] /\ captured env1 = captured env /\ cur env1 = cur env /\
                  s1 = fst (alloc s v)).
    { unfold declare, alloc in Edec. rewrite El in Edec. inversion Edec. cbn [fst]. auto. }
    destruct El1 as (El1 & Ec1 & Eu1 & Es1).
    assert (Ebp : bind_params ps vs (fst (alloc s v)) (assoc_set p (snd (alloc s v)) acc) =
                  (let '(s0, c0) := alloc s v in bind_params ps vs s0 (assoc_set p c0 acc))) by reflexivity.
    pose proof (IH vs (S k) (p :: Bk) (assoc_set p (N.of_nat (length (store s))) acc) pins a2 g2 env1 s1 allvs) as IH'.
    assert (Hb1 : boundC (p :: Bk) env1) by (eapply (bound_in_assign FT []); eassumption).
    specialize (IH' ltac:(replace (2 * S k) with (S (S (2 * k))) by lia; exact Hc)
                    ltac:(cbn [a2 a1 set_ip a_ip]; lia) Hargs
                    ltac:(intros j v0 Hj; replace (S k + j) with (k + S j) by lia; exact (Hnth (S j) v0 Hj))).
    specialize (IH' ltac:(split; [exact HG2|split; [reflexivity|]]; cbn [a2 a1 set_ip set_ops a_ss];
                          rewrite (same_tl_length _ _ ltac:(eapply Rg_ne; exact HG) Hd); exact Hss)
                    El1 Hb1 Hnd'
                    ltac:(intros x Hx [<-|Hin]; [exact (Hpn Hx)|exact (Hfresh x (or_intror Hx) Hin)])
                    Hsrc ltac:(intros x Hx; exact (Hnf x (or_intror Hx))) Hfo' ltac:(lia) ltac:(eapply small_le; [|exact Hsm]; lia) ltac:(lia)).
    unfold alloc at 1. cbn [fst snd]. rewrite Es1 in IH'. unfold alloc in IH'. cbn [fst] in IH'.
    destruct (bind_params ps vs {| store := store s ++ [v]; rout := rout s |} (assoc_set p (N.of_nat (length (store s))) acc)) as [[sc s']|]; [|exact IH'].
    destruct IH' as (a' & g' & env' & R' & Hip' & HR' & El' & Ec' & Eu' & Hb' & Ha' & Hss').
    exists a', g', env'. split; [eapply xrun_trans; [exact R2|exact R']|]. split; [rewrite Hip'; lia|]. split; [exact HR'|].
    split; [exact El'|]. split; [congruence|]. split; [congruence|]. split.
    { cbn [rev]. rewrite <- app_assoc. exact Hb'. }
    split; [destruct Ha' as (A1 & A2 & A3); repeat split; assumption|exact Hss'].
Qed.
End Params.

Lemma Rst_entry : forall argv s g1 cenv,
  selfv <> None ->
  out g1 = rout s -> frames_nd (frames g1) -> fvals fpins s g1 ->
  (forall f c c' ce cb', assoc f fcells = Some (c, c', ce, cb') ->
     lookup_scopes f cenv = Some c /\ exists m, cbf = Some m /\ assoc f m = Some c') ->
  (forall x c, assoc x cdsc = Some c -> lookup_scopes x cenv = Some c) ->
  Rst (frames g1) FT [] fcells cbf selfv name fpins cdsc [] (call_pins s g1)
      {| locals := [[]]; captured := cenv; cur := selfv |} s (act0 name argv cbf) (push_frame g1 (LFun name)).
Proof.
  intros argv s g1 cenv _ Ho Hnd [Fv Fs] Hent Hcap. split; [|split; [reflexivity|cbn; lia]].
  assert (Hnp : forall c0 c0', ~ StmtRel.pairs (fnames FT) [[]] [{| lab := LFun name; vars := [] |}] c0 c0').
  { intros c0 c0' Hp. cbn in Hp. destruct Hp as [(x & _ & E & _)|[]]. discriminate. }
  constructor; cbn [locals captured cur store rout cells frames out push_frame with_frames length skipn]; try reflexivity; try assumption.
  - cbn [StmtRel.Rfr]. split; [|reflexivity]. intros x Hx. cbn. exact Logic.I.
  - intros c1 c1' c2 c2' H1. exfalso. exact (Hnp _ _ H1).
  - intros x Hx. cbn in Hx. congruence.
  - cbn. split; [intros y Hy; congruence|exact Logic.I].
  - split.
    + intros cy w Hq. split; [exact Hq|]. intros c0. apply Hnp.
    + intros c0 v Hq. split; [exact Hq|]. intros c0'. apply Hnp.
  - constructor; [constructor|exact Hnd].
  - split.
    + intros cy w Hq. split; [exact (Fv cy w Hq)|]. intros c0. apply Hnp.
    + intros c0 v Hq. split; [exact (Fs c0 v Hq)|]. intros c0'. apply Hnp.
  - intros f c0 c0' ce cb' E k Hk. cbn [length] in Hk. assert (k = 0) by lia. subst k. cbn [skipn app lookup_scopes assoc].
    destruct (Hent f c0 c0' ce cb' E) as (H1 & m & -> & H2). split; [exact H1|].
    unfold lookup_fs. cbn [find_in_function vars assoc lab special]. exact H2.
  - intros x c0 c0' [].
Qed.

Lemma keep_of_Rg : forall base sv s g1 env' s' g', Rg base FT [] fcells cbf sv name fpins cdsc [] (call_pins s g1) env' s' g' ->
  (forall c0 v, sget s c0 = Some v -> sget s' c0 = Some v) /\ (forall c0 w, cell_get g1 c0 = Some w -> cell_get g' c0 = Some w).
Proof.
  intros base sv s g1 env' s' g' HG. destruct (Rg_pins _ _ _ _ _ _ _ _ _ _ _ _ _ HG) as [H1 H2]. split.
  - intros c0 v Hv. exact (proj1 (H2 c0 v Hv)).
  - intros c0 w Hw. exact (proj1 (H1 c0 w Hw)).
Qed.

End Entry.

(* the static pins of an activation: the function cells (fpins) and the captured data cells the activation and the
   functions it calls need, at their values at entry (nothing writes them while the activation runs) *)
Definition dpins (fpins : pinset) (dn : list (N * N)) (s : rstate) (g : gstate) : pinset :=
  {| vpin := fun c' w => vpin fpins c' w \/
                         exists c v, In (c, c') dn /\ first_order v /\ sget s c = Some v /\ cell_get g c' = Some w /\ w = inj v;
     spin := fun c v => spin fpins c v \/
                        exists c', In (c, c') dn /\ first_order v /\ sget s c = Some v /\ cell_get g c' = Some (inj v) |}.

Lemma callee_ok_pins : forall (P P' : pinset) fuel ps body cenv loc cb0 dn0,
  (forall cy w, vpin P cy w -> vpin P' cy w) -> (forall c v, spin P c v -> spin P' c v) ->
  callee_ok P prog fuel ps body cenv loc cb0 dn0 -> callee_ok P' prog fuel ps body cenv loc cb0 dn0.
Proof.
  intros P P' fuel ps body cenv loc cb0 dn0 Hv Hs H vs s g1 Hfo Hlen Ho Hnd Hfv Hdr.
  apply H; try assumption. destruct Hfv as [F1 F2]. split; intros; auto.
Qed.

Variable fpins : pinset.
Hypothesis Hgpv : forall f c c' cenv cbf, assoc f fcells = Some (c, c', cenv, cbf) -> vpin fpins c' (VFun (floc f) cbf).
Hypothesis Hgps : forall f c c' cenv cbf ps body, assoc f fcells = Some (c, c', cenv, cbf) -> assoc f FT = Some (ps, body) ->
  spin fpins c (RClos ps body cenv).
(* the data cell pairs the callee needs related at entry: its own captured data, and what the functions it calls need *)
Variable dn : list (N * N).
Variable fdn : str -> list (N * N).
Hypothesis Hcdn : forall x c, assoc x cdsc = Some c ->
  uname (fnames FT) x /\ exists c' m, cbf = Some m /\ assoc x m = Some c' /\ In (c, c') dn.
Hypothesis Hfdn : forall f p, In f (fnames FT) -> In p (fdn f) -> In p dn.

(* ================================================================ a call of a function that may call the functions of FT
   (through its captured cells) and itself (`self`), and read the data variables it captured *)
Theorem fun_sim : forall ps body cenv tail,
  selfv = Some (RClos ps body cenv) ->
  let fcode := pcodeP 0 ps ++ strip (bitems 1 0 None body) ++ tail in
  assoc name prog = Some fcode ->
  (tail = [mkI OP_VOID []; mkI OP_RET []] \/ (tail = [] /\ ends_ret body = true)) ->
  NoDup ps -> forallb src_nameb ps = true -> (forall x, In x ps -> ~ In x (fnames FT)) ->
  ok_block FT (Some ps) (map fst cdsc) false (rev ps) body = true ->
  small (1 + 2 * length fcode + 8) ->
  (forall f c c' ce cb', assoc f fcells = Some (c, c', ce, cb') ->
     lookup_scopes f cenv = Some c /\ exists m, cbf = Some m /\ assoc f m = Some c') ->
  (forall x c, assoc x cdsc = Some c -> lookup_scopes x cenv = Some c) ->
  forall fuel,
  (forall fuel', fuel' < fuel -> call_ok FT fcells floc fpins fdn prog fuel') ->
  (forall fuel', fuel' < fuel -> callee_ok fpins prog fuel' ps body cenv name cbf dn) ->
  callee_ok fpins prog fuel ps body cenv name cbf dn.
Proof.
  intros ps body cenv tail Eself fcode Hcode Htail Hnd Hsrc Hpnf Hok Hsm Hent Hcap fuel Hcall Hslf vs s g1 Hfo Hlen Ho Hnd1 Hfv0 Hdr.
  unfold call_clos_.
  set (fv := RClos ps body cenv) in *.
  set (pinsC := call_pins s g1).
  set (fpC := dpins fpins dn s g1).
  assert (Hfv : fvals fpC s g1).
  { destruct Hfv0 as [Fv Fs]. split.
    - intros cy w [Hq|(c0 & v & _ & _ & _ & Hc & _)]; [exact (Fv _ _ Hq)|exact Hc].
    - intros c0 v [Hq|(c' & _ & _ & Hs & _)]; [exact (Fs _ _ Hq)|exact Hs]. }
  assert (HgpvC : forall f c c' cenv cbf, assoc f fcells = Some (c, c', cenv, cbf) -> vpin fpC c' (VFun (floc f) cbf))
    by (intros; left; eapply Hgpv; eassumption).
  assert (HgpsC : forall f c c' cenv cbf ps body, assoc f fcells = Some (c, c', cenv, cbf) -> assoc f FT = Some (ps, body) ->
                  spin fpC c (RClos ps body cenv)) by (intros; left; eapply Hgps; eassumption).
  assert (HcdC : forall x c, assoc x cdsc = Some c -> uname (fnames FT) x /\
            exists c' v m, cbf = Some m /\ assoc x m = Some c' /\ first_order v /\ spin fpC c v /\ vpin fpC c' (inj v)).
  { intros x c0 E. destruct (Hcdn x c0 E) as (Hx & c' & m & Em & Ea & Hin). destruct (Hdr c0 c' Hin) as (v & Hfov & Hs & Hc).
    split; [exact Hx|]. exists c', v, m. split; [exact Em|]. split; [exact Ea|]. split; [exact Hfov|].
    split; [right; exists c'; auto|right; exists c0, v; auto]. }
  assert (HpinC : forall p, In p dn -> dpair_ok fpC [] p).
  { intros [c0 c0'] Hin. right. destruct (Hdr c0 c0' Hin) as (v & Hfov & Hs & Hc). exists v. cbn [fst snd].
    split; [exact Hfov|]. split; [right; exists c0'; auto|right; exists c0, v; auto]. }
  assert (HcallC : forall fuel', fuel' < fuel -> call_ok FT fcells floc fpC fdn prog fuel').
  { intros fuel' Hlt f ps0 body0 c0 c0' cenv0 cbf0 Eft Efc.
    eapply (callee_ok_pins fpins fpC); [intros; left; assumption|intros; left; assumption|].
    exact (Hcall fuel' Hlt f ps0 body0 c0 c0' cenv0 cbf0 Eft Efc). }
  assert (HslfC : forall fuel', fuel' < fuel -> callee_ok fpC prog fuel' ps body cenv name cbf dn).
  { intros fuel' Hlt. eapply (callee_ok_pins fpins fpC); [intros; left; assumption|intros; left; assumption|exact (Hslf fuel' Hlt)]. }
  set (env0 := {| locals := [[]]; captured := cenv; cur := Some fv |}).
  set (a0 := act0 name (map inj vs) cbf). set (gP := push_frame g1 (LFun name)).
  pose proof (Rst_entry fpC (map inj vs) s g1 cenv ltac:(rewrite Eself; discriminate) Ho Hnd1 Hfv Hent Hcap) as HR0.
  rewrite Eself in HR0. fold pinsC env0 a0 gP in HR0.
  assert (Hlenc : length fcode = 2 * length ps + length (strip (bitems 1 0 None body)) + length tail).
  { unfold fcode. rewrite !app_length, pcodeP_length. lia. }
  assert (Hpar : 2 * (0 + length ps) <= length fcode) by lia.
  (* the parameters *)
  assert (Hprm : match bind_params ps vs s [] with
                 | Some (sc, s') => exists a' g' env',
                     xrun prog name fcode a0 gP a' g' /\ a_ip a' = 2 * length ps /\
                     Rst (frames g1) FT [] fcells cbf (Some fv) name fpC cdsc [] pinsC env' s' a' g' /\
                     locals env' = [sc] /\ captured env' = cenv /\ cur env' = Some fv /\
                     bound_in FT [] (rev ps) env' /\ act_same a0 a'
                 | None => False end).
  { rewrite <- Eself.
    pose proof (params_run fpC (frames g1) fcode ps vs 0 [] [] pinsC a0 gP env0 s vs
                    ltac:(intros j i Hj; unfold fcode; cbn [Nat.mul Nat.add]; rewrite nth_error_app1; [exact Hj|apply nth_error_Some; congruence])
                    eq_refl eq_refl ltac:(intros j v Hj; exact Hj) ltac:(rewrite Eself; exact HR0) eq_refl
                    ltac:(split; [intros x _; cbn; split; [congruence|intros [[]|[]]]|intros x []])
                    Hnd ltac:(intros x _ []) Hsrc Hpnf Hfo Hlen
                    ltac:(eapply small_le; [|exact Hsm]; rewrite Hlenc; lia) Hpar) as H.
    destruct (bind_params ps vs s []) as [[sc s']|]; [|exact H].
    destruct H as (a' & g' & env' & R & Hip & HR & El & Ec & Eu & Hb & Ha & _).
    exists a', g', env'. rewrite app_nil_r in Hb. cbn [Nat.add] in Hip.
    split; [exact R|]. split; [exact Hip|]. split; [exact HR|]. split; [exact El|]. split; [exact Ec|].
    split; [rewrite Eself; exact Eu|]. split; [exact Hb|exact Ha]. }
  destruct (bind_params ps vs s []) as [[sc s1]|]; [|contradiction].
  destruct Hprm as (a1 & gq & env1 & R1 & Hip1 & HR1 & El1 & Ec1 & Eu1 & Hb1 & Ha1).
  assert (Eenv : env1 = {| locals := [sc]; captured := cenv; cur := Some fv |}) by (rewrite (fenv_eta env1), El1, Ec1, Eu1; reflexivity).
  subst env1.
  (* the body *)
  pose proof (cblock_correct (frames g1) FT [] fcells floc cbf (HL0 FT) Hfun0 Hfck (Some ps) (Some fv) name
                ltac:(intros ps0 E; inversion E; subst ps0; exists body, cenv; reflexivity) fpC HgpvC HgpsC
                cdsc HcdC [] ltac:(intros x cc []) fdn dn
                ltac:(intros f p0 Hf Hp0; exact (HpinC p0 (Hfdn f p0 Hf Hp0))) HpinC
                [] body (rev ps) Hok 1
                {| fid := 0; lreg := 0; fbuf := [] |} pinsC prog name (pcodeP 0 ps) tail a1 gq {| locals := [sc]; captured := cenv; cur := Some fv |} s1 fuel) as H.
  cbv zeta in H. rewrite (cblockT_ok [] 1 body FT (Some ps) (map fst cdsc) false (rev ps) None _ Hok) in H. cbn [fst lreg] in H. fold fcode in H.
  rewrite pcodeP_length in H.
  specialize (H ltac:(destruct Htail as [->|[-> He]]; [left; discriminate|right; exact He]) Hsm (Nat.le_0_l _) Hip1
                ltac:(rewrite (proj2 (proj2 Ha1)); reflexivity) HR1 Hb1 HcallC
                ltac:(intros fuel' Hlt ps0 body0 cenv0 E; inversion E; subst ps0 body0 cenv0; exact (HslfC fuel' Hlt))).
  destruct (exec_block fuel {| locals := [sc]; captured := cenv; cur := Some fv |} body s1) as [sig env2 s2|fl s2|];
    [| |exact Logic.I].
  2:{ (* the body fails *)
      eapply fail_post_map; [|exact H]. intros (e & g' & Hf & Hr & Hof).
      destruct (run_fn_fail prog name fcode (map inj vs) cbf g1 e g' Hcode ltac:(eapply xrun_fail; [exact R1|exact Hf])) as [fuel' Hrun].
      exists fuel', e, g'. auto. }
  destruct sig as [| | |[v|]]; try contradiction.
  - (* the body completes without `return`: no value *)
    destruct H as (a2 & g2 & R2 & Hip2 & (HG2 & Hops2 & Hss2) & Ha2 & Hd2 & _ & _).
    pose proof (same_tl_length {| locals := [sc]; captured := cenv; cur := Some fv |} env2 ltac:(cbn; discriminate) Hd2) as Hl2.
    cbn [locals length] in Hl2.
    pose proof (Rg_base _ _ _ _ _ _ _ _ _ _ _ _ _ HG2) as Hbase. rewrite Hl2 in Hbase.
    destruct (keep_of_Rg _ _ _ _ _ _ _ _ HG2) as [Ks Kc].
    destruct (frames g2) as [|f2 fs2] eqn:Ef2; [exfalso; exact (proj2 (Rfr_ne _ _ _ _ (Rg_fr _ _ _ _ _ _ _ _ _ _ _ _ _ HG2)) Ef2)|].
    cbn [skipn] in Hbase. subst fs2.
    pose proof (Rg_drop _ _ _ _ _ _ _ _ _ _ _ _ _ HG2) as Hdrop. rewrite Ef2 in Hdrop.
    assert (Hkeep : forall gf, frames gf = frames g1 -> out gf = out g2 -> cells gf = cells g2 -> val_keep s s2 g1 gf).
    { intros gf F1 F2 F3. split; [exact F1|]. split; [rewrite F2; exact (Rg_out _ _ _ _ _ _ _ _ _ _ _ _ _ HG2)|]. split; [exact Ks|].
      intros c0 w Hw. unfold cell_get. rewrite F3. exact (Kc c0 w Hw). }
    destruct Htail as [->|[-> Her]].
    + (* void; ret *)
      assert (Hl : exists gf, (forall f0 k, loop rcT (run_fn f0 prog) name fcode (S (S (S k))) a2 g2 = RDone None gf) /\
                              frames gf = frames g1 /\ out gf = out g2 /\ cells gf = cells g2).
      { eexists. split; [intros f0 k|].
        - cbn [loop]. rewrite Hip2. unfold fcode.
          rewrite nth_error_app2 by (rewrite pcodeP_length; lia). rewrite pcodeP_length.
          rewrite nth_error_app2 by lia. replace (2 * length ps + length (strip (bitems 1 0 None body)) - 2 * length ps - length (strip (bitems 1 0 None body))) with 0 by lia.
          cbn [nth_error]. unfold Model.exec. change (decode (mkI OP_VOID [])) with (DOk DVoid). cbn [exec_d set_ip set_ops a_ip].
          rewrite Hip2. rewrite nth_error_app2 by (rewrite pcodeP_length; lia). rewrite pcodeP_length.
          rewrite nth_error_app2 by lia.
          replace (S (2 * length ps + length (strip (bitems 1 0 None body))) - 2 * length ps - length (strip (bitems 1 0 None body))) with 1 by lia.
          cbn [nth_error]. change (decode (mkI OP_RET [])) with (DOk DRet). cbn [exec_d a_ops set_ops set_ip].
          cbn [add_trace frames]. rewrite Ef2, Hdrop. reflexivity.
        - cbn [with_frames frames out cells add_trace]. auto. }
      destruct Hl as (gf & Hl & F1 & F2 & F3).
      destruct (run_fn_finish prog name fcode (map inj vs) cbf g1 a2 g2 _ Hcode ltac:(eapply xrun_trans; [exact R1|exact R2]) Hl) as [fuel' Hrun].
      exists fuel', gf. split; [exact Hrun|]. apply Hkeep; assumption.
    + (* the code ends here: the interpreter pops the function frame *)
      assert (Hl : forall f0 k, loop rcT (run_fn f0 prog) name fcode (S (S (S k))) a2 g2 = RDone None (with_frames g2 (frames g1))).
      { intros f0 k. cbn [loop]. rewrite Hip2. unfold fcode. rewrite app_nil_r.
        replace (nth_error (pcodeP 0 ps ++ strip (bitems 1 0 None body)) (2 * length ps + length (strip (bitems 1 0 None body)))) with (@None instr).
        - unfold pop_frame. rewrite Ef2. reflexivity.
        - symmetry. apply nth_error_None. rewrite app_length, pcodeP_length. lia. }
      destruct (run_fn_finish prog name fcode (map inj vs) cbf g1 a2 g2 _ Hcode ltac:(eapply xrun_trans; [exact R1|exact R2]) Hl) as [fuel' Hrun].
      exists fuel'. eexists. split; [exact Hrun|]. apply Hkeep; reflexivity.
  - (* return v *)
    destruct H as (env3 & a2 & g2 & R2 & Hi2 & Hops2 & Hfov & HG2 & Ha2). split; [exact Hfov|].
    destruct (keep_of_Rg _ _ _ _ _ _ _ _ HG2) as [Ks Kc].
    pose proof (Rg_drop _ _ _ _ _ _ _ _ _ _ _ _ _ HG2) as Hdrop.
    assert (Hl : exists gf, (forall f0 k, loop rcT (run_fn f0 prog) name fcode (S (S (S k))) a2 g2 = RDone (Some (inj v)) gf) /\
                            frames gf = frames g1 /\ out gf = out g2 /\ cells gf = cells g2).
    { eexists. split; [intros f0 k|].
      - cbn [loop]. rewrite Hi2. unfold Model.exec. change (decode (mkI OP_RET [])) with (DOk DRet). cbn [exec_d].
        rewrite Hops2. cbn [add_trace frames]. rewrite Hdrop. reflexivity.
      - cbn [with_frames frames out cells add_trace]. auto. }
    destruct Hl as (gf & Hl & F1 & F2 & F3).
    destruct (run_fn_finish prog name fcode (map inj vs) cbf g1 a2 g2 _ Hcode ltac:(eapply xrun_trans; [exact R1|exact R2]) Hl) as [fuel' Hrun].
    exists fuel', gf. split; [exact Hrun|]. split; [exact F1|]. split; [rewrite F2; exact (Rg_out _ _ _ _ _ _ _ _ _ _ _ _ _ HG2)|]. split; [exact Ks|].
    intros c0 w Hw. unfold cell_get. rewrite F3. exact (Kc c0 w Hw).
Qed.
End Callee.

(* ================================================================ the code generator on a function literal *)
Section FnCode.
Variable path : str.

Definition ftail (cb : list citem) : list citem := if ends_in_ret cb then [] else [I OP_VOID []; I OP_RET []].

Lemma cexpr_EFn_eq : forall d ps body st, cexpr path d (EFn ps body) st =
  (let '(cb, st) := cblockT path (S d) None body st in
   let name := fn_name path (fid st) in
   ([I OP_MAKE_FUNCTION (name :: free_vars ps body)],
    {| fid := S (fid st); lreg := lreg st;
       fbuf := fbuf st ++ [(name, strip (map CI (pcodeP 0 ps) ++ cb ++ ftail cb))] |})).
Proof.
  intros d ps body st.
  change (cexpr path d (EFn ps body) st) with
    (let '(cb, st) :=
       (fix cbody (l : list stmt) (st : cst) {struct l} : list citem * cst :=
          match l with
          | [] => ([], st)
          | s :: l => let '(cs, st) := cstmt path (S d) None s st in
                      let '(cl, st) := cbody l st in (cs ++ cl, st)
          end) body st in
     let cb := if ends_in_ret cb then cb else cb ++ [I OP_VOID []; I OP_RET []] in
     let name := fn_name path (fid st) in
     ([I OP_MAKE_FUNCTION (name :: free_vars ps body)],
      {| fid := S (fid st); lreg := lreg st;
         fbuf := fbuf st ++ [(name, strip ((fix cparams (k : nat) (l : list str) : list citem :=
                                              match l with [] => [] | x :: l => I OP_ARG [sN k] :: I OP_STORE [x] :: cparams (S k) l end) 0 ps ++ cb))] |})).
  assert (E1 : forall l st0,
            (fix cbody (l : list stmt) (st : cst) {struct l} : list citem * cst :=
               match l with
               | [] => ([], st)
               | s :: l => let '(cs, st) := cstmt path (S d) None s st in
                           let '(cl, st) := cbody l st in (cs ++ cl, st)
               end) l st0 = cblockT path (S d) None l st0).
  { induction l as [|s l IH]; intros st0; [reflexivity|]. cbn [cblockT]. destruct (cstmt path (S d) None s st0) as [cs st1].
    rewrite IH. reflexivity. }
  assert (E2 : forall l k,
            (fix cparams (k : nat) (l : list str) : list citem :=
               match l with [] => [] | x :: l => I OP_ARG [sN k] :: I OP_STORE [x] :: cparams (S k) l end) k l
            = map CI (pcodeP k l)).
  { induction l as [|x l IH]; intros k; [reflexivity|]. cbn [pcodeP map]. rewrite IH. reflexivity. }
  rewrite E1, E2. destruct (cblockT path (S d) None body st) as [cb st1]. cbv zeta. unfold ftail.
  destruct (ends_in_ret cb); [now rewrite app_nil_r|reflexivity].
Qed.
End FnCode.

(* ================================================================ `ends_in_ret` of the compiler vs the source *)
Definition ret_item (it : citem) : bool := match it with CI i => (op i =? OP_RET)%N | _ => false end.

Lemma resolve_snoc_CI : forall F S l idx i, resolve F S idx (l ++ [CI i]) = resolve F S idx l ++ [CI i].
Proof.
  intros F S. induction l as [|it l IH]; intros idx i; [reflexivity|].
  destruct it; cbn [app resolve]; now rewrite IH.
Qed.

Lemma sitems_snoc : forall FT SP CD il B c lr sl st, ok_stmt FT SP CD il B st = true ->
  exists pre last, sitems c lr sl st = pre ++ [last] /\ (ret_item last = true -> is_ret st = true).
Proof.
  intros FT SP CD il B c lr sl st H. destruct st; try discriminate.
  - eexists. eexists. split; [cbn [sitems]; reflexivity|discriminate].
  - exists (map CI (xcode (S c) e) ++ [I OP_BIN_OP_ASSIGN [binop_sym o ++ [61%N]; x]]), (I OP_VOID []).
    split; [cbn [sitems]; now rewrite <- app_assoc|discriminate].
  - exists (map CI (xcode c e) ++ [I OP_PRINTN [s_star]]), (I OP_VOID []).
    split; [cbn [sitems]; now rewrite <- app_assoc|discriminate].
  - eexists. eexists. split; [cbn [sitems]; reflexivity|discriminate].
  - eexists. eexists. split; [cbn [sitems]; reflexivity|discriminate].
  - rewrite sitems_SIf. cbv zeta. eexists. exists (I OP_DONE []). split; [|discriminate].
    rewrite !app_assoc. reflexivity.
  - rewrite sitems_SIfElse. cbv zeta. eexists. exists (I OP_DONE []). split; [|discriminate].
    rewrite app_comm_cons. rewrite !app_assoc. reflexivity.
  - rewrite sitems_SIfElif. cbv zeta. eexists. exists (I OP_DONE []). split; [|discriminate].
    rewrite app_comm_cons. rewrite !app_assoc. reflexivity.
  - rewrite sitems_SWhile. cbv zeta.
    match goal with |- context [resolve ?F0 ?S0 ?i0 (?l0 ++ [I ?o0 ?a0])] =>
      change (resolve F0 S0 i0 (l0 ++ [I o0 a0])) with (resolve F0 S0 i0 (l0 ++ [CI (mkI o0 a0)])) end.
    rewrite resolve_snoc_CI. eexists. eexists. split; [rewrite !app_assoc; reflexivity|discriminate].
  - exists [], (CBrk (match sl with Some n => n | None => 0 end)). split; [reflexivity|discriminate].
  - exists [], (CCont (match sl with Some n => n | None => 0 end)). split; [reflexivity|discriminate].
  - destruct e as [e|]; [|discriminate]. eexists. eexists. split; [cbn [sitems]; reflexivity|reflexivity].
Qed.

Lemma ends_ret_snoc : forall l st, ends_ret (l ++ [st]) = is_ret st.
Proof.
  induction l as [|x l IH]; intros st; [reflexivity|]. cbn [app]. destruct l as [|y l]; [reflexivity|].
  change (ends_ret (x :: (y :: l) ++ [st])) with (ends_ret ((y :: l) ++ [st])). apply IH.
Qed.
Lemma bitems_app : forall c lr sl l1 l2, bitems c lr sl (l1 ++ l2) = bitems c lr sl l1 ++ bitems c lr sl l2.
Proof. induction l1 as [|x l IH]; intros l2; [reflexivity|]. cbn [app bitems]. now rewrite IH, app_assoc. Qed.
Lemma ok_block_snoc : forall FT SP CD il B l st, ok_block FT SP CD il B (l ++ [st]) = true -> exists B', ok_stmt FT SP CD il B' st = true.
Proof.
  intros FT SP CD il. intros B l. revert B. induction l as [|x l IH]; intros B st H; cbn [app ok_block] in H.
  - apply Bool.andb_true_iff in H as [H _]. eauto.
  - apply Bool.andb_true_iff in H as [_ H]. eauto.
Qed.

Lemma ends_in_ret_body : forall FT SP CD B c lr body, ok_block FT SP CD false B body = true ->
  ends_in_ret (bitems c lr None body) = true -> ends_ret body = true.
Proof.
  intros FT SP CD B c lr body Hok H.
  destruct (rev body) as [|st rl] eqn:E.
  - apply (f_equal (@rev stmt)) in E. rewrite rev_involutive in E. subst body. discriminate.
  - apply (f_equal (@rev stmt)) in E. rewrite rev_involutive in E. cbn [rev] in E. subst body.
    rewrite ends_ret_snoc. destruct (ok_block_snoc _ _ _ _ _ _ _ Hok) as [B' Hst].
    destruct (sitems_snoc FT SP CD false B' c lr None st Hst) as (pre & last & Es & Hl). apply Hl.
    rewrite bitems_app in H. cbn [bitems] in H. rewrite app_nil_r, Es, app_assoc in H.
    unfold ends_in_ret in H. rewrite rev_app_distr in H. cbn [rev app] in H. destruct last; [exact H|discriminate|discriminate].
Qed.

(* ================================================================ modules: function definitions, then the main code *)
Definition fdef := (str * (list str * list stmt))%type.
Definition def_stmt (d : fdef) : stmt := SAssign (fst d) (EFn (fst (snd d)) (snd (snd d))).

(* the compiled code of a function *)
Definition fcode_of (ps : list str) (body : list stmt) : list instr :=
  pcodeP 0 ps ++ strip (bitems 1 0 None body) ++ strip (ftail (bitems 1 0 None body)).

(* the module scope after the definitions FT (cells k, k+1, ...) *)
Fixpoint dscope (k : nat) (FT : ftab) : scope :=
  match FT with [] => [] | (f, _) :: t => (f, N.of_nat k) :: dscope (S k) t end.

(* what a function captures: the earlier functions it mentions *)
Definition caps_of (d : fdef) : list str := free_vars (fst (snd d)) (snd (snd d)).
Definition vis (caps : list str) (P : ftab) : ftab := filter (fun d => mem_str (fst d) caps) P.
Fixpoint capmap (sc : scope) (ns : list str) : list (str * N) :=
  match ns with
  | [] => []
  | n :: ns => match assoc n sc with Some c => assoc_set n c (capmap sc ns) | None => capmap sc ns end
  end.
Definition fcb (pre : ftab) (d : fdef) : option (list (str * N)) :=
  match caps_of d with [] => None | ns => Some (capmap (dscope 0 pre) ns) end.

(* the DATA variables a function captures: the captured names that are not functions of the table *)
Definition dcaps (pre : ftab) (caps : list str) : list str := filter (fun n => negb (mem_str n (fnames pre))) caps.
Lemma dcaps_nil : forall pre caps, forallb (fun n => mem_str n (fnames pre) || mem_str n []) caps = true -> dcaps pre caps = [].
Proof.
  intros pre. induction caps as [|n t IH]; intros H; [reflexivity|]. cbn [forallb] in H. apply Bool.andb_true_iff in H as [H1 H2].
  cbn [dcaps filter mem_str] in *. rewrite Bool.orb_false_r in H1. rewrite H1. cbn [negb]. exact (IH H2).
Qed.
Lemma caps_funs : forall pre caps, forallb (fun n => mem_str n (fnames pre) || mem_str n []) caps = true ->
  forallb (fun n => mem_str n (fnames pre)) caps = true.
Proof.
  intros pre caps H. rewrite forallb_forall in *. intros n Hn. specialize (H n Hn). cbn [mem_str] in H. now rewrite Bool.orb_false_r in H.
Qed.
Lemma In_dcaps : forall pre caps x, In x (dcaps pre caps) <-> In x caps /\ mem_str x (fnames pre) = false.
Proof. intros pre caps x. unfold dcaps. rewrite filter_In. rewrite Bool.negb_true_iff. tauto. Qed.

(* a function of the table: parameters distinct source names; it mentions (= captures) only earlier functions of the
   table and data variables B of the module (read by reference), calls the functions / itself, and is otherwise in
   the fragment *)
Definition fn_ok (pre : ftab) (B : list str) (d : fdef) : Prop :=
  let '(f, (ps, body)) := d in
  let caps := free_vars ps body in
  src_nameb f = true /\ NoDup ps /\ forallb src_nameb ps = true /\
  forallb (fun n => mem_str n (fnames pre) || mem_str n B) caps = true /\
  (forall x, In x ps -> ~ In x (fnames (vis caps pre))) /\
  ok_block (vis caps pre) (Some ps) (dcaps pre caps) false (rev ps) body = true /\
  small (1 + 2 * length (fcode_of ps body) + 8).
Fixpoint fns_ok (pre FT : ftab) : Prop :=
  match FT with [] => True | d :: t => fn_ok pre [] d /\ fns_ok (pre ++ [d]) t end.

Lemma fns_ok_nth : forall FT pre i d, fns_ok pre FT -> nth_error FT i = Some d -> fn_ok (pre ++ firstn i FT) [] d.
Proof.
  induction FT as [|d0 t IH]; intros pre i d H Hi; [destruct i; discriminate|]. destruct H as [H0 Ht]. destruct i as [|i].
  - cbn in Hi. inversion Hi; subst d0. cbn [firstn]. now rewrite app_nil_r.
  - cbn [nth_error firstn] in *. replace (pre ++ d0 :: firstn i t) with ((pre ++ [d0]) ++ firstn i t) by now rewrite <- app_assoc.
    apply IH; assumption.
Qed.

Section Module.
Variable path : str.

Fixpoint dfbuf (k : nat) (FT : ftab) : list (str * list instr) :=
  match FT with [] => [] | (f, (ps, body)) :: t => (fn_name path k, fcode_of ps body) :: dfbuf (S k) t end.
Fixpoint dcode (k : nat) (FT : ftab) : list instr :=
  match FT with [] => [] | d :: t => mkI OP_MAKE_FUNCTION (fn_name path k :: caps_of d) :: mkI OP_STORE [fst d] :: dcode (S k) t end.

Lemma dcode_length : forall FT k, length (dcode k FT) = 2 * length FT.
Proof. induction FT as [|d t IH]; intros k; cbn [dcode length]; [reflexivity|]. rewrite IH. lia. Qed.

Lemma cstmt_SAssign : forall c sl x e st, cstmt path c sl (SAssign x e) st =
  let '(ce, st) := cexpr path c e st in (ce ++ [I OP_STORE [x]], st).
Proof. reflexivity. Qed.

Lemma cblock0_defs : forall FT pre main st, fns_ok pre FT -> lreg st = 0 ->
  cblock0 path (map def_stmt FT ++ main) st =
  (let '(cm, st') := cblock0 path main {| fid := fid st + length FT; lreg := 0; fbuf := fbuf st ++ dfbuf (fid st) FT |} in
   (map CI (dcode (fid st) FT) ++ cm, st')).
Proof.
  induction FT as [|[f [ps body]] t IH]; intros pre main st HF Hlr.
  - cbn [map app dfbuf dcode length]. rewrite Nat.add_0_r, app_nil_r. destruct st as [fi lr fb]. cbn [lreg fid fbuf] in *. subst lr.
    destruct (cblock0 path main {| fid := fi; lreg := 0; fbuf := fb |}); reflexivity.
  - destruct HF as [(Hf & Hnd & Hsrc & Hcaps & Hpn & Hok & Hsm) HF'].
    cbn [map app cblock0]. unfold def_stmt at 1. cbn [fst snd]. rewrite cstmt_SAssign, cexpr_EFn_eq.
    rewrite (cblockT_ok path 1 body _ _ _ false (rev ps) None st Hok). rewrite Hlr. cbv zeta. cbv beta iota.
    rewrite (IH (pre ++ [(f, (ps, body))])) by (try exact HF'; reflexivity). cbn [fid lreg fbuf].
    replace (fid st + length ((f, (ps, body)) :: t)) with (S (fid st) + length t) by (cbn [length]; lia).
    cbn [dfbuf dcode map fst]. unfold caps_of. cbn [fst snd]. unfold fcode_of. rewrite !strip_app, strip_map_CI. rewrite <- !app_assoc. cbn [app].
    destruct (cblock0 path main _); reflexivity.
Qed.
End Module.

(* ================================================================ executing the definitions *)
Fixpoint dcells (path : str) (pre : ftab) (FT : ftab) : list value :=
  match FT with [] => [] | d :: t => VFun (fn_name path (length pre)) (fcb pre d) :: dcells path (pre ++ [d]) t end.

Lemma dscope_app : forall P k d, dscope k (P ++ [d]) = dscope k P ++ [(fst d, N.of_nat (k + length P))].
Proof.
  induction P as [|[f r] t IH]; intros k [f0 r0]; cbn [app dscope length fst].
  - now rewrite Nat.add_0_r.
  - rewrite IH. cbn [fst]. replace (S k + length t) with (k + S (length t)) by lia. reflexivity.
Qed.
Lemma dcells_app : forall path P pre d, dcells path pre (P ++ [d]) = dcells path pre P ++ [VFun (fn_name path (length pre + length P)) (fcb (pre ++ P) d)].
Proof.
  intros path. induction P as [|x t IH]; intros pre d; cbn [app dcells length].
  - now rewrite Nat.add_0_r, app_nil_r.
  - rewrite IH. rewrite app_length. cbn [length]. rewrite <- app_assoc. cbn [app].
    replace (length pre + 1 + length t) with (length pre + S (length t)) by lia. reflexivity.
Qed.
Lemma dcells_length : forall path P pre, length (dcells path pre P) = length P.
Proof. intros path. induction P as [|x t IH]; intros pre; cbn [dcells length]; [reflexivity|now rewrite IH]. Qed.
Lemma assoc_dscope_none : forall f P k, ~ In f (fnames P) -> assoc f (dscope k P) = (None : option N).
Proof.
  intros f. induction P as [|[f0 r] t IH]; intros k H; [reflexivity|]. cbn [dscope assoc fnames map fst In] in *.
  rewrite str_eqb_neq by (intros ->; apply H; now left). apply IH. intros Hin. apply H. now right.
Qed.
Lemma assoc_dscope_nth : forall P k i d, NoDup (fnames P) -> nth_error P i = Some d ->
  assoc (fst d) (dscope k P) = Some (N.of_nat (k + i)).
Proof.
  induction P as [|[f0 r] t IH]; intros k i d Hnd Hi; [destruct i; discriminate|].
  cbn [fnames map fst] in Hnd. inversion Hnd as [|? ? Hn Hnd']; subst. destruct i as [|i].
  - cbn in Hi. inversion Hi; subst d. cbn [dscope assoc fst]. rewrite str_eqb_refl, Nat.add_0_r. reflexivity.
  - cbn [nth_error] in Hi. cbn [dscope assoc].
    assert (Hne : f0 <> fst d).
    { intros ->. apply Hn. unfold fnames. apply in_map. eapply nth_error_In. exact Hi. }
    rewrite str_eqb_neq by exact Hne. rewrite (IH (S k) i d Hnd' Hi). f_equal. lia.
Qed.
Lemma assoc_dscope_in : forall FT k x, assoc x (dscope k FT) <> None <-> In x (fnames FT).
Proof.
  induction FT as [|[f r] t IH]; intros k x; cbn [dscope assoc fnames map fst In].
  - split; [congruence|intros []].
  - destruct (str_eqb f x) eqn:E.
    + apply str_eqb_iff in E. subst x. split; [now left|congruence].
    + split.
      * intros H. right. exact (proj1 (IH _ _) H).
      * intros [->|H]; [rewrite str_eqb_refl in E; discriminate|]. now apply IH.
Qed.

(* what make_function captures at module level *)
Lemma capture_defs : forall a g name sc ns,
  frames g = [{| lab := LFun name; vars := sc |}] -> (forall n, In n ns -> assoc n sc <> None) ->
  capture a g ns = Some (capmap sc ns).
Proof.
  intros a g name sc ns Hfr. induction ns as [|n ns IH]; intros H; [reflexivity|]. cbn [capture capmap].
  unfold lookup_var. rewrite Hfr. cbn [find_in_function vars].
  destruct (assoc n sc) as [c|] eqn:E; [|exfalso; exact (H n (or_introl eq_refl) E)].
  rewrite IH by (intros m Hm; apply H; now right). reflexivity.
Qed.
Lemma assoc_capmap : forall sc ns n c, In n ns -> assoc n sc = Some c -> assoc n (capmap sc ns) = Some c.
Proof.
  intros sc. induction ns as [|n0 ns IH]; intros n c Hin Hn; [destruct Hin|]. cbn [capmap].
  destruct (list_eq_dec N.eq_dec n n0) as [->|Hne].
  - rewrite Hn. apply assoc_set_same.
  - destruct Hin as [->|Hin]; [congruence|]. destruct (assoc n0 sc); [rewrite assoc_set_other by exact Hne|]; now apply IH.
Qed.

Section Defs.
Variable path : str.
Variable prog : program.
Variable name : str.
Variable code : list instr.

(* the state after the definitions P have been executed *)
Record dinv (P : ftab) (env : fenv) (s : rstate) (a : act) (g : gstate) : Prop := {
  di_loc : locals env = [dscope 0 P];
  di_cap : captured env = [];
  di_cur : cur env = None;
  di_len : length (store s) = length P;
  di_clo : forall i f ps body, nth_error P i = Some (f, (ps, body)) ->
           nth_error (store s) i = Some (RClos ps body [dscope 0 (firstn i P)]);
  di_rout : rout s = [];
  di_fr : frames g = [{| lab := LFun name; vars := dscope 0 P |}];
  di_cells : cells g = dcells path [] P;
  di_out : out g = [];
  di_ops : a_ops a = [];
  di_ip : a_ip a = 2 * length P;
  di_cb : a_cb a = None;
  di_ss : a_ss a = 0
}.

Lemma dec_make_function : forall loc ns, decode (mkI OP_MAKE_FUNCTION (loc :: ns)) = DOk (DMakeFunction loc ns).
Proof. reflexivity. Qed.

Lemma defs_run : forall Q P env s a g main fuel,
  NoDup (fnames (P ++ Q)) -> fns_ok P Q -> code_at code (2 * length P) (dcode path (length P) Q) ->
  dinv P env s a g ->
  exists env' s' a' g', xrun prog name code a g a' g' /\ dinv (P ++ Q) env' s' a' g' /\ act_same a a' /\
    (exec_block fuel env (map def_stmt Q ++ main) s = SFuel \/
     exists fuel0, exec_block fuel env (map def_stmt Q ++ main) s = exec_block fuel0 env' main s').
Proof.
  induction Q as [|[f [ps body]] Q IH]; intros P env s a g main fuel Hnd HF Hc Hinv.
  - exists env, s, a, g. rewrite app_nil_r. split; [apply xrun_refl|]. split; [exact Hinv|]. split; [apply act_same_refl|].
    right. exists fuel. reflexivity.
  - cbn [dcode] in Hc. apply code_at_cons in Hc as [Hi1 Hc]. apply code_at_cons in Hc as [Hi2 Hc]. cbn [fst] in Hi2.
    destruct HF as [(Hf & Hndp & Hsrc & Hcaps & Hpn & Hok & Hsm) HF']. apply caps_funs in Hcaps.
    destruct Hinv as [Hloc Hcap Hcur Hlen Hclo Hro Hfr Hce Hou Hops Hip Hcb Hss].
    assert (Hfn : ~ In f (fnames P)).
    { unfold fnames in *. rewrite map_app in Hnd. cbn [map fst] in Hnd. apply NoDup_remove_2 in Hnd.
      intros Hin. apply Hnd. apply in_or_app. now left. }
    set (d := (f, (ps, body)) : fdef) in *.
    (* the reference semantics *)
    set (fv := RClos ps body ([dscope 0 P] ++ [])).
    set (env1 := {| locals := [dscope 0 P ++ [(f, N.of_nat (length (store s)))]]; captured := captured env; cur := cur env |}).
    set (s1 := {| store := store s ++ [fv]; rout := rout s |}).
    assert (Hex : forall fu, Eval.exec (S (S fu)) env (def_stmt d) s = SOk SigNormal env1 s1).
    { intros fu. unfold def_stmt, d. cbn [fst snd]. rewrite exec_SAssign.
      change (eval (S fu) env (EFn ps body) s) with (EVal (RClos ps body (locals env ++ captured env)) s).
      rewrite Hloc, Hcap. unfold assign. rewrite Hloc. cbn [lookup_scopes]. rewrite (assoc_dscope_none f P 0 Hfn).
      unfold declare, alloc. rewrite Hloc. rewrite assoc_set_absent by (apply assoc_dscope_none; exact Hfn). reflexivity. }
    (* the machine: make_function, store *)
    set (fw := VFun (fn_name path (length P)) (fcb P d)).
    set (i1 := mkI OP_MAKE_FUNCTION (fn_name path (length P) :: caps_of d)) in *.
    set (a1 := set_ip (set_ops a [fw]) (S (a_ip a))).
    set (g1 := trc name a g i1).
    assert (R1 : xrun prog name code a g a1 g1).
    { eapply (xstep_next prog name code a g i1 _ (a_ip a) (set_ops a [fw]));
        [reflexivity|rewrite Hip; exact Hi1|apply dec_make_function|]. cbn [exec_d]. rewrite Hops. unfold fw, fcb.
      destruct (caps_of d) as [|n0 ns0] eqn:Ecaps; [reflexivity|].
      fold g1. rewrite (capture_defs a g1 name (dscope 0 P) (n0 :: ns0) Hfr); [reflexivity|].
      intros n Hn. apply assoc_dscope_in. apply mem_str_In. rewrite forallb_forall in Hcaps. apply Hcaps.
      unfold caps_of, d in Ecaps. cbn [fst snd] in Ecaps. rewrite Ecaps. exact Hn. }
    set (i2 := mkI OP_STORE [f]) in *.
    set (g1t := trc name a1 g1 i2).
    set (g2 := {| cells := cells g ++ [fw];
                  frames := [{| lab := LFun name; vars := dscope 0 P ++ [(f, N.of_nat (length (cells g)))] |}];
                  out := out g; trace := trace g1t |}).
    set (a2 := set_ip (set_ops a1 []) (S (a_ip a1))).
    assert (R2 : xrun prog name code a g a2 g2).
    { eapply xrun_trans; [exact R1|].
      eapply (xstep_next prog name code a1 g1 i2 _ (a_ip a1) (set_ops a1 [])); [reflexivity| |apply dec_store|].
      - cbn [a1 set_ip a_ip]. rewrite Hip. exact Hi2.
      - unfold exec_d. cbn [a1 set_ip set_ops a_ops]. unfold store_var. fold g1t. change (frames g1t) with (frames g). rewrite Hfr.
        cbn [find_in_function vars lab special]. rewrite (assoc_dscope_none f P 0 Hfn).
        unfold bind_local. change (frames g1t) with (frames g). rewrite Hfr. cbn [cell_new with_frames cells frames out trace lab vars].
        rewrite assoc_set_absent by (apply assoc_dscope_none; exact Hfn). reflexivity. }
    assert (Hinv2 : dinv (P ++ [d]) env1 s1 a2 g2).
    { constructor; cbn [env1 s1 g2 a2 a1 locals captured cur store rout frames cells out set_ip set_ops a_ops a_ip a_cb a_ss].
      - rewrite dscope_app, Hlen. reflexivity.
      - exact Hcap.
      - exact Hcur.
      - rewrite !app_length. cbn [length]. lia.
      - intros i f0 ps0 body0 Hi. destruct (Nat.lt_ge_cases i (length P)) as [Hlt|Hge].
        + rewrite nth_error_app1 in Hi by exact Hlt. rewrite nth_error_app1 by lia.
          rewrite firstn_app. replace (i - length P) with 0 by lia. cbn [firstn]. rewrite app_nil_r. exact (Hclo i f0 ps0 body0 Hi).
        + rewrite nth_error_app2 in Hi by exact Hge. destruct (i - length P) as [|j] eqn:Ej; [|destruct j; discriminate].
          cbn in Hi. inversion Hi; subst f0 ps0 body0. rewrite nth_error_app2 by lia.
          replace (i - length (store s)) with 0 by lia. assert (i = length P) by lia. subst i.
          rewrite firstn_app, Nat.sub_diag, firstn_all. cbn [firstn nth_error fv app]. rewrite app_nil_r. reflexivity.
      - exact Hro.
      - rewrite dscope_app. cbn [fst Nat.add]. rewrite Hce, dcells_length. reflexivity.
      - rewrite dcells_app, Hce. reflexivity.
      - exact Hou.
      - reflexivity.
      - rewrite Hip, app_length. cbn [length]. lia.
      - exact Hcb.
      - exact Hss. }
    destruct (IH (P ++ [d]) env1 s1 a2 g2 main (pred fuel)) as (env' & s' & a' & g' & R' & Hinv' & Ha' & Hexb).
    + now rewrite <- app_assoc.
    + exact HF'.
    + rewrite app_length. cbn [length]. replace (2 * (length P + 1)) with (S (S (2 * length P))) by lia.
      replace (length P + 1) with (S (length P)) by lia. exact Hc.
    + exact Hinv2.
    + exists env', s', a', g'. split; [eapply xrun_trans; [exact R2|exact R']|]. split; [now rewrite <- app_assoc in Hinv'|].
      split; [destruct Ha' as (A1 & A2 & A3); repeat split; assumption|].
      cbn [map app]. destruct fuel as [|[|[|fu]]]; [left; reflexivity|left; reflexivity|left; reflexivity|].
      rewrite exec_block_cons, Hex. exact Hexb.
Qed.
End Defs.

(* ================================================================ the function table of a module *)
Fixpoint findex (f : str) (FT : ftab) : nat :=
  match FT with [] => 0 | d :: t => if str_eqb (fst d) f then 0 else S (findex f t) end.
Fixpoint dfc (pre : ftab) (FT : ftab) : list (str * (N * N * list scope * option (list (str * N)))) :=
  match FT with
  | [] => []
  | d :: t => (fst d, (N.of_nat (length pre), N.of_nat (length pre), [dscope 0 pre], fcb pre d)) :: dfc (pre ++ [d]) t
  end.

Lemma dfc_assoc : forall FT pre f x, assoc f (dfc pre FT) = Some x ->
  exists ps body, nth_error FT (findex f FT) = Some (f, (ps, body)) /\ assoc f FT = Some (ps, body) /\
    x = (N.of_nat (length pre + findex f FT), N.of_nat (length pre + findex f FT),
         [dscope 0 (pre ++ firstn (findex f FT) FT)], fcb (pre ++ firstn (findex f FT) FT) (f, (ps, body))).
Proof.
  induction FT as [|[f0 [ps0 body0]] t IH]; intros pre f x H; [discriminate|].
  cbn [dfc assoc fst findex] in *. destruct (str_eqb f0 f) eqn:E.
  - apply str_eqb_iff in E. subst f0. injection H as <-. exists ps0, body0. cbn [nth_error firstn].
    rewrite Nat.add_0_r, app_nil_r. repeat split.
  - destruct (IH _ _ _ H) as (ps & body & H1 & H2 & H3). exists ps, body. cbn [nth_error firstn]. split; [exact H1|]. split; [exact H2|].
    rewrite H3. rewrite app_length, <- app_assoc. cbn [length app]. replace (length pre + 1 + findex f t) with (length pre + S (findex f t)) by lia.
    reflexivity.
Qed.
Lemma dfc_none : forall FT pre f, In f (fnames FT) <-> assoc f (dfc pre FT) <> None.
Proof.
  induction FT as [|[f0 r] t IH]; intros pre f; cbn [fnames map fst In dfc assoc].
  - split; [intros []|congruence].
  - destruct (str_eqb f0 f) eqn:E.
    + apply str_eqb_iff in E. subst f0. split; [congruence|now left].
    + split.
      * intros [->|H]; [rewrite str_eqb_refl in E; discriminate|]. now apply IH.
      * intros H. right. exact (proj2 (IH _ _) H).
Qed.
Lemma dfc_prefix : forall P R pre f x, assoc f (dfc pre P) = Some x -> assoc f (dfc pre (P ++ R)) = Some x.
Proof.
  induction P as [|d t IH]; intros R pre f x H; [discriminate|]. cbn [app dfc assoc fst] in *.
  destruct (str_eqb (fst d) f); [exact H|]. now apply IH.
Qed.
Lemma assoc_prefix : forall A (P R : list (str * A)) f x, assoc f P = Some x -> assoc f (P ++ R) = Some x.
Proof.
  intros A. induction P as [|[k v] t IH]; intros R f x H; [discriminate|]. cbn [app assoc] in *.
  destruct (str_eqb k f); [exact H|]. now apply IH.
Qed.
Lemma findex_prefix : forall (P R : ftab) f, In f (fnames P) -> findex f (P ++ R) = findex f P.
Proof.
  induction P as [|d t IH]; intros R f H; [destruct H|]. cbn [app findex fnames map In] in *.
  destruct (str_eqb (fst d) f) eqn:E; [reflexivity|]. f_equal. apply IH. destruct H as [H|H]; [rewrite H, str_eqb_refl in E; discriminate|exact H].
Qed.
Lemma assoc_filter : forall A (q : str -> bool) (l : list (str * A)) f,
  assoc f (filter (fun d => q (fst d)) l) = if q f then assoc f l else None.
Proof.
  intros A q. induction l as [|[k v] t IH]; intros f; cbn [filter assoc fst]; [now destruct (q f)|].
  destruct (q k) eqn:Ek; cbn [assoc]; destruct (str_eqb k f) eqn:E.
  - apply str_eqb_iff in E. subst k. now rewrite Ek.
  - apply IH.
  - apply str_eqb_iff in E. subst k. rewrite IH, Ek. reflexivity.
  - apply IH.
Qed.
Lemma In_fnames_assoc : forall (T : ftab) f, In f (fnames T) <-> assoc f T <> None.
Proof.
  induction T as [|[k v] t IH]; intros f; cbn [fnames map fst In assoc].
  - split; [intros []|congruence].
  - destruct (str_eqb k f) eqn:E.
    + apply str_eqb_iff in E. subst k. split; [congruence|now left].
    + split.
      * intros [->|H]; [rewrite str_eqb_refl in E; discriminate|]. now apply IH.
      * intros H. right. now apply IH.
Qed.
Lemma dscope_keys : forall FT k, map fst (dscope k FT) = fnames FT.
Proof. induction FT as [|[f r] t IH]; intros k; cbn [dscope map fst fnames]; [reflexivity|]. f_equal. apply IH. Qed.
Lemma dcells_nth : forall path FT pre i d, nth_error FT i = Some d ->
  nth_error (dcells path pre FT) i = Some (VFun (fn_name path (length pre + i)) (fcb (pre ++ firstn i FT) d)).
Proof.
  intros path. induction FT as [|d0 t IH]; intros pre i d Hi; [destruct i; discriminate|]. destruct i as [|i]; cbn [dcells nth_error firstn] in *.
  - inversion Hi; subst d0. now rewrite Nat.add_0_r, app_nil_r.
  - rewrite (IH _ _ _ Hi). rewrite app_length, <- app_assoc. cbn [length app]. do 3 f_equal. lia.
Qed.
Lemma findex_nth : forall FT f d, nth_error FT (findex f FT) = Some d -> findex f FT < length FT.
Proof. intros FT f d H. apply nth_error_Some. congruence. Qed.

(* names of compiled functions are pairwise different, and different from the module's *)
Lemma fn_name_inj : forall path a b, small a -> small b -> fn_name path a = fn_name path b -> a = b.
Proof.
  intros path a b Ha Hb E. unfold fn_name in E. apply app_inv_head in E. apply app_inv_head in E. now apply sN_inj.
Qed.
Lemma fn_name_module : forall path k, fn_name path k <> s_module_fn path.
Proof.
  intros path k E. unfold fn_name, s_module_fn in E. apply app_inv_head in E. discriminate.
Qed.
Lemma assoc_dfbuf : forall path FT k i f ps body rest, small (k + length FT) ->
  nth_error FT i = Some (f, (ps, body)) -> assoc (fn_name path (k + i)) (dfbuf path k FT ++ rest) = Some (fcode_of ps body).
Proof.
  intros path. induction FT as [|[f0 [ps0 body0]] t IH]; intros k i f ps body rest Hs Hi; [destruct i; discriminate|].
  cbn [length] in Hs. destruct i as [|i]; cbn [nth_error] in Hi; cbn [dfbuf app assoc].
  - inversion Hi; subst. now rewrite Nat.add_0_r, str_eqb_refl.
  - assert (Hl : i < length t) by (apply nth_error_Some; congruence).
    rewrite str_eqb_neq.
    + replace (k + S i) with (S k + i) by lia. apply (IH (S k) i f ps body rest); [|exact Hi].
      eapply small_le; [|exact Hs]. lia.
    + intros E. apply fn_name_inj in E; [lia| |]; eapply small_le; try exact Hs; lia.
Qed.
Lemma assoc_dfbuf_module : forall path FT k mc, assoc (s_module_fn path) (dfbuf path k FT ++ [(s_module_fn path, mc)]) = Some mc.
Proof.
  intros path. induction FT as [|[f0 [ps0 body0]] t IH]; intros k mc; cbn [dfbuf app assoc].
  - now rewrite str_eqb_refl.
  - rewrite str_eqb_neq by (intros E; exact (fn_name_module _ _ E)). apply IH.
Qed.


(* ================================================================ after the definitions: the statement relation holds *)
Definition mfloc (path : str) (FT : ftab) (f : str) : str := fn_name path (findex f FT).
Definition mpins (path : str) (FT : ftab) : pinset := fpins_of FT (dfc [] FT) (mfloc path FT).

Lemma no_pairs_defs : forall FT name c c',
  ~ StmtRel.pairs (fnames FT) [dscope 0 FT] [{| lab := LFun name; vars := dscope 0 FT |}] c c'.
Proof.
  intros FT name c c' H. cbn [StmtRel.pairs] in H. destruct H as [(x & Hx & E & _)|[]].
  cbn [lookup_scopes] in E. rewrite assoc_dscope_none in E by exact (uname_nfun x Hx). discriminate.
Qed.

Lemma Rst_defs : forall path name FT env s a g,
  NoDup (fnames FT) -> dinv path name FT env s a g ->
  Rst [] FT (fnames FT) (dfc [] FT) None None name (mpins path FT) [] [] no_pins env s a g /\ bound_in FT (fnames FT) [] env.
Proof.
  intros path name FT env s a g Hnd [Hloc Hcap Hcur Hlen Hclo Hro Hfr Hce Hou Hops Hip Hcb Hss].
  split; [split; [|split; [exact Hops|rewrite Hloc, Hss; cbn; lia]]|].
  - constructor; rewrite ?Hloc, ?Hfr, ?Hcap, ?Hce.
    + cbn [StmtRel.Rfr]. split; [|reflexivity]. intros x Hx. cbn [lookup_scopes find_in_function vars lab special].
      rewrite assoc_dscope_none by exact (uname_nfun x Hx). exact Logic.I.
    + intros c1 c1' c2 c2' H1. exfalso. exact (no_pairs_defs _ _ _ _ H1).
    + now rewrite Hou, Hro.
    + reflexivity.
    + intros x Hx. right. left. cbn [lookup_scopes] in Hx. apply (assoc_dscope_in FT 0 x).
      destruct (assoc x (dscope 0 FT)); [congruence|exact Hx].
    + cbn [NS lookup_scopes]. split; [intros; reflexivity|exact Logic.I].
    + split; intros ? ? [].
    + constructor; [|constructor]. cbn [vars]. unfold keys_nd. now rewrite dscope_keys.
    + split.
      * intros cy w (f & c0 & ce & cbf & E & ->). destruct (dfc_assoc _ _ _ _ E) as (ps & body & H1 & H2 & H3).
        inversion H3; subst. cbn [length Nat.add app]. rewrite Nat2N.id. split; [|intros c; apply no_pairs_defs].
        rewrite (dcells_nth path FT [] _ _ H1). reflexivity.
      * intros c0 v (f & c0' & ce & cbf & ps & body & E & E2 & ->). destruct (dfc_assoc _ _ _ _ E) as (ps' & body' & H1 & H2 & H3).
        rewrite H2 in E2. inversion E2; subst ps' body'. inversion H3; subst. cbn [length Nat.add app]. rewrite Nat2N.id.
        split; [|intros c; apply no_pairs_defs]. exact (Hclo _ _ _ _ H1).
    + intros f c0 c0' ce cbf E k Hk. cbn [length] in Hk. assert (k = 0) by lia. subst k. cbn [skipn app].
      destruct (dfc_assoc _ _ _ _ E) as (ps & body & H1 & H2 & H3). inversion H3; subst. cbn [length Nat.add].
      pose proof (assoc_dscope_nth FT 0 _ _ Hnd H1) as Ha. cbn [fst Nat.add] in Ha.
      unfold lookup_fs. cbn [lookup_scopes find_in_function vars]. rewrite Ha. split; reflexivity.
    + exact Hcur.
    + reflexivity.
    + intros x c0 E. discriminate.
    + intros x c0 c0' [].
  - split; [|intros x []]. intros x _. rewrite Hloc. cbn [lookup_scopes]. split.
    + intros H. right. apply (assoc_dscope_in FT 0 x). destruct (assoc x (dscope 0 FT)); [congruence|exact H].
    + intros [[]|H]. apply (assoc_dscope_in FT 0 x) in H. destruct (assoc x (dscope 0 FT)); [congruence|exact H].
Qed.

Lemma strip_ftail : forall cb, strip (ftail cb) = [mkI OP_VOID []; mkI OP_RET []] \/ (strip (ftail cb) = [] /\ ends_in_ret cb = true).
Proof. intros cb. unfold ftail. destruct (ends_in_ret cb); [right; split; reflexivity|left; reflexivity]. Qed.

Lemma findex_nodup : forall FT i d, NoDup (fnames FT) -> nth_error FT i = Some d -> findex (fst d) FT = i.
Proof.
  induction FT as [|d0 t IH]; intros i d Hnd Hi; [destruct i; discriminate|].
  cbn [fnames map] in Hnd. inversion Hnd as [|? ? Hn Hnd']; subst. destruct i as [|i]; cbn [nth_error findex] in *.
  - inversion Hi; subst d0. now rewrite str_eqb_refl.
  - rewrite str_eqb_neq; [f_equal; now apply IH|]. intros E. apply Hn. rewrite E. unfold fnames. apply in_map. eapply nth_error_In. exact Hi.
Qed.
Lemma NoDup_app_l : forall (A : Type) (l r : list A), NoDup (l ++ r) -> NoDup l.
Proof.
  intros A. induction l as [|x l IH]; intros r H; [constructor|]. cbn [app] in H. inversion H as [|? ? Hn Hr]; subst.
  constructor; [intros Hin; apply Hn; apply in_or_app; now left|exact (IH _ Hr)].
Qed.
Lemma fns_ok_names : forall FT pre f, fns_ok pre FT -> In f (fnames FT) -> uname0 f.
Proof.
  induction FT as [|[f0 [ps body]] t IH]; intros pre f H Hin; [destruct Hin|]. destruct H as [H0 Ht].
  cbn [fnames map fst In] in Hin. destruct Hin as [<-|Hin]; [exact (src_nameb_ok _ (proj1 H0))|exact (IH _ _ Ht Hin)].
Qed.
Lemma mpins_v : forall path FT f c c' cenv cbf, assoc f (dfc [] FT) = Some (c, c', cenv, cbf) ->
  vpin (mpins path FT) c' (VFun (mfloc path FT f) cbf).
Proof. intros path FT f c c' cenv cbf E. exists f, c, cenv, cbf. auto. Qed.
Lemma mpins_s : forall path FT f c c' cenv cbf ps body, assoc f (dfc [] FT) = Some (c, c', cenv, cbf) -> assoc f FT = Some (ps, body) ->
  spin (mpins path FT) c (RClos ps body cenv).
Proof. intros path FT f c c' cenv cbf ps body E E2. exists f, c', cenv, cbf, ps, body. auto. Qed.

(* ================================================================ every function of the table does what call_clos does:
   induction on the position in the table (a function calls earlier ones), then on the fuel (self calls) *)
Section Closure.
Variable path : str.
Variable FT : ftab.
Variable prog : program.
Hypothesis Hnd : NoDup (fnames FT).
Hypothesis HF : fns_ok [] FT.
Hypothesis Hprog : forall i f ps body, nth_error FT i = Some (f, (ps, body)) -> assoc (fn_name path i) prog = Some (fcode_of ps body).

Lemma gcall_ok : forall n i f ps body, i < n -> nth_error FT i = Some (f, (ps, body)) -> forall fuel,
  callee_ok (mpins path FT) prog fuel ps body [dscope 0 (firstn i FT)] (fn_name path i) (fcb (firstn i FT) (f, (ps, body))) [].
Proof.
  induction n as [|n IHn]; intros i f ps body Hi Hnth; [lia|].
  destruct (Nat.eq_dec i n) as [->|Hne]; [|apply (IHn i f ps body); [lia|exact Hnth]].
  set (P := firstn n FT). set (d := (f, (ps, body)) : fdef). set (caps := free_vars ps body).
  pose proof (fns_ok_nth FT [] n d HF Hnth) as Hok. cbn [app] in Hok. fold P in Hok.
  destruct Hok as (Hf & Hndp & Hsrc & Hcaps & Hpn & Hokb & Hsm). fold caps in Hcaps, Hpn, Hokb.
  rewrite (dcaps_nil P caps Hcaps) in Hokb. apply caps_funs in Hcaps.
  set (FTi := vis caps P) in *. set (fci := filter (fun e => mem_str (fst e) caps) (dfc [] P)).
  assert (EFT : FT = P ++ skipn n FT) by (symmetry; apply firstn_skipn).
  assert (HlenP : length P = n).
  { unfold P. apply firstn_length_le. apply Nat.lt_le_incl. apply nth_error_Some. congruence. }
  assert (HndP : NoDup (fnames P)).
  { pose proof Hnd as H. rewrite EFT in H. unfold fnames in H. rewrite map_app in H. exact (NoDup_app_l _ _ _ H). }
  assert (Hentry : forall f' x, assoc f' fci = Some x ->
            In f' caps /\ exists j ps' body', j < n /\ nth_error FT j = Some (f', (ps', body')) /\ nth_error P j = Some (f', (ps', body')) /\
              assoc f' FTi = Some (ps', body') /\ assoc f' FT = Some (ps', body') /\ assoc f' (dfc [] FT) = Some x /\
              x = (N.of_nat j, N.of_nat j, [dscope 0 (firstn j FT)], fcb (firstn j FT) (f', (ps', body'))) /\
              mfloc path FT f' = fn_name path j).
  { intros f' x H. unfold fci in H. rewrite (assoc_filter _ (fun k => mem_str k caps)) in H.
    destruct (mem_str f' caps) eqn:Em; [|discriminate]. split; [now apply mem_str_In|].
    destruct (dfc_assoc P [] f' x H) as (ps' & body' & H1 & H2 & H3). cbn [app length Nat.add] in H3.
    pose proof (findex_nth _ _ _ H1) as Hj. rewrite HlenP in Hj.
    exists (findex f' P), ps', body'. split; [exact Hj|]. split; [rewrite EFT, nth_error_app1 by lia; exact H1|]. split; [exact H1|].
    split; [unfold FTi, vis; rewrite (assoc_filter _ (fun k => mem_str k caps)), Em; exact H2|].
    split; [rewrite EFT; now apply assoc_prefix|].
    split; [rewrite EFT; now apply dfc_prefix|]. split.
    - rewrite H3. pose proof Hj as Hj'. unfold P in Hj' |- *. rewrite firstn_firstn, Nat.min_l by lia. reflexivity.
    - unfold mfloc. rewrite EFT, findex_prefix; [reflexivity|]. exact (assoc_in_fnames _ _ _ H2). }
  assert (Hfun0i : forall f', In f' (fnames FTi) -> uname0 f').
  { intros f' Hin. apply In_fnames_assoc in Hin. unfold FTi, vis in Hin. rewrite (assoc_filter _ (fun k => mem_str k caps)) in Hin.
    destruct (mem_str f' caps); [|congruence]. apply In_fnames_assoc in Hin. apply (fns_ok_names FT [] f' HF).
    rewrite EFT. unfold fnames. rewrite map_app. apply in_or_app. now left. }
  assert (Hfcki : forall f', In f' (fnames FTi) <-> assoc f' fci <> None).
  { intros f'. rewrite In_fnames_assoc. unfold FTi, vis, fci. rewrite !(assoc_filter _ (fun k => mem_str k caps)).
    destruct (mem_str f' caps); [|tauto]. rewrite <- In_fnames_assoc. apply dfc_none. }
  assert (Hgpvi : forall f' c c' cenv cbf, assoc f' fci = Some (c, c', cenv, cbf) -> vpin (mpins path FT) c' (VFun (mfloc path FT f') cbf)).
  { intros f' c c' cenv cbf E. destruct (Hentry _ _ E) as (_ & j & ps' & body' & _ & _ & _ & _ & _ & E' & _). exact (mpins_v _ _ _ _ _ _ _ E'). }
  assert (Hgpsi : forall f' c c' cenv cbf ps' body', assoc f' fci = Some (c, c', cenv, cbf) -> assoc f' FTi = Some (ps', body') ->
            spin (mpins path FT) c (RClos ps' body' cenv)).
  { intros f' c c' cenv cbf ps' body' E E2. destruct (Hentry _ _ E) as (_ & j & ps2 & body2 & _ & _ & _ & E3 & E4 & E' & _).
    rewrite E3 in E2. inversion E2; subst ps2 body2. exact (mpins_s _ _ _ _ _ _ _ _ _ E' E4). }
  assert (Hent : forall f' c c' ce cb', assoc f' fci = Some (c, c', ce, cb') ->
            lookup_scopes f' [dscope 0 P] = Some c /\ exists m, fcb P d = Some m /\ assoc f' m = Some c').
  { intros f' c c' ce cb' E. destruct (Hentry _ _ E) as (Hin & j & ps' & body' & Hj & _ & HPj & _ & _ & _ & Ex & _).
    inversion Ex; subst c c' ce cb'.
    pose proof (assoc_dscope_nth P 0 j _ HndP HPj) as Ha. cbn [fst Nat.add] in Ha.
    split; [cbn [lookup_scopes]; now rewrite Ha|].
    unfold fcb, caps_of, d. cbn [fst snd]. fold caps. destruct caps as [|n0 ns0] eqn:Ec; [destruct Hin|].
    eexists. split; [reflexivity|]. now apply assoc_capmap. }
  intros fuel. induction fuel as [fuel IHf] using lt_wf_ind.
  pose proof (fun_sim prog FTi fci (mfloc path FT) Hfun0i Hfcki (fcb P d)
                (Some (RClos ps body [dscope 0 P])) (fn_name path n) [] (mpins path FT) Hgpvi Hgpsi [] (fun _ => [])
                ltac:(intros x c0 E; discriminate) ltac:(intros f0 p0 _ [])
                ps body [dscope 0 P]
                (strip (ftail (bitems 1 0 None body))) eq_refl) as HS.
  cbv zeta in HS. fold (fcode_of ps body) in HS.
  assert (Ht : strip (ftail (bitems 1 0 None body)) = [mkI OP_VOID []; mkI OP_RET []] \/
               (strip (ftail (bitems 1 0 None body)) = [] /\ ends_ret body = true)).
  { destruct (strip_ftail (bitems 1 0 None body)) as [H|[H H']]; [now left|right]. split; [exact H|].
    exact (ends_in_ret_body _ _ _ (rev ps) 1 0 body Hokb H'). }
  apply (HS (Hprog _ _ _ _ Hnth) Ht Hndp Hsrc Hpn Hokb Hsm Hent ltac:(intros x c0 E; discriminate) fuel).
  - intros fuel' _ f' ps' body' c0 c0' cenv' cbf' Eft Efc.
    destruct (Hentry _ _ Efc) as (_ & j & ps2 & body2 & Hj & Hnj & _ & E3 & _ & _ & Ex & Efl).
    rewrite E3 in Eft. inversion Eft; subst ps2 body2. inversion Ex; subst c0 c0' cenv' cbf'. rewrite Efl.
    exact (IHn j f' ps' body' Hj Hnj fuel').
  - intros fuel' Hlt. exact (IHf fuel' Hlt).
Qed.

Lemma call_ok_defs : forall fuel, call_ok FT (dfc [] FT) (mfloc path FT) (mpins path FT) (fun _ => []) prog fuel.
Proof.
  intros fuel f ps body c0 c0' cenv cbf Eft Efc.
  destruct (dfc_assoc _ _ _ _ Efc) as (ps' & body' & H1 & H2 & H3). rewrite H2 in Eft. inversion Eft; subst ps' body'.
  inversion H3; subst. cbn [app length Nat.add]. unfold mfloc.
  exact (gcall_ok (S (findex f FT)) (findex f FT) f ps body (Nat.lt_succ_diag_r _) H1 fuel).
Qed.
End Closure.

Section ModuleFun.
Variable path : str.

Definition fmodule (FT : ftab) (main : list stmt) : source := map def_stmt FT ++ main.
Definition fmodule_code (FT : ftab) (main : list stmt) : list instr :=
  dcode path 0 FT ++ strip (bitems 0 0 None main) ++ [ret_mod].

Lemma cprogram_fmodule : forall FT main, fns_ok [] FT -> ok_block FT None [] false [] main = true ->
  cprogram path (fmodule FT main) = dfbuf path 0 FT ++ [(s_module_fn path, fmodule_code FT main)].
Proof.
  intros FT main HF Hok. unfold cprogram, fmodule. rewrite (cblock0_defs path FT [] main {| fid := 0; lreg := 0; fbuf := [] |} HF eq_refl). cbn [fid fbuf lreg app Nat.add].
  rewrite cblock0_eq, (cblockT_ok path 0 main FT None [] false [] None _ Hok). cbn [lreg fbuf].
  rewrite strip_app, strip_map_CI. unfold fmodule_code. now rewrite <- app_assoc.
Qed.

(* C01 for modules that define functions first (each may call itself through `self` and the earlier functions, which it
   captures) and then call them (in expression position) from the module's own code, at any nesting depth *)
Theorem module_fun_correct : forall FT main,
  fns_ok [] FT -> NoDup (fnames FT) -> ok_block FT None [] false [] main = true ->
  small (2 * length (fmodule_code FT main) + 8) ->
  let p := fmodule FT main in
  forall fuel, snd (run fuel p) <> ROFuel -> no_claim (snd (run fuel p)) \/
  exists fuel', fst (fst (execute fuel' (cprogram path p) (s_module_fn path))) = fst (run fuel p) /\
                vm_outcome_ok (snd (run fuel p)) (snd (fst (execute fuel' (cprogram path p) (s_module_fn path)))).
Proof.
  intros FT main HF Hnd Hok Hsm p fuel Hnf.
  set (name := s_module_fn path).
  set (P := cprogram path p).
  set (mc := fmodule_code FT main).
  assert (EP : P = dfbuf path 0 FT ++ [(name, mc)]) by (apply cprogram_fmodule; assumption).
  assert (Ecode : assoc name P = Some mc) by (rewrite EP; apply assoc_dfbuf_module).
  assert (HlenFT : small (length FT)).
  { eapply small_le; [|exact Hsm]. unfold fmodule_code. rewrite app_length, dcode_length. lia. }
  assert (Hprog : forall i f ps body, nth_error FT i = Some (f, (ps, body)) -> assoc (fn_name path i) P = Some (fcode_of ps body)).
  { intros i f ps body Hi. rewrite EP. exact (assoc_dfbuf path FT 0 i f ps body _ HlenFT Hi). }
  set (env0 := {| locals := [[]]; captured := []; cur := None |}).
  set (s0 := {| store := []; rout := [] |}).
  set (a0 := act0 name [] None).
  set (g00 := push_frame g0 (LFun name)).
  assert (Hd0 : dinv path name [] env0 s0 a0 g00).
  { constructor; try reflexivity. intros i f ps body Hi. destruct i; discriminate. }
  destruct (defs_run path P name mc FT [] env0 s0 a0 g00 main fuel) as (env1 & s1 & a1 & g1 & R1 & Hd1 & Ha1 & Hex).
  { exact Hnd. }
  { exact HF. }
  { unfold mc, fmodule_code. cbn [length Nat.mul]. exact (code_at_embed [] (dcode path 0 FT) _). }
  { exact Hd0. }
  cbn [app] in Hd1.
  unfold run in *. fold env0 s0 in Hnf |- *. change (map def_stmt FT ++ main) with p in Hex.
  destruct Hex as [Hex|[fuel0 Hex]]; [rewrite Hex in Hnf; cbn in Hnf; congruence|].
  rewrite Hex in *. clear Hex.
  destruct (Rst_defs path name FT env1 s1 a1 g1 Hnd Hd1) as [HR HB].
  assert (Hf0 : forall f, In f (fnames FT) -> uname0 f) by (intros f; apply (fns_ok_names FT []); exact HF).
  pose proof (cblock_correct [] FT (fnames FT) (dfc [] FT) (mfloc path FT) None (fun f H => H) Hf0 (dfc_none FT [])
                None None name ltac:(intros ps0 E; discriminate) (mpins path FT) (mpins_v path FT) (mpins_s path FT)
                [] ltac:(intros x c0 E; discriminate) [] ltac:(intros x cc []) (fun _ => []) []
                ltac:(intros f0 p0 _ []) ltac:(intros p0 [])
                path main [] Hok 0 {| fid := 0; lreg := 0; fbuf := [] |} no_pins P name (dcode path 0 FT) [ret_mod]
                a1 g1 env1 s1 fuel0) as H.
  cbv zeta in H. rewrite (cblockT_ok path 0 main FT None [] false [] None _ Hok) in H. cbn [fst lreg] in H.
  fold (fmodule_code FT main) in H. fold mc in H.
  specialize (H ltac:(left; discriminate) Hsm (Nat.le_0_l _) ltac:(rewrite (di_ip _ _ _ _ _ _ _ Hd1), dcode_length; reflexivity)
                (di_cb _ _ _ _ _ _ _ Hd1) HR HB
                ltac:(intros fuel' _; apply call_ok_defs; assumption)
                ltac:(intros fuel' _ ps0 body0 cenv0 E; discriminate)).
  set (fin := length (dcode path 0 FT) + length (strip (bitems 0 0 None main))) in *.
  destruct (exec_block fuel0 env1 main s1) as [sig env' s'|f s'|]; [| |cbn in Hnf; congruence].
  - destruct sig as [| | |[v|]]; try contradiction.
    2:{ destruct H as (env'' & a' & g' & Hn & Hi & Hops & Hfo & HG & Ha).
      pose proof (xrun_trans _ _ _ _ _ _ _ _ _ R1 Hn) as Hn0.
      pose proof (Rg_drop _ _ _ _ _ _ _ _ _ _ _ _ _ HG) as Hdrop.
      destruct (xrun_loop _ _ _ _ _ _ _ Hn0) as (N & n & Hloop).
      set (f0 := Nat.max N (n + 1)).
      set (gf := with_frames (add_trace g' (name, N.of_nat (a_ip a'), op (mkI OP_RET []), N.of_nat (length (frames g')),
                                            N.of_nat (length [inj v]))) []).
      assert (Hrun : run_fn (S f0) P name [] None g0 = RDone (Some (inj v)) gf).
      { unfold run_fn. rewrite run_fn_gen_S, Ecode.
        change (run_fn_gen (fun _ _ _ => true) f0 P) with (run_fn f0 P).
        change (fun (_ : str) (_ : nat) (_ : bool) => true) with rcT.
        replace f0 with (n + (f0 - n)) at 2 by (unfold f0; lia).
        fold a0 g00. rewrite (Hloop f0 ltac:(unfold f0; lia)).
        destruct (f0 - n) as [|k] eqn:Ek; [unfold f0 in Ek; lia|].
        cbn [loop]. rewrite Hi. unfold Model.exec. change (decode (mkI OP_RET [])) with (DOk DRet). cbn [exec_d].
        rewrite Hops. cbn [add_trace frames]. rewrite Hdrop. reflexivity. }
      right. exists (S f0). unfold execute. fold P name. rewrite Hrun. cbn [fst snd gf with_frames frames out add_trace].
      split; [exact (Rg_out _ _ _ _ _ _ _ _ _ _ _ _ _ HG)|exact Logic.I]. }
    destruct H as (a' & g' & Hn & Hip & (HG & Hops & Hss) & Ha & Hd).
    pose proof (xrun_trans _ _ _ _ _ _ _ _ _ R1 Hn) as Hn0.
    destruct Hd as (Hd & HB' & _).
    assert (Hl1 : locals env1 = [dscope 0 FT]) by exact (di_loc _ _ _ _ _ _ _ Hd1).
    pose proof (same_tl_length env1 env' ltac:(rewrite Hl1; discriminate) Hd) as Hl. rewrite Hl1 in Hl. cbn [length] in Hl.
    pose proof (Rg_base _ _ _ _ _ _ _ _ _ _ _ _ _ HG) as Hbase. rewrite Hl in Hbase.
    pose proof (Rg_fr _ _ _ _ _ _ _ _ _ _ _ _ _ HG) as Hfr.
    destruct (locals env') as [|sc [|sc' l']]; cbn [length] in Hl; try discriminate.
    destruct g' as [cs' fs' o' tr']. cbn [frames out] in *.
    destruct fs' as [|f fs]; [cbn in Hfr; contradiction|]. cbn [skipn] in Hbase. subst fs.
    cbn [StmtRel.Rfr] in Hfr. destruct Hfr as [_ Hsp].
    destruct (xrun_loop _ _ _ _ _ _ _ Hn0) as (N & n & Hloop).
    set (f0 := Nat.max N (n + 1)).
    assert (Hrun : exists tr'', run_fn (S f0) P name [] None g0
                   = RDone (Some VModule) {| cells := cs'; frames := []; out := o'; trace := tr'' |}).
    { eexists. unfold run_fn. rewrite run_fn_gen_S, Ecode.
      change (run_fn_gen (fun _ _ _ => true) f0 P) with (run_fn f0 P).
      change (fun (_ : str) (_ : nat) (_ : bool) => true) with rcT.
      replace f0 with (n + (f0 - n)) at 2 by (unfold f0; lia).
      fold a0 g00. rewrite (Hloop f0 ltac:(unfold f0; lia)).
      destruct (f0 - n) as [|k] eqn:Ek; [unfold f0 in Ek; lia|].
      cbn [loop]. rewrite Hip. unfold mc, fmodule_code at 1. rewrite app_assoc, nth_error_app2 by (rewrite app_length; fold fin; lia).
      rewrite app_length. fold fin. rewrite Nat.sub_diag.
      cbn [nth_error]. unfold Model.exec. change (decode ret_mod) with (DOk DRetMod). cbn [exec_d].
      rewrite Hops. cbn [add_trace frames with_frames drop_to_function cells out trace]. rewrite Hsp. reflexivity. }
    destruct Hrun as [tr'' Hrun]. right.
    exists (S f0). unfold execute. fold P name. rewrite Hrun. cbn [fst snd frames out].
    split; [exact (Rg_out _ _ _ _ _ _ _ _ _ _ _ _ _ HG)|exact Logic.I].
  - apply fail_post_inv in H. destruct H as [[->| ->]|H]; [left; left; reflexivity|left; right; reflexivity|right].
    destruct H as (e & g' & Hn & Hr & Ho).
    pose proof (xrun_fail _ _ _ _ _ _ _ _ _ R1 Hn) as Hn0.
    destruct (xfail_loop _ _ _ _ _ _ _ Hn0) as (N & n & Hloop).
    assert (Hrun : run_fn (S (Nat.max N n)) P name [] None g0 = RFail e g').
    { unfold run_fn. rewrite run_fn_gen_S, Ecode.
      change (run_fn_gen (fun _ _ _ => true) (Nat.max N n) P) with (run_fn (Nat.max N n) P).
      change (fun (_ : str) (_ : nat) (_ : bool) => true) with rcT.
      replace (Nat.max N n) with (n + (Nat.max N n - n)) at 2 by lia.
      apply (Hloop (Nat.max N n)). lia. }
    exists (S (Nat.max N n)). unfold execute. fold P name. rewrite Hrun.
    cbn [fst snd]. split; [exact Ho|exact Hr].
Qed.
End ModuleFun.
