(* C07, the semantic reading of the capture list (item 4 of Compile/CaptureSpec.v):

     "the capture list is all a function can observe of its defining scopes".

   For the reference semantics Lang/Eval.v (lexical scoping, closures capture the WHOLE visible
   environment `locals e ++ captured e`) we prove, for function bodies of the first-order fragment
   (no call / self-call / nested literal inside the body; any nesting of if / elif / else / while / from,
   break / continue / return, all operators, assignments, modify, op-assign, print, assert):

     closure_depends_only_on_free_vars :
       two captured environments that agree on `free_vars ps body` give the same result of the call
       (same value, same store, same output, same failure, same fuel behaviour), and hence
     capture_list_suffices :
       restricting the captured environment of the closure to `free_vars ps body` changes nothing.

   Side conditions (WfS / WfB) are the two rules the real compiler enforces anyway:
     - `modify x` only for an x that is not a local of the function   (assignment.rs: "`x` is a variable of
       this function, not one captured from an enclosing function: `modify` does not apply"),
     - a counter that is declared fresh (collide = false) is not already a local.
   `modify_of_local_needs_side_condition` shows the first one is necessary.

   The fragment restriction is what keeps values first-order during the call, so "same result" is plain
   equality; with calls inside the body one needs a step-indexed relation between closure values (not done). *)
From MS Require Import Vm.Model Lang.Syntax Compile.Compile Compile.ExprBase Compile.CaptureSpec Lang.Eval.
From Coq Require Import Lia.
Open Scope nat_scope.

(* ================================================================ the local functions of Eval.v, named *)
Definition evS (r : eres) (k : rvalue -> rstate -> sres_) : sres_ :=
  match r with
  | EVal v s => k v s | ENoVal s => SFailed (FType 3) s | EFail f s => SFailed f s | EFuel => SFuel end.

Definition in_block (fuel : nat) (body : list stmt) (e : fenv) (s : rstate) : sres_ :=
  match exec_block fuel (push_scope e) body s with
  | SOk g e s => SOk g (pop_scope e) s | r => r end.

Definition cname_of (name : option str) : str := match name with Some x => x | None => [0%N] end.
Definition fin_ (collide : bool) (cname : str) (e : fenv) : fenv := if collide then e else undeclare e cname.

Definition bump_ (k : fenv -> rstate -> sres_) (c : N) (e : fenv) (sv : rvalue) (s : rstate) : sres_ :=
  match sget s c, sv with
  | Some (RInt i'), RInt d => if i32_ok (i' + d) then k e (sset s c (RInt (i' + d))) else SFailed FOverflow s
  | _, _ => SFailed (FType 13) s end.
Definition step_ (fuel : nat) (step : option expr) (k : fenv -> rstate -> sres_) (c : N) (e : fenv) (s : rstate) : sres_ :=
  match step with
  | None => bump_ k c e (RInt 1) s
  | Some se => match eval fuel e se s with
               | EVal sv s => bump_ k c e sv s | ENoVal s => SFailed (FType 3) s
               | EFail f s => SFailed f s | EFuel => SFuel end
  end.

Definition from_iter (fuel : nat) (incl : bool) (hi : Z) (cname : str) (collide : bool)
  (step : option expr) (body : list stmt) : nat -> fenv -> rstate -> sres_ :=
  fix iter (n : nat) (e : fenv) (s : rstate) : sres_ :=
    match n with O => SFuel | S n =>
    match lookup_scopes cname (locals e) with
    | None => SFailed (FUnbound cname) s
    | Some c =>
      match sget s c with
      | Some (RInt i) =>
        if (if incl then i <=? hi else i <? hi)%Z then
          match in_block fuel body e s with
          | SOk (SigNormal | SigContinue) e s => step_ fuel step (iter n) c e s
          | SOk SigBreak e s => SOk SigNormal (fin_ collide cname e) s
          | SOk g e s => SOk g (fin_ collide cname e) s
          | r => r end
        else SOk SigNormal (fin_ collide cname e) s
      | _ => SFailed (FType 13) s end
    end end.

Definition eval_args (fuel : nat) (e : fenv) : list expr -> rstate -> list rvalue -> (list rvalue * rstate) + eres :=
  fix evals (l : list expr) (s : rstate) (acc : list rvalue) : (list rvalue * rstate) + eres :=
    match l with
    | [] => inl (rev acc, s)
    | a :: l => match eval fuel e a s with
                | EVal v s => evals l s (v :: acc)
                | ENoVal s => inr (EFail (FType 3) s)
                | r => inr r end
    end.

(* Eval.v's `call_clos` *)
Definition call_closure (fuel : nat) (f : rvalue) (vs : list rvalue) (s : rstate) : eres :=
  match f with
  | RClos ps body cenv =>
    match bind_params ps vs s [] with
    | None => EFail (FType 4) s
    | Some (sc, s) =>
      match exec_block fuel {| locals := [sc]; captured := cenv; cur := Some f |} body s with
      | SOk (SigReturn (Some v)) _ s => EVal v s
      | SOk _ _ s => ENoVal s
      | SFailed f s => EFail f s
      | SFuel => EFuel end
    end
  | _ => EFail (FType 5) s end.

(* ---- unfolding equations (all by computation: the named functions ARE the local ones) *)
Lemma eval_S_Call : forall fuel e f l s, eval (S fuel) e (ECall f l) s =
  match eval fuel e f s with
  | EVal vf s => match eval_args fuel e l s [] with
                 | inl (vs, s) => call_closure fuel vf vs s
                 | inr r => r end
  | ENoVal s => EFail (FType 3) s | r => r end.
Proof. reflexivity. Qed.
Lemma eval_S_Fn : forall fuel e ps body s,
  eval (S fuel) e (EFn ps body) s = EVal (RClos ps body (locals e ++ captured e)) s.
Proof. reflexivity. Qed.
Lemma eval_S_Var : forall fuel e n s, eval (S fuel) e (EVar n) s =
  match lookup_scopes n (locals e ++ captured e) with
  | Some c => match sget s c with Some v => EVal v s | None => EFail (FUnbound n) s end
  | None => EFail (FUnbound n) s end.
Proof. reflexivity. Qed.
Lemma eval_S_Bin : forall fuel e o a b s, eval (S fuel) e (EBin o a b) s =
  match eval fuel e a s with
  | EVal va s => match eval fuel e b s with
                 | EVal vb s => binop_sem o va vb s
                 | ENoVal s => EFail (FType 3) s | r => r end
  | ENoVal s => EFail (FType 3) s | r => r end.
Proof. reflexivity. Qed.
Lemma eval_S_And : forall fuel e a b s, eval (S fuel) e (EAnd a b) s =
  match eval fuel e a s with
  | EVal (RBool false) s => EVal (RBool false) s
  | EVal (RBool true) s => match eval fuel e b s with
                           | EVal (RBool vb) s => EVal (RBool vb) s
                           | EVal _ s | ENoVal s => EFail (FType 6) s | r => r end
  | EVal _ s | ENoVal s => EFail (FType 6) s | r => r end.
Proof. reflexivity. Qed.
Lemma eval_S_Or : forall fuel e a b s, eval (S fuel) e (EOr a b) s =
  match eval fuel e a s with
  | EVal (RBool true) s => EVal (RBool true) s
  | EVal (RBool false) s => match eval fuel e b s with
                            | EVal (RBool vb) s => EVal (RBool vb) s
                            | EVal _ s | ENoVal s => EFail (FType 6) s | r => r end
  | EVal _ s | ENoVal s => EFail (FType 6) s | r => r end.
Proof. reflexivity. Qed.
Lemma eval_S_Not : forall fuel e a s, eval (S fuel) e (ENot a) s =
  match eval fuel e a s with
  | EVal (RBool b) s => EVal (RBool (negb b)) s
  | EVal _ s | ENoVal s => EFail (FType 7) s | r => r end.
Proof. reflexivity. Qed.
Lemma eval_S_Neg : forall fuel e a s, eval (S fuel) e (ENeg a) s =
  match eval fuel e a s with
  | EVal (RInt z) s => arith_res (- z) s
  | EVal _ s | ENoVal s => EFail (FType 7) s | r => r end.
Proof. reflexivity. Qed.
Lemma eval_S_NilOr : forall fuel e a b s, eval (S fuel) e (ENilOr a b) s =
  match eval fuel e a s with
  | EVal RNil s => eval fuel e b s
  | r => r end.
Proof. reflexivity. Qed.
Lemma eval_S_Get : forall fuel e a sp s, eval (S fuel) e (EGet a sp) s =
  match eval fuel e a s with
  | EVal RNil s => EFail (FUnwrapNil sp) s
  | r => r end.
Proof. reflexivity. Qed.

Lemma exec_S_Assign : forall fuel e x v s, exec (S fuel) e (SAssign x v) s =
  evS (eval fuel e v s) (fun v s => let '(e, s) := assign e s x v in SOk SigNormal e s).
Proof. reflexivity. Qed.
Lemma exec_S_Modify : forall fuel e x v s, exec (S fuel) e (SModify x v) s =
  evS (eval fuel e v s) (fun v s => match lookup_scopes x (captured e) with
                                    | Some c => SOk SigNormal e (sset s c v)
                                    | None => SFailed (FUnbound x) s end).
Proof. reflexivity. Qed.
Lemma exec_S_OpAssign : forall fuel e x o v s, exec (S fuel) e (SOpAssign x o v) s =
  evS (eval fuel e v s) (fun v s =>
      match lookup_scopes x (locals e ++ captured e) with
      | Some c => match sget s c with
                  | Some cur_ => match binop_sem o cur_ v s with
                                 | EVal r s => SOk SigNormal e (sset s c r)
                                 | EFail f s => SFailed f s | _ => SFailed (FType 9) s end
                  | None => SFailed (FUnbound x) s end
      | None => SFailed (FUnbound x) s end).
Proof. reflexivity. Qed.
Lemma exec_S_Print : forall fuel e v s, exec (S fuel) e (SPrint v) s =
  evS (eval fuel e v s) (fun v s => match rshow v with
                                    | Some l => SOk SigNormal e (sprint s l) | None => SFailed (FType 10) s end).
Proof. reflexivity. Qed.
Lemma exec_S_Assert : forall fuel e v sp s, exec (S fuel) e (SAssert v sp) s =
  evS (eval fuel e v s) (fun v s => match v with
                                    | RBool true => SOk SigNormal e s
                                    | RBool false => SFailed (FAssert sp) s
                                    | _ => SFailed (FType 11) s end).
Proof. reflexivity. Qed.
Lemma exec_S_Expr : forall fuel e v s, exec (S fuel) e (SExpr v) s =
  match eval fuel e v s with
  | EVal _ s | ENoVal s => SOk SigNormal e s | EFail f s => SFailed f s | EFuel => SFuel end.
Proof. reflexivity. Qed.
Definition if_k (e : fenv) (yes no : fenv -> rstate -> sres_) (v : rvalue) (s : rstate) : sres_ :=
  match v with
  | RBool true => yes e s
  | RBool false => no e s
  | _ => SFailed (FType 12) s end.
Lemma exec_S_If : forall fuel e c body s, exec (S fuel) e (SIf c body) s =
  evS (eval fuel e c s) (if_k e (in_block fuel body) (SOk SigNormal)).
Proof. reflexivity. Qed.
Lemma exec_S_IfElse : forall fuel e c body els s, exec (S fuel) e (SIfElse c body els) s =
  evS (eval fuel e c s) (if_k e (in_block fuel body) (in_block fuel els)).
Proof. reflexivity. Qed.
Lemma exec_S_IfElif : forall fuel e c body nxt s, exec (S fuel) e (SIfElif c body nxt) s =
  evS (eval fuel e c s) (if_k e (in_block fuel body) (in_block fuel [nxt])).
Proof. reflexivity. Qed.
Lemma exec_S_While : forall fuel e c body s, exec (S fuel) e (SWhile c body) s =
  evS (eval fuel e c s) (fun v s => match v with
                       | RBool false => SOk SigNormal e s
                       | RBool true =>
                         match in_block fuel body e s with
                         | SOk (SigNormal | SigContinue) e s => exec fuel e (SWhile c body) s
                         | SOk SigBreak e s => SOk SigNormal e s
                         | r => r end
                       | _ => SFailed (FType 12) s end).
Proof. reflexivity. Qed.
Lemma exec_S_From : forall fuel e a b incl step name collide body s,
  exec (S fuel) e (SFrom a b incl step name collide body) s =
  evS (eval fuel e a s) (fun va s => evS (eval fuel e b s) (fun vb s =>
      match va, vb with
      | RInt _, RInt hi =>
        let '(e, s) := (if collide then assign e s (cname_of name) va else declare e s (cname_of name) va) in
        from_iter fuel incl hi (cname_of name) collide step body fuel e s
      | _, _ => SFailed (FType 13) s end)).
Proof. reflexivity. Qed.
Lemma exec_S_Return : forall fuel e v s, exec (S fuel) e (SReturn (Some v)) s =
  evS (eval fuel e v s) (fun v s => SOk (SigReturn (Some v)) e s).
Proof. reflexivity. Qed.
Lemma exec_block_S_cons : forall fuel e st l s, exec_block (S fuel) e (st :: l) s =
  match exec fuel e st s with
  | SOk SigNormal e s => exec_block fuel e l s
  | r => r end.
Proof. reflexivity. Qed.

Lemma from_iter_S : forall fuel incl hi cname collide step body n e s,
  from_iter fuel incl hi cname collide step body (S n) e s =
    match lookup_scopes cname (locals e) with
    | None => SFailed (FUnbound cname) s
    | Some c =>
      match sget s c with
      | Some (RInt i) =>
        if (if incl then i <=? hi else i <? hi)%Z then
          match in_block fuel body e s with
          | SOk (SigNormal | SigContinue) e s =>
            step_ fuel step (from_iter fuel incl hi cname collide step body n) c e s
          | SOk SigBreak e s => SOk SigNormal (fin_ collide cname e) s
          | SOk g e s => SOk g (fin_ collide cname e) s
          | r => r end
        else SOk SigNormal (fin_ collide cname e) s
      | _ => SFailed (FType 13) s end
    end.
Proof. reflexivity. Qed.

(* ================================================================ the fragment and its side conditions *)
Inductive WfS : list str -> stmt -> Prop :=
| W_Assign : forall bd x e, pure e = true -> WfS bd (SAssign x e)
| W_Modify : forall bd x e, pure e = true -> ~ In x bd -> WfS bd (SModify x e)
| W_OpAssign : forall bd x o e, pure e = true -> WfS bd (SOpAssign x o e)
| W_Print : forall bd e, pure e = true -> WfS bd (SPrint e)
| W_Assert : forall bd e sp, pure e = true -> WfS bd (SAssert e sp)
| W_Expr : forall bd e, pure e = true -> WfS bd (SExpr e)
| W_If : forall bd c b, pure c = true -> WfB bd b -> WfS bd (SIf c b)
| W_IfElse : forall bd c b e, pure c = true -> WfB bd b -> WfB bd e -> WfS bd (SIfElse c b e)
| W_IfElif : forall bd c b n, pure c = true -> WfB bd b -> WfS bd n -> WfS bd (SIfElif c b n)
| W_While : forall bd c b, pure c = true -> WfB bd b -> WfS bd (SWhile c b)
| W_From : forall bd a b incl step name collide body,
    pure a = true -> pure b = true -> (forall e, step = Some e -> pure e = true) ->
    (collide = false -> ~ In (cname_of name) bd) ->
    WfB (counter_scope name bd) body ->
    WfS bd (SFrom a b incl step name collide body)
| W_Break : forall bd, WfS bd SBreak
| W_Continue : forall bd, WfS bd SContinue
| W_Return : forall bd r, (forall e, r = Some e -> pure e = true) -> WfS bd (SReturn r)
with WfB : list str -> list stmt -> Prop :=
| WB_nil : forall bd, WfB bd []
| WB_cons : forall bd s l, WfS bd s -> WfB (binds s ++ bd) l -> WfB bd (s :: l).

(* ================================================================ association lists / scopes *)
Lemma str_dec : forall a b : str, a = b \/ a <> b.
Proof.
  intros a b. destruct (str_eqb a b) eqn:E; [left; now apply str_eqb_iff|right].
  intros ->. rewrite str_eqb_refl in E. discriminate.
Qed.

Lemma assoc_set_same : forall {A} x (c : A) sc, assoc x (assoc_set x c sc) = Some c.
Proof.
  intros A x c sc. induction sc as [|[k v] sc IH]; cbn [assoc_set assoc].
  - now rewrite str_eqb_refl.
  - destruct (str_eqb k x) eqn:E; cbn [assoc]; [now rewrite str_eqb_refl|]. rewrite E. exact IH.
Qed.
Lemma assoc_set_other : forall {A} x y (c : A) sc, x <> y -> assoc y (assoc_set x c sc) = assoc y sc.
Proof.
  intros A x y c sc Hne. induction sc as [|[k v] sc IH]; cbn [assoc_set assoc].
  - now rewrite (str_eqb_neq x y Hne).
  - destruct (str_eqb k x) eqn:E; cbn [assoc].
    + apply str_eqb_iff in E. subst k. now rewrite (str_eqb_neq x y Hne).
    + destruct (str_eqb k y); [reflexivity|exact IH].
Qed.
Lemma assoc_del_other : forall {A} x y (sc : list (str * A)), x <> y -> assoc y (assoc_del x sc) = assoc y sc.
Proof.
  intros A x y sc Hne. induction sc as [|[k v] sc IH]; cbn [assoc_del assoc]; [reflexivity|].
  destruct (str_eqb k x) eqn:E.
  - apply str_eqb_iff in E. subst k. now rewrite (str_eqb_neq x y Hne).
  - cbn [assoc]. destruct (str_eqb k y); [reflexivity|exact IH].
Qed.

Lemma lookup_app : forall x l1 l2, lookup_scopes x (l1 ++ l2) =
  match lookup_scopes x l1 with Some c => Some c | None => lookup_scopes x l2 end.
Proof.
  intros x l1 l2. induction l1 as [|sc l1 IH]; cbn [app lookup_scopes]; [reflexivity|].
  destruct (assoc x sc); [reflexivity|exact IH].
Qed.

(* ================================================================ two runs that differ in the captured environment *)
Section TwoRuns.
Variable c1 c2 : list scope.                    (* the two captured environments *)

Definition R (x : str) : Prop := lookup_scopes x c1 = lookup_scopes x c2.

Definition Keeps (bd : list str) (e : fenv) : Prop :=
  forall y, In y bd -> lookup_scopes y (locals e) <> None.

(* same locals; the static `bound` names are really local at run time *)
Definition Rel (bd : list str) (e1 e2 : fenv) : Prop :=
  locals e1 = locals e2 /\ captured e1 = c1 /\ captured e2 = c2 /\ Keeps bd e1.

Definition SameS (Pe : fenv -> fenv -> Prop) (r1 r2 : sres_) : Prop :=
  match r1, r2 with
  | SOk g1 e1 s1, SOk g2 e2 s2 => g1 = g2 /\ s1 = s2 /\ Pe e1 e2
  | SFailed f1 s1, SFailed f2 s2 => f1 = f2 /\ s1 = s2
  | SFuel, SFuel => True
  | _, _ => False end.

Definition Post (bd : list str) (T : list scope) (e1 e2 : fenv) : Prop :=
  Rel bd e1 e2 /\ tl (locals e1) = T.
Definition RelS (bd : list str) (T : list scope) : sres_ -> sres_ -> Prop := SameS (Post bd T).
Ltac ok_ := unfold RelS; cbn [SameS]; split; [reflexivity|]; split; [reflexivity|].

Lemma SameS_fail : forall Pe f s, SameS Pe (SFailed f s) (SFailed f s).
Proof. intros. cbn. auto. Qed.
Lemma SameS_evS : forall Pe r k1 k2,
  (forall v s, SameS Pe (k1 v s) (k2 v s)) -> SameS Pe (evS r k1) (evS r k2).
Proof. intros Pe r k1 k2 H. destruct r; cbn [evS]; [apply H|apply SameS_fail|apply SameS_fail|exact Logic.I]. Qed.
Lemma SameS_mono : forall (P Q : fenv -> fenv -> Prop) r1 r2,
  (forall e1 e2, P e1 e2 -> Q e1 e2) -> SameS P r1 r2 -> SameS Q r1 r2.
Proof.
  intros P Q r1 r2 H. destruct r1, r2; cbn; auto. intros (A & B & C). auto.
Qed.

Lemma Rel_weaken : forall bd bd' e1 e2, (forall y, In y bd -> In y bd') -> Rel bd' e1 e2 -> Rel bd e1 e2.
Proof. intros bd bd' e1 e2 Hi (A & B & C & D). repeat split; auto. intros y Hy. apply D. auto. Qed.

Lemma Rel_locals : forall bd e1 e2 e1' e2',
  Rel bd e1 e2 -> locals e1' = locals e1 -> locals e2' = locals e2 ->
  captured e1' = c1 -> captured e2' = c2 -> Rel bd e1' e2'.
Proof.
  intros bd e1 e2 e1' e2' (A & B & C & D) H1 H2 H3 H4. repeat split; auto; try congruence.
  intros y Hy. rewrite H1. now apply D.
Qed.

Lemma lookup_env_eq : forall bd e1 e2 x, Rel bd e1 e2 -> (~ In x bd -> R x) ->
  lookup_scopes x (locals e1 ++ captured e1) = lookup_scopes x (locals e2 ++ captured e2).
Proof.
  intros bd e1 e2 x (A & B & C & D) H. rewrite !lookup_app, <- A, B, C.
  destruct (lookup_scopes x (locals e1)) eqn:E; [reflexivity|].
  apply H. intros Hin. exact (D x Hin E).
Qed.

(* ---- declare / assign / undeclare *)
Lemma declare_rel : forall bd e1 e2 s x v, Rel bd e1 e2 ->
  snd (declare e1 s x v) = snd (declare e2 s x v)
  /\ Rel (x :: bd) (fst (declare e1 s x v)) (fst (declare e2 s x v))
  /\ tl (locals (fst (declare e1 s x v))) = tl (locals e1).
Proof.
  intros bd [L1 C1 cu1] [L2 C2 cu2] s x v (A & B & C & D). cbn [locals captured] in *. subst L2 C1 C2.
  unfold Keeps in D. cbn [locals] in D.
  unfold declare, alloc. cbn [locals captured cur].
  destruct L1 as [|sc r]; cbn [fst snd locals captured tl].
  - split; [reflexivity|]. split; [|reflexivity]. repeat split; cbn [locals captured]; auto.
    intros y [<-|Hy]; cbn [locals lookup_scopes assoc].
    + rewrite str_eqb_refl. discriminate.
    + exfalso. exact (D y Hy eq_refl).
  - split; [reflexivity|]. split; [|reflexivity]. repeat split; cbn [locals captured]; auto.
    intros y Hy. cbn [locals lookup_scopes].
    destruct (str_dec x y) as [<-|Hne].
    + rewrite assoc_set_same. discriminate.
    + destruct Hy as [Hy|Hy]; [contradiction|]. rewrite (assoc_set_other x y _ sc Hne).
      exact (D y Hy).
Qed.

Lemma assign_rel : forall bd e1 e2 s x v, Rel bd e1 e2 ->
  snd (assign e1 s x v) = snd (assign e2 s x v)
  /\ Rel (x :: bd) (fst (assign e1 s x v)) (fst (assign e2 s x v))
  /\ tl (locals (fst (assign e1 s x v))) = tl (locals e1).
Proof.
  intros bd e1 e2 s x v HR. unfold assign. destruct HR as (A & B & C & D). rewrite <- A.
  destruct (lookup_scopes x (locals e1)) eqn:E.
  - cbn [fst snd]. split; [reflexivity|]. split; [|reflexivity]. repeat split; auto.
    intros y [<-|Hy]; [congruence|now apply D].
  - apply declare_rel. repeat split; auto.
Qed.

Lemma undeclare_rel : forall bd inner e1 e2 x,
  Rel inner e1 e2 -> (forall y, In y bd -> In y inner) -> ~ In x bd ->
  Rel bd (undeclare e1 x) (undeclare e2 x) /\ tl (locals (undeclare e1 x)) = tl (locals e1).
Proof.
  intros bd inner [L1 C1 cu1] [L2 C2 cu2] x (A & B & C & D) Hi Hx. cbn [locals captured] in *. subst L2 C1 C2.
  unfold Keeps in D. cbn [locals] in D. unfold undeclare. cbn [locals captured cur].
  destruct L1 as [|sc r]; cbn [locals captured tl].
  - split; [|reflexivity]. repeat split; auto. intros y Hy. cbn [locals]. apply D. auto.
  - split; [|reflexivity]. repeat split; auto. intros y Hy. cbn [locals lookup_scopes].
    assert (Hne : x <> y) by (intros ->; contradiction).
    rewrite (assoc_del_other x y sc Hne). exact (D y (Hi y Hy)).
Qed.

Lemma fin_rel : forall bd inner collide cname e1 e2,
  Rel inner e1 e2 -> (forall y, In y bd -> In y inner) -> (collide = false -> ~ In cname bd) ->
  Post bd (tl (locals e1)) (fin_ collide cname e1) (fin_ collide cname e2).
Proof.
  intros bd inner collide cname e1 e2 HR Hi Hc. unfold fin_, Post. destruct collide.
  - split; [exact (Rel_weaken _ _ _ _ Hi HR)|reflexivity].
  - exact (undeclare_rel bd inner e1 e2 cname HR Hi (Hc eq_refl)).
Qed.

(* ---- the induction hypotheses, per fuel *)
Definition IE (fuel : nat) : Prop := forall x bd e1 e2, pure x = true -> Rel bd e1 e2 ->
  (forall y, FreeE bd x y -> R y) -> forall s, eval fuel e1 x s = eval fuel e2 x s.
Definition IS (fuel : nat) : Prop := forall st bd e1 e2, WfS bd st -> Rel bd e1 e2 ->
  (forall y, FreeS bd st y -> R y) ->
  forall s, RelS (binds st ++ bd) (tl (locals e1)) (exec fuel e1 st s) (exec fuel e2 st s).
Definition IB (fuel : nat) : Prop := forall l bd e1 e2, WfB bd l -> Rel bd e1 e2 ->
  (forall y, FreeBlock bd l y -> R y) ->
  forall s, RelS bd (tl (locals e1)) (exec_block fuel e1 l s) (exec_block fuel e2 l s).

Lemma IE_step : forall fuel, IE fuel -> IE (S fuel).
Proof.
  intros fuel IH x bd e1 e2 Hp HR Hfree s. destruct x; cbn [pure] in Hp; try discriminate; try reflexivity.
  - (* EVar *) rewrite !eval_S_Var. rewrite (lookup_env_eq bd e1 e2 x HR); [reflexivity|].
    intros Hn. apply Hfree. now apply FE_Var.
  - (* EBin *) apply Bool.andb_true_iff in Hp as [Hp1 Hp2]. rewrite !eval_S_Bin.
    rewrite (IH x1 bd e1 e2 Hp1 HR (fun y H => Hfree y (FE_BinL _ _ _ _ _ H))).
    destruct (eval fuel e2 x1 s) as [va s'|s'|f s'|]; try reflexivity.
    rewrite (IH x2 bd e1 e2 Hp2 HR (fun y H => Hfree y (FE_BinR _ _ _ _ _ H))). reflexivity.
  - (* EAnd *) apply Bool.andb_true_iff in Hp as [Hp1 Hp2]. rewrite !eval_S_And.
    rewrite (IH x1 bd e1 e2 Hp1 HR (fun y H => Hfree y (FE_AndL _ _ _ _ H))).
    destruct (eval fuel e2 x1 s) as [va s'|s'|f s'|]; try reflexivity.
    destruct va as [z|[|]|t| |ps0 b0 env0]; try reflexivity.
    rewrite (IH x2 bd e1 e2 Hp2 HR (fun y H => Hfree y (FE_AndR _ _ _ _ H))). reflexivity.
  - (* EOr *) apply Bool.andb_true_iff in Hp as [Hp1 Hp2]. rewrite !eval_S_Or.
    rewrite (IH x1 bd e1 e2 Hp1 HR (fun y H => Hfree y (FE_OrL _ _ _ _ H))).
    destruct (eval fuel e2 x1 s) as [va s'|s'|f s'|]; try reflexivity.
    destruct va as [z|[|]|t| |ps0 b0 env0]; try reflexivity.
    rewrite (IH x2 bd e1 e2 Hp2 HR (fun y H => Hfree y (FE_OrR _ _ _ _ H))). reflexivity.
  - (* ENot *) rewrite !eval_S_Not.
    rewrite (IH x bd e1 e2 Hp HR (fun y H => Hfree y (FE_Not _ _ _ H))). reflexivity.
  - (* ENeg *) rewrite !eval_S_Neg.
    rewrite (IH x bd e1 e2 Hp HR (fun y H => Hfree y (FE_Neg _ _ _ H))). reflexivity.
  - (* ENilOr *) apply Bool.andb_true_iff in Hp as [Hp1 Hp2]. rewrite !eval_S_NilOr.
    rewrite (IH x1 bd e1 e2 Hp1 HR (fun y H => Hfree y (FE_NilOrL _ _ _ _ H))).
    destruct (eval fuel e2 x1 s) as [va s'|s'|f s'|]; try reflexivity.
    destruct va as [z|[|]|t| |ps0 b0 env0]; try reflexivity.
    apply (IH x2 bd e1 e2 Hp2 HR (fun y H => Hfree y (FE_NilOrR _ _ _ _ H))).
  - (* EGet *) rewrite !eval_S_Get.
    rewrite (IH x bd e1 e2 Hp HR (fun y H => Hfree y (FE_Get _ _ _ _ H))). reflexivity.
Qed.

(* ---- blocks restore the locals *)
Lemma Rel_push : forall bd e1 e2, Rel bd e1 e2 -> Rel bd (push_scope e1) (push_scope e2).
Proof.
  intros bd e1 e2 (A & B & C & D). unfold push_scope.
  split; [cbn [locals]; now rewrite A|]. split; [exact B|]. split; [exact C|].
  intros y Hy. cbn [locals lookup_scopes assoc]. now apply D.
Qed.

Lemma in_block_rel : forall fuel, IB fuel -> forall bd body e1 e2 s,
  WfB bd body -> Rel bd e1 e2 -> (forall y, FreeBlock bd body y -> R y) ->
  SameS (fun e1' e2' => Rel bd e1' e2' /\ locals e1' = locals e1)
        (in_block fuel body e1 s) (in_block fuel body e2 s).
Proof.
  intros fuel HB bd body e1 e2 s Hw HR Hfree. unfold in_block.
  pose proof (HB body bd (push_scope e1) (push_scope e2) Hw (Rel_push _ _ _ HR) Hfree s) as H.
  unfold RelS in H.
  destruct (exec_block fuel (push_scope e1) body s) as [g1 f1 s1|f1 s1|],
           (exec_block fuel (push_scope e2) body s) as [g2 f2 s2|f2 s2|]; cbn [SameS] in H |- *; auto.
  destruct H as (Hg & Hs & (HR' & Ht)). split; [exact Hg|]. split; [exact Hs|].
  cbn [push_scope locals tl] in Ht.
  destruct HR' as (A' & B' & C' & D').
  assert (L1 : locals (pop_scope f1) = locals e1) by (unfold pop_scope; cbn [locals]; exact Ht).
  split; [|exact L1].
  apply (Rel_locals bd e1 e2); [exact HR|exact L1| |exact B'|exact C'].
  unfold pop_scope; cbn [locals]. rewrite <- A', Ht. now destruct HR.
Qed.

Lemma in_block_post : forall fuel, IB fuel -> forall bd body e1 e2 s,
  WfB bd body -> Rel bd e1 e2 -> (forall y, FreeBlock bd body y -> R y) ->
  RelS bd (tl (locals e1)) (in_block fuel body e1 s) (in_block fuel body e2 s).
Proof.
  intros fuel HB bd body e1 e2 s Hw HR Hfree.
  eapply SameS_mono; [|exact (in_block_rel fuel HB bd body e1 e2 s Hw HR Hfree)].
  intros f1 f2 [H1 H2]. split; [exact H1|now rewrite H2].
Qed.

(* ---- the from loop *)
Section FromLoop.
  Variable fuel : nat.
  Hypothesis HE : IE fuel.
  Hypothesis HB : IB fuel.
  Variables (bd inner : list str) (incl : bool) (hi : Z) (cname : str) (collide : bool)
            (step : option expr) (body : list stmt).
  Hypothesis Hincl : forall y, In y bd -> In y inner.
  Hypothesis Hcoll : collide = false -> ~ In cname bd.
  Hypothesis Hwf : WfB inner body.
  Hypothesis Hfree_body : forall y, FreeBlock inner body y -> R y.
  Hypothesis Hstep_pure : forall e, step = Some e -> pure e = true.
  Hypothesis Hfree_step : forall e y, step = Some e -> FreeE inner e y -> R y.

  Lemma bump_rel : forall T (k : fenv -> rstate -> sres_) c e1 e2 sv s,
    (forall s', RelS bd T (k e1 s') (k e2 s')) ->
    RelS bd T (bump_ k c e1 sv s) (bump_ k c e2 sv s).
  Proof.
    intros T k c e1 e2 sv s Hk. unfold bump_.
    destruct (sget s c) as [[z| | | |]|]; try apply SameS_fail.
    destruct sv; try apply SameS_fail.
    destruct (i32_ok (z + z0)); [apply Hk|apply SameS_fail].
  Qed.

  Lemma step_rel : forall T (k : fenv -> rstate -> sres_) c e1 e2 s,
    Rel inner e1 e2 ->
    (forall s', RelS bd T (k e1 s') (k e2 s')) ->
    RelS bd T (step_ fuel step k c e1 s) (step_ fuel step k c e2 s).
  Proof.
    intros T k c e1 e2 s HR Hk. unfold step_. destruct step as [se|] eqn:Est.
    - rewrite (HE se inner e1 e2 (Hstep_pure se eq_refl) HR (fun y H => Hfree_step se y eq_refl H)).
      destruct (eval fuel e2 se s) as [sv s'|s'|f s'|]; try apply SameS_fail; [|exact Logic.I].
      now apply bump_rel.
    - now apply bump_rel.
  Qed.

  Lemma from_iter_rel : forall n e1 e2 s, Rel inner e1 e2 ->
    RelS bd (tl (locals e1)) (from_iter fuel incl hi cname collide step body n e1 s)
                             (from_iter fuel incl hi cname collide step body n e2 s).
  Proof.
    induction n as [|n IHn]; intros e1 e2 s HR; [exact Logic.I|].
    rewrite !from_iter_S.
    assert (HL : locals e2 = locals e1) by (destruct HR as (A & _); now rewrite A).
    rewrite HL.
    destruct (lookup_scopes cname (locals e1)) as [c|]; [|apply SameS_fail].
    destruct (sget s c) as [[i| | | |]|]; try apply SameS_fail.
    destruct (if incl then (i <=? hi)%Z else (i <? hi)%Z).
    - pose proof (in_block_rel fuel HB inner body e1 e2 s Hwf HR Hfree_body) as Hib.
      destruct (in_block fuel body e1 s) as [g1 f1 s1|f1 s1|],
               (in_block fuel body e2 s) as [g2 f2 s2|f2 s2|]; cbn [SameS] in Hib; try contradiction;
        try exact Hib.
      destruct Hib as (<- & <- & HR' & HL').
      assert (Hfin : Post bd (tl (locals e1)) (fin_ collide cname f1) (fin_ collide cname f2)).
      { rewrite <- HL'. exact (fin_rel bd inner collide cname f1 f2 HR' Hincl Hcoll). }
      destruct g1 as [| | |rv].
      + apply step_rel; [exact HR'|]. intros s'. rewrite <- HL'. now apply IHn.
      + cbn. auto.
      + apply step_rel; [exact HR'|]. intros s'. rewrite <- HL'. now apply IHn.
      + cbn. auto.
    - ok_.
      exact (fin_rel bd inner collide cname e1 e2 HR Hincl Hcoll).
  Qed.
End FromLoop.

(* ---- one statement *)
Lemma binds_other : forall s, (forall x e, s <> SAssign x e) -> binds s = [].
Proof. intros s H. destruct s; try reflexivity. exfalso. exact (H x e eq_refl). Qed.

Lemma Post_refl : forall bd e1 e2, Rel bd e1 e2 -> Post bd (tl (locals e1)) e1 e2.
Proof. intros. split; [assumption|reflexivity]. Qed.

Lemma if_k_rel : forall bd e1 e2 (yes no : fenv -> rstate -> sres_) v s,
  (forall s, RelS bd (tl (locals e1)) (yes e1 s) (yes e2 s)) ->
  (forall s, RelS bd (tl (locals e1)) (no e1 s) (no e2 s)) ->
  RelS bd (tl (locals e1)) (if_k e1 yes no v s) (if_k e2 yes no v s).
Proof.
  intros bd e1 e2 yes no v s Hy Hn. unfold if_k.
  destruct v as [z|[|]|t| |ps0 b0 env0]; try apply SameS_fail; auto.
Qed.

Lemma IS_step : forall fuel, IE fuel -> IS fuel -> IB fuel -> IS (S fuel).
Proof.
  intros fuel HE HS HB st bd e1 e2 Hw HR Hfree s.
  inversion Hw; subst; cbn [binds app].
  - (* SAssign *)
    rewrite !exec_S_Assign. rewrite (HE e bd e1 e2 H HR (fun y Hy => Hfree y (FS_Assign _ _ _ _ Hy))).
    apply SameS_evS. intros v s'.
    destruct (assign_rel bd e1 e2 s' x v HR) as (Es & HR' & Ht).
    destruct (assign e1 s' x v) as [e1' s1], (assign e2 s' x v) as [e2' s2]. cbn [fst snd] in *.
    unfold RelS; cbn [SameS]. split; [reflexivity|]. split; [exact Es|]. split; [exact HR'|exact Ht].
  - (* SModify *)
    rewrite !exec_S_Modify. rewrite (HE e bd e1 e2 H HR (fun y Hy => Hfree y (FS_ModifyRhs _ _ _ _ Hy))).
    apply SameS_evS. intros v s'.
    assert (Hx : R x) by (apply Hfree; now apply FS_ModifyTarget).
    destruct HR as (A & B & C & D). rewrite B, C. unfold R in Hx. rewrite <- Hx.
    destruct (lookup_scopes x c1); [|apply SameS_fail].
    cbn. repeat split; auto.
  - (* SOpAssign *)
    rewrite !exec_S_OpAssign. rewrite (HE e bd e1 e2 H HR (fun y Hy => Hfree y (FS_OpAssignRhs _ _ _ _ _ Hy))).
    apply SameS_evS. intros v s'.
    rewrite (lookup_env_eq bd e1 e2 x HR) by (intros Hn; apply Hfree; now apply FS_OpAssignTarget).
    destruct (lookup_scopes x (locals e2 ++ captured e2)) as [c|]; [|apply SameS_fail].
    destruct (sget s' c) as [cur_|]; [|apply SameS_fail].
    destruct (binop_sem o cur_ v s') as [r s''|s''|f s''|]; try apply SameS_fail.
    ok_. now apply Post_refl.
  - (* SPrint *)
    rewrite !exec_S_Print. rewrite (HE e bd e1 e2 H HR (fun y Hy => Hfree y (FS_Print _ _ _ Hy))).
    apply SameS_evS. intros v s'. destruct (rshow v); [|apply SameS_fail].
    ok_. now apply Post_refl.
  - (* SAssert *)
    rewrite !exec_S_Assert. rewrite (HE e bd e1 e2 H HR (fun y Hy => Hfree y (FS_Assert _ _ _ _ Hy))).
    apply SameS_evS. intros v s'. destruct v as [z|[|]|t| |ps0 b0 env0]; try apply SameS_fail.
    ok_. now apply Post_refl.
  - (* SExpr *)
    rewrite !exec_S_Expr. rewrite (HE e bd e1 e2 H HR (fun y Hy => Hfree y (FS_Expr _ _ _ Hy))).
    destruct (eval fuel e2 e s) as [v s'|s'|f s'|]; try apply SameS_fail; try exact Logic.I;
      (ok_; now apply Post_refl).
  - (* SIf *)
    rewrite !exec_S_If. rewrite (HE c bd e1 e2 H HR (fun y Hy => Hfree y (FS_IfCond _ _ _ _ Hy))).
    apply SameS_evS. intros v s'. apply if_k_rel.
    + intros s0. apply in_block_post; auto. intros y Hy. apply Hfree. now apply FS_IfBody.
    + intros s0. ok_. now apply Post_refl.
  - (* SIfElse *)
    rewrite !exec_S_IfElse. rewrite (HE c bd e1 e2 H HR (fun y Hy => Hfree y (FS_IfElseCond _ _ _ _ _ Hy))).
    apply SameS_evS. intros v s'. apply if_k_rel.
    + intros s0. apply in_block_post; auto. intros y Hy. apply Hfree. now apply FS_IfElseThen.
    + intros s0. apply in_block_post; auto. intros y Hy. apply Hfree. now apply FS_IfElseElse.
  - (* SIfElif *)
    rewrite !exec_S_IfElif. rewrite (HE c bd e1 e2 H HR (fun y Hy => Hfree y (FS_IfElifCond _ _ _ _ _ Hy))).
    apply SameS_evS. intros v s'. apply if_k_rel.
    + intros s0. apply in_block_post; auto. intros y Hy. apply Hfree. now apply FS_IfElifThen.
    + intros s0. apply in_block_post; auto.
      * constructor; [assumption|constructor].
      * intros y Hy. apply Hfree. apply FS_IfElifNext.
        rewrite FreeBlock_cons_iff in Hy. destruct Hy as [Hy|Hy]; [exact Hy|now apply FreeBlock_nil in Hy].
  - (* SWhile *)
    rewrite !exec_S_While. rewrite (HE c bd e1 e2 H HR (fun y Hy => Hfree y (FS_WhileCond _ _ _ _ Hy))).
    apply SameS_evS. intros v s'. destruct v as [z|[|]|t| |ps0 b0 env0]; try apply SameS_fail.
    + pose proof (in_block_rel fuel HB bd b e1 e2 s' H0 HR
                    (fun y Hy => Hfree y (FS_WhileBody _ _ _ _ Hy))) as Hib.
      destruct (in_block fuel b e1 s') as [g1 f1 s1|f1 s1|],
               (in_block fuel b e2 s') as [g2 f2 s2|f2 s2|]; cbn [SameS] in Hib; try contradiction;
        try exact Hib.
      destruct Hib as (<- & <- & HR' & HL').
      assert (Hloop : RelS bd (tl (locals e1)) (exec fuel f1 (SWhile c b) s1) (exec fuel f2 (SWhile c b) s1)).
      { rewrite <- HL'. exact (HS (SWhile c b) bd f1 f2 Hw HR' Hfree s1). }
      destruct g1 as [| | |rv]; try exact Hloop;
        (ok_; split; [exact HR'|now rewrite HL']).
    + ok_. now apply Post_refl.
  - (* SFrom *)
    rewrite !exec_S_From.
    rewrite (HE a bd e1 e2 H HR (fun y Hy => Hfree y (FS_FromLo _ _ _ _ _ _ _ _ _ Hy))).
    apply SameS_evS. intros va s1.
    rewrite (HE b bd e1 e2 H0 HR (fun y Hy => Hfree y (FS_FromHi _ _ _ _ _ _ _ _ _ Hy))).
    apply SameS_evS. intros vb s2.
    destruct va as [z1| | | |]; try apply SameS_fail. destruct vb as [hi| | | |]; try apply SameS_fail.
    (* the counter is set up: both runs get related environments in which it is local *)
    assert (Hsetup :
      snd (if collide then assign e1 s2 (cname_of name) (RInt z1) else declare e1 s2 (cname_of name) (RInt z1))
      = snd (if collide then assign e2 s2 (cname_of name) (RInt z1) else declare e2 s2 (cname_of name) (RInt z1))
      /\ Rel (cname_of name :: bd)
             (fst (if collide then assign e1 s2 (cname_of name) (RInt z1) else declare e1 s2 (cname_of name) (RInt z1)))
             (fst (if collide then assign e2 s2 (cname_of name) (RInt z1) else declare e2 s2 (cname_of name) (RInt z1)))
      /\ tl (locals (fst (if collide then assign e1 s2 (cname_of name) (RInt z1)
                          else declare e1 s2 (cname_of name) (RInt z1)))) = tl (locals e1)).
    { destruct collide; [now apply assign_rel|now apply declare_rel]. }
    destruct Hsetup as (Es & HR' & Ht).
    destruct (if collide then assign e1 s2 (cname_of name) (RInt z1) else declare e1 s2 (cname_of name) (RInt z1))
      as [e1' s1'].
    destruct (if collide then assign e2 s2 (cname_of name) (RInt z1) else declare e2 s2 (cname_of name) (RInt z1))
      as [e2' s2'].
    cbn [fst snd] in *. subst s2'. rewrite <- Ht.
    assert (Hinner : Rel (counter_scope name bd) e1' e2').
    { apply (Rel_weaken _ (cname_of name :: bd)); [|exact HR'].
      intros y Hy. destruct name as [c|]; cbn [counter_scope cname_of] in *; [exact Hy|now right]. }
    apply (from_iter_rel fuel HE HB bd (counter_scope name bd)); auto.
    + intros y Hy. destruct name; cbn [counter_scope]; [now right|exact Hy].
    + intros y Hy. apply Hfree. now apply FS_FromBody.
    + intros se y -> Hy. apply Hfree. now apply FS_FromStep.
  - (* SBreak *) ok_. now apply Post_refl.
  - (* SContinue *) ok_. now apply Post_refl.
  - (* SReturn *)
    destruct r as [v|].
    + rewrite !exec_S_Return.
      rewrite (HE v bd e1 e2 (H v eq_refl) HR (fun y Hy => Hfree y (FS_Return _ _ _ Hy))).
      apply SameS_evS. intros rv s'. ok_. now apply Post_refl.
    + ok_. now apply Post_refl.
Qed.

Lemma IB_step : forall fuel, IS fuel -> IB fuel -> IB (S fuel).
Proof.
  intros fuel HS HB l bd e1 e2 Hw HR Hfree s. destruct l as [|st l].
  - ok_. now apply Post_refl.
  - inversion Hw as [|? ? ? Hws Hwl]; subst. rewrite !exec_block_S_cons.
    pose proof (HS st bd e1 e2 Hws HR (fun y Hy => Hfree y (FB_Here _ _ _ _ Hy)) s) as H1.
    assert (Hsub : forall y, In y bd -> In y (binds st ++ bd)) by (intros y Hy; apply in_or_app; now right).
    destruct (exec fuel e1 st s) as [g1 f1 s1|f1 s1|], (exec fuel e2 st s) as [g2 f2 s2|f2 s2|];
      cbn [RelS SameS] in H1; try contradiction; try exact H1.
    destruct H1 as (<- & <- & HR' & HT).
    assert (Hweak : RelS bd (tl (locals e1)) (SOk g1 f1 s1) (SOk g1 f2 s1)).
    { ok_. split; [exact (Rel_weaken _ _ _ _ Hsub HR')|exact HT]. }
    destruct g1 as [| | |rv]; try exact Hweak.
    pose proof (HB l (binds st ++ bd) f1 f2 Hwl HR' (fun y Hy => Hfree y (FB_Later _ _ _ _ Hy)) s1) as H2.
    rewrite HT in H2. eapply SameS_mono; [|exact H2].
    intros g1 g2 [HRg HTg]. split; [exact (Rel_weaken _ _ _ _ Hsub HRg)|exact HTg].
Qed.

Lemma all_fuel : forall fuel, IE fuel /\ IS fuel /\ IB fuel.
Proof.
  induction fuel as [|fuel (HE & HS & HB)].
  - split; [|split].
    + intros x bd e1 e2 _ _ _ s. reflexivity.
    + intros st bd e1 e2 _ _ _ s. exact Logic.I.
    + intros l bd e1 e2 _ _ _ s. exact Logic.I.
  - split; [now apply IE_step|]. split; [now apply IS_step|now apply IB_step].
Qed.
End TwoRuns.

(* ================================================================ the theorems *)
Lemma bind_params_binds : forall ps vs s acc sc s',
  bind_params ps vs s acc = Some (sc, s') ->
  forall y, In y ps \/ assoc y acc <> None -> assoc y sc <> None.
Proof.
  induction ps as [|p ps IH]; intros vs s acc sc s' E y Hy; destruct vs as [|v vs]; cbn [bind_params] in E;
    try discriminate.
  - inversion E; subst. destruct Hy as [[]|Hy]; exact Hy.
  - unfold alloc in E. apply (IH _ _ _ _ _ E).
    destruct (str_dec p y) as [<-|Hne].
    + right. rewrite assoc_set_same. discriminate.
    + destruct Hy as [[Hy|Hy]|Hy]; [contradiction|now left|right]. now rewrite assoc_set_other.
Qed.

(* The result of calling a closure depends on its captured environment only through the names in the
   capture list computed by the compiler's analysis. *)
Theorem closure_depends_only_on_free_vars : forall fuel ps body cenv1 cenv2 vs s,
  WfB ps body ->
  (forall x, In x (free_vars ps body) -> lookup_scopes x cenv1 = lookup_scopes x cenv2) ->
  call_closure fuel (RClos ps body cenv1) vs s = call_closure fuel (RClos ps body cenv2) vs s.
Proof.
  intros fuel ps body cenv1 cenv2 vs s Hw Hag. unfold call_closure.
  destruct (bind_params ps vs s []) as [[sc s']|] eqn:Eb; [|reflexivity].
  destruct (all_fuel cenv1 cenv2 fuel) as (_ & _ & HB).
  assert (HR : Rel cenv1 cenv2 ps
                   {| locals := [sc]; captured := cenv1; cur := Some (RClos ps body cenv1) |}
                   {| locals := [sc]; captured := cenv2; cur := Some (RClos ps body cenv2) |}).
  { repeat split; cbn [locals captured]; auto. intros y Hy. cbn [locals lookup_scopes].
    pose proof (bind_params_binds ps vs s [] sc s' Eb y (or_introl Hy)) as H.
    destruct (assoc y sc); [discriminate|contradiction]. }
  pose proof (HB body ps _ _ Hw HR (fun y Hy => Hag y (proj2 (free_vars_spec ps body y) Hy)) s') as H.
  unfold RelS in H.
  destruct (exec_block fuel {| locals := [sc]; captured := cenv1; cur := Some (RClos ps body cenv1) |} body s')
    as [g1 f1 s1|f1 s1|],
    (exec_block fuel {| locals := [sc]; captured := cenv2; cur := Some (RClos ps body cenv2) |} body s')
    as [g2 f2 s2|f2 s2|]; cbn [SameS] in H; try contradiction; try reflexivity.
  - destruct H as (<- & <- & _). reflexivity.
  - destruct H as (<- & <-). reflexivity.
Qed.

(* restriction of an environment to a set of names *)
Definition restrict_env (F : list str) (cenv : list scope) : list scope :=
  map (filter (fun p : str * N => mem_str (fst p) F)) cenv.

Lemma assoc_filter : forall F x (sc : scope),
  assoc x (filter (fun p : str * N => mem_str (fst p) F) sc) = if mem_str x F then assoc x sc else None.
Proof.
  intros F x sc. induction sc as [|[k v] sc IH]; cbn [filter assoc fst].
  - now destruct (mem_str x F).
  - destruct (mem_str k F) eqn:Ek; cbn [assoc].
    + destruct (str_eqb k x) eqn:E.
      * apply str_eqb_iff in E. subst k. now rewrite Ek.
      * exact IH.
    + rewrite IH. destruct (str_eqb k x) eqn:E; [|reflexivity].
      apply str_eqb_iff in E. subst k. now rewrite Ek.
Qed.

Lemma lookup_restrict : forall F x cenv,
  lookup_scopes x (restrict_env F cenv) = if mem_str x F then lookup_scopes x cenv else None.
Proof.
  intros F x cenv. induction cenv as [|sc cenv IH]; cbn [restrict_env map lookup_scopes].
  - now destruct (mem_str x F).
  - rewrite assoc_filter. fold (restrict_env F cenv). rewrite IH. destruct (mem_str x F); reflexivity.
Qed.

(* "capture list = what the function can observe of its defining scopes" *)
Theorem capture_list_suffices : forall fuel ps body cenv vs s,
  WfB ps body ->
  call_closure fuel (RClos ps body cenv) vs s
  = call_closure fuel (RClos ps body (restrict_env (free_vars ps body) cenv)) vs s.
Proof.
  intros fuel ps body cenv vs s Hw. apply closure_depends_only_on_free_vars; [exact Hw|].
  intros x Hx. rewrite lookup_restrict. apply mem_str_In in Hx. now rewrite Hx.
Qed.

(* ... and for the reference semantics itself: evaluating the literal and calling it *)
Theorem literal_call_sees_only_free_vars : forall fuel e ps body args s,
  WfB ps body ->
  eval (S (S fuel)) e (ECall (EFn ps body) args) s =
    match eval_args (S fuel) e args s [] with
    | inl (vs, s') =>
      call_closure (S fuel)
        (RClos ps body (restrict_env (free_vars ps body) (locals e ++ captured e))) vs s'
    | inr r => r end.
Proof.
  intros fuel e ps body args s Hw. rewrite eval_S_Call, eval_S_Fn.
  destruct (eval_args (S fuel) e args s []) as [[vs s']|r]; [|reflexivity].
  now apply capture_list_suffices.
Qed.

(* a closed function (no free variable) does not observe its defining scopes at all *)
Corollary closed_function_ignores_environment : forall fuel ps body cenv cenv' vs s,
  WfB ps body -> free_vars ps body = [] ->
  call_closure fuel (RClos ps body cenv) vs s = call_closure fuel (RClos ps body cenv') vs s.
Proof.
  intros fuel ps body cenv cenv' vs s Hw E. apply closure_depends_only_on_free_vars; [exact Hw|].
  rewrite E. intros x [].
Qed.

(* ================================================================ non-vacuity / necessity *)
Module CaptureSemExamples.
Import CaptureExamples.
Definition st0 : rstate := {| store := [RInt 5; RInt 7]; rout := [] |}.
Definition env0 : list scope := [[(x_, 0%N); (y_, 1%N)]].

(* fn() { print x; x = 1; return x + 0 }: x is free; y is not.  The restricted environment drops y. *)
Definition body1 : list stmt :=
  [SPrint (EVar x_); SAssign x_ (EInt 1); SReturn (Some (EBin BAdd (EVar x_) (EInt 0)))].
Example body1_wf : WfB [] body1.
Proof. repeat constructor; try discriminate. intros e E. inversion E. reflexivity. Qed.
Example body1_restricted : restrict_env (free_vars [] body1) env0 = [[(x_, 0%N)]].
Proof. vm_compute. reflexivity. Qed.
Example body1_runs : call_closure 10 (RClos [] body1 env0) [] st0
  = EVal (RInt 1) {| store := [RInt 5; RInt 7; RInt 1]; rout := [[53%N]] |}
  /\ call_closure 10 (RClos [] body1 [[(x_, 0%N)]]) [] st0 = call_closure 10 (RClos [] body1 env0) [] st0.
Proof. vm_compute. split; reflexivity. Qed.
(* dropping a FREE variable is observable: the theorem is not about an inert environment *)
Example body1_needs_x : call_closure 10 (RClos [] body1 []) [] st0 = EFail (FUnbound x_) st0.
Proof. vm_compute. reflexivity. Qed.

(* the side condition on `modify`: fn() { x = 1; modify x = 2 } -- x is local when modify runs, so the
   analysis (like the compiler, which REJECTS this program) does not capture x, while the reference
   semantics would write the outer x. *)
Definition body_bad : list stmt := [SAssign x_ (EInt 1); SModify x_ (EInt 2)].
Example modify_of_local_needs_side_condition :
  free_vars [] body_bad = []
  /\ call_closure 10 (RClos [] body_bad env0) [] st0
     <> call_closure 10 (RClos [] body_bad (restrict_env (free_vars [] body_bad) env0)) [] st0.
Proof. split; [vm_compute; reflexivity|]. vm_compute. discriminate. Qed.
End CaptureSemExamples.
