(* C01, statement level -- part 4: the simulation.
   Compiled statements of the call-free fragment (Compile/StmtFrag.v: ok_stmt), run by the interpreter loop
   (Compile/StmtMach.v: xsteps = the `fix loop` of run_fn_gen), do what the reference semantics
   (Lang/Eval.v: exec / exec_block) prescribes: same output lines, same failure at the same statement, related
   environments afterwards -- for ALL programs of the fragment at ALL nesting depths.

   Fragment: x = e, x op= e (+ - * / %), print, assert, expression statements, if / if-else / else-if chains,
   while with break / continue, from-loops with a named non-colliding counter (bounds and step: any call-free
   expressions; the step may mention the counter), over call-free expressions (ExprSim).

   Relation Rst base pins env s a g (source fenv/rstate vs VM act/gstate):
     Rg_fr / Rg_bij   lookup-based, suffix-closed relation of scopes and frames (StmtRel.v), one-to-one on cells
     (the captured environment of the executing function value is never consulted: every name used is a local)
     Rg_out           out g = rout s   (the printed lines are EQUAL)
     Rg_base          the frames below the activation are untouched
     Rg_un / Rg_ns    scopes bind user names only, no shadowing
     Rg_pins          pinned VM cells (end registers L#n of active from-loops) keep their value
     Rg_nd            every frame binds a name at most once (a global invariant of the machine, StmtMach.xstep_nd)
     a_ops a = []     operand stack empty between statements;  |locals| <= S (a_ss a)  (special_scopes)
   Per statement (stmt_spec) / statement list (block_spec): `post` -- normal completion reaches the end of the code
   with related states; break / continue reach the loop's targets with the right number of block frames popped;
   a failure is reproduced by the VM (related error, same output prefix); the scopes change only at the innermost
   level (same_tl), the set B of bound names is tracked exactly, the VM frames below the top are untouched.
   Main theorems: stmt_sim, block_sim, cblock_correct (code embedded as pre ++ mid ++ post), module_correct
   (Eval.run vs Model.execute of cprogram). *)
From MS Require Import Lang.Eval.
From MS Require Import Vm.Model Lang.Syntax Compile.Compile Verify.Sound Compile.ExprBase Compile.ExprSim.
From MS Require Import Compile.StmtMach Compile.StmtRel Compile.StmtFrag.
From Coq Require Import Lia.
Open Scope nat_scope.

(* ================================================================ the relation on whole states *)
(* the environment a call-free expression is evaluated in: its own scopes without the hidden loop counters *)
Definition strip_sc (sc : scope) : scope := filter (fun kv => negb (str_eqb (fst kv) hid)) sc.
Lemma assoc_strip : forall x sc, x <> hid -> assoc x (strip_sc sc) = assoc x sc.
Proof.
  intros x. induction sc as [|[k v] sc IH]; intros Hx; [reflexivity|]. cbn [strip_sc filter fst assoc].
  destruct (str_eqb k hid) eqn:E; cbn [negb].
  - apply str_eqb_iff in E. subst k. rewrite str_eqb_neq by congruence. now apply IH.
  - cbn [assoc]. destruct (str_eqb k x); [reflexivity|now apply IH].
Qed.
Lemma assoc_strip_hid : forall sc, assoc hid (strip_sc sc) = None.
Proof.
  induction sc as [|[k v] sc IH]; [reflexivity|]. cbn [strip_sc filter fst].
  destruct (str_eqb k hid) eqn:E; cbn [negb]; [exact IH|]. cbn [assoc]. rewrite E. exact IH.
Qed.
Lemma lookup_strip : forall x l, x <> hid -> lookup_scopes x (map strip_sc l) = lookup_scopes x l.
Proof. intros x l Hx. induction l as [|sc l IH]; [reflexivity|]. cbn [map lookup_scopes]. now rewrite assoc_strip, IH. Qed.
Lemma lookup_strip_hid : forall l, lookup_scopes hid (map strip_sc l) = None.
Proof. induction l as [|sc l IH]; [reflexivity|]. cbn [map lookup_scopes]. now rewrite assoc_strip_hid. Qed.

Definition popn (m : nat) (env : fenv) : fenv :=
  {| locals := skipn m (locals env); captured := captured env; cur := cur env |}.

Lemma assoc_in_fnames : forall (T : ftab) f (r : list str * list stmt), assoc f T = Some r -> In f (fnames T).
Proof.
  intros T f r. unfold fnames. induction T as [|[k0 r0] t IH]; cbn [assoc map fst In]; [discriminate|].
  destruct (str_eqb k0 f) eqn:E; [apply str_eqb_iff in E; intros _; left; exact E|intros H; right; exact (IH H)].
Qed.

Lemma In_keys_assoc : forall A (sc : list (str * A)) x, In x (map fst sc) -> assoc x sc <> None.
Proof.
  intros A. induction sc as [|[k0 v0] t IH]; intros x H; [destruct H|]. cbn [map fst In assoc] in *.
  destruct (str_eqb k0 x) eqn:E; [discriminate|]. destruct H as [->|H]; [now rewrite str_eqb_refl in E|now apply IH].
Qed.

Section Base.
Variable base : list frame.             (* the frames below the current activation: never touched *)
Variable FT : ftab.                     (* the module-level functions visible in the current activation *)
Local Notation funs := (fnames FT).
Local Notation uname := (StmtRel.uname (fnames FT)).
Local Notation look := (StmtRel.look (fnames FT)).
Local Notation Rfr := (StmtRel.Rfr (fnames FT)).
Local Notation pairs := (StmtRel.pairs (fnames FT)).
Local Notation bij := (StmtRel.bij (fnames FT)).
Local Notation pins_ok := (StmtRel.pins_ok (fnames FT)).
Variable lfuns : list str.              (* those of them that are bound in the activation's own scopes (module level) *)
(* where the function values live: f -> (source cell, VM cell, captured environment, captured cells) *)
Variable fcells : list (str * (N * N * list scope * option (list (str * N)))).
Variable floc : str -> str.             (* the VM name of the function's code *)
Variable cb : option (list (str * N)).  (* a_cb of the current activation *)
Hypothesis Hlfuns : forall f, In f lfuns -> In f funs.
Hypothesis Hfun0 : forall f, In f funs -> uname0 f.
Hypothesis Hfck : forall f, In f funs <-> assoc f fcells <> None.
Variable SP : option (list str).        (* the parameters of the executing function (None at module level) *)
Variable selfv : option rvalue.         (* `cur` of the activation: the closure being executed *)
Variable fnm : str.                     (* the VM name of the executing function *)
Hypothesis HSPself : forall ps, SP = Some ps -> exists body cenv, selfv = Some (RClos ps body cenv).
(* the cells holding function values, program-wide (a callee may see more functions than its caller): pinned *)
Variable fpins : pinset.
Hypothesis Hgpv : forall f c c' cenv cbf, assoc f fcells = Some (c, c', cenv, cbf) -> vpin fpins c' (VFun (floc f) cbf).
Hypothesis Hgps : forall f c c' cenv cbf ps body, assoc f fcells = Some (c, c', cenv, cbf) -> assoc f FT = Some (ps, body) ->
  spin fpins c (RClos ps body cenv).
(* the DATA variables the activation captures (read by reference): name -> source cell; the VM cells are in cb; the
   cells hold related values that do not change while the activation runs (they are among the static pins) *)
Variable cdsc : scope.
Local Notation CD := (map fst cdsc).
Hypothesis Hcd : forall x c, assoc x cdsc = Some c ->
  uname x /\ exists c' v m, cb = Some m /\ assoc x m = Some c' /\ first_order v /\ spin fpins c v /\ vpin fpins c' (inj v).
(* module level: the data variables captured by some function so far keep their cells (name, source cell, VM cell) *)
Variable dtab : list (str * (N * N)).
Hypothesis Hdtab : forall x cc, In (x, cc) dtab -> uname x.
Definition strip_cap (env : fenv) : fenv := {| locals := map strip_sc (locals env); captured := [cdsc]; cur := cur env |}.
(* the data cell pairs (source cell, VM cell) a callee needs to hold related values when it is called: for every
   callable function / for the executing function itself (`self`).  Each pair is a module-level captured binding
   (dtab) or a pair of statically pinned cells of the activation *)
Variable fdn : str -> list (N * N).
Variable sdn : list (N * N).
Definition dpair_ok (p : N * N) : Prop :=
  (exists x, In (x, p) dtab) \/ (exists v, first_order v /\ spin fpins (fst p) v /\ vpin fpins (snd p) (inj v)).
Hypothesis Hdn : forall f p, In f funs -> In p (fdn f) -> dpair_ok p.
Hypothesis Hsdn : forall p, In p sdn -> dpair_ok p.

Lemma fun_name_neq : forall f x, In f funs -> uname x -> x <> f.
Proof. intros f x Hf Hx ->. exact (uname_nfun _ Hx Hf). Qed.


Section Pins.
Context {pins : pinset}.

Record Rg (env : fenv) (s : rstate) (g : gstate) : Prop := {
  Rg_fr : Rfr (store s) (cells g) (locals env) (frames g);
  Rg_bij : bij (locals env) (frames g);
  Rg_out : out g = rout s;
  Rg_base : skipn (length (locals env)) (frames g) = base;
  Rg_un : forall x, lookup_scopes x (locals env) <> None -> uname x \/ In x lfuns \/ x = hid;
  Rg_ns : NS (locals env);
  Rg_pins : pins_ok pins (locals env) (frames g) (store s) (cells g);
  Rg_nd : frames_nd (frames g);
  Rg_fpin : pins_ok fpins (locals env) (frames g) (store s) (cells g);
  Rg_flook : forall f c c' cenv cbf, assoc f fcells = Some (c, c', cenv, cbf) ->
             flook cb (captured env) (locals env) (frames g) f c c';
  Rg_cur : cur env = selfv;
  Rg_cf : current_function (frames g) = Some fnm;
  Rg_capd : forall x c, assoc x cdsc = Some c -> lookup_scopes x (captured env) = Some c;
  Rg_dlook : forall x c c', In (x, (c, c')) dtab -> flook None [] (locals env) (frames g) x c c'
}.

(* between statements: operand stack empty, special_scopes >= number of open blocks *)
Definition Rst (env : fenv) (s : rstate) (a : act) (g : gstate) : Prop :=
  Rg env s g /\ a_ops a = [] /\ length (locals env) <= S (a_ss a).

(* B is EXACTLY the set of names bound in the current function's scopes (static scoping is exact in the fragment);
   the hidden counters of anonymous loops are not tracked *)
Definition bound_in (B : list str) (env : fenv) : Prop :=
  (forall x, x <> hid -> (lookup_scopes x (locals env) <> None <-> In x B \/ In x lfuns)) /\
  (forall x, In x B -> ~ In x funs /\ x <> hid).

(* a statement changes only the innermost scope (and the store) *)
Definition same_tl (env env' : fenv) : Prop := tl (locals env') = tl (locals env) /\ locals env' <> [].
Lemma same_tl_refl : forall env, locals env <> [] -> same_tl env env.
Proof. intros env H. split; [reflexivity|exact H]. Qed.
Lemma same_tl_trans : forall e1 e2 e3, same_tl e1 e2 -> same_tl e2 e3 -> same_tl e1 e3.
Proof. intros e1 e2 e3 [A1 A2] [B1 B2]. split; [congruence|exact B2]. Qed.
Lemma same_tl_length : forall e1 e2, locals e1 <> [] -> same_tl e1 e2 -> length (locals e2) = length (locals e1).
Proof.
  intros e1 e2 H1 [A B]. destruct (locals e1) as [|s1 l1]; [congruence|]. destruct (locals e2) as [|s2 l2]; [congruence|].
  cbn [tl] in A. subst l2. reflexivity.
Qed.

Definition act_same (a a' : act) : Prop := a_fn a' = a_fn a /\ a_args a' = a_args a /\ a_cb a' = a_cb a.

Lemma act_same_refl : forall a, act_same a a.
Proof. intros a. repeat split. Qed.
Lemma act_same_trans : forall a b c, act_same a b -> act_same b c -> act_same a c.
Proof. intros a b c (A1 & A2 & A3) (B1 & B2 & B3). repeat split; congruence. Qed.

(* statement-level failures: an assertion reports its span; a dynamic type error (never in a typed program)
   may also surface as a failed assertion (`assert nil`) *)
Definition err_rel_s (f : failure) (e : err) : Prop :=
  match f with
  | FAssert sp => e = E_assert sp
  | FType _ => err_rel f e \/ exists sp, e = E_assert sp
  | _ => err_rel f e
  end.

(* FType 13 = a non-integer loop counter / bound of a `from` loop; FType 3 = the result of a function that returned
   no value is used (both excluded by the type checker): no claim *)
Definition fail_post (f : failure) (P : Prop) : Prop :=
  match f with FType 13%N => True | FType 3%N => True | _ => P end.
Lemma fail_post_intro : forall f (P : Prop), P -> fail_post f P.
Proof.
  intros f P H. unfold fail_post. destruct f; try exact H.
  repeat match goal with |- match ?x with _ => _ end => destruct x end; first [exact H|exact Logic.I].
Qed.
Lemma fail_post_map : forall f (P Q : Prop), (P -> Q) -> fail_post f P -> fail_post f Q.
Proof.
  intros f P Q HPQ H. unfold fail_post in *. destruct f; try (exact (HPQ H)).
  repeat match goal with |- match ?x with _ => _ end => destruct x end; first [exact (HPQ H)|exact Logic.I].
Qed.

Lemma fail_post_inv : forall f (P : Prop), fail_post f P -> (f = FType 13%N \/ f = FType 3%N) \/ P.
Proof.
  intros f P H. unfold fail_post in H. destruct f; try (right; exact H).
  repeat match type of H with match ?x with _ => _ end => destruct x end;
    first [right; exact H|left; left; reflexivity|left; right; reflexivity].
Qed.

Lemma err_rel_s_of : forall f e, err_rel f e -> err_rel_s f e.
Proof. intros f e H. destruct f; cbn in *; auto; contradiction. Qed.

Lemma bound_in_uname : forall B env x, bound_in B env -> uname0 x -> In x B -> uname x.
Proof. intros B env x [_ H2] H0 Hin. split; [exact H0|exact (proj1 (H2 x Hin))]. Qed.
Lemma bound_in_look : forall B env x, bound_in B env -> In x B -> lookup_scopes x (locals env) <> None.
Proof. intros B env x [H1 H2] Hin. apply H1; [exact (proj2 (H2 x Hin))|now left]. Qed.

Lemma In_mem_str : forall x l, In x l -> mem_str x l = true.
Proof.
  induction l as [|y l IH]; intros H; [destruct H|]. cbn [mem_str]. destruct H as [->|H].
  - now rewrite str_eqb_refl.
  - rewrite IH by exact H. apply Bool.orb_true_r.
Qed.
Lemma uname_of_b : forall x, src_nameb x = true -> mem_str x funs = false -> uname x.
Proof.
  intros x H1 H2. split; [now apply src_nameb_ok|]. intros Hin. apply In_mem_str in Hin. congruence.
Qed.
Lemma bound_in_assign : forall B env env' x, bound_in B env -> uname x ->
  (forall y, lookup_scopes y (locals env') <> None <-> (y = x \/ lookup_scopes y (locals env) <> None)) ->
  bound_in (x :: B) env'.
Proof.
  intros B env env' x [H1 H2] Hx Hl. split.
  - intros y Hy. rewrite (Hl y), (H1 y Hy). cbn [In]. split; [intros [H|[H|H]]|intros [[H|H]|H]]; auto.
  - intros y [<-|Hy]; [split; [exact (uname_nfun _ Hx)|exact (uname_not_hid _ Hx)]|exact (H2 y Hy)].
Qed.

Lemma bound_in_eq : forall B env env', bound_in B env -> locals env' = locals env -> bound_in B env'.
Proof. intros B env env' [H1 H2] E. split; [intros x Hx; rewrite E; now apply H1|exact H2]. Qed.

Lemma Rg_ext : forall env s g g' d lo hi, Rg env s g -> ext d lo hi g g' -> frames_nd (frames g') -> Rg env s g'.
Proof.
  intros env s g g' d lo hi [Hfr Hb Ho Hbase Hun Hns Hpins Hnd Hfp Hfl Hcur Hcf Hcapd Hdl] He Hnd'.
  destruct (ext_cells _ _ _ _ _ He) as [extra Ec].
  pose proof (ext_labs _ _ _ _ _ He) as Hl. pose proof (ext_tail _ _ _ _ _ He) as Ht.
  pose proof (ext_find _ _ _ _ _ He) as Hf. pose proof (ext_out _ _ _ _ _ He) as Hout.
  destruct g as [cs fs o tr], g' as [cs' fs' o' tr']. cbn [cells frames out] in *. subst cs' o'.
  destruct fs as [|f fs]; [destruct (Rfr_ne _ _ _ _ Hfr); congruence|].
  destruct fs' as [|f' fs']; [discriminate|].
  cbn [map tl] in Hl, Ht. subst fs'. injection Hl as Hl.
  assert (Hfind : forall x, uname x -> find_in_function x (f' :: fs) = find_in_function x (f :: fs)).
  { intros x Hx. apply Hf. apply own_reg_not_src. exact (uname_src _ Hx). }
  constructor; cbn [cells frames out].
  - rewrite <- (app_nil_r (store s)). apply Rfr_mono. eapply Rfr_top; eassumption.
  - eapply bij_top; eassumption.
  - exact Ho.
  - destruct (locals env) as [|sc l]; [destruct (Rfr_ne _ _ _ _ Hfr); congruence|exact Hbase].
  - exact Hun.
  - exact Hns.
  - cbn [cells frames locals] in *. rewrite <- (app_nil_r (store s)). apply pins_mono_. eapply pins_top_; eassumption.
  - exact Hnd'.
  - cbn [cells frames locals] in *. rewrite <- (app_nil_r (store s)). apply pins_mono_. eapply pins_top_; eassumption.
  - intros f0 c0 c0' cenv cbf E. cbn [frames] in *. specialize (Hfl f0 c0 c0' cenv cbf E).
    destruct (locals env) as [|sc l] eqn:El; [destruct (Rfr_ne _ _ _ _ Hfr); congruence|].
    eapply flook_top; [exact Hfl|reflexivity|]. apply Hf. apply own_reg_not_src.
    assert (Hin : In f0 funs) by (apply Hfck; congruence). exact (proj1 (Hfun0 f0 Hin)).
  - exact Hcur.
  - cbn [current_function] in *. rewrite Hl. exact Hcf.
  - exact Hcapd.
  - intros x0 c0 c0' Hin. cbn [frames] in *. specialize (Hdl x0 c0 c0' Hin).
    destruct (locals env) as [|sc l] eqn:El; [destruct (Rfr_ne _ _ _ _ Hfr); congruence|].
    eapply flook_top; [exact Hdl|reflexivity|]. apply Hf. apply own_reg_not_src. exact (uname_src _ (Hdtab _ _ Hin)).
Qed.

Lemma Rg_ne : forall env s g, Rg env s g -> locals env <> [].
Proof. intros env s g H. exact (proj1 (Rfr_ne _ _ _ _ (Rg_fr _ _ _ H))). Qed.

Lemma Rg_drop : forall env s g, Rg env s g -> drop_to_function (frames g) = base.
Proof. intros env s g H. rewrite (Rfr_drop _ _ _ _ (Rg_fr _ _ _ H)). exact (Rg_base _ _ _ H). Qed.

Lemma lookup_app_split : forall x l r, lookup_scopes x (l ++ r) = match lookup_scopes x l with Some c => Some c | None => lookup_scopes x r end.
Proof. intros x l r. induction l as [|sc l IH]; [reflexivity|]. cbn [app lookup_scopes]. destruct (assoc x sc); [reflexivity|exact IH]. Qed.

Lemma Rg_Renv : forall env s a g, Rg env s g -> a_cb a = cb -> Renv (strip_cap env) s a g.
Proof.
  intros env s a g [Hfr _ _ _ Hun _ _ _ Hfp Hfl _ _ _ _] Hacb x c v _ Hl Hg Hfo. cbn [strip_cap locals captured] in Hl.
  rewrite lookup_app_split in Hl.
  destruct (lookup_scopes x (map strip_sc (locals env))) as [c1|] eqn:E1.
  2:{ (* a captured data variable *)
    cbn [lookup_scopes] in Hl. destruct (assoc x cdsc) as [c2|] eqn:E2; [|discriminate]. inversion Hl; subst c2.
    destruct (Hcd x c E2) as (Hx & c' & v0 & m & Ecb & Em & Hfo0 & Hs & Hv).
    destruct Hfp as [F1 F2]. destruct (F1 c' (inj v0) Hv) as [A1 _]. destruct (F2 c v0 Hs) as [A2 _].
    unfold sget in Hg. rewrite A2 in Hg. inversion Hg; subst v0.
    rewrite (lookup_strip x _ (uname_not_hid _ Hx)) in E1.
    pose proof (Rfr_look _ _ _ _ Hfr x Hx) as H. rewrite E1 in H.
    destruct (find_in_function x (frames g)) as [cz|] eqn:E; [contradiction|].
    exists c'. split; [unfold lookup_var, load_cb; rewrite E, Hacb, Ecb; exact Em|exact A1]. }
  inversion Hl; subst c1.
  assert (Hxn : x <> hid) by (intros ->; rewrite lookup_strip_hid in E1; discriminate).
  rewrite (lookup_strip x _ Hxn) in E1. rename E1 into Hl'.
  assert (Hx : uname x).
  { destruct (Hun x ltac:(congruence)) as [Hx|[Hx|Hx]]; [exact Hx| |congruence]. exfalso.
    (* a function name: its cell holds a closure, not a first-order value *)
    apply Hlfuns in Hx. pose proof (proj1 (Hfck x) Hx) as Hne.
    destruct (assoc x fcells) as [[[[c0 c0'] cenv] cbf]|] eqn:E; [|congruence].
    assert (Hl0 : 0 < length (locals env)) by (destruct (locals env); [discriminate|cbn; lia]).
    destruct (Hfl x c0 c0' cenv cbf E 0 Hl0) as [H1 _]. cbn [skipn] in H1.
    rewrite (lookup_app_some _ _ (captured env) _ Hl') in H1. inversion H1; subst c0.
    assert (Hft : exists ps body, assoc x FT = Some (ps, body)).
    { clear -Hx. unfold fnames in Hx. induction FT as [|[k [ps body]] t IH]; [destruct Hx|]. cbn [map fst In assoc] in *.
      destruct (str_eqb k x) eqn:Ek; [eexists; eexists; reflexivity|]. destruct Hx as [->|Hx]; [now rewrite str_eqb_refl in Ek|auto]. }
    destruct Hft as (ps & body & Hft).
    destruct (proj2 Hfp c (RClos ps body cenv)) as [Hv _].
    { exact (Hgps x c c0' cenv cbf ps body E Hft). }
    unfold sget in Hg. rewrite Hv in Hg. inversion Hg; subst v. exact Hfo. }
  pose proof (Rfr_look _ _ _ _ Hfr x Hx) as H. rewrite Hl' in H.
  destruct (find_in_function x (frames g)) as [c'|] eqn:E; [|contradiction]. cbn [orel] in H.
  destruct H as (v0 & H1 & _ & H2). unfold sget in Hg. rewrite H1 in Hg. inversion Hg; subst v0.
  exists c'. split; [unfold lookup_var; now rewrite E|exact H2].
Qed.

Lemma Rg_var_ok : forall env s g x, Rg env s g -> uname x -> lookup_scopes x (locals env) <> None -> var_ok env s x.
Proof.
  intros env s g x [Hfr _ _ _ _ _ _ _ _ _] Hx Hb. split; [exact (uname_src _ Hx)|].
  pose proof (Rfr_look _ _ _ _ Hfr x Hx) as H.
  destruct (lookup_scopes x (locals env)) as [c|] eqn:E; [|congruence].
  destruct (find_in_function x (frames g)) as [c'|]; [|contradiction]. destruct H as (v & H1 & Hf & _).
  exists c, v. split; [now apply lookup_app_some|auto].
Qed.

(* a bound source variable: both sides find it, in related cells *)
Lemma Rg_lookup : forall env s g x, Rg env s g -> uname x -> lookup_scopes x (locals env) <> None ->
  exists c c' v, lookup_scopes x (locals env) = Some c /\ find_in_function x (frames g) = Some c' /\
                 pairs (locals env) (frames g) c c' /\
                 sget s c = Some v /\ first_order v /\ cell_get g c' = Some (inj v).
Proof.
  intros env s g x [Hfr _ _ _ _ _ _ _ _ _] Hx Hb.
  pose proof (Rfr_look _ _ _ _ Hfr x Hx) as H.
  destruct (lookup_scopes x (locals env)) as [c|] eqn:E; [|congruence].
  destruct (find_in_function x (frames g)) as [c'|] eqn:E'; [|contradiction]. destruct H as (v & H1 & Hf & H2).
  exists c, c', v. repeat split; try assumption.
  destruct (locals env) as [|sc l]; [discriminate|]. destruct (frames g) as [|f fs]; [discriminate|].
  cbn [StmtRel.pairs]. left. exists x. auto.
Qed.

(* ---------------------------------------------------------------- x = v : assign vs store_var *)
Lemma store_rel : forall env s g x v env' s', Rg env s g -> uname x -> first_order v ->
  assign env s x v = (env', s') ->
  exists g', store_var g x (inj v) = Some g' /\ Rg env' s' g' /\ same_tl env env' /\
             (forall y, lookup_scopes y (locals env') <> None <-> (y = x \/ lookup_scopes y (locals env) <> None)) /\
             tl (frames g') = tl (frames g) /\
             (forall z, z <> x -> find_in_function z (frames g') = find_in_function z (frames g)).
Proof.
  intros [l cap cu] [st ro] [cs fs o tr] x v env' s' [Hfr Hb Ho Hbase Hun Hns Hpins Hnd Hfp Hfl Hcur Hcf Hcapd Hdl] Hx Hfo Ha.
  cbn [locals captured store rout cells frames out] in *.
  pose proof (Rfr_look _ _ _ _ Hfr x Hx) as Hl. unfold assign in Ha. unfold store_var.
  cbn [locals frames] in *.
  destruct (lookup_scopes x l) as [cx|] eqn:E1; destruct (find_in_function x fs) as [cx'|] eqn:E2;
    cbn [orel] in Hl; try contradiction.
  - inversion Ha; subst env' s'. eexists. split; [reflexivity|].
    assert (Hp : pairs l fs cx cx').
    { destruct l as [|sc l]; [discriminate|]. destruct fs as [|f fs]; [discriminate|]. cbn [StmtRel.pairs]. left. exists x. auto. }
    destruct (cellrel_valid _ _ _ _ Hl) as [V1 V2].
    split; [|split; [apply same_tl_refl; cbn [locals]; destruct l; [discriminate|discriminate]|split; [|split; reflexivity]]].
    2:{ intros y. cbn [locals]. split; [auto|]. intros [->|H]; [congruence|exact H]. }
    constructor; cbn [sset cell_set store cells frames out rout locals captured]; try assumption.
    + apply Rfr_update; try assumption. intros cy cy' Hq. exact (Hb _ _ _ _ Hq Hp).
    + eapply pins_update_; eassumption.
    + eapply pins_update_; eassumption.
  - destruct l as [|sc l]; [destruct (Rfr_ne _ _ _ _ Hfr); congruence|].
    destruct fs as [|f fs]; [cbn in Hfr; contradiction|].
    unfold declare, alloc in Ha. cbn [locals store rout captured cur] in Ha. inversion Ha; subst env' s'.
    unfold bind_local, cell_new. cbn [frames cells out trace with_frames].
    eexists. split; [reflexivity|]. cbn [locals]. split; [|split; [|split; [|split]]].
    + constructor; cbn [store cells frames out rout locals captured]; try assumption.
      * apply Rfr_declare; assumption.
      * apply (bij_declare st cs); assumption.
      * intros y Hy. cbn [lookup_scopes] in Hy. destruct (list_eq_dec N.eq_dec y x) as [->|Hne]; [left; exact Hx|].
        rewrite assoc_set_other in Hy by exact Hne. apply Hun. exact Hy.
      * apply NS_declare; [assumption|right; exact E1].
      * apply pins_declare_. exact Hpins.
      * apply (nd_top f fs); [exact Hnd|]. apply keys_nd_assoc_set. inversion Hnd; assumption.
      * apply pins_declare_. exact Hfp.
      * intros f0 c0 c0' cenv cbf E. specialize (Hfl f0 c0 c0' cenv cbf E).
        assert (Hne : f0 <> x) by (intros ->; apply (uname_nfun _ Hx); apply Hfck; congruence).
        eapply flook_top; [exact Hfl|now rewrite assoc_set_other|].
        cbn [find_in_function vars lab]. now rewrite assoc_set_other.
      * intros x0 c0 c0' Hin. specialize (Hdl x0 c0 c0' Hin).
        assert (Hne : x0 <> x).
        { intros ->. destruct (Hdl 0 ltac:(cbn; lia)) as [H1 _]. cbn [skipn] in H1. rewrite app_nil_r in H1. congruence. }
        eapply flook_top; [exact Hdl|now rewrite assoc_set_other|].
        cbn [find_in_function vars lab]. now rewrite assoc_set_other.
    + split; [reflexivity|discriminate].
    + intros y. cbn [lookup_scopes]. destruct (list_eq_dec N.eq_dec y x) as [->|Hne].
      * rewrite assoc_set_same. split; [auto|discriminate].
      * rewrite assoc_set_other by exact Hne. split; [auto|]. intros [E|H]; [congruence|exact H].
    + reflexivity.
    + intros z Hz. cbn [with_frames frames find_in_function vars lab]. now rewrite assoc_set_other.
Qed.

(* ---------------------------------------------------------------- x op= v : sset vs cell_set on a related pair *)
Lemma update_rel : forall env s g c c' v, Rg env s g -> pairs (locals env) (frames g) c c' -> first_order v ->
  Rg env (sset s c v) (cell_set g c' (inj v)).
Proof.
  intros [l cap cu] [st ro] [cs fs o tr] c c' v [Hfr Hb Ho Hbase Hun Hns Hpins Hnd Hfp Hfl] Hp Hfo.
  cbn [locals captured store rout cells frames out] in *.
  destruct (cellrel_valid _ _ _ _ (pairs_cellrel _ _ _ _ _ _ Hfr Hp)) as [V1 V2].
  constructor; cbn [sset cell_set store cells frames out rout locals captured]; try assumption.
  - apply Rfr_update; try assumption. intros cy cy' Hq. exact (Hb _ _ _ _ Hq Hp).
  - eapply pins_update_; eassumption.
  - eapply pins_update_; eassumption.
Qed.

(* ---------------------------------------------------------------- blocks: push / pop *)
Lemma push_rel : forall env s g lb, Rg env s g -> special lb = true -> Rg (push_scope env) s (push_frame g lb).
Proof.
  intros [l cap cu] [st ro] [cs fs o tr] lb [Hfr Hb Ho Hbase Hun Hns Hpins Hnd Hfp Hfl Hcur Hcf Hcapd Hdl] Hs.
  constructor; cbn [push_scope push_frame with_frames locals captured store rout cells frames out] in *; try assumption.
  - apply Rfr_push; assumption.
  - apply bij_push; assumption.
  - apply NS_push; assumption.
  - apply pins_push_; assumption.
  - constructor; [constructor|exact Hnd].
  - apply pins_push_; assumption.
  - intros f0 c0 c0' cenv cbf E. apply flook_push; [exact (Hfl _ _ _ _ _ E)|exact (proj1 (Rfr_ne _ _ _ _ Hfr))|exact Hs].
  - cbn [current_function lab]. destruct lb; try discriminate Hs; assumption.
  - intros x0 c0 c0' Hin. apply flook_push; [exact (Hdl _ _ _ Hin)|exact (proj1 (Rfr_ne _ _ _ _ Hfr))|exact Hs].
Qed.

Lemma popn_rel : forall m env s g, Rg env s g -> m < length (locals env) ->
  exists g', pop_frames m g = Some g' /\ Rg (popn m env) s g' /\ frames g' = skipn m (frames g) /\
             cells g' = cells g /\ out g' = out g.
Proof.
  induction m as [|m IH]; intros env s g HR Hm.
  - exists g. split; [reflexivity|]. split; [|auto]. destruct env, HR. constructor; assumption.
  - destruct env as [l cap cu], s as [st ro], g as [cs fs o tr]. destruct HR as [Hfr Hb Ho Hbase Hun Hns Hpins Hnd Hfp Hfl Hcur Hcf Hcapd Hdl].
    cbn [locals captured store rout cells frames out] in *.
    destruct l as [|sc l]; [cbn in Hm; lia|]. destruct l as [|sc' l]; [cbn in Hm; lia|].
    destruct fs as [|f fs]; [cbn in Hfr; contradiction|].
    cbn [pop_frames pop_frame frames with_frames cells out trace].
    destruct (IH {| locals := sc' :: l; captured := cap; cur := cu |} {| store := st; rout := ro |}
                 {| cells := cs; frames := fs; out := o; trace := tr |}) as (g' & E & HR' & F & C & O).
    + constructor; cbn [locals captured store rout cells frames out]; try assumption.
      * eapply Rfr_pop; exact Hfr.
      * eapply bij_pop; exact Hb.
      * intros y Hy. apply Hun. cbn [lookup_scopes] in Hy |- *. destruct (assoc y sc); [discriminate|exact Hy].
      * exact (proj2 Hns).
      * eapply pins_pop_; exact Hpins.
      * inversion Hnd; assumption.
      * eapply pins_pop_; exact Hfp.
      * intros f0 c0 c0' cenv cbf E. eapply flook_pop. exact (Hfl _ _ _ _ _ E).
      * pose proof Hfr as Hfr'. cbn [StmtRel.Rfr] in Hfr'. destruct Hfr' as [_ [Hspf _]].
        cbn [current_function] in Hcf. destruct (lab f); try discriminate Hspf; exact Hcf.
      * intros x0 c0 c0' Hin. eapply flook_pop. exact (Hdl _ _ _ Hin).
    + cbn [locals length] in *. lia.
    + exists g'. split; [exact E|]. split; [exact HR'|]. auto.
Qed.

Lemma Rg_trc : forall env s g name a i, Rg env s g -> Rg env s (trc name a g i).
Proof. intros env s g name a i [A B D E F G H I0 J K]. constructor; assumption. Qed.

Lemma print_rel : forall env s g l, Rg env s g -> Rg env (sprint s l) (emit_line g l).
Proof.
  intros env s g l [A B D E F G H I0 J K]. constructor; cbn [sprint emit_line store cells frames out rout]; try assumption.
  now rewrite D.
Qed.

End Pins.
Arguments Rg : clear implicits.
Arguments Rst : clear implicits.

Lemma show_inj : forall v, first_order v -> exists l, rshow v = Some l /\ show (inj v) = Some l.
Proof. intros [z|[|]|t| |p b e] H; cbn in *; try contradiction; eexists; split; reflexivity. Qed.

Lemma arith5_arith_op : forall o, arith5 o = true -> arith_op o.
Proof. intros o H. split; intros ->; discriminate. Qed.

Lemma arith5_not_bool : forall o a b s r s', arith5 o = true -> binop_sem o a b s = EVal r s' ->
  match inj r with VBool _ => False | _ => True end.
Proof.
  intros o a b s r s' Ho H. destruct o; try discriminate; destruct a, b; cbn [binop_sem rshow] in H;
    unfold arith_res in H;
    repeat match type of H with context [if ?c then _ else _] => destruct c end;
    try discriminate; inversion H; subst; cbn; try exact Logic.I;
    repeat match goal with b : bool |- _ => destruct b end; try discriminate; try exact Logic.I.
Qed.

(* ---------------------------------------------------------------- exec, one level *)
Lemma exec_SAssign : forall fuel env x e s, Eval.exec (S fuel) env (SAssign x e) s =
  match eval fuel env e s with
  | EVal v s => let '(e', s') := assign env s x v in SOk SigNormal e' s'
  | ENoVal s => SFailed (FType 3) s | EFail f s => SFailed f s | EFuel => SFuel end.
Proof. reflexivity. Qed.
Lemma exec_SOpAssign : forall fuel env x o e s, Eval.exec (S fuel) env (SOpAssign x o e) s =
  match eval fuel env e s with
  | EVal v s =>
    match lookup_scopes x (locals env ++ captured env) with
    | Some c => match sget s c with
                | Some cur_ => match binop_sem o cur_ v s with
                               | EVal r s => SOk SigNormal env (sset s c r)
                               | EFail f s => SFailed f s | _ => SFailed (FType 9) s end
                | None => SFailed (FUnbound x) s end
    | None => SFailed (FUnbound x) s end
  | ENoVal s => SFailed (FType 3) s | EFail f s => SFailed f s | EFuel => SFuel end.
Proof. reflexivity. Qed.
Lemma exec_SPrint : forall fuel env e s, Eval.exec (S fuel) env (SPrint e) s =
  match eval fuel env e s with
  | EVal v s => match rshow v with Some l => SOk SigNormal env (sprint s l) | None => SFailed (FType 10) s end
  | ENoVal s => SFailed (FType 3) s | EFail f s => SFailed f s | EFuel => SFuel end.
Proof. reflexivity. Qed.
Lemma exec_SAssert : forall fuel env e sp s, Eval.exec (S fuel) env (SAssert e sp) s =
  match eval fuel env e s with
  | EVal v s => match v with
                | RBool true => SOk SigNormal env s
                | RBool false => SFailed (FAssert sp) s
                | _ => SFailed (FType 11) s end
  | ENoVal s => SFailed (FType 3) s | EFail f s => SFailed f s | EFuel => SFuel end.
Proof. reflexivity. Qed.
Lemma exec_SExpr : forall fuel env e s, Eval.exec (S fuel) env (SExpr e) s =
  match eval fuel env e s with
  | EVal _ s | ENoVal s => SOk SigNormal env s | EFail f s => SFailed f s | EFuel => SFuel end.
Proof. reflexivity. Qed.

Definition in_block_ (fuel : nat) (body : list stmt) (e : fenv) (s : rstate) : sres_ :=
  match exec_block fuel (push_scope e) body s with
  | SOk g e s => SOk g (pop_scope e) s | r => r end.

Lemma exec_SIf : forall fuel env c body s, Eval.exec (S fuel) env (SIf c body) s =
  match eval fuel env c s with
  | EVal v s => match v with
                | RBool true => in_block_ fuel body env s
                | RBool false => SOk SigNormal env s
                | _ => SFailed (FType 12) s end
  | ENoVal s => SFailed (FType 3) s | EFail f s => SFailed f s | EFuel => SFuel end.
Proof. reflexivity. Qed.
Lemma exec_SIfElse : forall fuel env c body els s, Eval.exec (S fuel) env (SIfElse c body els) s =
  match eval fuel env c s with
  | EVal v s => match v with
                | RBool true => in_block_ fuel body env s
                | RBool false => in_block_ fuel els env s
                | _ => SFailed (FType 12) s end
  | ENoVal s => SFailed (FType 3) s | EFail f s => SFailed f s | EFuel => SFuel end.
Proof. reflexivity. Qed.
Lemma exec_SIfElif : forall fuel env c body nxt s, Eval.exec (S fuel) env (SIfElif c body nxt) s =
  match eval fuel env c s with
  | EVal v s => match v with
                | RBool true => in_block_ fuel body env s
                | RBool false => in_block_ fuel [nxt] env s
                | _ => SFailed (FType 12) s end
  | ENoVal s => SFailed (FType 3) s | EFail f s => SFailed f s | EFuel => SFuel end.
Proof. reflexivity. Qed.
Lemma exec_SWhile : forall fuel env c body s, Eval.exec (S fuel) env (SWhile c body) s =
  match eval fuel env c s with
  | EVal v s => match v with
                | RBool false => SOk SigNormal env s
                | RBool true =>
                  match in_block_ fuel body env s with
                  | SOk (SigNormal | SigContinue) e s => Eval.exec fuel e (SWhile c body) s
                  | SOk SigBreak e s => SOk SigNormal e s
                  | r => r end
                | _ => SFailed (FType 12) s end
  | ENoVal s => SFailed (FType 3) s | EFail f s => SFailed f s | EFuel => SFuel end.
Proof. reflexivity. Qed.
Lemma exec_block_cons : forall fuel env st l s, exec_block (S fuel) env (st :: l) s =
  match Eval.exec fuel env st s with
  | SOk SigNormal e s => exec_block fuel e l s
  | r => r end.
Proof. reflexivity. Qed.
Lemma exec_block_nil : forall fuel env s, exec_block (S fuel) env [] s = SOk SigNormal env s.
Proof. reflexivity. Qed.

  (* ---------------------------------------------------------------- a call-free expression only looks at its variables *)
  Definition res_to (r : eres) (s' : rstate) : eres :=
    match r with EVal v _ => EVal v s' | ENoVal _ => ENoVal s' | EFail f _ => EFail f s' | EFuel => EFuel end.
  Definition res_st (r : eres) (s : rstate) : Prop :=
    match r with EVal _ s0 | ENoVal s0 | EFail _ s0 => s0 = s | EFuel => True end.
  Definition agree (env : fenv) (s : rstate) (env' : fenv) (s' : rstate) (x : str) : Prop :=
    exists c c' v, lookup_scopes x (locals env ++ captured env) = Some c /\ sget s c = Some v /\
                   lookup_scopes x (locals env' ++ captured env') = Some c' /\ sget s' c' = Some v.

  Lemma binop_sem_to : forall o a b s s', res_st (binop_sem o a b s) s /\ binop_sem o a b s' = res_to (binop_sem o a b s) s'.
  Proof.
    intros o a b s s'. destruct o, a, b; cbn [binop_sem req rshow]; unfold arith_res;
      repeat match goal with |- context [if ?c then _ else _] => destruct c end;
      repeat match goal with |- context [match ?c with _ => _ end] => destruct c end; split; reflexivity.
  Qed.

  Definition congr_spec (e : expr) : Prop :=
    forall fuel env s env' s', (forall x, In x (used_e e) -> agree env s env' s' x) ->
      res_st (eval fuel env e s) s /\ eval fuel env' e s' = res_to (eval fuel env e s) s'.

  Ltac congr_sub IH Hv fuel env s env' s' r :=
    let H1 := fresh "H1" in let H2 := fresh "H2" in
    destruct (IH fuel env s env' s' Hv) as [H1 H2]; rewrite H2; clear H2;
    destruct (eval fuel env r s) as [? ?|?|? ?|]; cbn [res_st res_to] in *; try subst;
    try (split; reflexivity).

  Theorem eval_pure_congr : forall e, pure e = true -> congr_spec e.
  Proof.
    induction e; intros Hp; cbn [pure] in Hp; try discriminate;
      try (apply Bool.andb_true_iff in Hp as [Hp1 Hp2]);
      intros fuel env sA env' sB Hv; (destruct fuel as [|fuel]; [split; reflexivity|]).
    - split; reflexivity.
    - split; reflexivity.
    - split; reflexivity.
    - split; reflexivity.
    - rewrite !eval_EVar. destruct (Hv x (or_introl eq_refl)) as (c0 & c0' & v & E1 & E2 & E3 & E4).
      rewrite E1, E2, E3, E4. split; reflexivity.
    - rewrite !eval_EBin. rewrite used_e_bin in Hv.
      assert (Hva : forall x, In x (used_e e1) -> agree env sA env' sB x) by (intros x Hx; apply Hv, in_or_app; now left).
      assert (Hvb : forall x, In x (used_e e2) -> agree env sA env' sB x) by (intros x Hx; apply Hv, in_or_app; now right).
      congr_sub (IHe1 Hp1) Hva fuel env sA env' sB e1.
      congr_sub (IHe2 Hp2) Hvb fuel env sA env' sB e2.
      apply binop_sem_to.
    - rewrite !eval_EAnd. rewrite used_e_and in Hv.
      assert (Hva : forall x, In x (used_e e1) -> agree env sA env' sB x) by (intros x Hx; apply Hv, in_or_app; now left).
      assert (Hvb : forall x, In x (used_e e2) -> agree env sA env' sB x) by (intros x Hx; apply Hv, in_or_app; now right).
      congr_sub (IHe1 Hp1) Hva fuel env sA env' sB e1.
      destruct v as [?|[|]|?| |? ? ?]; try (split; reflexivity).
      congr_sub (IHe2 Hp2) Hvb fuel env sA env' sB e2.
      destruct v; split; reflexivity.
    - rewrite !eval_EOr. rewrite used_e_or in Hv.
      assert (Hva : forall x, In x (used_e e1) -> agree env sA env' sB x) by (intros x Hx; apply Hv, in_or_app; now left).
      assert (Hvb : forall x, In x (used_e e2) -> agree env sA env' sB x) by (intros x Hx; apply Hv, in_or_app; now right).
      congr_sub (IHe1 Hp1) Hva fuel env sA env' sB e1.
      destruct v as [?|[|]|?| |? ? ?]; try (split; reflexivity).
      congr_sub (IHe2 Hp2) Hvb fuel env sA env' sB e2.
      destruct v; split; reflexivity.
    - rewrite !eval_ENot. rewrite used_e_not in Hv.
      congr_sub (IHe Hp) Hv fuel env sA env' sB e.
      destruct v; split; reflexivity.
    - rewrite !eval_ENeg. rewrite used_e_neg in Hv.
      congr_sub (IHe Hp) Hv fuel env sA env' sB e.
      destruct v; try (split; reflexivity). unfold arith_res. destruct (i32_ok (- z)); split; reflexivity.
    - rewrite !eval_ENilOr. rewrite used_e_nilor in Hv.
      assert (Hva : forall x, In x (used_e e1) -> agree env sA env' sB x) by (intros x Hx; apply Hv, in_or_app; now left).
      assert (Hvb : forall x, In x (used_e e2) -> agree env sA env' sB x) by (intros x Hx; apply Hv, in_or_app; now right).
      congr_sub (IHe1 Hp1) Hva fuel env sA env' sB e1.
      destruct v; try (split; reflexivity). exact (IHe2 Hp2 fuel env sA env' sB Hvb).
    - rewrite !eval_EGet. rewrite used_e_get in Hv.
      congr_sub (IHe Hp) Hv fuel env sA env' sB e.
      destruct v; split; reflexivity.
  Qed.

(* ================================================================ calls in the reference semantics *)
Definition call_clos_ (fuel : nat) (f : rvalue) (vs : list rvalue) (s : rstate) : eres :=
  match f with
  | RClos ps body cenv =>
    match bind_params ps vs s [] with
    | None => EFail (FType 4) s
    | Some (sc, s) =>
      match exec_block fuel {| locals := [sc]; captured := cenv; cur := Some f |} body s with
      | SOk (SigReturn (Some v)) _ s => EVal v s
      | SOk _ _ s => ENoVal s
      | SFailed f s => EFail f s
      | SFuel => EFuel end
    end
  | _ => EFail (FType 5) s end.

Section Evals.
  Variables (fuel : nat) (e : fenv).
  Fixpoint evals_ (l : list expr) (s : rstate) (acc : list rvalue) : (list rvalue * rstate) + eres :=
    match l with
    | [] => inl (rev acc, s)
    | a :: l => match eval fuel e a s with
                | EVal v s => evals_ l s (v :: acc)
                | ENoVal s => inr (EFail (FType 3) s)
                | r => inr r end
    end.
End Evals.

Lemma eval_ECall : forall fuel e f l s, eval (S fuel) e (ECall f l) s =
  match eval fuel e f s with
  | EVal vf s => match evals_ fuel e l s [] with
                 | inl (vs, s) => call_clos_ fuel vf vs s
                 | inr r => r end
  | ENoVal s => EFail (FType 3) s | r => r end.
Proof. reflexivity. Qed.
Lemma eval_ESelf : forall fuel e l s, eval (S fuel) e (ESelf l) s =
  match evals_ fuel e l s [] with
  | inl (vs, s) => match cur e with Some f => call_clos_ fuel f vs s | None => EFail (FType 8) s end
  | inr r => r end.
Proof. reflexivity. Qed.

(* ================================================================ the simulation *)
Section Sim.
  Variable prog : program.
  Variable name : str.
  Variable code : list instr.
  Variable c : nat.                        (* the statement-level register counter (the same at every nesting depth) *)
  Hypothesis Hsmall : small (c + 2 * length code + 8).

  (* ---------------------------------------------------------------- calls: what the callee (run_fn on the compiled
     function) must do for a call the reference semantics makes with `fuel` (hypothesis for fuel < FU: the specs
     below are for fuel <= FU, so that recursion can be closed by induction on FU) *)
  Definition val_keep (s s' : rstate) (g g' : gstate) : Prop :=
    frames g' = frames g /\ out g' = rout s' /\
    (forall c0 v, sget s c0 = Some v -> sget s' c0 = Some v) /\
    (forall c0 w, cell_get g c0 = Some w -> cell_get g' c0 = Some w).
  Definition fvals (s : rstate) (g : gstate) : Prop :=
    (forall cy w, vpin fpins cy w -> cell_get g cy = Some w) /\ (forall c0 v, spin fpins c0 v -> sget s c0 = Some v).

  Definition drel (dn : list (N * N)) (s : rstate) (g : gstate) : Prop :=
    forall c0 c0', In (c0, c0') dn -> exists v, first_order v /\ sget s c0 = Some v /\ cell_get g c0' = Some (inj v).
  Definition callee_ok (fuel : nat) (ps : list str) (body : list stmt) (cenv : list scope) (loc : str)
             (cbf : option (list (str * N))) (dn : list (N * N)) : Prop :=
    forall vs s g1,
      Forall first_order vs -> length vs = length ps ->
      out g1 = rout s -> frames_nd (frames g1) -> fvals s g1 -> drel dn s g1 ->
      match call_clos_ fuel (RClos ps body cenv) vs s with
      | EVal v s' => first_order v /\ exists fuel' g2,
            run_fn fuel' prog loc (map inj vs) cbf g1 = RDone (Some (inj v)) g2 /\ val_keep s s' g1 g2
      | ENoVal s' => exists fuel' g2,
            run_fn fuel' prog loc (map inj vs) cbf g1 = RDone None g2 /\ val_keep s s' g1 g2
      | EFail fl s' => fail_post fl (exists fuel' e g2,
            run_fn fuel' prog loc (map inj vs) cbf g1 = RFail e g2 /\ err_rel_s fl e /\ out g2 = rout s')
      | EFuel => True
      end.
  Definition call_ok (fuel : nat) : Prop :=
    forall f ps body c0 c0' cenv cbf,
      assoc f FT = Some (ps, body) -> assoc f fcells = Some (c0, c0', cenv, cbf) ->
      callee_ok fuel ps body cenv (floc f) cbf (fdn f).
  (* `self(args)`: the executing function itself, with the activation's own captured cells *)
  Definition self_ok (fuel : nat) : Prop :=
    forall ps body cenv, selfv = Some (RClos ps body cenv) -> callee_ok fuel ps body cenv fnm cb sdn.

  Variable FU : nat.
  Hypothesis Hcall : forall fuel', fuel' < FU -> call_ok fuel'.
  Hypothesis Hself : forall fuel', fuel' < FU -> self_ok fuel'.

  (* what a compiled item is in the final code: break / continue placeholders become jmp_pop to the loop's
     break target bt / continue target ct (that is what `resolve` does, see items_at_resolve) *)
  Definition item_instr (bt ct pos : nat) (it : citem) : instr :=
    match it with
    | CI i => i
    | CBrk n => mkI OP_JMP_POP [sN (bt - pos); sN n]
    | CCont n => mkI OP_JMP_POP [sN (ct - pos); sN (n - 1)]
    end.
  Definition items_at (bt ct k : nat) (its : list citem) : Prop :=
    forall j it, nth_error its j = Some it -> nth_error code (k + j) = Some (item_instr bt ct (k + j) it).

  Lemma items_at_app : forall bt ct k l1 l2, items_at bt ct k (l1 ++ l2) ->
    items_at bt ct k l1 /\ items_at bt ct (k + length l1) l2.
  Proof.
    intros bt ct k l1 l2 H. split; intros j it Hj.
    - apply H. rewrite nth_error_app1; [exact Hj|]. apply nth_error_Some. congruence.
    - rewrite <- Nat.add_assoc. apply H. rewrite nth_error_app2 by lia.
      replace (length l1 + j - length l1) with j by lia. exact Hj.
  Qed.
  Lemma items_at_cons : forall bt ct k it l, items_at bt ct k (it :: l) ->
    nth_error code k = Some (item_instr bt ct k it) /\ items_at bt ct (S k) l.
  Proof.
    intros bt ct k it l H. split.
    - specialize (H 0 it eq_refl). now rewrite Nat.add_0_r in H.
    - intros j it' Hj. specialize (H (S j) it' Hj). now rewrite <- plus_n_Sm in H.
  Qed.
  Lemma items_at_CI : forall bt ct k l, items_at bt ct k (map CI l) -> code_at code k l.
  Proof.
    intros bt ct k l H j i Hj. apply (H j (CI i)). rewrite nth_error_map, Hj. reflexivity.
  Qed.

  (* ---------------------------------------------------------------- the statement carried by the induction *)
  (* the hidden registers L#j, j <= lr, of the enclosing loops are not rebound (statements at register level lr only
     bind L#(lr+1), L#(lr+2), ...) *)
  Definition lkeep (lr : nat) (fs fs' : list frame) : Prop :=
    forall j, j <= lr -> find_in_function (lregn j) fs' = find_in_function (lregn j) fs.
  Lemma lkeep_refl : forall lr fs, lkeep lr fs fs.
  Proof. intros lr fs j _. reflexivity. Qed.
  Lemma lkeep_trans : forall lr f1 f2 f3, lkeep lr f1 f2 -> lkeep lr f2 f3 -> lkeep lr f1 f3.
  Proof. intros lr f1 f2 f3 H1 H2 j Hj. now rewrite (H2 j Hj), (H1 j Hj). Qed.
  Lemma lkeep_mono : forall lr lr' fs fs', lr <= lr' -> lkeep lr' fs fs' -> lkeep lr fs fs'.
  Proof. intros lr lr' fs fs' Hle H j Hj. apply H. lia. Qed.
  Lemma lkeep_eq : forall lr fs fs', fs' = fs -> lkeep lr fs fs'.
  Proof. intros lr fs fs' ->. apply lkeep_refl. Qed.
  Lemma lkeep_nonreg : forall lr fs fs', (forall y, (forall k, y <> reg k) -> src_name y \/ (exists j, y = lregn j) -> find_in_function y fs' = find_in_function y fs) -> lkeep lr fs fs'.
  Proof. intros lr fs fs' H j _. apply H; [intros k E; discriminate E|right; eauto]. Qed.

  (* expression code binds expression registers #k only: every loop register is kept *)
  (* ... as seen by load (find_in_function) and in the top frame itself (delete_name_scoped looks there only) *)
  Definition lkeepA (fs fs' : list frame) : Prop :=
    forall j, find_in_function (lregn j) fs' = find_in_function (lregn j) fs /\
              assoc (lregn j) (top_vars fs') = assoc (lregn j) (top_vars fs).
  Lemma lkeepA_refl : forall fs, lkeepA fs fs.
  Proof. intros fs j. split; reflexivity. Qed.
  Lemma lkeepA_trans : forall f1 f2 f3, lkeepA f1 f2 -> lkeepA f2 f3 -> lkeepA f1 f3.
  Proof. intros f1 f2 f3 H1 H2 j. destruct (H1 j) as [A1 B1], (H2 j) as [A2 B2]. split; congruence. Qed.
  Lemma lkeepA_lkeep : forall lr fs fs', lkeepA fs fs' -> lkeep lr fs fs'.
  Proof. intros lr fs fs' H j _. apply H. Qed.
  Lemma lkeep_other : forall lr fs fs' y, (forall k, y <> lregn k) -> (forall z, z <> y -> find_in_function z fs' = find_in_function z fs) -> lkeep lr fs fs'.
  Proof. intros lr fs fs' y Hy H j _. apply H. apply not_eq_sym. apply Hy. Qed.
  Lemma lkeepA_eq : forall fs fs', fs' = fs -> lkeepA fs fs'.
  Proof. intros fs fs' ->. apply lkeepA_refl. Qed.
  Lemma lregn_not_reg : forall j k, lregn j <> reg k.
  Proof. intros j k E. discriminate E. Qed.
  Lemma lkeepA_ext : forall d lo hi g g', ext d lo hi g g' -> lkeepA (frames g) (frames g').
  Proof.
    intros d lo hi g g' He j. split; [apply (ext_find _ _ _ _ _ He)|apply (ext_top _ _ _ _ _ He)]; intros (k & _ & _ & E); exact (lregn_not_reg _ _ E).
  Qed.
  Lemma lkeepA_other : forall fs fs' y, (forall k, y <> lregn k) -> (forall z, z <> y -> find_in_function z fs' = find_in_function z fs) ->
    (forall z, z <> y -> assoc z (top_vars fs') = assoc z (top_vars fs)) -> lkeepA fs fs'.
  Proof. intros fs fs' y Hy H H' j. split; [apply H|apply H']; apply not_eq_sym; apply Hy. Qed.

  (* no captured data variable is shadowed by a local outside B' *)
  Definition ncd (B' : list str) (env : fenv) : Prop :=
    forall y, In y CD -> lookup_scopes y (locals env) <> None -> In y B'.
  Lemma ncd_mono : forall B1 B2 env, (forall y, In y B1 -> In y B2) -> ncd B1 env -> ncd B2 env.
  Proof. intros B1 B2 env H H1 y Hy Hl. exact (H y (H1 y Hy Hl)). Qed.
  Lemma lookup_skipn_ne : forall m l x, lookup_scopes x (skipn m l) <> None -> lookup_scopes x l <> None.
  Proof.
    induction m as [|m IH]; intros l x H; [exact H|]. destruct l as [|sc l]; [exact H|]. cbn [skipn] in H.
    apply (lookup_tl_ne (sc :: l)). cbn [tl]. now apply IH.
  Qed.
  Lemma ncd_popn : forall B' env m, ncd B' env -> ncd B' (popn m env).
  Proof. intros B' env m H y Hy Hl. apply (H y Hy). cbn [popn locals] in Hl. exact (lookup_skipn_ne _ _ _ Hl). Qed.
  Lemma ncd_of_bound : forall B env, bound_in B env -> ncd B env.
  Proof.
    intros B env [H1 H2] y Hy Hl. pose proof (In_keys_assoc _ cdsc y Hy) as Ha.
    destruct (assoc y cdsc) as [c0|] eqn:E; [|congruence]. destruct (Hcd y c0 E) as [Hu _].
    destruct (proj1 (H1 y (uname_not_hid _ Hu)) Hl) as [Hin|Hin]; [exact Hin|]. exfalso. exact (uname_nfun _ Hu (Hlfuns _ Hin)).
  Qed.
  Lemma after_mono : forall B st y, In y B -> In y (after B st).
  Proof. intros B st y H. destruct st; cbn [after]; try exact H. now right. Qed.
  Lemma after_cd : forall il B st y, ok_stmt FT SP CD il B st = true -> In y CD -> In y (after B st) -> In y B.
  Proof.
    intros il B st y Hok Hy Hin. destruct st; cbn [after] in Hin; try exact Hin. destruct Hin as [<-|Hin]; [|exact Hin].
    cbn [ok_stmt] in Hok. rewrite !Bool.andb_true_iff in Hok. destruct Hok as [[_ Hsh] _].
    apply Bool.orb_true_iff in Hsh as [Hsh|Hsh]; [now apply mem_str_In|].
    apply Bool.negb_true_iff in Hsh. apply In_mem_str in Hy. congruence.
  Qed.

  Definition post (pins : pinset) (lr : nat) (sl : option nat) (bt ct fin : nat) (B' : list str) (env : fenv) (fs0 : list frame)
             (a : act) (g : gstate) (r : sres_) : Prop :=
    match r with
    | SOk sig env' s' =>
      same_tl env env' /\
      match sig with
      | SigNormal => bound_in B' env' /\
          exists a' g', xrun prog name code a g a' g' /\ a_ip a' = fin /\ Rst pins env' s' a' g' /\ act_same a a' /\
                        tl (frames g') = tl fs0 /\ lkeep lr fs0 (frames g')
      | SigBreak => exists m a' g', sl = Some m /\
          xrun prog name code a g a' g' /\ a_ip a' = bt /\ Rst pins (popn m env') s' a' g' /\ act_same a a' /\
          frames g' = skipn m fs0
      | SigContinue => exists m a' g', sl = Some m /\
          xrun prog name code a g a' g' /\ a_ip a' = ct /\ Rst pins (popn (m - 1) env') s' a' g' /\ act_same a a' /\
          tl (frames g') = skipn m fs0 /\ lkeep lr (skipn (m - 1) fs0) (frames g') /\ ncd B' (popn (m - 1) env')
      | SigReturn None => False
      | SigReturn (Some v) => exists env'' a' g',
          xrun prog name code a g a' g' /\ nth_error code (a_ip a') = Some (mkI OP_RET []) /\
          a_ops a' = [inj v] /\ first_order v /\ Rg pins env'' s' g' /\ act_same a a'
      end
    | SFailed f s' => fail_post f (exists e g', xfail prog name code a g e g' /\ err_rel_s f e /\ out g' = rout s')
    | SFuel => True
    end.

  (* inside a loop: sl = Some m, m = block frames to pop on `break` (m-1 on `continue`); the targets lie ahead *)
  Definition lc_ok (il : bool) (sl : option nat) (bt ct : nat) (env : fenv) (hi : nat) : Prop :=
    (il = true -> sl <> None) /\
    forall m, sl = Some m -> 1 <= m /\ m < length (locals env) /\ hi <= ct /\ ct <= bt /\ bt < length code /\
                             m + hi <= length code.

  (* the code of a statement (list) ends strictly inside the function -- except that a `return` may be its last
     instruction (then the compiler appends no `void; ret`) *)
  Definition is_ret (st : stmt) : bool := match st with SReturn (Some _) => true | _ => false end.
  Fixpoint ends_ret (l : list stmt) : bool :=
    match l with [] => true | [st] => is_ret st | _ :: l' => ends_ret l' end.
  Definition endok (fin : nat) (r : bool) : Prop := fin < length code \/ (r = true /\ fin = length code).

  Definition stmt_spec (st : stmt) : Prop :=
    forall pins lr il sl bt ct fuel k a g env s B, fuel <= FU -> lr <= 2 * k ->
      ok_stmt FT SP CD il B st = true -> bound_in B env ->
      items_at bt ct k (sitems c lr sl st) -> endok (k + length (sitems c lr sl st)) (is_ret st) ->
      lc_ok il sl bt ct env (k + length (sitems c lr sl st)) ->
      a_ip a = k -> a_cb a = cb -> Rst pins env s a g ->
      post pins lr sl bt ct (k + length (sitems c lr sl st)) (after B st) env (frames g) a g (Eval.exec fuel env st s).

  Fixpoint after_l (B : list str) (l : list stmt) : list str :=
    match l with [] => B | st :: l => after_l (after B st) l end.

  Lemma after_l_mono : forall l B y, In y B -> In y (after_l B l).
  Proof. induction l as [|st l IH]; intros B y H; [exact H|]. cbn [after_l]. apply IH. now apply after_mono. Qed.
  Lemma after_l_cd : forall l il B y, ok_block FT SP CD il B l = true -> In y CD -> In y (after_l B l) -> In y B.
  Proof.
    induction l as [|st l IH]; intros il B y Hok Hy Hin; [exact Hin|]. cbn [ok_block] in Hok. apply Bool.andb_true_iff in Hok as [H1 H2].
    cbn [after_l] in Hin. exact (after_cd il B st y H1 Hy (IH il _ y H2 Hy Hin)).
  Qed.

  Definition block_spec (l : list stmt) : Prop :=
    forall pins lr il sl bt ct fuel k a g env s B, fuel <= FU -> lr <= 2 * k ->
      ok_block FT SP CD il B l = true -> bound_in B env ->
      items_at bt ct k (bitems c lr sl l) -> endok (k + length (bitems c lr sl l)) (ends_ret l) ->
      lc_ok il sl bt ct env (k + length (bitems c lr sl l)) ->
      a_ip a = k -> a_cb a = cb -> Rst pins env s a g ->
      post pins lr sl bt ct (k + length (bitems c lr sl l)) (after_l B l) env (frames g) a g (exec_block fuel env l s).

  (* ---------------------------------------------------------------- expressions (ExprSim.sim_pure) *)
  (* a variable of an expression: a local of the activation, or a captured data variable *)
  Definition vsrc (env : fenv) (x : str) : Prop :=
    uname x /\ (lookup_scopes x (locals env) <> None \/ (lookup_scopes x (locals env) = None /\ assoc x cdsc <> None)).
  Lemma In_CD_assoc : forall x, In x CD -> assoc x cdsc <> None.
  Proof. intros x. apply In_keys_assoc. Qed.
  Lemma vsrc_of : forall B env x, bound_in B env -> uname0 x -> In x (B ++ CD) -> vsrc env x.
  Proof.
    intros B env x Hb H0 Hin. apply in_app_or in Hin as [Hin|Hin].
    - split; [eapply bound_in_uname; eassumption|left; eapply bound_in_look; eassumption].
    - pose proof (In_CD_assoc x Hin) as Ha. destruct (assoc x cdsc) as [c0|] eqn:E; [|congruence].
      destruct (Hcd x c0 E) as [Hx _]. split; [exact Hx|].
      destruct (lookup_scopes x (locals env)) eqn:El; [left; discriminate|right; split; [reflexivity|congruence]].
  Qed.
  Lemma vsrc_local : forall env x, uname x -> lookup_scopes x (locals env) <> None -> vsrc env x.
  Proof. intros env x Hx Hl. split; [exact Hx|left; exact Hl]. Qed.

  (* where the reference semantics finds a variable of an expression, and its (first-order) value *)
  Lemma vsrc_lookup : forall pins env s g x, Rg pins env s g -> vsrc env x ->
    exists c0 v, lookup_scopes x (locals env ++ captured env) = Some c0 /\ lookup_scopes x (map strip_sc (locals env) ++ [cdsc]) = Some c0 /\ sget s c0 = Some v /\ first_order v.
  Proof.
    intros pins env s g x HR [Hx [Hin|[Hn Hc]]].
    - destruct (Rg_lookup env s g x HR Hx Hin) as (c0 & c0' & v & E1 & _ & _ & E3 & Hfo & _).
      exists c0, v. split; [now apply lookup_app_some|]. split; [|auto].
      apply lookup_app_some. rewrite (lookup_strip x _ (uname_not_hid _ Hx)). exact E1.
    - destruct (assoc x cdsc) as [c0|] eqn:E; [|congruence].
      destruct (Hcd x c0 E) as (_ & c' & v & m & _ & _ & Hfo & Hs & _).
      destruct (Rg_fpin _ _ _ HR) as [_ F2]. destruct (F2 c0 v Hs) as [A2 _].
      exists c0, v. split; [|split; [|split; [exact A2|exact Hfo]]].
      + rewrite lookup_app_split, Hn. exact (Rg_capd _ _ _ HR x c0 E).
      + rewrite lookup_app_split, (lookup_strip x _ (uname_not_hid _ Hx)), Hn. cbn [lookup_scopes]. now rewrite E.
  Qed.

  Lemma expr_run_ext : forall pins e d fuel k a g env s,
    pure e = true -> lits_ok e = true ->
    (forall x, In x (used_e e) -> vsrc env x) -> d <= c + length code + 2 ->
    code_at code k (pcode d e) -> k + length (pcode d e) < length code ->
    a_ip a = k -> a_ops a = [] -> a_cb a = cb -> Rg pins env s g ->
    match eval fuel env e s with
    | EVal v s' => s' = s /\ first_order v /\
                   exists g', xrun prog name code a g (upd a (k + length (pcode d e)) [inj v]) g' /\ Rg pins env s g' /\
                              ext d k (k + length (pcode d e)) g g'
    | EFail f s' => s' = s /\ exists e0 g', xfail prog name code a g e0 g' /\ err_rel f e0 /\ out g' = rout s
    | EFuel => True
    | ENoVal _ => False
    end.
  Proof.
    intros pins e d fuel k a g env s Hp Hl Hu Hd Hc Hend Hip Hops Hacb HR.
    set (env0 := strip_cap env).
    assert (Hv : forall x, In x (used_e e) -> var_ok env0 s x).
    { intros x Hx. destruct (vsrc_lookup pins env s g x HR (Hu x Hx)) as (c0 & v & _ & E2 & E3 & Hfo).
      split; [exact (uname_src _ (proj1 (Hu x Hx)))|]. exists c0, v. cbn [env0 strip_cap locals captured]. auto. }
    assert (Hag : forall x, In x (used_e e) -> agree env0 s env s x).
    { intros x Hx. destruct (vsrc_lookup pins env s g x HR (Hu x Hx)) as (c0 & v & E1 & E2 & E3 & _).
      exists c0, c0, v. cbn [env0 strip_cap locals captured]. auto. }
    destruct (eval_pure_congr e Hp fuel env0 s env s Hag) as [Hst0 Ecg]. rewrite Ecg.
    assert (Hsm : small (d + length (pcode d e) + 3)) by (eapply small_le; [|exact Hsmall]; lia).
    assert (Hfr : frames g <> []) by (destruct (Rfr_ne _ _ _ _ (Rg_fr _ _ _ HR)); assumption).
    pose proof (sim_pure name code e Hp d fuel k a g env0 s Hl Hv Hsm Hc Hend Hip Hops Hfr (Rg_Renv env s a g HR Hacb)) as H.
    destruct (eval fuel env0 e s) as [v s1|s1|f s1|]; cbn [sim_post res_to] in H |- *; [|contradiction| |exact Logic.I].
    - destruct H as (-> & Hfo & g' & R). split; [reflexivity|]. split; [exact Hfo|]. exists g'. split.
      + eapply run_ok_xrun. exact R.
      + split; [eapply Rg_ext; [exact HR|exact (proj2 R)|]|exact (proj2 R)].
        eapply xreach_nd; [apply reaches_xreach_running; exact (proj1 R)|exact (Rg_nd _ _ _ HR)].
    - destruct H as (-> & e0 & g' & R & Hr & He). split; [reflexivity|]. exists e0, g'. split; [|split].
      + now apply reaches_xfail.
      + exact Hr.
      + rewrite (ext_out _ _ _ _ _ He). exact (Rg_out _ _ _ HR).
  Qed.

  Lemma expr_run_gen : forall pins e d fuel k a g env s,
    pure e = true -> lits_ok e = true ->
    (forall x, In x (used_e e) -> vsrc env x) -> d <= c + length code + 2 ->
    code_at code k (pcode d e) -> k + length (pcode d e) < length code ->
    a_ip a = k -> a_ops a = [] -> a_cb a = cb -> Rg pins env s g ->
    match eval fuel env e s with
    | EVal v s' => s' = s /\ first_order v /\
                   exists g', xrun prog name code a g (upd a (k + length (pcode d e)) [inj v]) g' /\ Rg pins env s g' /\
                              tl (frames g') = tl (frames g) /\ lkeepA (frames g) (frames g')
    | EFail f s' => s' = s /\ exists e0 g', xfail prog name code a g e0 g' /\ err_rel f e0 /\ out g' = rout s
    | EFuel => True
    | ENoVal _ => False
    end.
  Proof.
    intros pins e d fuel k a g env s Hp Hl Hu Hd Hc Hend Hip Hops Hacb HR.
    pose proof (expr_run_ext pins e d fuel k a g env s Hp Hl Hu Hd Hc Hend Hip Hops Hacb HR) as H.
    destruct (eval fuel env e s) as [v s1|s1|f s1|]; try exact H.
    destruct H as (-> & Hfo & g' & R & HG & He). split; [reflexivity|]. split; [exact Hfo|]. exists g'.
    split; [exact R|]. split; [exact HG|]. split; [exact (ext_tail _ _ _ _ _ He)|exact (lkeepA_ext _ _ _ _ _ He)].
  Qed.

  Lemma expr_run : forall pins e d fuel k a g env s B,
    ok_expr (B ++ CD) e = true -> bound_in B env -> d <= S c ->
    code_at code k (pcode d e) -> k + length (pcode d e) < length code ->
    a_ip a = k -> a_ops a = [] -> a_cb a = cb -> Rg pins env s g ->
    match eval fuel env e s with
    | EVal v s' => s' = s /\ first_order v /\
                   exists g', xrun prog name code a g (upd a (k + length (pcode d e)) [inj v]) g' /\ Rg pins env s g' /\
                              tl (frames g') = tl (frames g) /\ lkeepA (frames g) (frames g')
    | EFail f s' => s' = s /\ exists e0 g', xfail prog name code a g e0 g' /\ err_rel f e0 /\ out g' = rout s
    | EFuel => True
    | ENoVal _ => False
    end.
  Proof.
    intros pins e d fuel k a g env s B Hok Hb Hd Hc Hend Hip Hops Hacb HR.
    apply ok_expr_parts in Hok as (Hp & Hl & Hu).
    apply expr_run_gen; try assumption; try lia.
    intros x Hx. destruct (Hu x Hx) as [Hs Hin]. eapply vsrc_of; eassumption.
  Qed.

  (* the failing-expression case of every statement *)
  Lemma post_expr_fail : forall pins lr sl bt ct fin B' env fs0 a g f s e0 g',
    xfail prog name code a g e0 g' -> err_rel f e0 -> out g' = rout s ->
    post pins lr sl bt ct fin B' env fs0 a g (SFailed f s).
  Proof. intros. cbn [post]. apply fail_post_intro. exists e0, g'. split; [assumption|]. split; [now apply err_rel_s_of|assumption]. Qed.

  Lemma small_code : forall n, n <= length code -> small n.
  Proof. intros n H. eapply small_le; [|exact Hsmall]. lia. Qed.

  (* ---------------------------------------------------------------- exec_d on the shapes that occur *)
  Lemma exec_store : forall x a g v g', a_ops a = [v] -> store_var g x v = Some g' ->
    exec_d (DStore x) a g = SNext (set_ops a []) g'.
  Proof. intros x a g v g' H1 H2. unfold exec_d. rewrite H1, H2. reflexivity. Qed.
  Lemma exec_void : forall a g, exec_d DVoid a g = SNext (set_ops a []) g.
  Proof. reflexivity. Qed.
  Lemma exec_print : forall a g v l, a_ops a = [v] -> show v = Some l -> exec_d DPrint a g = SNext a (emit_line g l).
  Proof. intros a g v l H1 H2. unfold exec_d. rewrite H1. cbn [join_show]. rewrite H2. reflexivity. Qed.
  Lemma exec_assert : forall sp a g v, a_ops a = [v] ->
    exec_d (DAssert (Some sp)) a g =
    match val_equals 100 v (VBool true) with
    | Some true => SNext (set_ops a []) g
    | Some false => SFail (E_assert sp)
    | None => SFail E_invalid_op end.
  Proof. intros sp a g v H. unfold exec_d. rewrite H. reflexivity. Qed.
  Definition op_base (sym : str) : str := match sym with [y; 61%N] => [y] | _ => [] end.
  Lemma op_base_arith5 : forall o, arith5 o = true -> op_base (binop_sym o ++ [61%N]) = binop_sym o.
  Proof. intros o H. destruct o; try discriminate; reflexivity. Qed.
  Lemma exec_bin_op_assign : forall sym x a g c' w cur_, lookup_var a g x = Some c' -> a_ops a = [w] ->
    cell_get g c' = Some cur_ ->
    exec_d (DBinOpAssign sym x) a g =
    match bin_op_sem (op_base sym) cur_ w with
    | OV (VBool _) => SFail (E_unsupported OP_BIN_OP_ASSIGN)
    | OV res => SNext (set_ops a [res]) (cell_set g c' res)
    | OE e => SFail e end.
  Proof. intros sym x a g c' w cur_ H1 H2 H3. unfold exec_d. rewrite H1, H2, H3. reflexivity. Qed.
  Lemma exec_if : forall off a g b, a_ops a = [VBool b] ->
    exec_d (DIf off) a g = if b then SPush LIf (set_ops a []) g else SGoto off (set_ops a []) g.
  Proof. intros off a g b H. unfold exec_d. rewrite H. reflexivity. Qed.
  Lemma exec_if_nb : forall off a g v, a_ops a = [v] -> (forall b, v <> VBool b) -> exec_d (DIf off) a g = SFail E_not_bool.
  Proof. intros off a g v H Hn. unfold exec_d. rewrite H. destruct v; try reflexivity. destruct (Hn b eq_refl). Qed.
  Lemma exec_while : forall off a g b, a_ops a = [VBool b] ->
    exec_d (DWhile off) a g = if b then SPush LWhile (set_ops a []) g else SGoto off (set_ops a []) g.
  Proof. intros off a g b H. unfold exec_d. rewrite H. reflexivity. Qed.
  Lemma exec_while_nb : forall off a g v, a_ops a = [v] -> (forall b, v <> VBool b) -> exec_d (DWhile off) a g = SFail E_not_bool.
  Proof. intros off a g v H Hn. unfold exec_d. rewrite H. destruct v; try reflexivity. destruct (Hn b eq_refl). Qed.

  (* ---------------------------------------------------------------- assoc lists *)
  Lemma assoc_del_other : forall A k x (l : list (str * A)), x <> k -> assoc x (assoc_del k l) = assoc x l.
  Proof.
    intros A k x l Hne. induction l as [|[k' v'] l IH]; [reflexivity|]. cbn [assoc_del assoc].
    destruct (str_eqb k' k) eqn:E.
    - apply str_eqb_iff in E. subst k'. rewrite (str_eqb_neq k x) by congruence. reflexivity.
    - cbn [assoc]. destruct (str_eqb k' x); [reflexivity|exact IH].
  Qed.
  Lemma assoc_set_absent : forall A k (v : A) l, assoc k l = None -> assoc_set k v l = l ++ [(k, v)].
  Proof.
    intros A k v. induction l as [|[k' v'] l IH]; intros H; [reflexivity|]. cbn [assoc assoc_set app] in *.
    destruct (str_eqb k' k); [discriminate|]. now rewrite IH.
  Qed.
  Lemma assoc_del_absent : forall A k (l : list (str * A)), assoc k l = None -> assoc_del k l = l.
  Proof.
    intros A k. induction l as [|[k' v'] l IH]; intros H; [reflexivity|]. cbn [assoc assoc_del] in *.
    destruct (str_eqb k' k); [discriminate|]. now rewrite IH.
  Qed.
  Lemma assoc_del_set_absent : forall A k (v : A) l, assoc k l = None -> assoc_del k (assoc_set k v l) = l.
  Proof.
    intros A k v. induction l as [|[k' v'] l IH]; intros H; cbn [assoc assoc_set assoc_del] in *.
    - now rewrite str_eqb_refl.
    - destruct (str_eqb k' k) eqn:E; [discriminate|]. cbn [assoc_del]. rewrite E. now rewrite IH.
  Qed.
  Lemma assoc_del_set_comm : forall A x k (v : A) l, x <> k ->
    assoc_del x (assoc_set k v l) = assoc_set k v (assoc_del x l).
  Proof.
    intros A x k v l Hne. induction l as [|[k' v'] l IH]; cbn [assoc_set assoc_del].
    - rewrite (str_eqb_neq k x) by congruence. reflexivity.
    - destruct (str_eqb k' k) eqn:E1, (str_eqb k' x) eqn:E2; cbn [assoc_set assoc_del].
      + apply str_eqb_iff in E1, E2. congruence.
      + rewrite E1. apply str_eqb_iff in E1. subst k'. rewrite (str_eqb_neq k x) by congruence. reflexivity.
      + rewrite E2. reflexivity.
      + rewrite E1, E2. now rewrite IH.
  Qed.

  Lemma unsnoc_app : forall A (l : list A) z, unsnoc (l ++ [z]) = Some (l, z).
  Proof.
    intros A. induction l as [|x l IH]; intros z; [reflexivity|]. cbn [app]. 
    change (unsnoc (x :: l ++ [z])) with
      (match l ++ [z] with [] => Some ([], x) | _ :: _ => match unsnoc (l ++ [z]) with Some (i, y) => Some (x :: i, y) | None => None end end).
    rewrite IH. destruct (l ++ [z]) eqn:E; [destruct l; discriminate|reflexivity].
  Qed.

  (* ---------------------------------------------------------------- exec_d with a non-empty operand stack below *)
  Lemma exec_bin_op_gen : forall sym a g o x y, a_ops a = o ++ [x; y] ->
    exec_d (DBinOp sym) a g = match bin_op_sem sym x y with OV v => SNext (set_ops a [v]) g | OE e => SFail e end.
  Proof.
    intros sym a g o x y H. unfold exec_d. rewrite H.
    replace (o ++ [x; y]) with ((o ++ [x]) ++ [y]) by (now rewrite <- app_assoc).
    rewrite !unsnoc_app. reflexivity.
  Qed.
  Lemma exec_while_gen : forall off a g o b, a_ops a = o ++ [VBool b] ->
    exec_d (DWhile off) a g = if b then SPush LWhile (set_ops a []) g else SGoto off (set_ops a []) g.
  Proof. intros off a g o b H. unfold exec_d. rewrite H, unsnoc_app. reflexivity. Qed.
  Lemma exec_make_int : forall z a g, exec_d (DMakeInt z) a g = SNext (set_ops a (a_ops a ++ [VInt z])) g.
  Proof. reflexivity. Qed.
  Lemma dec_delete2 : forall x y, decode (mkI OP_DELETE_NAME_SCOPED [x; y]) = DOk (DDelete [x; y]).
  Proof. reflexivity. Qed.
  Lemma exec_delete2 : forall x y a g f fs cx cy, frames g = f :: fs -> x <> y ->
    assoc x (vars f) = Some cx -> assoc y (vars f) = Some cy ->
    exec_d (DDelete [x; y]) a g =
    SNext a (with_frames g ({| lab := lab f; vars := assoc_del y (assoc_del x (vars f)) |} :: fs)).
  Proof.
    intros x y a g f fs cx cy Hf Hne Hx Hy. unfold exec_d. rewrite Hf. cbn [delete_names]. rewrite Hx.
    rewrite assoc_del_other by congruence. rewrite Hy. reflexivity.
  Qed.

  Lemma items_at_resolve_gen : forall bt ct kb F S l, items_at bt ct kb (resolve F S 0 l) ->
    items_at (kb + F) (kb + F - S - 1) kb l.
  Proof.
    intros bt ct kb F S l H j it Hj. specialize (H j (resolve_item F S j it)).
    rewrite resolve_nth, Hj in H. specialize (H eq_refl). rewrite H. f_equal.
    destruct it as [i|n|n]; cbn [resolve_item item_instr I]; [reflexivity| |].
    - replace (kb + F - (kb + j)) with (F - (0 + j)) by lia. reflexivity.
    - replace (kb + F - S - 1 - (kb + j)) with (F - S - (0 + j) - 1) by lia. reflexivity.
  Qed.

  (* ---------------------------------------------------------------- binding a loop register (not a user name) *)
  Lemma bind_reg_rel : forall pins env s g y w, Rg pins env s g -> ~ uname0 y ->
    exists f fs, frames g = f :: fs /\
      let cn := N.of_nat (length (cells g)) in
      let g' := {| cells := cells g ++ [w];
                   frames := {| lab := lab f; vars := assoc_set y cn (vars f) |} :: fs;
                   out := out g; trace := trace g |} in
      bind_local g y w = Some g' /\ Rg (add_vpin pins cn w) env s g'.
  Proof.
    intros pins [l cap cu] [st ro] [cs fs o tr] y w [Hfr Hb Ho Hbase Hun Hns Hpins Hnd Hfp Hfl Hcur Hcf Hcapd Hdl] Hy.
    cbn [locals captured store rout cells frames out trace] in *.
    destruct fs as [|f fs]; [destruct (Rfr_ne _ _ _ _ Hfr); congruence|].
    exists f, fs. split; [reflexivity|]. cbv zeta. split; [reflexivity|].
    set (f' := {| lab := lab f; vars := assoc_set y (N.of_nat (length cs)) (vars f) |}).
    assert (Hfind : forall x, uname x -> find_in_function x (f' :: fs) = find_in_function x (f :: fs)).
    { intros x Hx. cbn [find_in_function f' vars lab]. rewrite assoc_set_other; [reflexivity|]. intros ->. exact (Hy (proj1 Hx)). }
    constructor; cbn [locals captured store rout cells frames out]; try assumption.
    - rewrite <- (app_nil_r st). apply Rfr_mono. eapply Rfr_top; [exact Hfr|reflexivity|exact Hfind].
    - eapply bij_top; eassumption.
    - destruct l as [|sc l]; [destruct (Rfr_ne _ _ _ _ Hfr); congruence|exact Hbase].
    - assert (Hold : pins_ok pins l (f' :: fs) (st ++ []) (cs ++ [w])) by (apply pins_mono_; eapply pins_top_; eassumption).
      rewrite app_nil_r in Hold. destruct Hold as [H1 H2]. split; [|exact H2].
      intros cy w0 [[-> ->]|Hq]; [|exact (H1 cy w0 Hq)]. split.
      + rewrite Nnat.Nat2N.id, nth_error_app2, Nat.sub_diag by lia. reflexivity.
      + intros c0 Hp. apply (pairs_top l f f' fs _ _ Hfind) in Hp.
        apply (pairs_cellrel st cs _ _ _ _ Hfr) in Hp. apply cellrel_valid in Hp. lia.
    - apply (nd_top f fs); [exact Hnd|]. apply keys_nd_assoc_set. inversion Hnd; assumption.
    - rewrite <- (app_nil_r st). apply pins_mono_. eapply pins_top_; eassumption.
    - intros f0 c0 c0' cenv cbf E. specialize (Hfl f0 c0 c0' cenv cbf E).
      destruct l as [|sc l]; [destruct (Rfr_ne _ _ _ _ Hfr); congruence|].
      eapply flook_top; [exact Hfl|reflexivity|]. cbn [find_in_function f' vars lab].
      rewrite assoc_set_other; [reflexivity|]. intros ->. apply Hy. apply Hfun0. apply Hfck. congruence.
    - intros x0 c0 c0' Hin. specialize (Hdl x0 c0 c0' Hin).
      destruct l as [|sc l]; [destruct (Rfr_ne _ _ _ _ Hfr); congruence|].
      eapply flook_top; [exact Hdl|reflexivity|]. cbn [find_in_function f' vars lab].
      rewrite assoc_set_other; [reflexivity|]. intros ->. exact (Hy (proj1 (Hdtab _ _ Hin))).
  Qed.

  Lemma Rg_weaken_pin : forall pins pc pw env s g, Rg (add_vpin pins pc pw) env s g -> Rg pins env s g.
  Proof.
    intros pins pc pw env s g [A B D E F G H I0 J K]. constructor; try assumption. eapply pins_weaken_. exact H.
  Qed.

  (* ---------------------------------------------------------------- the end of a from loop: the counter and the end
     register leave the innermost scope / the top frame *)
  Lemma undeclare_rel : forall pins pc pw env s g x sc l f fs vs,
    Rg (add_vpin pins pc pw) env s g -> locals env = sc :: l -> frames g = f :: fs -> uname x ->
    (forall y, uname0 y -> y <> x -> assoc y vs = assoc y (vars f)) -> assoc x vs = None ->
    assoc x (assoc_del x sc) = None -> lookup_scopes x l = None -> keys_nd vs ->
    (forall x0 cc, In (x0, cc) dtab -> x0 <> x) ->
    Rg pins (undeclare env x) s (with_frames g ({| lab := lab f; vars := vs |} :: fs)).
  Proof.
    intros pins pc pw [l0 cap cu] [st ro] [cs fs0 o tr] x sc l f fs vs [Hfr Hb Ho Hbase Hun Hns Hpins Hnd Hfp Hfl Hcur Hcf Hcapd Hdl] El Ef Hx Hvs Hxv Hxs Hxl Hndv Hdx.
    cbn [locals captured store rout cells frames out trace] in *. subst l0 fs0.
    unfold undeclare. cbn [locals captured cur with_frames frames cells out].
    (* lookups of every user name other than x are unchanged on both sides; x is unbound on both sides *)
    assert (HxR : special (lab f) = true -> find_in_function x fs = None).
    { intros Hsp. cbn [StmtRel.Rfr] in Hfr. destruct Hfr as [_ Hfr]. destruct l as [|sc' l'].
      - rewrite Hsp in Hfr. discriminate.
      - destruct Hfr as [_ Hfr]. pose proof (Rfr_look _ _ _ _ Hfr x Hx) as H. rewrite Hxl in H.
        destruct (find_in_function x fs); [contradiction|reflexivity]. }
    assert (Hsrc : forall y, y <> x -> lookup_scopes y (assoc_del x sc :: l) = lookup_scopes y (sc :: l)).
    { intros y Hne. cbn [lookup_scopes]. now rewrite assoc_del_other. }
    assert (Hvm : forall y, uname y -> y <> x -> find_in_function y ({| lab := lab f; vars := vs |} :: fs) = find_in_function y (f :: fs)).
    { intros y Hy Hne. cbn [find_in_function vars lab]. now rewrite (Hvs y (proj1 Hy) Hne). }
    assert (Hsx : lookup_scopes x (assoc_del x sc :: l) = None) by (cbn [lookup_scopes]; now rewrite Hxs).
    assert (Hvx : find_in_function x ({| lab := lab f; vars := vs |} :: fs) = None).
    { cbn [find_in_function vars lab]. rewrite Hxv. destruct (special (lab f)) eqn:Es; [now apply HxR|reflexivity]. }
    assert (Hpairs : forall c1 c1', pairs (assoc_del x sc :: l) ({| lab := lab f; vars := vs |} :: fs) c1 c1' -> pairs (sc :: l) (f :: fs) c1 c1').
    { intros c1 c1' Hp. cbn [StmtRel.pairs] in Hp |- *. destruct Hp as [(y & Hy & E1 & E2)|Hp]; [|right; exact Hp].
      destruct (list_eq_dec N.eq_dec y x) as [->|Hne]; [congruence|].
      left. exists y. rewrite <- Hsrc, <- Hvm by assumption. auto. }
    constructor; cbn [locals captured store rout cells frames out with_frames]; try assumption.
    - cbn [StmtRel.Rfr] in Hfr |- *. destruct Hfr as [Hl Hrest]. split; [|exact Hrest].
      intros y Hy. destruct (list_eq_dec N.eq_dec y x) as [->|Hne].
      + rewrite Hsx, Hvx. exact Logic.I.
      + rewrite Hsrc, Hvm by assumption. exact (Hl y Hy).
    - intros c1 c1' c2 c2' H1 H2. exact (Hb _ _ _ _ (Hpairs _ _ H1) (Hpairs _ _ H2)).
    - intros y Hy. destruct (list_eq_dec N.eq_dec y x) as [->|Hne]; [left; exact Hx|]. apply Hun. now rewrite <- Hsrc.
    - exact (NS_undeclare _ _ _ Hns).
    - apply pins_weaken_ in Hpins. eapply pins_sub_; [exact Hpins|exact Hpairs].
    - apply (nd_top f fs); assumption.
    - eapply pins_sub_; [exact Hfp|exact Hpairs].
    - intros f0 c0 c0' cenv cbf E. specialize (Hfl f0 c0 c0' cenv cbf E).
      assert (Hin : In f0 funs) by (apply Hfck; congruence).
      assert (Hne : f0 <> x) by (intros ->; exact (uname_nfun _ Hx Hin)).
      eapply flook_top; [exact Hfl|now rewrite assoc_del_other|].
      cbn [find_in_function vars lab]. now rewrite (Hvs f0 (Hfun0 f0 Hin) Hne).
    - intros x0 c0 c0' Hin. specialize (Hdl x0 c0 c0' Hin). pose proof (Hdx _ _ Hin) as Hne.
      eapply flook_top; [exact Hdl|now rewrite assoc_del_other|].
      cbn [find_in_function vars lab]. now rewrite (Hvs x0 (proj1 (Hdtab _ _ Hin)) Hne).
  Qed.

  (* ================================================================ calls: argument registers *)
  Lemma act_eta : forall a, upd a (a_ip a) (a_ops a) = a.
  Proof. intros [fn ip ops ar cb0 ss]. reflexivity. Qed.

  Lemma reg_not_uname0 : forall k, ~ uname0 (reg k).
  Proof. intros k [H _]. exact H. Qed.

  (* binding an expression register keeps the relation (the register is not a user name) *)
  Lemma reg_bind : forall pins env s g k w, Rg pins env s g ->
    exists g', bind_local g (reg k) w = Some g' /\ Rg pins env s g' /\ tl (frames g') = tl (frames g) /\
               cells g' = cells g ++ [w] /\ out g' = out g /\
               find_in_function (reg k) (frames g') = Some (N.of_nat (length (cells g))) /\
               (forall y, y <> reg k -> find_in_function y (frames g') = find_in_function y (frames g) /\
                                        assoc y (top_vars (frames g')) = assoc y (top_vars (frames g))).
  Proof.
    intros pins env s g k w HG.
    destruct (bind_reg_rel pins env s g (reg k) w HG (reg_not_uname0 k)) as (f & fs & Ef & Hb). cbv zeta in Hb.
    destruct Hb as [Hb HG']. eexists. split; [exact Hb|]. split; [eapply Rg_weaken_pin; exact HG'|].
    cbn [frames cells out]. rewrite Ef. cbn [tl find_in_function vars lab top_vars]. split; [reflexivity|]. split; [reflexivity|].
    split; [reflexivity|]. split; [now rewrite assoc_set_same|].
    intros y Hy. now rewrite assoc_set_other.
  Qed.

  (* register #k holds v *)
  Definition rv (g : gstate) (k : nat) (v : value) : Prop :=
    exists cj, find_in_function (reg k) (frames g) = Some cj /\ cell_get g cj = Some v.

  Lemma rv_ext : forall d lo hi g g' k v, ext d lo hi g g' -> k < d -> small k -> rv g k v -> rv g' k v.
  Proof.
    intros d lo hi g g' k v He Hk Hs (cj & F1 & F2). exists cj. eapply ext_reg_keep; eassumption.
  Qed.
  Lemma rv_same : forall g g' k v, frames g' = frames g -> (forall cj w, cell_get g cj = Some w -> cell_get g' cj = Some w) ->
    rv g k v -> rv g' k v.
  Proof. intros g g' k v Hf Hc (cj & F1 & F2). exists cj. rewrite Hf. auto. Qed.

  (* ---------------------------------------------------------------- registers below d keep their value *)
  Definition regkeep (d : nat) (g g' : gstate) : Prop := forall r0 v, r0 < d -> small r0 -> rv g r0 v -> rv g' r0 v.
  Lemma regkeep_refl : forall d g, regkeep d g g.
  Proof. intros d g r0 v _ _ H. exact H. Qed.
  Lemma regkeep_trans : forall d g1 g2 g3, regkeep d g1 g2 -> regkeep d g2 g3 -> regkeep d g1 g3.
  Proof. intros d g1 g2 g3 H1 H2 r0 v Hr Hs H. apply H2; [exact Hr|exact Hs|]. now apply H1. Qed.
  Lemma regkeep_mono : forall d d' g g', d <= d' -> regkeep d' g g' -> regkeep d g g'.
  Proof. intros d d' g g' Hle H r0 v Hr Hs Hv. apply H; [lia|exact Hs|exact Hv]. Qed.
  Lemma regkeep_same : forall d g g', frames g' = frames g -> (forall cj w, cell_get g cj = Some w -> cell_get g' cj = Some w) -> regkeep d g g'.
  Proof. intros d g g' Hf Hc r0 v _ _ H. eapply rv_same; eassumption. Qed.

  (* store_fast #d : park the value on the stack in register d *)
  Lemma park : forall pins env s a1 g1 k1 d w, nth_error code k1 = Some (mkI OP_STORE_FAST [reg d]) ->
    a_ip a1 = k1 -> a_ops a1 = [w] -> Rg pins env s g1 -> small d ->
    exists g2, xrun prog name code a1 g1 (upd a1 (S k1) []) g2 /\ Rg pins env s g2 /\ tl (frames g2) = tl (frames g1) /\
               lkeepA (frames g1) (frames g2) /\ rv g2 d w /\ out g2 = out g1 /\
               (forall r0 v, r0 <> d -> small r0 -> rv g1 r0 v -> rv g2 r0 v).
  Proof.
    intros pins env s a1 g1 k1 d w Hi Hip Hops HG Hsd. subst k1.
    set (i1 := mkI OP_STORE_FAST [reg d]) in *.
    destruct (reg_bind pins env s (trc name a1 g1 i1) d w (Rg_trc _ _ _ _ _ _ HG)) as (g2 & Hb2 & HG2 & Ht2 & Hc2 & Ho2 & Hf2 & Hk2).
    exists g2. split; [|split; [exact HG2|split; [exact Ht2|split; [|split; [|split; [exact Ho2|]]]]]].
    - eapply (xstep_next prog name code a1 g1 i1 _ (a_ip a1) (set_ops a1 [])); [reflexivity|exact Hi|apply dec_store_fast|].
      apply (exec_store_fast (reg d) a1 _ w g2); [exact Hops|exact Hb2].
    - apply (lkeepA_other _ _ (reg d)); [intros k E; discriminate E| |]; intros z Hz; apply (Hk2 z Hz).
    - exists (N.of_nat (length (cells (trc name a1 g1 i1)))). split; [exact Hf2|].
      unfold cell_get. rewrite Hc2, Nnat.Nat2N.id, nth_error_app2, Nat.sub_diag by lia. reflexivity.
    - intros r0 v Hne Hs0 (cj & F1 & F2). exists cj. split.
      + rewrite (proj1 (Hk2 (reg r0) ltac:(intros E; apply reg_inj in E; [congruence|exact Hs0|exact Hsd]))). exact F1.
      + unfold cell_get in *. rewrite Hc2. rewrite nth_error_app1; [exact F2|]. apply nth_error_Some. cbn [trc add_trace cells]. congruence.
  Qed.

  (* load_fast #d : push the parked value *)
  Lemma unpark : forall a g kk d w, nth_error code kk = Some (mkI OP_LOAD_FAST [reg d]) -> a_ip a = kk -> rv g d w ->
    xrun prog name code a g (upd a (S kk) (a_ops a ++ [w])) (trc name a g (mkI OP_LOAD_FAST [reg d])).
  Proof.
    intros a g kk d w Hi Hip (cj & F1 & F2). subst kk.
    eapply (xstep_next prog name code a g _ _ (a_ip a) (set_ops a (a_ops a ++ [w]))); [reflexivity|exact Hi|apply dec_load_fast|].
    exact (exec_load_fast (reg d) a (trc name a g (mkI OP_LOAD_FAST [reg d])) cj w F1 F2).
  Qed.

  (* one instruction on the operand stack *)
  Lemma binop_run : forall o va vb s a g kop, nth_error code kop = Some (op_instr o) -> a_ip a = kop ->
    a_ops a = [inj va; inj vb] ->
    match binop_sem o va vb s with
    | EVal v s' => s' = s /\ first_order v /\ xrun prog name code a g (upd a (S kop) [inj v]) (trc name a g (op_instr o))
    | EFail f s' => s' = s /\ exists e0, xfail prog name code a g e0 (trc name a g (op_instr o)) /\ err_rel f e0
    | _ => False end.
  Proof.
    intros o va vb s a g kop Hi Hip Hops. subst kop.
    destruct (arith_op_dec o) as [->|[->|Hao]].
    - pose proof (eq_agree va vb s) as Hag. pose proof (exec_equ a (trc name a g (op_instr BEq)) _ _ Hops) as He.
      destruct (binop_sem BEq va vb s) as [v s1|s1|f s1|]; try contradiction.
      + destruct Hag as (-> & b & -> & Hve). rewrite Hve in He. split; [reflexivity|]. split; [exact Logic.I|].
        eapply (xstep_next prog name code a g _ _ (a_ip a) (set_ops a [VBool b])); [reflexivity|exact Hi|apply dec_equ|exact He].
      + destruct Hag as (-> & Hve & Hrel). rewrite Hve in He. split; [reflexivity|]. exists E_invalid_op. split; [|exact Hrel].
        eapply xstep_fail; [reflexivity|exact Hi|apply dec_equ|exact He].
    - pose proof (neq_agree va vb s) as Hag. pose proof (exec_neq a (trc name a g (op_instr BNeq)) _ _ Hops) as He.
      destruct (binop_sem BNeq va vb s) as [v s1|s1|f s1|]; try contradiction.
      + destruct Hag as (-> & b & -> & Hve). rewrite Hve in He. split; [reflexivity|]. split; [exact Logic.I|].
        eapply (xstep_next prog name code a g _ _ (a_ip a) (set_ops a [VBool (negb b)])); [reflexivity|exact Hi|apply dec_neq|exact He].
      + destruct Hag as (-> & Hve & Hrel). rewrite Hve in He. split; [reflexivity|]. exists E_invalid_op. split; [|exact Hrel].
        eapply xstep_fail; [reflexivity|exact Hi|apply dec_neq|exact He].
    - pose proof (binop_agree o va vb s Hao) as Hag.
      pose proof (exec_bin_op (binop_sym o) a (trc name a g (op_instr o)) _ _ Hops) as He.
      destruct (binop_sem o va vb s) as [v s1|s1|f s1|]; try contradiction.
      + destruct Hag as (-> & Hfov & Hbo). rewrite Hbo in He. split; [reflexivity|]. split; [exact Hfov|].
        eapply (xstep_next prog name code a g _ _ (a_ip a) (set_ops a [inj v])); [reflexivity|exact Hi|apply dec_op_instr_arith; exact Hao|exact He].
      + destruct Hag as (-> & e & Hbo & Hrel). rewrite Hbo in He. split; [reflexivity|]. exists e. split; [|exact Hrel].
        eapply xstep_fail; [reflexivity|exact Hi|apply dec_op_instr_arith; exact Hao|exact He].
  Qed.

  (* ---------------------------------------------------------------- the result of an expression with calls *)
  Definition rhs_res (pins : pinset) (env : fenv) (d fin : nat) (a : act) (g : gstate) (r : eres) : Prop :=
    match r with
    | EVal v s' => first_order v /\ exists a' g', xrun prog name code a g a' g' /\ a_ip a' = fin /\ a_ops a' = [inj v] /\
          Rg pins env s' g' /\ tl (frames g') = tl (frames g) /\ act_same a a' /\ a_ss a' = a_ss a /\ lkeepA (frames g) (frames g') /\
          regkeep d g g'
    | ENoVal s' => exists a' g', xrun prog name code a g a' g' /\ a_ip a' = fin /\ a_ops a' = [] /\
          Rg pins env s' g' /\ tl (frames g') = tl (frames g) /\ act_same a a' /\ a_ss a' = a_ss a /\ lkeepA (frames g) (frames g') /\
          regkeep d g g'
    | EFail f s' => fail_post f (exists e0 g', xfail prog name code a g e0 g' /\ err_rel_s f e0 /\ out g' = rout s')
    | EFuel => True
    end.

  Definition rhs_spec (e : expr) : Prop :=
    forall pins d fuel k a g env s B,
    fuel <= FU -> ok_rhs FT SP (B ++ CD) e = true -> bound_in B env -> d + length (xcode d e) <= c + length code + 2 ->
    code_at code k (xcode d e) -> k + length (xcode d e) < length code ->
    a_ip a = k -> a_cb a = cb -> a_ops a = [] -> Rg pins env s g ->
    rhs_res pins env d (k + length (xcode d e)) a g (eval fuel env e s).

  (* a call-free expression *)
  Lemma rhs_pure : forall e pins d fuel k a g env s B,
    ok_expr (B ++ CD) e = true -> bound_in B env -> d + length (pcode d e) <= c + length code + 2 ->
    code_at code k (pcode d e) -> k + length (pcode d e) < length code ->
    a_ip a = k -> a_cb a = cb -> a_ops a = [] -> Rg pins env s g ->
    rhs_res pins env d (k + length (pcode d e)) a g (eval fuel env e s).
  Proof.
    intros e pins d fuel k a g env s B Hoe Hb Hd Hc Hend Hip Hacb Hops HG.
    destruct (ok_expr_parts _ _ Hoe) as (Hp & Hl & Hu).
    pose proof (expr_run_ext pins e d fuel k a g env s Hp Hl
                  ltac:(intros x Hx; destruct (Hu x Hx) as [Hs0 Hin]; eapply vsrc_of; eassumption)
                  ltac:(lia) Hc Hend Hip Hops Hacb HG) as He.
    destruct (eval fuel env e s) as [v s1|s1|f s1|]; cbn [rhs_res]; [|contradiction| |exact Logic.I].
    - destruct He as (-> & Hfo & g1 & R1 & HG1 & He1). split; [exact Hfo|].
      exists (upd a (k + length (pcode d e)) [inj v]), g1. split; [exact R1|]. split; [reflexivity|]. split; [reflexivity|].
      split; [exact HG1|]. split; [exact (ext_tail _ _ _ _ _ He1)|]. split; [repeat split|]. split; [reflexivity|].
      split; [exact (lkeepA_ext _ _ _ _ _ He1)|]. intros r0 v0 Hr Hs0 Hv. eapply rv_ext; eassumption.
    - destruct He as (-> & e0 & g' & Hf & Hr & Ho). apply fail_post_intro. exists e0, g'.
      split; [exact Hf|]. split; [now apply err_rel_s_of|exact Ho].
  Qed.

  (* the arguments of a call: evaluated left to right, each parked in its own register *)
  Definition args_res (fuel : nat) (env : fenv) (k0 pos len : nat) (acc : list rvalue)
             (nargs : nat) (pins : pinset) (a : act) (g : gstate) (r : (list rvalue * rstate) + eres) : Prop :=
    match r with
    | inl (vs, s') =>
      exists vs', vs = rev acc ++ vs' /\ length vs' = nargs /\ Forall first_order vs' /\
        exists a' g', xrun prog name code a g a' g' /\ a_ip a' = pos + len /\ a_ops a' = [] /\ Rg pins env s' g' /\
          tl (frames g') = tl (frames g) /\ act_same a a' /\ a_ss a' = a_ss a /\
          regkeep k0 g g' /\
          (forall j v, nth_error vs' j = Some v -> rv g' (k0 + j) (inj v)) /\
          lkeepA (frames g) (frames g')
    | inr (EFail f s') => fail_post f (exists e0 g', xfail prog name code a g e0 g' /\ err_rel_s f e0 /\ out g' = rout s')
    | inr EFuel => True
    | inr _ => False
    end.

  Lemma args_run : forall args, Forall rhs_spec args -> forall k0 pos pins a g env s B acc fuel,
    fuel <= FU -> ok_cexprs FT SP (B ++ CD) args = true -> bound_in B env ->
    k0 + length (argcode k0 args) <= c + length code + 2 ->
    code_at code pos (argcode k0 args) -> pos + length (argcode k0 args) < length code ->
    a_ip a = pos -> a_cb a = cb -> a_ops a = [] -> Rg pins env s g ->
    args_res fuel env k0 pos (length (argcode k0 args)) acc (length args) pins a g (evals_ fuel env args s acc).
  Proof.
    induction args as [|e l IH]; intros HF k0 pos pins a g env s B acc fuel Hfu Hok Hb Hk0 Hc Hend Hip Hcb Hops HG.
    - cbn [evals_ argcode length args_res]. exists []. rewrite app_nil_r. split; [reflexivity|].
      split; [reflexivity|]. split; [constructor|]. exists a, g. rewrite Nat.add_0_r.
      split; [apply xrun_refl|]. split; [exact Hip|]. split; [exact Hops|]. split; [exact HG|]. split; [reflexivity|].
      split; [apply act_same_refl|]. split; [reflexivity|]. split; [apply regkeep_refl|].
      split; [intros j v Hj; destruct j; discriminate|apply lkeepA_refl].
    - pose proof (Forall_inv HF) as He0. pose proof (Forall_inv_tail HF) as Hl0.
      cbn [ok_cexprs] in Hok. apply Bool.andb_true_iff in Hok as [Hoe Hol].
      cbn [argcode] in *. rewrite !app_length in *. cbn [length] in *.
      apply code_at_app in Hc as [Hce Hc]. apply code_at_app in Hc as [Hi Hcl]. apply code_at_cons in Hi as [Hi _].
      set (le := length (ccode k0 e)) in *.
      assert (Hsk : small k0) by (eapply small_le; [|exact Hsmall]; lia).
      pose proof (He0 pins k0 fuel pos a g env s B Hfu Hoe Hb ltac:(unfold xcode; fold le; lia) Hce ltac:(unfold xcode; fold le; lia) Hip Hcb Hops HG) as He.
      unfold xcode in He. fold le in He. cbn [evals_].
      destruct (eval fuel env e s) as [v s1|s1|f s1|]; cbn [rhs_res args_res] in He |- *.
      2:{ exact Logic.I. }
      2:{ exact He. }
      2:{ exact Logic.I. }
      destruct He as (Hfo & a1 & g1 & R1 & Hip1 & Hops1 & HG1 & Hf1 & Ha1 & Hss1 & Hlk1 & Hrk1).
      destruct (park pins env s1 a1 g1 (pos + le) k0 (inj v) Hi Hip1 Hops1 HG1 Hsk) as (g2 & R2 & HG2 & Ht2 & Hlk2 & Hrv2 & Ho2 & Hoth2).
      set (a2 := upd a1 (S (pos + le)) []) in *.
      pose proof (IH Hl0 (S k0) (S (pos + le)) pins a2 g2 env s1 B (v :: acc) fuel Hfu Hol Hb ltac:(lia)
                    ltac:(replace (S (pos + le)) with (pos + le + 1) by lia; exact Hcl) ltac:(lia) eq_refl
                    ltac:(cbn [a2 upd set_ip set_ops a_cb]; rewrite (proj2 (proj2 Ha1)); exact Hcb) eq_refl HG2) as Hl2.
      destruct (evals_ fuel env l s1 (v :: acc)) as [[vs s2]|r]; cbn [args_res] in Hl2 |- *.
      + destruct Hl2 as (vs' & -> & Hlv & Hfos & a3 & g3 & R3 & Hip3 & Hops3 & HG3 & Ht3 & Ha3 & Hss3 & Hrk3 & Hreg3 & Hlk3).
        exists (v :: vs'). split; [cbn [rev]; now rewrite <- app_assoc|].
        split; [cbn [length]; now rewrite Hlv|]. split; [constructor; assumption|]. exists a3, g3.
        split; [eapply xrun_trans; [exact R1|eapply xrun_trans; [exact R2|exact R3]]|].
        split; [rewrite Hip3; lia|]. split; [exact Hops3|]. split; [exact HG3|].
        split; [rewrite Ht3, Ht2; exact Hf1|].
        split; [eapply act_same_trans; [exact Ha1|]; eapply act_same_trans; [|exact Ha3]; repeat split|].
        split; [rewrite Hss3; cbn [a2 upd set_ip set_ops a_ss]; exact Hss1|].
        split; [|split].
        * intros r0 v0 Hr Hs0 Hv. apply Hrk3; [lia|exact Hs0|]. apply Hoth2; [lia|exact Hs0|]. apply Hrk1; [exact Hr|exact Hs0|exact Hv].
        * intros j v0 Hj. destruct j as [|j].
          -- cbn [nth_error] in Hj. inversion Hj; subst v0. rewrite Nat.add_0_r. apply Hrk3; [lia|exact Hsk|exact Hrv2].
          -- cbn [nth_error] in Hj. replace (k0 + S j) with (S k0 + j) by lia. now apply Hreg3.
        * eapply lkeepA_trans; [exact Hlk1|]. eapply lkeepA_trans; [exact Hlk2|exact Hlk3].
      + destruct r as [? ?|?|f s2|]; try exact Hl2.
        eapply fail_post_map; [|exact Hl2]. intros (e0 & g' & Hf & Hr). exists e0, g'.
        split; [eapply xrun_fail; [exact R1|eapply xrun_fail; [exact R2|exact Hf]]|exact Hr].
  Qed.

  (* reload the arguments in order *)
  Lemma loads_run : forall (args : list expr) vs k0 pos a g,
    length args = length vs -> (forall j v, nth_error vs j = Some v -> rv g (k0 + j) v) ->
    code_at code pos (argloads k0 args) -> a_ip a = pos ->
    exists g', xrun prog name code a g (upd a (pos + length args) (a_ops a ++ vs)) g' /\ frames g' = frames g /\
               cells g' = cells g /\ (forall pins env s, Rg pins env s g -> Rg pins env s g').
  Proof.
    induction args as [|e l IH]; intros vs k0 pos a g Hlen Hrv Hc Hip; subst pos.
    - destruct vs; [|discriminate]. exists g. rewrite Nat.add_0_r, app_nil_r, act_eta.
      split; [apply xrun_refl|]. auto.
    - destruct vs as [|v vs]; [discriminate|]. cbn [length] in Hlen. cbn [argloads] in Hc.
      apply code_at_cons in Hc as [Hi Hc].
      destruct (Hrv 0 v eq_refl) as (cj & F1 & F2). rewrite Nat.add_0_r in F1.
      set (i1 := mkI OP_LOAD_FAST [reg k0]) in *.
      set (a1 := upd a (S (a_ip a)) (a_ops a ++ [v])).
      set (g1 := trc name a g i1).
      assert (R1 : xrun prog name code a g a1 g1).
      { eapply (xstep_next prog name code a g i1 _ (a_ip a) (set_ops a (a_ops a ++ [v]))); [reflexivity|exact Hi|apply dec_load_fast|].
        exact (exec_load_fast (reg k0) a g1 cj v F1 F2). }
      destruct (IH vs (S k0) (S (a_ip a)) a1 g1 ltac:(lia)) as (g2 & R2 & Hf2 & Hc2 & HR2).
      + intros j v0 Hj. replace (S k0 + j) with (k0 + S j) by lia.
        apply (rv_same g g1); [reflexivity|auto|]. now apply (Hrv (S j)).
      + exact Hc.
      + reflexivity.
      + exists g2. cbn [length]. replace (a_ip a + S (length l)) with (S (a_ip a) + length l) by lia.
        replace (a_ops a ++ v :: vs) with (a_ops a1 ++ vs) by (cbn [a1 upd set_ops set_ip a_ops]; now rewrite <- app_assoc).
        split; [eapply xrun_trans; [exact R1|exact R2]|]. split; [exact Hf2|]. split; [exact Hc2|].
        intros pins env s H. apply HR2. apply Rg_trc. exact H.
  Qed.

  (* ---------------------------------------------------------------- after a call: every old cell kept its value *)
  Lemma Rg_val_keep : forall pins env s g s' g', Rg pins env s g -> val_keep s s' g g' -> Rg pins env s' g'.
  Proof.
    intros pins env s g s' g' [A B D E F0 G H I0 J K] (Hf & Ho & Hs0 & Hc0).
    assert (Hs : forall n v, nth_error (store s) n = Some v -> nth_error (store s') n = Some v).
    { intros n v Hn. specialize (Hs0 (N.of_nat n) v). unfold sget in Hs0. rewrite Nnat.Nat2N.id in Hs0. auto. }
    assert (Hc : forall n w, nth_error (cells g) n = Some w -> nth_error (cells g') n = Some w).
    { intros n w Hn. specialize (Hc0 (N.of_nat n) w). unfold cell_get in Hc0. rewrite Nnat.Nat2N.id in Hc0. auto. }
    constructor; rewrite ?Hf; try assumption.
    - eapply Rfr_vals; [exact Hs|exact Hc|exact A].
    - eapply pins_vals_; [exact Hs|exact Hc|exact H].
    - eapply pins_vals_; [exact Hs|exact Hc|exact J].
  Qed.

  Lemma lookup_var_fs : forall a g f, a_cb a = cb -> lookup_var a g f = lookup_fs cb (frames g) f.
  Proof. intros a g f H. unfold lookup_var, load_cb, lookup_fs. now rewrite H. Qed.

  Lemma Rg_fvals : forall pins env s g, Rg pins env s g -> fvals s g.
  Proof.
    intros pins env s g HG. destruct (Rg_fpin _ _ _ HG) as [H1 H2]. split.
    - intros cy w Hq. exact (proj1 (H1 cy w Hq)).
    - intros c0 v Hq. exact (proj1 (H2 c0 v Hq)).
  Qed.

  Lemma Rg_drel : forall pins env s g dn, Rg pins env s g -> (forall p, In p dn -> dpair_ok p) -> drel dn s g.
  Proof.
    intros pins env s g dn HG Hd c0 c0' Hin. destruct (Hd _ Hin) as [[x Hx]|(v & Hfo & Hs & Hv)]; cbn [fst snd] in *.
    - pose proof (Hdtab _ _ Hx) as Hun.
      assert (Hl : 0 < length (locals env)) by (destruct (locals env) eqn:E; [exact (False_ind _ (Rg_ne _ _ _ HG E))|cbn; lia]).
      destruct (Rg_dlook _ _ _ HG x c0 c0' Hx 0 Hl) as [H1 H2]. cbn [skipn] in H1, H2. rewrite app_nil_r in H1.
      unfold lookup_fs in H2.
      destruct (Rg_lookup env s g x HG Hun ltac:(congruence)) as (d0 & d0' & v & E1 & E2 & _ & E3 & Hfo & E4).
      rewrite E2 in H2. exists v. split; [exact Hfo|]. split; congruence.
    - destruct (Rg_fpin _ _ _ HG) as [F1 F2]. exists v. split; [exact Hfo|]. split; [exact (proj1 (F2 _ _ Hs))|exact (proj1 (F1 _ _ Hv))].
  Qed.

  Lemma dec_call : decode (mkI OP_CALL []) = DOk (DCall None).
  Proof. reflexivity. Qed.
  Lemma exec_call : forall a g o loc cbf, a_ops a = o ++ [VFun loc cbf] ->
    exec_d (DCall None) a g = SCall loc cbf o (set_ops a []) g.
  Proof. intros a g o loc cbf H. unfold exec_d. rewrite H, unsnoc_app. reflexivity. Qed.

  (* only a call can return no value *)
  Lemma binop_noval : forall o va vb s s', binop_sem o va vb s <> ENoVal s'.
  Proof.
    intros o va vb s s' H. destruct (arith_op_dec o) as [->|[->|Hao]].
    - pose proof (eq_agree va vb s) as Hg. rewrite H in Hg. exact Hg.
    - pose proof (neq_agree va vb s) as Hg. rewrite H in Hg. exact Hg.
    - pose proof (binop_agree o va vb s Hao) as Hg. rewrite H in Hg. exact Hg.
  Qed.
  Definition op_shape (e : expr) : bool :=
    match e with EBin _ _ _ | EAnd _ _ | EOr _ _ | ENot _ | ENeg _ => true | _ => false end.
  Lemma op_noval : forall e, op_shape e = true -> forall fuel env s s', eval fuel env e s <> ENoVal s'.
  Proof.
    intros e He [|fuel] env s s' H; [discriminate|]. destruct e; try discriminate He.
    - rewrite eval_EBin in H. destruct (eval fuel env e1 s) as [va s1|s1|f s1|]; try discriminate.
      destruct (eval fuel env e2 s1) as [vb s2|s2|f s2|]; try discriminate. exact (binop_noval _ _ _ _ _ H).
    - rewrite eval_EAnd in H. destruct (eval fuel env e1 s) as [[?|[|]|?| |? ? ?] s1|s1|f s1|]; try discriminate.
      destruct (eval fuel env e2 s1) as [[?|?|?| |? ? ?] s2|s2|f s2|]; discriminate.
    - rewrite eval_EOr in H. destruct (eval fuel env e1 s) as [[?|[|]|?| |? ? ?] s1|s1|f s1|]; try discriminate.
      destruct (eval fuel env e2 s1) as [[?|?|?| |? ? ?] s2|s2|f s2|]; discriminate.
    - rewrite eval_ENot in H. destruct (eval fuel env e s) as [[?|?|?| |? ? ?] s1|s1|f s1|]; discriminate.
    - rewrite eval_ENeg in H. destruct (eval fuel env e s) as [[z|?|?| |? ? ?] s1|s1|f s1|]; try discriminate.
      unfold arith_res in H. destruct (i32_ok (- z)); discriminate.
  Qed.
  Lemma pure_noval : forall e, pure e = true -> forall fuel env s s', eval fuel env e s <> ENoVal s'.
  Proof.
    induction e; intros Hp fuel env st0 s' H; try discriminate Hp; destruct fuel as [|fuel]; try discriminate H; cbn [pure] in Hp.
    - rewrite eval_EVar in H. destruct (lookup_scopes x (locals env ++ captured env)); [|discriminate]. destruct (sget st0 n); discriminate.
    - exact (op_noval (EBin o e1 e2) eq_refl (S fuel) env st0 s' H).
    - exact (op_noval (EAnd e1 e2) eq_refl (S fuel) env st0 s' H).
    - exact (op_noval (EOr e1 e2) eq_refl (S fuel) env st0 s' H).
    - exact (op_noval (ENot e) eq_refl (S fuel) env st0 s' H).
    - exact (op_noval (ENeg e) eq_refl (S fuel) env st0 s' H).
    - apply Bool.andb_true_iff in Hp as [H1 H2]. rewrite eval_ENilOr in H.
      destruct (eval fuel env e1 st0) as [[?|?|?| |? ? ?] s1|s1|f s1|] eqn:E1; try discriminate.
      + exact (IHe2 H2 _ _ _ _ H).
      + exact (IHe1 H1 _ _ _ _ E1).
    - rewrite eval_EGet in H. destruct (eval fuel env e st0) as [[?|?|?| |? ? ?] s1|s1|f s1|] eqn:E1; try discriminate.
      exact (IHe Hp _ _ _ _ E1).
  Qed.
  Lemma operand_noval : forall B e, ok_cexpr FT SP B e = true -> is_call e = false ->
    forall fuel env s s', eval fuel env e s <> ENoVal s'.
  Proof.
    intros B e Hok Hc. rewrite ok_cexpr_eq in Hok. apply Bool.orb_true_iff in Hok as [Hoe|Hoc].
    - apply pure_noval. now apply ok_expr_parts in Hoe as (Hp & _ & _).
    - apply op_noval. destruct e; try reflexivity; try discriminate Hoc; discriminate Hc.
  Qed.

  Lemma act_same_upd : forall a a' ip ops, act_same a a' -> act_same a (upd a' ip ops).
  Proof. intros a a' ip ops (A1 & A2 & A3). repeat split; assumption. Qed.
  Ltac atpos H := first [exact H | match type of H with
    | nth_error _ ?p = _ => match goal with |- nth_error _ ?q = _ => replace q with p by lia; exact H end
    | code_at _ ?p _ => match goal with |- code_at _ ?q _ => replace q with p by lia; exact H end end].
  (* store_skip that does not skip: park the boolean in register d *)
  Lemma park_skip : forall pins env s a1 g1 k1 d (p : bool) n (b : bool), nth_error code k1 = Some (mkI OP_STORE_SKIP [reg d; if p then s_one else s_zero; sN n]) ->
    small n -> (if p then b else negb b) = false ->
    a_ip a1 = k1 -> a_ops a1 = [VBool b] -> Rg pins env s g1 -> small d ->
    exists g2, xrun prog name code a1 g1 (upd a1 (S k1) []) g2 /\ Rg pins env s g2 /\ tl (frames g2) = tl (frames g1) /\
               lkeepA (frames g1) (frames g2) /\ rv g2 d (VBool b) /\ out g2 = out g1 /\
               (forall r0 v, r0 <> d -> small r0 -> rv g1 r0 v -> rv g2 r0 v).
  Proof.
    intros pins env s a1 g1 k1 d p n b Hi Hsn Hpb Hip Hops HG Hsd. subst k1.
    set (i1 := mkI OP_STORE_SKIP [reg d; if p then s_one else s_zero; sN n]) in *.
    destruct (reg_bind pins env s (trc name a1 g1 i1) d (VBool b) (Rg_trc _ _ _ _ _ _ HG)) as (g2 & Hb2 & HG2 & Ht2 & Hc2 & Ho2 & Hf2 & Hk2).
    exists g2. split; [|split; [exact HG2|split; [exact Ht2|split; [|split; [|split; [exact Ho2|]]]]]].
    - eapply (xstep_next prog name code a1 g1 i1 _ (a_ip a1) (set_ops a1 [])); [reflexivity|exact Hi|apply dec_store_skip; exact Hsn|].
      rewrite (exec_store_skip (reg d) p (Z.of_nat n) a1 _ (VBool b) Hops). rewrite Hpb, Hb2. reflexivity.
    - apply (lkeepA_other _ _ (reg d)); [intros k E; discriminate E| |]; intros z Hz; apply (Hk2 z Hz).
    - exists (N.of_nat (length (cells (trc name a1 g1 i1)))). split; [exact Hf2|].
      unfold cell_get. rewrite Hc2, Nnat.Nat2N.id, nth_error_app2, Nat.sub_diag by lia. reflexivity.
    - intros r0 v Hne Hs0 (cj & F1 & F2). exists cj. split.
      + rewrite (proj1 (Hk2 (reg r0) ltac:(intros E; apply reg_inj in E; [congruence|exact Hs0|exact Hsd]))). exact F1.
      + unfold cell_get in *. rewrite Hc2. rewrite nth_error_app1; [exact F2|]. apply nth_error_Some. cbn [trc add_trace cells]. congruence.
  Qed.

  Lemma rhs_spec_pure : forall e, (forall B, ok_rhs FT SP B e = true -> ok_expr B e = true) -> rhs_spec e.
  Proof.
    intros e He pins d fuel k a g env s B Hfu Hok Hb Hd Hc Hend Hip Hcb Hops HG.
    pose proof (He _ Hok) as Hoe. destruct (ok_expr_parts _ _ Hoe) as (Hp & _ & _). rewrite (xcode_pure d e Hp) in *.
    exact (rhs_pure e pins d fuel k a g env s B Hoe Hb Hd Hc Hend Hip Hcb Hops HG).
  Qed.
  Ltac pure_only := apply rhs_spec_pure; intros B0 H0; unfold ok_rhs in H0; rewrite ok_cexpr_eq in H0;
                    apply Bool.orb_true_iff in H0 as [H0|H0]; [exact H0|discriminate H0].

  (* and / or : the two share everything but the constant *)
  Lemma rhs_logic : forall (p : bool) ea eb, rhs_spec ea -> rhs_spec eb ->
    rhs_spec (if p then EOr ea eb else EAnd ea eb).
  Proof.
    intros p ea eb IHa IHb pins d fuel k a g env s B Hfu Hok Hb Hd Hc Hend Hip Hcb Hops HG.
    unfold ok_rhs in Hok. rewrite ok_cexpr_eq in Hok. apply Bool.orb_true_iff in Hok as [Hoe|Hoc].
    { destruct (ok_expr_parts _ _ Hoe) as (Hp & _ & _). rewrite (xcode_pure d _ Hp) in *.
      exact (rhs_pure _ pins d fuel k a g env s B Hoe Hb Hd Hc Hend Hip Hcb Hops HG). }
    assert (Hparts : is_call ea = false /\ is_call eb = false /\ ok_cexpr FT SP (B ++ CD) ea = true /\ ok_cexpr FT SP (B ++ CD) eb = true).
    { destruct p; rewrite !Bool.andb_true_iff, !Bool.negb_true_iff in Hoc; tauto. }
    destruct Hparts as (Hca & Hcb' & Hoa & Hob). clear Hoc.
    destruct fuel as [|fuel]; [destruct p; exact Logic.I|].
    assert (Hcode : xcode d (if p then EOr ea eb else EAnd ea eb) =
                    ccode (S d) ea ++ [mkI OP_STORE_SKIP [reg d; if p then s_one else s_zero; sN (length (ccode (S d) eb) + 3)]]
                      ++ ccode (S d) eb ++ [mkI OP_LOAD_FAST [reg d]; mkI OP_BIN_OP [if p then op_or else op_and]])
      by (destruct p; reflexivity).
    rewrite Hcode in *. clear Hcode. rewrite !app_length in *. cbn [length] in *.
    set (la := length (ccode (S d) ea)) in *. set (lb := length (ccode (S d) eb)) in *.
    apply code_at_app in Hc as [Hca' Hc]. apply code_at_cons in Hc as [Hi1 Hc].
    apply code_at_app in Hc as [Hcb2 Hc]. apply code_at_cons in Hc as [Hi2 Hc]. apply code_at_cons in Hc as [Hi3 _].
    fold la in Hi1, Hcb2, Hi2, Hi3. fold lb in Hi2, Hi3.
    assert (Hsd : small d) by (eapply small_le; [|exact Hsmall]; lia).
    assert (Hsk : small (lb + 3)) by (eapply small_le; [|exact Hsmall]; lia).
    pose proof (IHa pins (S d) fuel k a g env s B ltac:(lia) Hoa Hb ltac:(unfold xcode; fold la; lia) Hca' ltac:(unfold xcode; fold la; lia) Hip Hcb Hops HG) as Ha.
    unfold xcode in Ha. fold la in Ha.
    assert (Eev : eval (S fuel) env (if p then EOr ea eb else EAnd ea eb) s =
                  match eval fuel env ea s with
                  | EVal (RBool b) s1 =>
                    if (if p then b else negb b) then EVal (RBool b) s1
                    else match eval fuel env eb s1 with
                         | EVal (RBool vb) s2 => EVal (RBool vb) s2
                         | EVal _ s2 | ENoVal s2 => EFail (FType 6) s2 | r => r end
                  | EVal _ s1 | ENoVal s1 => EFail (FType 6) s1 | r => r end).
    { destruct p; [rewrite eval_EOr|rewrite eval_EAnd]; destruct (eval fuel env ea s) as [[?|[|]|?| |? ? ?] s1|s1|f s1|]; reflexivity. }
    rewrite Eev. clear Eev.
    destruct (eval fuel env ea s) as [va s1|s1|f s1|] eqn:Eea; cbn [rhs_res] in Ha |- *.
    2:{ exfalso. exact (operand_noval _ ea Hoa Hca _ _ _ _ Eea). }
    2:{ exact Ha. }
    2:{ exact Logic.I. }
    destruct Ha as (Hfoa & a1 & g1 & R1 & Hip1 & Hops1 & HG1 & Hf1 & Ha1 & Hss1 & Hlk1 & Hrk1).
    set (i1 := mkI OP_STORE_SKIP [reg d; if p then s_one else s_zero; sN (lb + 3)]) in *.
    pose proof (dec_store_skip (reg d) p (lb + 3) Hsk) as Hd1.
    pose proof (exec_store_skip (reg d) p (Z.of_nat (lb + 3)) a1 (trc name a1 g1 i1) (inj va) Hops1) as He1.
    assert (Hnb : forall vv, inj va = vv -> (forall b, vv <> VBool b) -> exec_d (DStoreSkip (reg d) p (Z.of_nat (lb + 3))) a1 (trc name a1 g1 i1) = SFail E_not_bool).
    { intros vv <- Hv. rewrite He1. destruct (inj va); try reflexivity. exfalso. exact (Hv b eq_refl). }
    assert (Hfail6 : (forall b, inj va <> VBool b) ->
              fail_post (FType 6) (exists e0 g', xfail prog name code a g e0 g' /\ err_rel_s (FType 6) e0 /\ out g' = rout s1)).
    { intros Hv. apply fail_post_intro. exists E_not_bool, (trc name a1 g1 i1). split; [|split; [cbn; auto|exact (Rg_out _ _ _ HG1)]].
      eapply xrun_fail; [exact R1|]. eapply xstep_fail; [exact Hip1|exact Hi1|exact Hd1|exact (Hnb _ eq_refl Hv)]. }
    destruct va as [z|b|t| |p0 bd ev]; cbn [rhs_res]; try (apply Hfail6; intros b0; discriminate).
    cbn [inj] in He1.
    destruct (if p then b else negb b) eqn:Epb.
    { (* the left operand decides: jump over the right operand *)
      cbn [rhs_res]. split; [exact Logic.I|].
      exists (set_ip a1 (k + (la + (1 + (lb + 2))))), (trc name a1 g1 i1). split; [|split; [reflexivity|split; [exact Hops1|]]].
      - eapply xrun_trans; [exact R1|].
        eapply (xstep_goto prog name code a1 g1 i1 _ (k + la) _ a1); [exact Hip1|exact Hi1|exact Hd1|exact He1|].
        rewrite Hip1. rewrite goto_fwd by lia. f_equal. lia.
      - split; [apply Rg_trc; exact HG1|]. split; [exact Hf1|]. split; [destruct Ha1 as (A1 & A2 & A3); repeat split; assumption|].
        split; [exact Hss1|]. split; [exact Hlk1|]. eapply regkeep_mono; [|exact Hrk1]. lia. }
    (* the left operand does not decide: park it, evaluate the right operand *)
    destruct (park_skip pins env s1 a1 g1 (k + la) d p (lb + 3) b Hi1 Hsk Epb Hip1 Hops1 HG1 Hsd) as (g2 & R2 & HG2 & Ht2 & Hlk2 & Hrv2 & Ho2 & Hoth2).
    set (a2 := upd a1 (S (k + la)) []) in *.
    pose proof (IHb pins (S d) fuel (S (k + la)) a2 g2 env s1 B ltac:(lia) Hob Hb ltac:(unfold xcode; fold lb; lia)
                  ltac:(atpos Hcb2) ltac:(unfold xcode; fold lb; lia) eq_refl
                  ltac:(cbn [a2 upd set_ip set_ops a_cb]; rewrite (proj2 (proj2 Ha1)); exact Hcb) eq_refl HG2) as Hbr.
    unfold xcode in Hbr. fold lb in Hbr.
    destruct (eval fuel env eb s1) as [vb s2|s2|f s2|] eqn:Eeb; cbn [rhs_res] in Hbr |- *.
    2:{ exfalso. exact (operand_noval _ eb Hob Hcb' _ _ _ _ Eeb). }
    2:{ eapply fail_post_map; [|exact Hbr]. intros (e0 & g' & Hf & Hr). exists e0, g'.
        split; [eapply xrun_fail; [exact R1|eapply xrun_fail; [exact R2|exact Hf]]|exact Hr]. }
    2:{ exact Logic.I. }
    destruct Hbr as (Hfob & a3 & g3 & R3 & Hip3 & Hops3 & HG3 & Hf3 & Ha3 & Hss3 & Hlk3 & Hrk3).
    assert (Hrv3 : rv g3 d (VBool b)) by (apply Hrk3; [lia|exact Hsd|exact Hrv2]).
    pose proof (unpark a3 g3 (S (k + la) + lb) d (VBool b) ltac:(atpos Hi2) Hip3 Hrv3) as R4.
    rewrite Hops3 in R4. cbn [app] in R4.
    set (a4 := upd a3 (S (S (k + la) + lb)) [inj vb; VBool b]) in *.
    set (g4 := trc name a3 g3 (mkI OP_LOAD_FAST [reg d])) in *.
    set (i3 := mkI OP_BIN_OP [if p then op_or else op_and]) in *.
    pose proof (exec_bin_op (if p then op_or else op_and) a4 (trc name a4 g4 i3) (inj vb) (VBool b) eq_refl) as He.
    assert (R04 : xrun prog name code a g a4 g4).
    { eapply xrun_trans; [exact R1|]. eapply xrun_trans; [exact R2|]. eapply xrun_trans; [exact R3|exact R4]. }
    assert (Hi3' : nth_error code (a_ip a4) = Some i3).
    { cbn [a4 upd set_ip a_ip]. atpos Hi3. }
    assert (Hbsem : forall vv, inj vb = vv -> (forall b2, vv <> VBool b2) -> exists e0, bin_op_sem (if p then op_or else op_and) vv (VBool b) = OE e0 /\ err_rel (FType 6) e0).
    { intros vv <- Hv. destruct p; destruct vb as [?|b2|?| |? ? ?]; cbn; try (eexists; split; [reflexivity|cbn; auto]); exfalso; exact (Hv b2 eq_refl). }
    assert (Hfail6b : (forall b2, inj vb <> VBool b2) ->
              fail_post (FType 6) (exists e0 g', xfail prog name code a g e0 g' /\ err_rel_s (FType 6) e0 /\ out g' = rout s2)).
    { intros Hv. destruct (Hbsem _ eq_refl Hv) as (e0 & Hbo & Hrel). rewrite Hbo in He.
      apply fail_post_intro. exists e0, (trc name a4 g4 i3). split; [|split; [now apply err_rel_s_of|exact (Rg_out _ _ _ HG3)]].
      eapply xrun_fail; [exact R04|]. eapply xstep_fail; [reflexivity|exact Hi3'|apply dec_bin_op|exact He]. }
    destruct vb as [z|b2|t| |p0 bd ev]; cbn [rhs_res]; try (apply Hfail6b; intros b0; discriminate).
    cbn [inj] in He.
    assert (Hov : bin_op_sem (if p then op_or else op_and) (VBool b2) (VBool b) = OV (VBool b2)).
    { destruct p, b, b2; try discriminate Epb; reflexivity. }
    rewrite Hov in He.
    split; [exact Logic.I|].
    exists (upd a4 (S (a_ip a4)) [VBool b2]), (trc name a4 g4 i3). split; [|split; [|split; [reflexivity|]]].
    - eapply xrun_trans; [exact R04|].
      eapply (xstep_next prog name code a4 g4 i3 _ (a_ip a4) (set_ops a4 [VBool b2])); [reflexivity|exact Hi3'|apply dec_bin_op|exact He].
    - cbn [a4 upd set_ip a_ip]. lia.
    - split; [apply Rg_trc; apply Rg_trc; exact HG3|].
      split; [change (frames (trc name a4 g4 i3)) with (frames g3); rewrite Hf3, Ht2; exact Hf1|].
      split; [|split; [|split]].
      + apply act_same_upd. eapply act_same_trans; [exact Ha1|]. eapply act_same_trans; [|exact Ha3]. apply act_same_upd. apply act_same_refl.
      + cbn [a4 upd set_ip set_ops a_ss]. rewrite Hss3. cbn [a2 upd set_ip set_ops a_ss]. exact Hss1.
      + change (frames (trc name a4 g4 i3)) with (frames g3). eapply lkeepA_trans; [exact Hlk1|]. eapply lkeepA_trans; [exact Hlk2|exact Hlk3].
      + intros r0 v0 Hr Hs0 Hv. apply (rv_same g3); [reflexivity|auto|]. apply Hrk3; [lia|exact Hs0|].
        apply Hoth2; [lia|exact Hs0|]. apply Hrk1; [lia|exact Hs0|exact Hv].
  Qed.

  Theorem rhs_run : forall e, rhs_spec e.
  Proof.
    apply (expr_ind' rhs_spec (fun _ => True)); try (intros; exact Logic.I); try (intros; pure_only).
    - (* binary operators *)
      intros o ea eb IHa IHb pins d fuel k a g env s B Hfu Hok Hb Hd Hc Hend Hip Hcb Hops HG.
      unfold ok_rhs in Hok. rewrite ok_cexpr_eq in Hok. apply Bool.orb_true_iff in Hok as [Hoe|Hoc].
      { destruct (ok_expr_parts _ _ Hoe) as (Hp & _ & _). rewrite (xcode_pure d _ Hp) in *.
        exact (rhs_pure _ pins d fuel k a g env s B Hoe Hb Hd Hc Hend Hip Hcb Hops HG). }
      apply Bool.andb_true_iff in Hoc as [Hoa Hob].
      destruct fuel as [|fuel]; [exact Logic.I|]. rewrite eval_EBin.
      unfold xcode in *. cbn [ccode] in *. rewrite !app_length in *. cbn [length] in *.
      set (la := length (ccode (S d) ea)) in *. set (lb := length (ccode (S d) eb)) in *.
      apply code_at_app in Hc as [Hca Hc]. apply code_at_cons in Hc as [Hi1 Hc].
      apply code_at_app in Hc as [Hcb2 Hc]. apply code_at_cons in Hc as [Hi2 Hc]. apply code_at_cons in Hc as [Hi3 Hc].
      apply code_at_cons in Hc as [Hi4 _]. fold la in Hi1, Hcb2, Hi2, Hi3, Hi4. fold lb in Hi2, Hi3, Hi4.
      assert (Hsd : small d) by (eapply small_le; [|exact Hsmall]; lia).
      pose proof (IHa pins (S d) fuel k a g env s B ltac:(lia) Hoa Hb ltac:(unfold xcode; fold la; lia) Hca ltac:(unfold xcode; fold la; lia) Hip Hcb Hops HG) as Ha.
      unfold xcode in Ha. fold la in Ha.
      destruct (eval fuel env ea s) as [va s1|s1|f s1|]; cbn [rhs_res] in Ha |- *; [|exact Logic.I|exact Ha|exact Logic.I].
      destruct Ha as (Hfoa & a1 & g1 & R1 & Hip1 & Hops1 & HG1 & Hf1 & Ha1 & Hss1 & Hlk1 & Hrk1).
      destruct (park pins env s1 a1 g1 (k + la) d (inj va) Hi1 Hip1 Hops1 HG1 Hsd) as (g2 & R2 & HG2 & Ht2 & Hlk2 & Hrv2 & Ho2 & Hoth2).
      set (a2 := upd a1 (S (k + la)) []) in *.
      pose proof (IHb pins (S d) fuel (S (k + la)) a2 g2 env s1 B ltac:(lia) Hob Hb ltac:(unfold xcode; fold lb; lia)
                    ltac:(atpos Hcb2) ltac:(unfold xcode; fold lb; lia) eq_refl
                    ltac:(cbn [a2 upd set_ip set_ops a_cb]; rewrite (proj2 (proj2 Ha1)); exact Hcb) eq_refl HG2) as Hbr.
      unfold xcode in Hbr. fold lb in Hbr.
      destruct (eval fuel env eb s1) as [vb s2|s2|f s2|]; cbn [rhs_res] in Hbr |- *; [|exact Logic.I| |exact Logic.I].
      2:{ eapply fail_post_map; [|exact Hbr]. intros (e0 & g' & Hf & Hr). exists e0, g'.
          split; [eapply xrun_fail; [exact R1|eapply xrun_fail; [exact R2|exact Hf]]|exact Hr]. }
      destruct Hbr as (Hfob & a3 & g3 & R3 & Hip3 & Hops3 & HG3 & Hf3 & Ha3 & Hss3 & Hlk3 & Hrk3).
      assert (Hrv3 : rv g3 d (inj va)) by (apply Hrk3; [lia|exact Hsd|exact Hrv2]).
      pose proof (unpark a3 g3 (S (k + la) + lb) d (inj va) ltac:(atpos Hi2) Hip3 Hrv3) as R4.
      rewrite Hops3 in R4. cbn [app] in R4.
      set (a4 := upd a3 (S (S (k + la) + lb)) [inj vb; inj va]) in *.
      set (g4 := trc name a3 g3 (mkI OP_LOAD_FAST [reg d])) in *.
      set (a5 := upd a4 (S (S (S (k + la) + lb))) [inj va; inj vb]).
      set (g5 := trc name a4 g4 (mkI OP_FAST_REV2 [])).
      assert (R5 : xrun prog name code a4 g4 a5 g5).
      { eapply (xstep_next prog name code a4 g4 _ _ (a_ip a4) (set_ops a4 [inj va; inj vb])); [reflexivity| |apply dec_rev2|].
        - cbn [a4 upd set_ip a_ip]. atpos Hi3.
        - exact (exec_rev2 a4 g5 (inj vb) (inj va) eq_refl). }
      assert (R05 : xrun prog name code a g a5 g5).
      { eapply xrun_trans; [exact R1|]. eapply xrun_trans; [exact R2|]. eapply xrun_trans; [exact R3|]. eapply xrun_trans; [exact R4|exact R5]. }
      pose proof (binop_run o va vb s2 a5 g5 (a_ip a5)
                    ltac:(cbn [a5 a4 upd set_ip a_ip]; atpos Hi4)
                    eq_refl eq_refl) as Hop.
      destruct (binop_sem o va vb s2) as [v s3|s3|f s3|]; cbn [rhs_res]; [|contradiction| |contradiction].
      + destruct Hop as (-> & Hfov & Rop). split; [exact Hfov|].
        eexists. eexists. split; [eapply xrun_trans; [exact R05|exact Rop]|]. split; [cbn [a5 a4 upd set_ip a_ip]; lia|]. split; [reflexivity|].
        split; [apply Rg_trc; apply Rg_trc; apply Rg_trc; exact HG3|].
        split; [change (frames (trc name a5 g5 (op_instr o))) with (frames g3); rewrite Hf3, Ht2; exact Hf1|].
        split; [|split; [|split]].
        * apply act_same_upd. apply act_same_upd. eapply act_same_trans; [exact Ha1|]. eapply act_same_trans; [|exact Ha3]. apply act_same_upd. apply act_same_refl.
        * cbn [a5 a4 upd set_ip set_ops a_ss]. rewrite Hss3. cbn [a2 upd set_ip set_ops a_ss]. exact Hss1.
        * change (frames (trc name a5 g5 (op_instr o))) with (frames g3). eapply lkeepA_trans; [exact Hlk1|]. eapply lkeepA_trans; [exact Hlk2|exact Hlk3].
        * intros r0 v0 Hr Hs0 Hv. apply (rv_same g3); [reflexivity|auto|]. apply Hrk3; [lia|exact Hs0|].
          apply Hoth2; [lia|exact Hs0|]. apply Hrk1; [lia|exact Hs0|exact Hv].
      + destruct Hop as (-> & e0 & Hf & Hrel). apply fail_post_intro. exists e0, (trc name a5 g5 (op_instr o)).
        split; [eapply xrun_fail; [exact R05|exact Hf]|]. split; [now apply err_rel_s_of|exact (Rg_out _ _ _ HG3)].
    - intros ea eb IHa IHb. exact (rhs_logic false ea eb IHa IHb).
    - intros ea eb IHa IHb. exact (rhs_logic true ea eb IHa IHb).
    - (* not *)
      intros ea IHa pins d fuel k a g env s B Hfu Hok Hb Hd Hc Hend Hip Hcb Hops HG.
      unfold ok_rhs in Hok. rewrite ok_cexpr_eq in Hok. apply Bool.orb_true_iff in Hok as [Hoe|Hoc].
      { destruct (ok_expr_parts _ _ Hoe) as (Hp & _ & _). rewrite (xcode_pure d _ Hp) in *.
        exact (rhs_pure _ pins d fuel k a g env s B Hoe Hb Hd Hc Hend Hip Hcb Hops HG). }
      apply Bool.andb_true_iff in Hoc as [Hca Hoa]. apply Bool.negb_true_iff in Hca.
      destruct fuel as [|fuel]; [exact Logic.I|]. rewrite eval_ENot.
      unfold xcode in *. cbn [ccode] in *. rewrite !app_length in *. cbn [length] in *.
      set (la := length (ccode (S d) ea)) in *.
      apply code_at_app in Hc as [Hca' Hc]. apply code_at_cons in Hc as [Hi1 _]. fold la in Hi1.
      pose proof (IHa pins (S d) fuel k a g env s B ltac:(lia) Hoa Hb ltac:(unfold xcode; fold la; lia) Hca' ltac:(unfold xcode; fold la; lia) Hip Hcb Hops HG) as Ha.
      unfold xcode in Ha. fold la in Ha.
      destruct (eval fuel env ea s) as [va s1|s1|f s1|] eqn:Eea; cbn [rhs_res] in Ha |- *.
      2:{ exfalso. exact (operand_noval _ ea Hoa Hca _ _ _ _ Eea). }
      2:{ exact Ha. }
      2:{ exact Logic.I. }
      destruct Ha as (Hfoa & a1 & g1 & R1 & Hip1 & Hops1 & HG1 & Hf1 & Ha1 & Hss1 & Hlk1 & Hrk1).
      pose proof (exec_not a1 (trc name a1 g1 (mkI OP_NOT [])) (inj va) Hops1) as He.
      assert (Hfail : (forall b, inj va <> VBool b) ->
                fail_post (FType 7) (exists e0 g', xfail prog name code a g e0 g' /\ err_rel_s (FType 7) e0 /\ out g' = rout s1)).
      { intros Hv. apply fail_post_intro. exists E_not_bool, (trc name a1 g1 (mkI OP_NOT [])). split; [|split; [cbn; auto|exact (Rg_out _ _ _ HG1)]].
        eapply xrun_fail; [exact R1|]. eapply xstep_fail; [exact Hip1|exact Hi1|apply dec_not|].
        rewrite He. destruct (inj va); try reflexivity. exfalso. exact (Hv b eq_refl). }
      destruct va as [z|b|t| |p0 bd ev]; cbn [rhs_res]; try (apply Hfail; intros b0; discriminate).
      cbn [inj] in He. split; [exact Logic.I|].
      exists (upd a1 (S (a_ip a1)) [VBool (negb b)]), (trc name a1 g1 (mkI OP_NOT [])). split; [|split; [cbn [upd set_ip a_ip]; rewrite Hip1; lia|split; [reflexivity|]]].
      + eapply xrun_trans; [exact R1|].
        eapply (xstep_next prog name code a1 g1 _ _ (k + la) (set_ops a1 [VBool (negb b)])); [exact Hip1|exact Hi1|apply dec_not|exact He].
      + split; [apply Rg_trc; exact HG1|]. split; [exact Hf1|]. split; [destruct Ha1 as (A1 & A2 & A3); repeat split; assumption|].
        split; [exact Hss1|]. split; [exact Hlk1|]. eapply regkeep_mono; [|exact Hrk1]. lia.
    - (* unary minus *)
      intros ea IHa pins d fuel k a g env s B Hfu Hok Hb Hd Hc Hend Hip Hcb Hops HG.
      unfold ok_rhs in Hok. rewrite ok_cexpr_eq in Hok. apply Bool.orb_true_iff in Hok as [Hoe|Hoc].
      { destruct (ok_expr_parts _ _ Hoe) as (Hp & _ & _). rewrite (xcode_pure d _ Hp) in *.
        exact (rhs_pure _ pins d fuel k a g env s B Hoe Hb Hd Hc Hend Hip Hcb Hops HG). }
      apply Bool.andb_true_iff in Hoc as [Hca Hoa]. apply Bool.negb_true_iff in Hca.
      destruct fuel as [|fuel]; [exact Logic.I|]. rewrite eval_ENeg.
      unfold xcode in *. cbn [ccode] in *. rewrite !app_length in *. cbn [length] in *.
      set (la := length (ccode (S d) ea)) in *.
      apply code_at_app in Hc as [Hca' Hc]. apply code_at_cons in Hc as [Hi1 _]. fold la in Hi1.
      pose proof (IHa pins (S d) fuel k a g env s B ltac:(lia) Hoa Hb ltac:(unfold xcode; fold la; lia) Hca' ltac:(unfold xcode; fold la; lia) Hip Hcb Hops HG) as Ha.
      unfold xcode in Ha. fold la in Ha.
      destruct (eval fuel env ea s) as [va s1|s1|f s1|] eqn:Eea; cbn [rhs_res] in Ha |- *.
      2:{ exfalso. exact (operand_noval _ ea Hoa Hca _ _ _ _ Eea). }
      2:{ exact Ha. }
      2:{ exact Logic.I. }
      destruct Ha as (Hfoa & a1 & g1 & R1 & Hip1 & Hops1 & HG1 & Hf1 & Ha1 & Hss1 & Hlk1 & Hrk1).
      pose proof (exec_neg a1 (trc name a1 g1 (mkI OP_NEG [])) (inj va) Hops1) as He.
      assert (Hfail : forall fl e0, exec_d DNeg a1 (trc name a1 g1 (mkI OP_NEG [])) = SFail e0 -> err_rel fl e0 ->
                fail_post fl (exists e1 g', xfail prog name code a g e1 g' /\ err_rel_s fl e1 /\ out g' = rout s1)).
      { intros fl e0 Hx Hrel. apply fail_post_intro. exists e0, (trc name a1 g1 (mkI OP_NEG [])). split; [|split; [now apply err_rel_s_of|exact (Rg_out _ _ _ HG1)]].
        eapply xrun_fail; [exact R1|]. eapply xstep_fail; [exact Hip1|exact Hi1|apply dec_neg|exact Hx]. }
      destruct va as [z|b|t| |p0 bd ev]; cbn [inj] in He; cbn [rhs_res]; try (eapply Hfail; [exact He|cbn; auto]).
      unfold arith_res. destruct (i32_ok (- z)); cbn [rhs_res].
      + split; [exact Logic.I|].
        exists (upd a1 (S (a_ip a1)) [VInt (- z)]), (trc name a1 g1 (mkI OP_NEG [])). split; [|split; [cbn [upd set_ip a_ip]; rewrite Hip1; lia|split; [reflexivity|]]].
        * eapply xrun_trans; [exact R1|].
          eapply (xstep_next prog name code a1 g1 _ _ (k + la) (set_ops a1 [VInt (- z)])); [exact Hip1|exact Hi1|apply dec_neg|exact He].
        * split; [apply Rg_trc; exact HG1|]. split; [exact Hf1|]. split; [destruct Ha1 as (A1 & A2 & A3); repeat split; assumption|].
          split; [exact Hss1|]. split; [exact Hlk1|]. eapply regkeep_mono; [|exact Hrk1]. lia.
      + eapply Hfail; [exact He|cbn; auto].
    - (* f(args) *)
      intros fe args _ IHargs pins d fuel k a g env s B Hfu Hok Hb Hd Hc Hend Hip Hcb Hops HG. subst k. set (k := a_ip a) in *.
      unfold ok_rhs in Hok. rewrite ok_cexpr_eq in Hok. apply Bool.orb_true_iff in Hok as [Hoe|Hoc].
      { apply ok_expr_parts in Hoe as (Hp & _ & _). discriminate. }
      destruct fe as [| | | |f| | | | | | | | | |]; try discriminate.
      destruct (assoc f FT) as [[ps body]|] eqn:Eft; [|discriminate].
      apply Bool.andb_true_iff in Hoc as [Har Hoa]. apply Nat.eqb_eq in Har.
      destruct fuel as [|fuel]; [exact Logic.I|]. rewrite eval_ECall.
      destruct fuel as [|fuel]; [exact Logic.I|].
      pose proof (assoc_in_fnames FT f _ Eft) as Hin.
      destruct (assoc f fcells) as [[[[c0 c0'] cenv] cbf]|] eqn:Efc; [|exfalso; exact (proj1 (Hfck f) Hin Efc)].
      assert (Hl0 : 0 < length (locals env)) by (pose proof (Rg_ne _ _ _ HG); destruct (locals env); [congruence|cbn; lia]).
      destruct (Rg_flook _ _ _ HG f c0 c0' cenv cbf Efc 0 Hl0) as [Hls Hlv]. cbn [skipn] in Hls, Hlv.
      destruct (Rg_fpin _ _ _ HG) as [Hvp Hsp].
      destruct (Hsp c0 (RClos ps body cenv)) as [Hsv _]; [exact (Hgps f c0 c0' cenv cbf ps body Efc Eft)|].
      destruct (Hvp c0' (VFun (floc f) cbf)) as [Hvv _]; [exact (Hgpv f c0 c0' cenv cbf Efc)|].
      rewrite eval_EVar, Hls. unfold sget at 1. rewrite Hsv.
      unfold xcode in *. rewrite ccode_ECall in *. cbn [app] in Hc. rewrite !app_length in *. cbn [length app] in *.
      set (la := length (argcode (S (S d)) args)) in *. set (na := length (argloads (S (S d)) args)) in *.
      apply code_at_cons in Hc as [Hi1 Hc]. apply code_at_cons in Hc as [Hi2 Hc].
      apply code_at_app in Hc as [Hca Hc]. apply code_at_app in Hc as [Hcl Hc]. fold la in Hcl, Hc. fold na in Hc.
      apply code_at_cons in Hc as [Hi3 Hc]. apply code_at_cons in Hc as [Hi4 _].
      assert (Hna : na = length args) by (unfold na; clear; generalize (S (S d)); induction args; intros n; cbn [argloads length]; [reflexivity|now rewrite IHargs]).
      assert (Hsd1 : small (S d)) by (eapply small_le; [|exact Hsmall]; lia).
      (* load f *)
      set (i1 := mkI OP_LOAD [f]) in *.
      set (a1 := upd a (S k) [VFun (floc f) cbf]).
      set (g1 := trc name a g i1).
      assert (R1 : xrun prog name code a g a1 g1).
      { eapply (xstep_next prog name code a g i1 _ k (set_ops a [VFun (floc f) cbf])); [reflexivity|exact Hi1|apply dec_load|].
        pose proof (exec_load f a g1 c0' (VFun (floc f) cbf) ltac:(rewrite (lookup_var_fs a g1 f Hcb); exact Hlv) Hvv) as Hx.
        rewrite Hops in Hx. exact Hx. }
      (* store_fast #(d+1) *)
      destruct (park pins env s a1 g1 (S k) (S d) (VFun (floc f) cbf) Hi2 eq_refl eq_refl ltac:(apply Rg_trc; exact HG) Hsd1)
        as (g2 & R2 & HG2 & Ht2 & Hlk2 & Hrf2 & Ho2 & Hoth2).
      set (a2 := upd a1 (S (S k)) []) in *.
      (* the arguments *)
      pose proof (args_run args IHargs (S (S d)) (S (S k)) pins a2 g2 env s B [] (S fuel) ltac:(lia) Hoa Hb ltac:(fold la; lia)
                    Hca ltac:(fold la; lia) eq_refl Hcb eq_refl HG2) as Hargs.
      fold la in Hargs.
      destruct (evals_ (S fuel) env args s []) as [[vs s1]|r]; cbn [args_res] in Hargs.
      2:{ destruct r as [? ?|?|fl s1|]; try contradiction; cbn [rhs_res]; [|exact Logic.I].
          eapply fail_post_map; [|exact Hargs]. intros (e0 & g' & Hf & Hr). exists e0, g'.
          split; [eapply xrun_fail; [exact R1|eapply xrun_fail; [exact R2|exact Hf]]|exact Hr]. }
      destruct Hargs as (vs' & Evs & Hlv' & Hfos & a3 & g3 & R3 & Hip3 & Hops3 & HG3 & Ht3 & Ha3 & Hss3 & Hrk3 & Hreg3 & Hlk3).
      cbn [rev app] in Evs. subst vs'.
      (* reload the arguments, then the callee *)
      destruct (loads_run args (map inj vs) (S (S d)) (S (S k) + la) a3 g3 ltac:(rewrite map_length; congruence)) as (g4 & R4 & Hf4 & Hc4 & HR4).
      { intros j v Hj. rewrite nth_error_map in Hj. destruct (nth_error vs j) as [v0|] eqn:Ev; [|discriminate].
        inversion Hj; subst v. now apply Hreg3. }
      { exact Hcl. }
      { exact Hip3. }
      rewrite Hops3 in R4. cbn [app] in R4.
      set (a4 := upd a3 (S (S k) + la + length args) (map inj vs)) in *.
      assert (Hrf4 : rv g4 (S d) (VFun (floc f) cbf)).
      { apply (rv_same g3 g4); [exact Hf4|intros cj w Hw; unfold cell_get in *; now rewrite Hc4|].
        apply Hrk3; [lia|exact Hsd1|exact Hrf2]. }
      pose proof (unpark a4 g4 (S (S k) + la + length args) (S d) (VFun (floc f) cbf)
                    ltac:(atpos Hi3) eq_refl Hrf4) as R5.
      cbn [a4 upd set_ops a_ops] in R5. fold a4 in R5.
      set (i3 := mkI OP_LOAD_FAST [reg (S d)]) in *.
      set (g5 := trc name a4 g4 i3) in *.
      set (a5 := upd a4 (S (S (S k) + la + length args)) (map inj vs ++ [VFun (floc f) cbf])) in *.
      assert (R05 : xrun prog name code a g a5 g5).
      { eapply xrun_trans; [exact R1|]. eapply xrun_trans; [exact R2|]. eapply xrun_trans; [exact R3|]. eapply xrun_trans; [exact R4|exact R5]. }
      assert (HG5 : Rg pins env s1 g5) by (apply Rg_trc; apply HR4; exact HG3).
      set (i4 := mkI OP_CALL []) in *.
      set (g5t := trc name a5 g5 i4).
      assert (HG5t : Rg pins env s1 g5t) by (apply Rg_trc; exact HG5).
      assert (Hi4' : nth_error code (a_ip a5) = Some i4).
      { cbn [a5 upd set_ip a_ip]. atpos Hi4. }
      pose proof (exec_call a5 g5t (map inj vs) (floc f) cbf eq_refl) as Hx.
      assert (Hfin : S (a_ip a5) = k + S (S (la + (na + 2)))) by (cbn [a5 upd set_ip a_ip]; lia).
      assert (Htl5 : tl (frames g5t) = tl (frames g)).
      { change (frames g5t) with (frames g4). rewrite Hf4, Ht3, Ht2. reflexivity. }
      assert (Hlk5 : lkeepA (frames g) (frames g5t)).
      { change (frames g5t) with (frames g4). rewrite Hf4. eapply lkeepA_trans; [|exact Hlk3]. exact Hlk2. }
      assert (Hrk5 : regkeep d g g5t).
      { intros r0 v0 Hr Hs0 Hv. apply (rv_same g4); [reflexivity|auto|]. apply (rv_same g3 g4); [exact Hf4|intros cj w Hw; unfold cell_get in *; now rewrite Hc4|].
        apply Hrk3; [lia|exact Hs0|]. apply Hoth2; [lia|exact Hs0|]. apply (rv_same g); [reflexivity|auto|exact Hv]. }
      assert (Hact5 : act_same a a5 /\ a_ss a5 = a_ss a).
      { destruct Ha3 as (B1 & B2 & B3). cbn [a5 a4 upd set_ip set_ops a_fn a_args a_cb a_ss a2 a1] in *. rewrite Hss3.
        repeat split; assumption. }
      (* the callee *)
      pose proof (Hcall (S fuel) ltac:(lia) f ps body c0 c0' cenv cbf Eft Efc vs s1 g5t Hfos ltac:(congruence)
                    (Rg_out _ _ _ HG5t) (Rg_nd _ _ _ HG5t) (Rg_fvals _ _ _ _ HG5t)
                    (Rg_drel _ _ _ _ _ HG5t (fun p Hp => Hdn f p ltac:(apply Hfck; congruence) Hp))) as Hcal.
      destruct (call_clos_ (S fuel) (RClos ps body cenv) vs s1) as [v s2|s2|fl s2|]; cbn [rhs_res]; [| | |exact Logic.I].
      + destruct Hcal as (Hfov & fuel' & g6 & Hrun & Hkeep). split; [exact Hfov|].
        exists (next_act (set_ops a5 []) (Some (inj v))), g6. split; [|split; [|split; [|split; [|split; [|split; [|split; [|split]]]]]]].
        * eapply xrun_trans; [exact R05|]. eapply xr_call; [exact Hi4'|apply dec_call|exact Hx|exact Hrun|apply xr_refl].
        * unfold next_act. cbn [set_ip a_ip set_ops]. exact Hfin.
        * reflexivity.
        * eapply Rg_val_keep; [exact HG5t|exact Hkeep].
        * rewrite (proj1 Hkeep). exact Htl5.
        * destruct Hact5 as [(A1 & A2 & A3) _]. repeat split; assumption.
        * exact (proj2 Hact5).
        * rewrite (proj1 Hkeep). exact Hlk5.
        * eapply regkeep_trans; [exact Hrk5|]. apply regkeep_same; [exact (proj1 Hkeep)|exact (proj2 (proj2 (proj2 Hkeep)))].
      + destruct Hcal as (fuel' & g6 & Hrun & Hkeep).
        exists (next_act (set_ops a5 []) None), g6. split; [|split; [|split; [|split; [|split; [|split; [|split; [|split]]]]]]].
        * eapply xrun_trans; [exact R05|]. eapply xr_call; [exact Hi4'|apply dec_call|exact Hx|exact Hrun|apply xr_refl].
        * unfold next_act. cbn [set_ip a_ip set_ops]. exact Hfin.
        * reflexivity.
        * eapply Rg_val_keep; [exact HG5t|exact Hkeep].
        * rewrite (proj1 Hkeep). exact Htl5.
        * destruct Hact5 as [(A1 & A2 & A3) _]. repeat split; assumption.
        * exact (proj2 Hact5).
        * rewrite (proj1 Hkeep). exact Hlk5.
        * eapply regkeep_trans; [exact Hrk5|]. apply regkeep_same; [exact (proj1 Hkeep)|exact (proj2 (proj2 (proj2 Hkeep)))].
      + eapply fail_post_map; [|exact Hcal]. intros (fuel' & e0 & g6 & Hrun & Hr & Ho). exists e0, g6.
        split; [|split; assumption]. exists a5, g5. split; [exact R05|]. right.
        exists i4, (DCall None), (floc f), cbf, (map inj vs), (set_ops a5 []), g5t, fuel'. auto using dec_call.
    - (* self(args) *)
      intros args IHargs pins d fuel k a g env s B Hfu Hok Hb Hd Hc Hend Hip Hcb Hops HG. subst k. set (k := a_ip a) in *.
      unfold ok_rhs in Hok. rewrite ok_cexpr_eq in Hok. apply Bool.orb_true_iff in Hok as [Hoe|Hoc].
      { apply ok_expr_parts in Hoe as (Hp & _ & _). discriminate. }
      revert Hoc. case_eq SP; [intros ps ESP Hoc|intros ESP Hoc; discriminate].
      apply Bool.andb_true_iff in Hoc as [Har Hoa]. apply Nat.eqb_eq in Har. rewrite <- ESP in Hoa.
      destruct (HSPself ps ESP) as (body & cenv & Eself).
      destruct fuel as [|fuel]; [exact Logic.I|]. rewrite eval_ESelf.
      unfold xcode in *. rewrite ccode_ESelf in *. rewrite !app_length in *. cbn [length] in *.
      set (la := length (argcode (S d) args)) in *. set (na := length (argloads (S d) args)) in *.
      apply code_at_app in Hc as [Hca Hc]. apply code_at_app in Hc as [Hcl Hc]. fold la in Hcl, Hc.
      apply code_at_cons in Hc as [Hi4 _].
      assert (Hna : na = length args) by (unfold na; clear; generalize (S d); induction args; intros n; cbn [argloads length]; [reflexivity|now rewrite IHargs]).
      pose proof (args_run args IHargs (S d) k pins a g env s B [] fuel ltac:(lia) Hoa Hb ltac:(fold la; lia)
                    Hca ltac:(fold la; lia) eq_refl Hcb Hops HG) as Hargs.
      fold la in Hargs.
      destruct (evals_ fuel env args s []) as [[vs s1]|r]; cbn [args_res] in Hargs.
      2:{ destruct r as [? ?|?|fl s1|]; try contradiction; cbn [rhs_res]; [exact Hargs|exact Logic.I]. }
      destruct Hargs as (vs' & Evs & Hlv' & Hfos & a3 & g3 & R3 & Hip3 & Hops3 & HG3 & Ht3 & Ha3 & Hss3 & Hrk3 & Hreg3 & Hlk3).
      cbn [rev app] in Evs. subst vs'.
      rewrite (Rg_cur _ _ _ HG), Eself.
      destruct (loads_run args (map inj vs) (S d) (k + la) a3 g3 ltac:(rewrite map_length; congruence)) as (g4 & R4 & Hf4 & Hc4 & HR4).
      { intros j v Hj. rewrite nth_error_map in Hj. destruct (nth_error vs j) as [v0|] eqn:Ev; [|discriminate].
        inversion Hj; subst v. now apply Hreg3. }
      { exact Hcl. }
      { exact Hip3. }
      rewrite Hops3 in R4. cbn [app] in R4.
      set (a4 := upd a3 (k + la + length args) (map inj vs)) in *.
      set (i4 := mkI OP_CALL_SELF []) in *.
      set (g4t := trc name a4 g4 i4).
      assert (HG4t : Rg pins env s1 g4t) by (apply Rg_trc; apply HR4; exact HG3).
      assert (Hi4' : nth_error code (a_ip a4) = Some i4).
      { cbn [a4 upd set_ip a_ip]. atpos Hi4. }
      assert (Hx : exec_d DCallSelf a4 g4t = SCall fnm cb (map inj vs) (set_ops a4 []) g4t).
      { unfold exec_d. rewrite (Rg_cf _ _ _ HG4t). cbn [a4 upd set_ip set_ops a_ops a_cb]. rewrite (proj2 (proj2 Ha3)). now rewrite Hcb. }
      assert (Hfin : S (a_ip a4) = k + (la + (na + 1))) by (cbn [a4 upd set_ip a_ip]; lia).
      assert (Htl4 : tl (frames g4t) = tl (frames g)).
      { change (frames g4t) with (frames g4). rewrite Hf4, Ht3. reflexivity. }
      assert (R4' : xrun prog name code a g a4 g4) by (eapply xrun_trans; [exact R3|exact R4]).
      assert (Hrk4 : regkeep d g g4t).
      { intros r0 v0 Hr Hs0 Hv. apply (rv_same g4); [reflexivity|auto|]. apply (rv_same g3 g4); [exact Hf4|intros cj w Hw; unfold cell_get in *; now rewrite Hc4|].
        apply Hrk3; [lia|exact Hs0|exact Hv]. }
      assert (Hact4 : act_same a a4 /\ a_ss a4 = a_ss a).
      { destruct Ha3 as (B1 & B2 & B3). cbn [a4 upd set_ip set_ops a_fn a_args a_cb a_ss] in *. repeat split; assumption. }
      pose proof (Hself fuel ltac:(lia) ps body cenv Eself vs s1 g4t Hfos ltac:(congruence)
                    (Rg_out _ _ _ HG4t) (Rg_nd _ _ _ HG4t) (Rg_fvals _ _ _ _ HG4t) (Rg_drel _ _ _ _ _ HG4t Hsdn)) as Hcal.
      destruct (call_clos_ fuel (RClos ps body cenv) vs s1) as [v s2|s2|fl s2|]; cbn [rhs_res]; [| | |exact Logic.I].
      + destruct Hcal as (Hfov & fuel' & g6 & Hrun & Hkeep). split; [exact Hfov|].
        exists (next_act (set_ops a4 []) (Some (inj v))), g6. split; [|split; [|split; [|split; [|split; [|split; [|split; [|split]]]]]]].
        * eapply xrun_trans; [exact R4'|]. eapply xr_call; [exact Hi4'|reflexivity|exact Hx|exact Hrun|apply xr_refl].
        * unfold next_act. cbn [set_ip a_ip set_ops]. exact Hfin.
        * reflexivity.
        * eapply Rg_val_keep; [exact HG4t|exact Hkeep].
        * rewrite (proj1 Hkeep). exact Htl4.
        * destruct Hact4 as [(A1 & A2 & A3) _]. repeat split; assumption.
        * exact (proj2 Hact4).
        * rewrite (proj1 Hkeep). change (frames g4t) with (frames g4). rewrite Hf4. exact Hlk3.
        * eapply regkeep_trans; [exact Hrk4|]. apply regkeep_same; [exact (proj1 Hkeep)|exact (proj2 (proj2 (proj2 Hkeep)))].
      + destruct Hcal as (fuel' & g6 & Hrun & Hkeep).
        exists (next_act (set_ops a4 []) None), g6. split; [|split; [|split; [|split; [|split; [|split; [|split; [|split]]]]]]].
        * eapply xrun_trans; [exact R4'|]. eapply xr_call; [exact Hi4'|reflexivity|exact Hx|exact Hrun|apply xr_refl].
        * unfold next_act. cbn [set_ip a_ip set_ops]. exact Hfin.
        * reflexivity.
        * eapply Rg_val_keep; [exact HG4t|exact Hkeep].
        * rewrite (proj1 Hkeep). exact Htl4.
        * destruct Hact4 as [(A1 & A2 & A3) _]. repeat split; assumption.
        * exact (proj2 Hact4).
        * rewrite (proj1 Hkeep). change (frames g4t) with (frames g4). rewrite Hf4. exact Hlk3.
        * eapply regkeep_trans; [exact Hrk4|]. apply regkeep_same; [exact (proj1 Hkeep)|exact (proj2 (proj2 (proj2 Hkeep)))].
      + eapply fail_post_map; [|exact Hcal]. intros (fuel' & e0 & g6 & Hrun & Hr & Ho). exists e0, g6.
        split; [|split; assumption]. exists a4, g4. split; [exact R4'|]. right.
        exists i4, DCallSelf, fnm, cb, (map inj vs), (set_ops a4 []), g4t, fuel'. auto.
    - intros ea eb _ _. pure_only.
  Qed.

  (* ================================================================ Stage 1: straight-line statements *)
  Lemma Rst_upd : forall pins env s a g ip, Rg pins env s g -> length (locals env) <= S (a_ss a) -> Rst pins env s (upd a ip []) g.
  Proof. intros pins env s a g ip HG Hss. split; [exact HG|]. split; [reflexivity|exact Hss]. Qed.

  Lemma act_same_step : forall a a1 o, act_same a a1 -> act_same a (set_ip (set_ops a1 o) (S (a_ip a1))).
  Proof. intros a a1 o (A1 & A2 & A3). repeat split; assumption. Qed.

  Lemma act_ext : forall a a1 ip ops, act_same a a1 -> a_ip a1 = ip -> a_ops a1 = ops -> a_ss a1 = a_ss a -> a1 = upd a ip ops.
  Proof. intros [f0 i0 o0 ar0 c0 s0] [f1 i1 o1 ar1 c1 s1] ip ops (A1 & A2 & A3) H1 H2 H3. cbn in *. subst. reflexivity. Qed.

  Lemma assign_correct : forall x e, stmt_spec (SAssign x e).
  Proof.
    intros x e pins lr il sl bt ct fuel k a g env s B Hfu Hlr Hok Hb Hit Hend Hlc Hip Hcb HR. destruct Hend as [Hend|[Hend _]]; [|discriminate Hend].
    destruct fuel as [|fuel]; [exact Logic.I|].
    cbn [ok_stmt] in Hok. rewrite !Bool.andb_true_iff in Hok. destruct Hok as [[[Hx Hxf] _] Hoe].
    apply Bool.negb_true_iff in Hxf. pose proof (uname_of_b x Hx Hxf) as Hxu. clear Hx. rename Hxu into Hx.
    cbn [sitems] in *. rewrite app_length, map_length in *. cbn [length] in *.
    apply items_at_app in Hit as [Hce Hi]. apply items_at_CI in Hce. rewrite map_length in Hi.
    apply items_at_cons in Hi as [Hi _]. cbn [item_instr] in Hi.
    destruct HR as (HG & Hops & Hss).
    pose proof (rhs_run e pins c fuel k a g env s B ltac:(lia) Hoe Hb ltac:(lia) Hce ltac:(lia) Hip Hcb Hops HG) as He.
    rewrite exec_SAssign.
    destruct (eval fuel env e s) as [v s1|s1|f s1|]; cbn [rhs_res] in He; [|exact Logic.I|exact He|exact Logic.I].
    destruct He as (Hfo & a1 & g1 & R1 & Hip1 & Hops1 & HG1 & Hf1 & Ha1 & Hss1 & Hlk1 & Hrk1).
    destruct (assign env s1 x v) as [env' s'] eqn:Ea.
    destruct (store_rel env s1 (trc name a1 g1 (mkI OP_STORE [x])) x v env' s' (Rg_trc _ _ _ _ _ _ HG1) Hx Hfo Ea)
      as (g2 & Hst & HG2 & Hd & Hbx & Htl & Hoth).
    cbn [post]. split; [exact Hd|]. split.
    { cbn [after]. eapply bound_in_assign; eassumption. }
    exists (set_ip (set_ops a1 []) (S (a_ip a1))), g2. split; [|split; [|split; [|split; [|split]]]].
    - eapply xrun_trans; [exact R1|].
      eapply (xstep_next prog name code a1 g1 _ _ (a_ip a1) (set_ops a1 [])); [reflexivity|rewrite Hip1; exact Hi|apply dec_store|].
      apply (exec_store x a1 _ (inj v)); [exact Hops1|exact Hst].
    - cbn [set_ip a_ip]. rewrite Hip1. lia.
    - split; [exact HG2|]. split; [reflexivity|]. cbn [set_ip set_ops a_ss]. rewrite Hss1.
      rewrite (same_tl_length _ _ (Rg_ne _ _ _ HG) Hd). exact Hss.
    - apply act_same_step. exact Ha1.
    - exact (eq_trans Htl Hf1).
    - eapply lkeep_trans; [apply lkeepA_lkeep; exact Hlk1|].
      apply (lkeep_other _ _ _ x); [intros k0; exact (uname_not_lregn _ _ Hx)|exact Hoth].
  Qed.

  Lemma print_correct : forall e, stmt_spec (SPrint e).
  Proof.
    intros e pins lr il sl bt ct fuel k a g env s B Hfu Hlr Hok Hb Hit Hend Hlc Hip Hcb HR. destruct Hend as [Hend|[Hend _]]; [|discriminate Hend].
    destruct fuel as [|fuel]; [exact Logic.I|].
    cbn [ok_stmt] in Hok. rename Hok into Hoe.
    cbn [sitems] in *. rewrite app_length, map_length in *. cbn [length] in *.
    apply items_at_app in Hit as [Hce Hi]. apply items_at_CI in Hce. rewrite map_length in Hi.
    apply items_at_cons in Hi as [Hi1 Hi]. apply items_at_cons in Hi as [Hi2 _]. cbn [item_instr] in Hi1, Hi2.
    destruct HR as (HG & Hops & Hss).
    pose proof (rhs_run e pins c fuel k a g env s B ltac:(lia) Hoe Hb ltac:(lia) Hce ltac:(lia) Hip Hcb Hops HG) as He.
    rewrite exec_SPrint.
    destruct (eval fuel env e s) as [v s1|s1|f s1|]; cbn [rhs_res] in He; [|exact Logic.I|exact He|exact Logic.I].
    destruct He as (Hfo & a1 & g1 & R1 & Hip1 & Hops1 & HG1 & Hf1 & Ha1 & Hss1 & Hlk1 & Hrk1).
    destruct (show_inj v Hfo) as (l & Hrs & Hsh). rewrite Hrs.
    set (g2 := emit_line (trc name a1 g1 (mkI OP_PRINTN [s_star])) l).
    set (a2 := set_ip a1 (S (a_ip a1))).
    cbn [post]. split; [apply same_tl_refl; exact (Rg_ne _ _ _ HG)|]. split; [exact Hb|].
    exists (set_ip (set_ops a2 []) (S (a_ip a2))), (trc name a2 g2 (mkI OP_VOID [])). split; [|split; [|split; [|split; [|split]]]].
    - eapply xrun_trans; [exact R1|]. eapply xrun_trans.
      + eapply (xstep_next prog name code a1 g1 _ _ (a_ip a1) a1); [reflexivity|rewrite Hip1; exact Hi1|apply dec_printn|].
        apply (exec_print a1 _ (inj v) l); [exact Hops1|exact Hsh].
      + eapply (xstep_next prog name code a2 g2 _ _ (a_ip a2) (set_ops a2 [])); [reflexivity| |apply dec_void|apply exec_void].
        cbn [a2 set_ip a_ip]. rewrite Hip1. exact Hi2.
    - cbn [set_ip a_ip a2]. rewrite Hip1. lia.
    - split; [apply Rg_trc; apply print_rel; apply Rg_trc; exact HG1|]. split; [reflexivity|].
      cbn [set_ip set_ops a_ss a2]. rewrite Hss1. exact Hss.
    - destruct Ha1 as (A1 & A2 & A3). repeat split; assumption.
    - exact Hf1.
    - apply lkeepA_lkeep. exact Hlk1.
  Qed.

  Lemma expr_stmt_correct : forall e, stmt_spec (SExpr e).
  Proof.
    intros e pins lr il sl bt ct fuel k a g env s B Hfu Hlr Hok Hb Hit Hend Hlc Hip Hcb HR. destruct Hend as [Hend|[Hend _]]; [|discriminate Hend].
    destruct fuel as [|fuel]; [exact Logic.I|].
    cbn [ok_stmt] in Hok. rename Hok into Hoe.
    cbn [sitems] in *. rewrite app_length, map_length in *. cbn [length] in *.
    apply items_at_app in Hit as [Hce Hi]. apply items_at_CI in Hce. rewrite map_length in Hi.
    apply items_at_cons in Hi as [Hi1 _]. cbn [item_instr] in Hi1.
    destruct HR as (HG & Hops & Hss).
    pose proof (rhs_run e pins c fuel k a g env s B ltac:(lia) Hoe Hb ltac:(lia) Hce ltac:(lia) Hip Hcb Hops HG) as He.
    rewrite exec_SExpr.
    assert (Hdone : forall s1 a1 g1, xrun prog name code a g a1 g1 -> a_ip a1 = k + length (xcode c e) -> Rg pins env s1 g1 ->
              tl (frames g1) = tl (frames g) -> act_same a a1 -> a_ss a1 = a_ss a -> lkeepA (frames g) (frames g1) ->
              post pins lr sl bt ct (k + (length (xcode c e) + 1)) B env (frames g) a g (SOk SigNormal env s1)).
    { intros s1 a1 g1 R1 Hip1 HG1 Hf1 Ha1 Hss1 Hlk1.
      cbn [post]. split; [apply same_tl_refl; exact (Rg_ne _ _ _ HG)|]. split; [exact Hb|].
      exists (set_ip (set_ops a1 []) (S (a_ip a1))), (trc name a1 g1 (mkI OP_VOID [])). split; [|split; [|split; [|split; [|split]]]].
      - eapply xrun_trans; [exact R1|].
        eapply (xstep_next prog name code a1 g1 _ _ (a_ip a1) (set_ops a1 [])); [reflexivity|rewrite Hip1; exact Hi1|apply dec_void|apply exec_void].
      - cbn [set_ip a_ip]. rewrite Hip1. lia.
      - split; [apply Rg_trc; exact HG1|]. split; [reflexivity|]. cbn [set_ip set_ops a_ss]. rewrite Hss1. exact Hss.
      - apply act_same_step. exact Ha1.
      - exact Hf1.
      - apply lkeepA_lkeep. exact Hlk1. }
    destruct (eval fuel env e s) as [v s1|s1|f s1|]; cbn [rhs_res] in He; [| |exact He|exact Logic.I].
    - destruct He as (Hfo & a1 & g1 & R1 & Hip1 & Hops1 & HG1 & Hf1 & Ha1 & Hss1 & Hlk1 & Hrk1). eapply Hdone; eassumption.
    - destruct He as (a1 & g1 & R1 & Hip1 & Hops1 & HG1 & Hf1 & Ha1 & Hss1 & Hlk1 & Hrk1). eapply Hdone; eassumption.
  Qed.

  Lemma assert_correct : forall e sp, stmt_spec (SAssert e sp).
  Proof.
    intros e sp pins lr il sl bt ct fuel k a g env s B Hfu Hlr Hok Hb Hit Hend Hlc Hip Hcb HR. destruct Hend as [Hend|[Hend _]]; [|discriminate Hend].
    destruct fuel as [|fuel]; [exact Logic.I|].
    cbn [ok_stmt] in Hok. rename Hok into Hoe.
    cbn [sitems] in *. rewrite app_length, map_length in *. cbn [length] in *.
    apply items_at_app in Hit as [Hce Hi]. apply items_at_CI in Hce. rewrite map_length in Hi.
    apply items_at_cons in Hi as [Hi1 _]. cbn [item_instr] in Hi1.
    destruct HR as (HG & Hops & Hss).
    pose proof (rhs_run e pins c fuel k a g env s B ltac:(lia) Hoe Hb ltac:(lia) Hce ltac:(lia) Hip Hcb Hops HG) as He.
    rewrite exec_SAssert. rename s into s0.
    destruct (eval fuel env e s0) as [v s|s|f s|]; cbn [rhs_res] in He; [|exact Logic.I|exact He|exact Logic.I].
    destruct He as (Hfo & a1x & g1 & R1 & Hip1 & Hops1 & HG1 & Hf1 & Ha1 & Hss1 & Hlk1 & _).
    rewrite (act_ext a a1x _ _ Ha1 Hip1 Hops1 Hss1) in R1. clear a1x Hip1 Hops1 Ha1 Hss1.
    set (k1 := k + length (xcode c e)) in *.
    set (a1 := upd a k1 [inj v]) in *.
    set (i1 := mkI OP_ASSERT [sp]) in *.
    pose proof (exec_assert sp a1 (trc name a1 g1 i1) (inj v) eq_refl) as Hx.
    assert (Hfail : forall f e0, exec_d (DAssert (Some sp)) a1 (trc name a1 g1 i1) = SFail e0 -> err_rel_s f e0 ->
                                 post pins lr sl bt ct (k + (length (xcode c e) + 1)) B env (frames g) a g (SFailed f s)).
    { intros f e0 Hex Hrel. cbn [post]. apply fail_post_intro. exists e0, (trc name a1 g1 i1). split; [|split; [exact Hrel|exact (Rg_out _ _ _ HG1)]].
      eapply xrun_fail; [exact R1|]. eapply xstep_fail; [reflexivity|exact Hi1|apply dec_assert|exact Hex]. }
    destruct v as [z|[|]|t| |p bd ev]; cbn [inj val_equals] in Hx; try contradiction.
    - eapply Hfail; [exact Hx|]. cbn. auto.
    - cbn [post]. split; [apply same_tl_refl; exact (Rg_ne _ _ _ HG)|]. split; [exact Hb|].
      exists (upd a (S k1) []), (trc name a1 g1 i1). split; [|split; [|split; [|split; [|split]]]].
      + eapply xrun_trans; [exact R1|].
        eapply (xstep_next prog name code a1 g1 _ _ k1 (set_ops a1 [])); [reflexivity|exact Hi1|apply dec_assert|exact Hx].
      + cbn. lia.
      + apply Rst_upd; [|exact Hss]. apply Rg_trc. exact HG1.
      + repeat split.
      + exact Hf1.
      + apply lkeepA_lkeep. exact Hlk1.
    - eapply Hfail; [exact Hx|]. reflexivity.
    - eapply Hfail; [exact Hx|]. cbn. auto.
    - eapply Hfail; [exact Hx|]. cbn. right. eexists. reflexivity.
  Qed.

  Lemma opassign_correct : forall x o e, stmt_spec (SOpAssign x o e).
  Proof.
    intros x o e pins lr il sl bt ct fuel k a g env s B Hfu Hlr Hok Hb Hit Hend Hlc Hip Hcb HR. destruct Hend as [Hend|[Hend _]]; [|discriminate Hend].
    destruct fuel as [|fuel]; [exact Logic.I|].
    cbn [ok_stmt] in Hok. rewrite !Bool.andb_true_iff in Hok. destruct Hok as [[[Ho Hx] HxB] Hoe].
    apply src_nameb_ok in Hx. apply mem_str_In in HxB.
    cbn [sitems] in *. rewrite app_length, map_length in *. cbn [length] in *.
    apply items_at_app in Hit as [Hce Hi]. apply items_at_CI in Hce. rewrite map_length in Hi.
    apply items_at_cons in Hi as [Hi1 Hi]. apply items_at_cons in Hi as [Hi2 _]. cbn [item_instr] in Hi1, Hi2.
    destruct HR as (HG & Hops & Hss).
    pose proof (rhs_run e pins (S c) fuel k a g env s B ltac:(lia) Hoe Hb ltac:(lia) Hce ltac:(lia) Hip Hcb Hops HG) as He.
    rewrite exec_SOpAssign. rename s into s0.
    destruct (eval fuel env e s0) as [v s|s|f s|]; cbn [rhs_res] in He; [|exact Logic.I|exact He|exact Logic.I].
    destruct He as (Hfo & a1x & g1 & R1 & Hip1 & Hops1 & HG1 & Hf1 & Ha1 & Hss1 & Hlk1 & _).
    rewrite (act_ext a a1x _ _ Ha1 Hip1 Hops1 Hss1) in R1. clear a1x Hip1 Hops1 Ha1 Hss1.
    set (k1 := k + length (xcode (S c) e)) in *.
    set (a1 := upd a k1 [inj v]) in *.
    set (i1 := mkI OP_BIN_OP_ASSIGN [binop_sym o ++ [61%N]; x]) in *.
    set (g1t := trc name a1 g1 i1).
    assert (HG1t : Rg pins env s g1t) by (apply Rg_trc; exact HG1).
    destruct (Rg_lookup env s g1t x HG1t (bound_in_uname B env x Hb Hx HxB) (bound_in_look B env x Hb HxB)) as (cx & cx' & cur_ & E1 & E2 & Hp & E3 & Hfc & E4).
    rewrite (lookup_app_some _ _ (captured env) _ E1), E3.
    assert (Hlv : lookup_var a1 g1t x = Some cx') by (unfold lookup_var; now rewrite E2).
    pose proof (exec_bin_op_assign (binop_sym o ++ [61%N]) x a1 g1t cx' (inj v) (inj cur_) Hlv eq_refl E4) as Hx1.
    rewrite (op_base_arith5 o Ho) in Hx1.
    pose proof (binop_agree o cur_ v s (arith5_arith_op o Ho)) as Hag.
    pose proof (arith5_not_bool o cur_ v s) as Hnb.
    destruct (binop_sem o cur_ v s) as [r s1|s1|f s1|]; try contradiction.
    - destruct Hag as (-> & Hfr & Hbo). rewrite Hbo in Hx1. specialize (Hnb r s Ho eq_refl).
      assert (Hx2 : exec_d (DBinOpAssign (binop_sym o ++ [61%N]) x) a1 g1t
                    = SNext (set_ops a1 [inj r]) (cell_set g1t cx' (inj r))).
      { rewrite Hx1. destruct (inj r); try reflexivity. contradiction. }
      set (g2 := cell_set g1t cx' (inj r)).
      set (a2 := set_ip (set_ops a1 [inj r]) (S k1)).
      cbn [post]. split; [apply same_tl_refl; exact (Rg_ne _ _ _ HG)|]. split; [exact Hb|].
      exists (upd a (S (S k1)) []), (trc name a2 g2 (mkI OP_VOID [])). split; [|split; [|split; [|split; [|split]]]].
      + eapply xrun_trans; [exact R1|]. eapply xrun_trans.
        * eapply (xstep_next prog name code a1 g1 _ _ k1 (set_ops a1 [inj r])); [reflexivity|exact Hi1|apply dec_bin_op_assign|exact Hx2].
        * eapply (xstep_next prog name code a2 g2 _ _ (S k1) (set_ops a2 [])); [reflexivity|exact Hi2|apply dec_void|].
          apply exec_void.
      + cbn. lia.
      + apply Rst_upd; [|exact Hss]. apply Rg_trc. apply update_rel; assumption.
      + repeat split.
      + exact Hf1.
      + apply lkeepA_lkeep. exact Hlk1.
    - destruct Hag as (-> & e0 & Hbo & Hrel). rewrite Hbo in Hx1.
      cbn [post]. apply fail_post_intro. exists e0, g1t. split; [|split; [now apply err_rel_s_of|exact (Rg_out _ _ _ HG1)]].
      eapply xrun_fail; [exact R1|]. eapply xstep_fail; [reflexivity|exact Hi1|apply dec_bin_op_assign|exact Hx1].
  Qed.

  (* ---------------------------------------------------------------- break / continue (resolved placeholders) *)
  Lemma exec_jmp_pop : forall off n a g, exec_d (DJmpPop off n) a g = SGotoPop off n a g.
  Proof. reflexivity. Qed.

  Lemma Rst_popn : forall pins m env s a g' t, Rg pins (popn m env) s g' -> a_ops a = [] -> length (locals env) <= S (a_ss a) ->
    Rst pins (popn m env) s (set_ip a t) g'.
  Proof.
    intros pins m env s a g' t HG Hops Hss. split; [exact HG|]. split; [exact Hops|].
    cbn [popn locals set_ip a_ss]. rewrite skipn_length. lia.
  Qed.

  Lemma tl_skipn : forall A n (l : list A), tl (skipn n l) = skipn (S n) l.
  Proof.
    intros A. induction n as [|n IH]; intros [|x l]; try reflexivity.
    cbn [skipn]. rewrite IH. reflexivity.
  Qed.

  Lemma break_correct : stmt_spec SBreak.
  Proof.
    intros pins lr il sl bt ct fuel k a g env s B Hfu Hlr Hok Hb Hit Hend Hlc Hip Hcb HR. destruct Hend as [Hend|[Hend _]]; [|discriminate Hend].
    destruct fuel as [|fuel]; [exact Logic.I|].
    cbn [ok_stmt] in Hok. destruct Hlc as [Hsl Hlc]. specialize (Hsl Hok).
    destruct sl as [m|]; [|congruence]. destruct (Hlc m eq_refl) as (Hm1 & Hm2 & Hct & Hbt & Hlen & Hmc).
    cbn [sitems length] in *. apply items_at_cons in Hit as [Hi _]. cbn [item_instr] in Hi.
    destruct HR as (HG & Hops & Hss).
    change (Eval.exec (S fuel) env SBreak s) with (SOk SigBreak env s).
    set (i1 := mkI OP_JMP_POP [sN (bt - k); sN m]) in *.
    destruct (popn_rel m env s (trc name a g i1) (Rg_trc _ _ _ _ _ _ HG) Hm2) as (g2 & Hpop & HG2 & Hfr2 & _).
    cbn [post]. split; [apply same_tl_refl; exact (Rg_ne _ _ _ HG)|].
    exists m, (set_ip a bt), g2. split; [reflexivity|]. split; [|split; [reflexivity|split; [|split]]].
    - eapply (xstep_gotopop prog name code a g i1 _ k _ m a); [exact Hip|exact Hi| |apply exec_jmp_pop| |exact Hpop].
      + apply dec_jmp_pop2; apply small_code; lia.
      + rewrite Hip. rewrite goto_fwd by lia. f_equal. lia.
    - eapply Rst_popn; eassumption.
    - repeat split.
    - exact Hfr2.
  Qed.

  Lemma continue_correct : stmt_spec SContinue.
  Proof.
    intros pins lr il sl bt ct fuel k a g env s B Hfu Hlr Hok Hb Hit Hend Hlc Hip Hcb HR. destruct Hend as [Hend|[Hend _]]; [|discriminate Hend].
    destruct fuel as [|fuel]; [exact Logic.I|].
    cbn [ok_stmt] in Hok. destruct Hlc as [Hsl Hlc]. specialize (Hsl Hok).
    destruct sl as [m|]; [|congruence]. destruct (Hlc m eq_refl) as (Hm1 & Hm2 & Hct & Hbt & Hlen & Hmc).
    cbn [sitems length] in *. apply items_at_cons in Hit as [Hi _]. cbn [item_instr] in Hi.
    destruct HR as (HG & Hops & Hss).
    change (Eval.exec (S fuel) env SContinue s) with (SOk SigContinue env s).
    set (i1 := mkI OP_JMP_POP [sN (ct - k); sN (m - 1)]) in *.
    destruct (popn_rel (m - 1) env s (trc name a g i1) (Rg_trc _ _ _ _ _ _ HG) ltac:(lia)) as (g2 & Hpop & HG2 & Hfr2 & _).
    cbn [post]. split; [apply same_tl_refl; exact (Rg_ne _ _ _ HG)|].
    exists m, (set_ip a ct), g2. split; [reflexivity|]. split; [|split; [reflexivity|split; [|split; [|split; [|split]]]]].
    - eapply (xstep_gotopop prog name code a g i1 _ k _ (m - 1) a); [exact Hip|exact Hi| |apply exec_jmp_pop| |exact Hpop].
      + apply dec_jmp_pop2; apply small_code; lia.
      + rewrite Hip. rewrite goto_fwd by lia. f_equal. lia.
    - eapply Rst_popn; eassumption.
    - repeat split.
    - rewrite Hfr2. cbn [trc add_trace frames]. rewrite tl_skipn. f_equal. lia.
    - apply lkeep_eq. rewrite Hfr2. reflexivity.
    - cbn [after]. apply ncd_popn. apply ncd_of_bound. exact Hb.
  Qed.

  (* ================================================================ sequencing *)
  Lemma post_seq : forall pins lr sl bt ct fin B' env fs0 a g env1 a1 g1 r,
    xrun prog name code a g a1 g1 -> same_tl env env1 -> act_same a a1 ->
    post pins lr sl bt ct fin B' env1 fs0 a1 g1 r -> post pins lr sl bt ct fin B' env fs0 a g r.
  Proof.
    intros pins lr sl bt ct fin B' env fs0 a g env1 a1 g1 r Hrun Hd Hact H.
    destruct r as [sig env' s'|f s'|]; cbn [post] in *; [| |exact Logic.I].
    - destruct H as [Hd' H]. split; [eapply same_tl_trans; eassumption|].
      destruct sig as [| | |[v|]]; [| | | |exact H].
      4:{ destruct H as (env'' & a' & g' & R & Hi & Ho & Hfo & HG & Ha). exists env'', a', g'.
          split; [eapply xrun_trans; eassumption|]. repeat (split; [assumption|]). eapply act_same_trans; eassumption. }
      + destruct H as (HB & a' & g' & R & Hip & HR & Ha & Hf). split; [exact HB|]. exists a', g'.
        split; [eapply xrun_trans; eassumption|]. split; [exact Hip|]. split; [exact HR|].
        split; [eapply act_same_trans; eassumption|exact Hf].
      + destruct H as (m & a' & g' & Hsl & R & Hip & HR & Ha & Hf). exists m, a', g'. split; [exact Hsl|].
        split; [eapply xrun_trans; eassumption|]. split; [exact Hip|]. split; [exact HR|].
        split; [eapply act_same_trans; eassumption|exact Hf].
      + destruct H as (m & a' & g' & Hsl & R & Hip & HR & Ha & Hf). exists m, a', g'. split; [exact Hsl|].
        split; [eapply xrun_trans; eassumption|]. split; [exact Hip|]. split; [exact HR|].
        split; [eapply act_same_trans; eassumption|exact Hf].
    - eapply fail_post_map; [|exact H]. intros (e & g' & Hf & Hr & Ho). exists e, g'. split; [eapply xrun_fail; eassumption|]. auto.
  Qed.

  Lemma skipn_tl_eq : forall A m (l1 l2 : list A), 1 <= m -> tl l1 = tl l2 -> skipn m l1 = skipn m l2.
  Proof.
    intros A m l1 l2 Hm H. destruct m as [|m]; [lia|]. rewrite !skipn_S_tl. now rewrite H.
  Qed.

  (* the reference frames may be replaced by any list with the same tail (break / continue pop >= 1 frame) *)
  Lemma post_rebase : forall pins lr sl bt ct fin B' env fs1 fs0 a g r,
    post pins lr sl bt ct fin B' env fs1 a g r -> tl fs1 = tl fs0 -> lkeep lr fs0 fs1 -> (forall m, sl = Some m -> 1 <= m) ->
    post pins lr sl bt ct fin B' env fs0 a g r.
  Proof.
    intros pins lr sl bt ct fin B' env fs1 fs0 a g r H Htl Hlk Hm.
    destruct r as [sig env' s'|f s'|]; cbn [post] in *; [|exact H|exact Logic.I].
    destruct H as [Hd H]. split; [exact Hd|].
    destruct sig as [| | |rv]; [| | |exact H].
    - destruct H as (HB & a' & g' & R & Hip & HR & Ha & Hf & Hk). split; [exact HB|]. exists a', g'.
      repeat (split; [assumption|]). split; [congruence|eapply lkeep_trans; eassumption].
    - destruct H as (m & a' & g' & Hsl & R & Hip & HR & Ha & Hf). exists m, a', g'.
      repeat (split; [assumption|]). rewrite Hf. apply skipn_tl_eq; [now apply Hm|exact Htl].
    - destruct H as (m & a' & g' & Hsl & R & Hip & HR & Ha & Hf & Hk & Hn). exists m, a', g'.
      repeat (split; [assumption|]). split; [rewrite Hf; apply skipn_tl_eq; [now apply Hm|exact Htl]|]. split; [|exact Hn].
      pose proof (Hm m Hsl) as Hm1. destruct (m - 1) as [|m'] eqn:Em.
      + cbn [skipn] in *. eapply lkeep_trans; eassumption.
      + rewrite <- (skipn_tl_eq _ (S m') fs1 fs0 ltac:(lia) Htl). exact Hk.
  Qed.

  Lemma lc_ok_mono : forall il sl bt ct env env' hi hi', lc_ok il sl bt ct env hi -> hi' <= hi ->
    length (locals env') = length (locals env) -> lc_ok il sl bt ct env' hi'.
  Proof.
    intros il sl bt ct env env' hi hi' [H0 H] Hle Hlen. split; [exact H0|].
    intros m E. destruct (H m E) as (H1 & H2 & H3 & H4 & H5 & H6).
    rewrite Hlen. repeat split; try assumption; lia.
  Qed.

  Lemma lc_ok_m : forall il sl bt ct env hi, lc_ok il sl bt ct env hi -> forall m, sl = Some m -> 1 <= m.
  Proof. intros il sl bt ct env hi [_ H] m E. exact (proj1 (H m E)). Qed.

  Lemma sitems_pos : forall il B lr sl st, ok_stmt FT SP CD il B st = true -> 1 <= length (sitems c lr sl st).
  Proof.
    intros il B lr sl st H. destruct st; try discriminate.
    all: try (rewrite sitems_SFrom; cbv zeta; repeat rewrite app_length; cbn [length]; lia).
    all: cbn [sitems]; rewrite ?app_length; cbn [length]; try lia.
    destruct e as [e|]; [|discriminate]. rewrite app_length. cbn [length]. lia.
  Qed.

  Lemma block_of_stmts : forall l, Forall stmt_spec l -> block_spec l.
  Proof.
    induction l as [|st l IH]; intros HF pins lr il sl bt ct fuel k a g env s B Hfu Hlr Hok Hb Hit Hend Hlc Hip Hcb HR.
    - destruct fuel as [|fuel]; [exact Logic.I|]. rewrite exec_block_nil. cbn [bitems length post after_l].
      split; [apply same_tl_refl; exact (Rg_ne _ _ _ (proj1 HR))|]. split; [exact Hb|]. exists a, g.
      split; [apply xrun_refl|]. split; [lia|]. split; [exact HR|]. split; [apply act_same_refl|]. split; [reflexivity|apply lkeep_refl].
    - pose proof (Forall_inv HF) as Hst. pose proof (Forall_inv_tail HF) as Hl. specialize (IH Hl).
      destruct fuel as [|fuel]; [exact Logic.I|]. rewrite exec_block_cons.
      cbn [ok_block] in Hok. apply Bool.andb_true_iff in Hok as [Hok1 Hok2].
      cbn [bitems] in *. rewrite app_length in *. apply items_at_app in Hit as [Hit1 Hit2].
      assert (Hle : k + length (sitems c lr sl st) + length (bitems c lr sl l) <= length code).
      { destruct Hend as [H|[_ H]]; lia. }
      assert (Hend1 : endok (k + length (sitems c lr sl st)) (is_ret st)).
      { destruct l as [|st2 l2].
        - cbn [bitems length ends_ret] in Hend. rewrite Nat.add_0_r in Hend. exact Hend.
        - left. cbn [ok_block] in Hok2. apply Bool.andb_true_iff in Hok2 as [Hk2 _].
          pose proof (sitems_pos il (after B st) lr sl st2 Hk2). cbn [bitems] in Hle. rewrite app_length in Hle. lia. }
      assert (Hend2 : endok (k + length (sitems c lr sl st) + length (bitems c lr sl l)) (ends_ret l)).
      { destruct l as [|st2 l2].
        - cbn [bitems length ends_ret] in *. destruct (Nat.eq_dec (k + length (sitems c lr sl st) + 0) (length code)); [right; auto|left; lia].
        - rewrite Nat.add_assoc in Hend. exact Hend. }
      pose proof (Hst pins lr il sl bt ct fuel k a g env s B ltac:(lia) Hlr Hok1 Hb Hit1 Hend1
                      (lc_ok_mono il sl bt ct env env _ (k + length (sitems c lr sl st)) Hlc ltac:(lia) eq_refl) Hip Hcb HR) as H1.
      destruct (Eval.exec fuel env st s) as [sig env1 s1|f s1|]; [|exact H1|exact Logic.I].
      destruct sig as [| | |rv].
      + cbn [post] in H1. destruct H1 as (Hd & HB1 & a1 & g1 & R1 & Hip1 & HR1 & Ha1 & Hf1 & Hlk1).
        pose proof (IH pins lr il sl bt ct fuel (k + length (sitems c lr sl st)) a1 g1 env1 s1 (after B st) ltac:(lia) ltac:(lia) Hok2 HB1 Hit2 Hend2
                       (lc_ok_mono il sl bt ct env env1 _ (k + length (sitems c lr sl st) + length (bitems c lr sl l)) Hlc ltac:(lia) (same_tl_length _ _ (Rg_ne _ _ _ (proj1 HR)) Hd)) Hip1 (eq_trans (proj2 (proj2 Ha1)) Hcb) HR1) as H2.
        rewrite Nat.add_assoc.
        eapply post_seq; [exact R1|exact Hd|exact Ha1|].
        eapply post_rebase; [exact H2|exact Hf1|exact Hlk1|exact (lc_ok_m _ _ _ _ _ _ Hlc)].
      + exact H1.
      + cbn [post] in H1 |- *. destruct H1 as [Hd (m & a' & g' & Esl & R & Hip' & HR' & Ha' & Hf' & Hk' & Hn')]. split; [exact Hd|].
        exists m, a', g'. repeat (split; [assumption|]). cbn [after_l]. eapply ncd_mono; [|exact Hn']. intros y Hy. now apply after_l_mono.
      + exact H1.
  Qed.

  (* ================================================================ Stage 2: blocks *)
  Lemma popn_1 : forall env, popn 1 env = pop_scope env.
  Proof. intros [l cap cu]. unfold popn, pop_scope. cbn [locals captured cur]. destruct l; reflexivity. Qed.
  Lemma popn_S_pop : forall m env, popn m (pop_scope env) = popn (S m) env.
  Proof. intros m [l cap cu]. unfold popn, pop_scope. cbn [locals captured cur]. now rewrite skipn_S_tl. Qed.

  Lemma exec_done : forall a g, exec_d DDone a g = SPopScope a g.
  Proof. reflexivity. Qed.
  Lemma exec_else : forall a g, exec_d DElse a g = SPush LElse a g.
  Proof. reflexivity. Qed.
  Lemma exec_jmp : forall off a g, exec_d (DJmp off) a g = SGoto off a g.
  Proof. reflexivity. Qed.

  (* after a normal completion at fin1 the machine runs on to fin2 (e.g. the `jmp` over the else branch) *)
  Lemma post_extend : forall pins lr sl bt ct fin1 fin2 B' env fs0 a g r,
    post pins lr sl bt ct fin1 B' env fs0 a g r ->
    (forall env' s' a' g', a_ip a' = fin1 -> Rst pins env' s' a' g' ->
       exists a'' g'', xrun prog name code a' g' a'' g'' /\ a_ip a'' = fin2 /\ Rst pins env' s' a'' g'' /\ act_same a' a'' /\
                       frames g'' = frames g') ->
    post pins lr sl bt ct fin2 B' env fs0 a g r.
  Proof.
    intros pins lr sl bt ct fin1 fin2 B' env fs0 a g r H Hx.
    destruct r as [sig env' s'|f s'|]; cbn [post] in *; [|exact H|exact Logic.I].
    destruct H as [Hd H]. split; [exact Hd|]. destruct sig; try exact H.
    destruct H as (HB & a' & g' & R & Hip & HR & Ha & Hf). split; [exact HB|].
    destruct (Hx env' s' a' g' Hip HR) as (a'' & g'' & R' & Hip' & HR' & Ha' & Hf').
    exists a'', g''. split; [eapply xrun_trans; eassumption|]. split; [exact Hip'|]. split; [exact HR'|].
    split; [eapply act_same_trans; eassumption|]. rewrite Hf'. exact Hf.
  Qed.

  (* the machine has just pushed the block frame (if_stmt / else_stmt); body, then `done` *)
  Lemma in_block_run : forall body, block_spec body ->
    forall pins lr il sl bt ct fuel kb a g env s B lb, fuel <= FU -> lr <= 2 * kb ->
      ok_block FT SP CD il B body = true -> bound_in B env ->
      items_at bt ct kb (bitems c lr (option_map S sl) body ++ [I OP_DONE []]) ->
      kb + length (bitems c lr (option_map S sl) body) + 1 < length code ->
      lc_ok il sl bt ct env (kb + length (bitems c lr (option_map S sl) body) + 1) ->
      a_ip a = kb -> a_cb a = cb -> Rst pins env s a g -> special lb = true ->
      post pins lr sl bt ct (kb + length (bitems c lr (option_map S sl) body) + 1) B env (frames g)
           (set_ss a (S (a_ss a))) (push_frame g lb) (in_block_ fuel body env s).
  Proof.
    intros body Hbody pins lr il sl bt ct fuel kb a g env s B lb Hfu Hlr Hok Hb Hit Hend Hlc Hip Hcb HR Hlb.
    set (len := length (bitems c lr (option_map S sl) body)) in *.
    apply items_at_app in Hit as [Hitb Hid]. apply items_at_cons in Hid as [Hid _]. cbn [item_instr] in Hid. fold len in Hid.
    destruct HR as (HG & Hops & Hss).
    assert (Hl1 : 1 <= length (locals env)).
    { destruct (Rfr_ne _ _ _ _ (Rg_fr _ _ _ HG)) as [Hne _]. destruct (locals env); [congruence|cbn [length]; lia]. }
    assert (HR0 : Rst pins (push_scope env) s (set_ss a (S (a_ss a))) (push_frame g lb)).
    { split; [apply push_rel; assumption|]. split; [exact Hops|]. cbn [push_scope locals length set_ss a_ss]. lia. }
    assert (Hlc0 : lc_ok il (option_map S sl) bt ct (push_scope env) (kb + len)).
    { destruct Hlc as [H0 H1]. split.
      - intros Hil. specialize (H0 Hil). destruct sl; [discriminate|congruence].
      - intros m' E. destruct sl as [m|]; [|discriminate]. cbn [option_map] in E. inversion E; subst m'.
        destruct (H1 m eq_refl) as (A1 & A2 & A3 & A4 & A5 & A6). cbn [push_scope locals length].
        repeat split; try assumption; lia. }
    pose proof (Hbody pins lr il (option_map S sl) bt ct fuel kb (set_ss a (S (a_ss a))) (push_frame g lb) (push_scope env) s B
                  Hfu Hlr Hok Hb Hitb ltac:(left; fold len; lia) Hlc0 Hip Hcb HR0) as H.
    fold len in H. unfold in_block_.
    destruct (exec_block fuel (push_scope env) body s) as [sig env2 s2|f s2|]; [|exact H|exact Logic.I].
    cbn [post] in H |- *. destruct H as [Hd H].
    destruct Hd as [Htl Hne2]. cbn [push_scope locals tl] in Htl.
    assert (Hd' : same_tl env (pop_scope env2)).
    { split; cbn [pop_scope locals]; rewrite Htl; [reflexivity|exact (Rg_ne _ _ _ HG)]. }
    assert (Hlen2 : length (locals env2) = S (length (locals env))).
    { destruct (locals env2) as [|sc2 l2]; [congruence|]. cbn [tl] in Htl. subst l2. reflexivity. }
    split; [exact Hd'|].
    destruct sig as [| | |rv]; [| | |exact H].
    - (* normal: execute `done` *)
      destruct H as (_ & a2 & g2 & R2 & Hip2 & (HG2 & Hops2 & Hss2) & Ha2 & Hf2 & Hlk2).
      set (i1 := mkI OP_DONE []) in *.
      destruct (popn_rel 1 env2 s2 (trc name a2 g2 i1) (Rg_trc _ _ _ _ _ _ HG2) ltac:(lia)) as (g3 & Hpop & HG3 & Hf3 & _).
      cbn [pop_frames] in Hpop.
      destruct (pop_frame (trc name a2 g2 i1)) as [g3'|] eqn:Epop; [|discriminate]. inversion Hpop; subst g3'.
      destruct (a_ss a2) as [|k'] eqn:Ess; [lia|].
      rewrite popn_1 in HG3.
      split; [eapply bound_in_eq; [exact Hb|exact Htl]|].
      assert (Ef3 : frames g3 = frames g).
      { rewrite Hf3. cbn [trc add_trace frames]. rewrite (skipn_S_tl _ 0). cbn [skipn]. rewrite Hf2. reflexivity. }
      exists (set_ip (set_ss a2 k') (S (a_ip a2))), g3. split; [|split; [|split; [|split; [|split]]]].
      + eapply xrun_trans; [exact R2|].
        eapply (xstep_popscope prog name code a2 g2 i1 _ (kb + len) a2); [exact Hip2|exact Hid|apply dec_done|apply exec_done|exact Ess|exact Epop].
      + cbn [set_ip a_ip]. lia.
      + split; [exact HG3|]. split; [exact Hops2|].
        cbn [pop_scope locals set_ip set_ss a_ss]. destruct (locals env2); cbn [tl length] in *; lia.
      + destruct Ha2 as (A1 & A2 & A3). repeat split; assumption.
      + rewrite Ef3. reflexivity.
      + apply lkeep_eq. exact Ef3.
    - (* break: m+1 frames were popped, control is at bt *)
      destruct H as (m' & a2 & g2 & Esl & R2 & Hip2 & HR2 & Ha2 & Hf2).
      destruct sl as [m|]; [|discriminate]. cbn [option_map] in Esl. inversion Esl; subst m'.
      exists m, a2, g2. split; [reflexivity|]. split; [exact R2|]. split; [exact Hip2|]. split; [|split; [exact Ha2|exact Hf2]].
      rewrite popn_S_pop. exact HR2.
    - destruct H as (m' & a2 & g2 & Esl & R2 & Hip2 & HR2 & Ha2 & Hf2 & Hlk2 & Hn2).
      destruct sl as [m|]; [|discriminate]. cbn [option_map] in Esl. inversion Esl; subst m'.
      destruct Hlc as [_ H1]. destruct (H1 m eq_refl) as (A1 & _).
      exists m, a2, g2. split; [reflexivity|]. split; [exact R2|]. split; [exact Hip2|]. split; [|split; [exact Ha2|split; [exact Hf2|split]]].
      + rewrite popn_S_pop. replace (S (m - 1)) with (S m - 1) by lia. exact HR2.
      + destruct m as [|m0]; [lia|]. cbn [Nat.sub] in Hlk2 |- *. rewrite Nat.sub_0_r in *. exact Hlk2.
      + rewrite popn_S_pop. replace (S (m - 1)) with (S m - 1) by lia. intros y Hy Hl.
        eapply after_l_cd; [exact Hok|exact Hy|exact (Hn2 y Hy Hl)].
  Qed.

  Lemma not_bool_inj : forall v, (forall b, v <> RBool b) -> forall b, inj v <> VBool b.
  Proof. intros v H b E. destruct v; cbn in E; try discriminate. inversion E; subst. now apply (H b). Qed.

  Lemma if_correct : forall cnd body, block_spec body -> stmt_spec (SIf cnd body).
  Proof.
    intros cnd body Hbody pins lr il sl bt ct fuel k a g env s B Hfu Hlr Hok Hb Hit Hend Hlc Hip Hcb HR. destruct Hend as [Hend|[Hend _]]; [|discriminate Hend].
    destruct fuel as [|fuel]; [exact Logic.I|].
    rewrite ok_SIf in Hok. apply Bool.andb_true_iff in Hok as [Hoe Hokb].
    rewrite sitems_SIf in *. cbv zeta in *.
    set (bi := bitems c lr (option_map S sl) body) in *.
    rewrite !app_length, map_length in *. cbn [length] in *.
    apply items_at_app in Hit as [Hce Hi]. apply items_at_CI in Hce. rewrite map_length in Hi.
    apply items_at_cons in Hi as [Hi1 Hib]. cbn [item_instr I] in Hi1.
    destruct HR as (HG & Hops & Hss).
    pose proof (rhs_run cnd pins c fuel k a g env s B ltac:(lia) Hoe Hb ltac:(lia) Hce ltac:(lia) Hip Hcb Hops HG) as He.
    rewrite exec_SIf. cbn [after]. rename s into s0.
    destruct (eval fuel env cnd s0) as [v s|s|f s|]; cbn [rhs_res] in He; [|exact Logic.I|exact He|exact Logic.I].
    destruct He as (Hfo & a1x & g1 & R1 & Hip1 & Hops1 & HG1 & Hf1 & Ha1 & Hss1 & Hlk1 & _).
    rewrite (act_ext a a1x _ _ Ha1 Hip1 Hops1 Hss1) in R1. clear a1x Hip1 Hops1 Ha1 Hss1.
    set (k1 := k + length (xcode c cnd)) in *.
    set (a1 := upd a k1 [inj v]) in *.
    match type of Hi1 with _ = Some {| op := _; args := [sN ?n] |} => set (off := n) in * end.
    set (i1 := mkI OP_IF_STMT [sN off]) in *.
    assert (Hdec : decode i1 = DOk (DIf (Z.of_nat off))) by (apply dec_if; apply small_code; unfold off; lia).
    set (g1t := trc name a1 g1 i1).
    assert (HG1t : Rg pins env s g1t) by (apply Rg_trc; exact HG1).
    assert (Hnb : (forall b, v <> RBool b) -> post pins lr sl bt ct (k + (length (xcode c cnd) + (1 + (length bi + 1)))) B env (frames g) a g
                                                   (SFailed (FType 12) s)).
    { intros Hv. cbn [post]. apply fail_post_intro. exists E_not_bool, g1t. split; [|split; [cbn; auto|exact (Rg_out _ _ _ HG1)]].
      eapply xrun_fail; [exact R1|]. eapply xstep_fail; [reflexivity|exact Hi1|exact Hdec|].
      apply (exec_if_nb _ a1 g1t (inj v)); [reflexivity|now apply not_bool_inj]. }
    destruct v as [z|b|t| |p bd ev]; try (apply Hnb; intros b0; discriminate).
    pose proof (exec_if (Z.of_nat off) a1 g1t b eq_refl) as Hx.
    destruct b.
    - (* true: push <if>, run the body, done *)
      set (a1' := upd a (S k1) []).
      assert (Hblk : post pins lr sl bt ct (k + (length (xcode c cnd) + (1 + (length bi + 1)))) B env (frames g1t)
                          (set_ss a1' (S (a_ss a1'))) (push_frame g1t LIf) (in_block_ fuel body env s)).
      { replace (k + (length (xcode c cnd) + (1 + (length bi + 1)))) with (S k1 + length bi + 1) by (unfold k1; lia).
        apply (in_block_run body Hbody pins lr il sl bt ct fuel (S k1) a1' g1t env s B LIf); try assumption; try reflexivity; try lia.
        - fold bi. unfold k1. lia.
        - fold bi. eapply lc_ok_mono; [exact Hlc|unfold k1; lia|reflexivity].
        - apply Rst_upd; assumption. }
      eapply post_seq; [|apply same_tl_refl; exact (Rg_ne _ _ _ HG)| |
        eapply post_rebase; [exact Hblk|exact Hf1|apply lkeepA_lkeep; exact Hlk1|exact (lc_ok_m _ _ _ _ _ _ Hlc)]].
      + eapply xrun_trans; [exact R1|].
        eapply (xstep_push prog name code a1 g1 i1 _ k1 LIf (set_ops a1 [])); [reflexivity|exact Hi1|exact Hdec|exact Hx].
      + repeat split.
    - (* false: jump over the body *)
      cbn [post]. split; [apply same_tl_refl; exact (Rg_ne _ _ _ HG)|]. split; [exact Hb|].
      exists (upd a (k1 + off) []), g1t. split; [|split; [|split; [|split; [|split]]]].
      + eapply xrun_trans; [exact R1|].
        eapply (xstep_goto prog name code a1 g1 i1 _ k1 _ (set_ops a1 [])); [reflexivity|exact Hi1|exact Hdec|exact Hx|].
        apply goto_fwd. cbn [set_ops a_ip a1 upd set_ip]. unfold off, k1. lia.
      + cbn. unfold off, k1. lia.
      + apply Rst_upd; assumption.
      + repeat split.
      + exact Hf1.
      + apply lkeepA_lkeep. exact Hlk1.
  Qed.

  Lemma ifelse_correct : forall cnd body els, block_spec body -> block_spec els -> stmt_spec (SIfElse cnd body els).
  Proof.
    intros cnd body els Hbody Hels pins lr il sl bt ct fuel k a g env s B Hfu Hlr Hok Hb Hit Hend Hlc Hip Hcb HR. destruct Hend as [Hend|[Hend _]]; [|discriminate Hend].
    destruct fuel as [|fuel]; [exact Logic.I|].
    rewrite ok_SIfElse in Hok. rewrite !Bool.andb_true_iff in Hok. destruct Hok as [[Hoe Hokb] Hoke].
    rewrite sitems_SIfElse in *. cbv zeta in *.
    set (bi := bitems c lr (option_map S sl) body) in *.
    set (ei := bitems c lr (option_map S sl) els) in *.
    cbn [length] in *. rewrite !app_length, map_length in *. cbn [length] in *. rewrite !app_length in *. cbn [length] in *.
    apply items_at_app in Hit as [Hce Hi]. apply items_at_CI in Hce. rewrite map_length in Hi.
    apply items_at_cons in Hi as [Hi1 Hi]. cbn [item_instr I] in Hi1.
    apply items_at_app in Hi as [Hib Hi]. rewrite app_length in Hi. cbn [length] in Hi.
    apply items_at_cons in Hi as [Hi2 Hi]. cbn [item_instr I] in Hi2.
    apply items_at_cons in Hi as [Hi3 Hie]. cbn [item_instr I] in Hi3.
    destruct HR as (HG & Hops & Hss).
    pose proof (rhs_run cnd pins c fuel k a g env s B ltac:(lia) Hoe Hb ltac:(lia) Hce ltac:(lia) Hip Hcb Hops HG) as He.
    rewrite exec_SIfElse. cbn [after]. rename s into s0.
    destruct (eval fuel env cnd s0) as [v s|s|f s|]; cbn [rhs_res] in He; [|exact Logic.I|exact He|exact Logic.I].
    destruct He as (Hfo & a1x & g1 & R1 & Hip1 & Hops1 & HG1 & Hf1 & Ha1 & Hss1 & Hlk1 & _).
    rewrite (act_ext a a1x _ _ Ha1 Hip1 Hops1 Hss1) in R1. clear a1x Hip1 Hops1 Ha1 Hss1.
    set (k1 := k + length (xcode c cnd)) in *.
    set (a1 := upd a k1 [inj v]) in *.
    set (kj := S k1 + (length bi + 1)) in *.
    match type of Hi1 with _ = Some {| op := _; args := [sN ?n] |} => set (off := n) in * end.
    match type of Hi2 with _ = Some {| op := _; args := [sN ?n] |} => set (offj := n) in * end.
    set (i1 := mkI OP_IF_STMT [sN off]) in *.
    set (fin := k + (length (xcode c cnd) + (1 + (length bi + 1 + (1 + S (length ei + 1)))))) in *.
    assert (Hfin : fin = S (S kj) + length ei + 1) by (unfold fin, kj, k1; lia).
    assert (Hdec : decode i1 = DOk (DIf (Z.of_nat off))) by (apply dec_if; apply small_code; unfold off; lia).
    set (g1t := trc name a1 g1 i1).
    assert (HG1t : Rg pins env s g1t) by (apply Rg_trc; exact HG1).
    assert (Hnb : (forall b, v <> RBool b) -> post pins lr sl bt ct fin B env (frames g) a g (SFailed (FType 12) s)).
    { intros Hv. cbn [post]. apply fail_post_intro. exists E_not_bool, g1t. split; [|split; [cbn; auto|exact (Rg_out _ _ _ HG1)]].
      eapply xrun_fail; [exact R1|]. eapply xstep_fail; [reflexivity|exact Hi1|exact Hdec|].
      apply (exec_if_nb _ a1 g1t (inj v)); [reflexivity|now apply not_bool_inj]. }
    destruct v as [z|b|t| |p bd ev]; try (apply Hnb; intros b0; discriminate).
    pose proof (exec_if (Z.of_nat off) a1 g1t b eq_refl) as Hx.
    destruct b.
    - (* true: push <if>, body, done, jmp over the else branch *)
      set (a1' := upd a (S k1) []).
      assert (Hblk : post pins lr sl bt ct kj B env (frames g1t) (set_ss a1' (S (a_ss a1'))) (push_frame g1t LIf) (in_block_ fuel body env s)).
      { replace kj with (S k1 + length bi + 1) by (unfold kj; lia).
        apply (in_block_run body Hbody pins lr il sl bt ct fuel (S k1) a1' g1t env s B LIf); try assumption; try reflexivity; try lia.
        - fold bi. unfold fin, k1 in *. lia.
        - fold bi. eapply lc_ok_mono; [exact Hlc|unfold k1; lia|reflexivity].
        - apply Rst_upd; assumption. }
      eapply post_seq; [|apply same_tl_refl; exact (Rg_ne _ _ _ HG)| |].
      + eapply xrun_trans; [exact R1|].
        eapply (xstep_push prog name code a1 g1 i1 _ k1 LIf (set_ops a1 [])); [reflexivity|exact Hi1|exact Hdec|exact Hx].
      + repeat split.
      + eapply post_extend; [eapply post_rebase; [exact Hblk|exact Hf1|apply lkeepA_lkeep; exact Hlk1|exact (lc_ok_m _ _ _ _ _ _ Hlc)]|].
        intros env' s' a' g' Hip' (HG' & Hops' & Hss').
        set (ij := mkI OP_JMP [sN offj]) in *.
        exists (set_ip a' (kj + offj)), (trc name a' g' ij). split; [|split; [|split; [|split]]].
        * eapply (xstep_goto prog name code a' g' ij _ kj _ a'); [exact Hip'|exact Hi2| |apply exec_jmp|].
          -- apply dec_jmp. apply small_code. unfold offj. lia.
          -- rewrite Hip'. apply goto_fwd. unfold offj, fin, kj, k1 in *. lia.
        * cbn [set_ip a_ip]. unfold offj. lia.
        * split; [apply Rg_trc; exact HG'|]. split; [exact Hops'|exact Hss'].
        * repeat split.
        * reflexivity.
    - (* false: jump to else_stmt, push <else>, the else block, done *)
      set (ke := S kj) in *.
      set (a2 := upd a ke []).
      set (ie := mkI OP_ELSE_STMT []) in *.
      set (g2t := trc name a2 g1t ie).
      set (a2' := upd a (S ke) []).
      assert (Hblk : post pins lr sl bt ct fin B env (frames g2t) (set_ss a2' (S (a_ss a2'))) (push_frame g2t LElse) (in_block_ fuel els env s)).
      { rewrite Hfin. fold ke.
        apply (in_block_run els Hels pins lr il sl bt ct fuel (S ke) a2' g2t env s B LElse); try assumption; try reflexivity; try lia.
        - fold ei. unfold ke. lia.
        - fold ei. eapply lc_ok_mono; [exact Hlc|unfold ke; lia|reflexivity].
        - apply Rst_upd; [|exact Hss]. apply Rg_trc. exact HG1t. }
      eapply post_seq; [|apply same_tl_refl; exact (Rg_ne _ _ _ HG)| |
        eapply post_rebase; [exact Hblk|exact Hf1|apply lkeepA_lkeep; exact Hlk1|exact (lc_ok_m _ _ _ _ _ _ Hlc)]].
      + eapply xrun_trans; [exact R1|]. eapply xrun_trans.
        * eapply (xstep_goto prog name code a1 g1 i1 _ k1 _ (set_ops a1 []) g1t ke); [reflexivity|exact Hi1|exact Hdec|exact Hx|].
          cbn [set_ops a_ip a1 upd set_ip]. rewrite goto_fwd by (unfold off, fin, kj, k1 in *; lia).
          f_equal. unfold off, ke, kj. lia.
        * eapply (xstep_push prog name code a2 g1t ie _ ke LElse a2); [reflexivity|exact Hi3|apply dec_else|apply exec_else].
      + repeat split.
  Qed.

  Lemma ifelif_correct : forall cnd body nxt, block_spec body -> stmt_spec nxt -> stmt_spec (SIfElif cnd body nxt).
  Proof.
    intros cnd body nxt Hbody Hn.
    assert (Hels : block_spec [nxt]) by (apply block_of_stmts; constructor; [exact Hn|constructor]).
    pose proof (ifelse_correct cnd body [nxt] Hbody Hels) as H.
    intros pins lr il sl bt ct fuel k a g env s B Hfu Hlr Hok Hb Hit Hend Hlc Hip Hcb HR.
    assert (Es : sitems c lr sl (SIfElif cnd body nxt) = sitems c lr sl (SIfElse cnd body [nxt])).
    { rewrite sitems_SIfElif, sitems_SIfElse. cbv zeta. cbn [bitems]. rewrite app_nil_r. reflexivity. }
    assert (Ee : Eval.exec fuel env (SIfElif cnd body nxt) s = Eval.exec fuel env (SIfElse cnd body [nxt]) s).
    { destruct fuel; [reflexivity|]. rewrite exec_SIfElif, exec_SIfElse. reflexivity. }
    rewrite Es in *. rewrite Ee.
    apply (H pins lr il sl bt ct fuel k a g env s B); try assumption.
    rewrite ok_SIfElif in Hok. rewrite ok_SIfElse. cbn [ok_block]. rewrite Bool.andb_true_r. exact Hok.
  Qed.

  (* ================================================================ while *)
  Lemma items_at_resolve : forall bt ct kb F l, items_at bt ct kb (resolve F 0 0 l) ->
    items_at (kb + F) (kb + F - 1) kb l.
  Proof.
    intros bt ct kb F l H j it Hj. specialize (H j (resolve_item F 0 j it)).
    rewrite resolve_nth, Hj in H. specialize (H eq_refl). rewrite H. f_equal.
    destruct it as [i|n|n]; cbn [resolve_item item_instr I]; [reflexivity| |].
    - replace (kb + F - (kb + j)) with (F - (0 + j)) by lia. reflexivity.
    - replace (kb + F - 1 - (kb + j)) with (F - 0 - (0 + j) - 1) by lia. reflexivity.
  Qed.

  Lemma popn_0 : forall env, popn 0 env = env.
  Proof. intros [l cap cu]. reflexivity. Qed.

  (* the back edge: jmp_pop -(..) at kj pops the <while> frame and returns to the condition at k *)
  Lemma back_edge : forall pins kj n k env2 s2 a2 g2,
    nth_error code kj = Some (mkI OP_JMP_POP [neg_off n]) -> n <= length code -> kj < length code -> kj = k + n ->
    a_ip a2 = kj -> Rst pins env2 s2 a2 g2 -> 2 <= length (locals env2) ->
    exists g3, xrun prog name code a2 g2 (set_ip a2 k) g3 /\ Rst pins (pop_scope env2) s2 (set_ip a2 k) g3 /\
               frames g3 = tl (frames g2).
  Proof.
    intros pins kj n k env2 s2 a2 g2 Hi Hn Hkj Hk Hip (HG & Hops & Hss) Hlen.
    set (i1 := mkI OP_JMP_POP [neg_off n]) in *.
    destruct (popn_rel 1 env2 s2 (trc name a2 g2 i1) (Rg_trc _ _ _ _ _ _ HG) ltac:(lia)) as (g3 & Hpop & HG3 & Hf3 & _).
    rewrite popn_1 in HG3. exists g3. split; [|split].
    - eapply (xstep_gotopop prog name code a2 g2 i1 _ kj _ 1 a2); [exact Hip|exact Hi| |apply exec_jmp_pop| |exact Hpop].
      + apply dec_jmp_pop_back. apply small_code. lia.
      + rewrite Hip. rewrite goto_back by lia. f_equal. lia.
    - split; [exact HG3|]. split; [exact Hops|]. cbn [pop_scope locals set_ip a_ss].
      destruct (locals env2); cbn [tl length] in *; lia.
    - rewrite Hf3. cbn [trc add_trace frames]. rewrite (skipn_S_tl _ 0). reflexivity.
  Qed.

  Lemma while_correct : forall cnd body, block_spec body -> stmt_spec (SWhile cnd body).
  Proof.
    intros cnd body Hbody pins lr il sl bt ct fuel k a g env s B Hfu Hlr Hok Hb Hit Hend Hlc Hip Hcb HR. destruct Hend as [Hend|[Hend _]]; [|discriminate Hend].
    rewrite ok_SWhile in Hok. apply Bool.andb_true_iff in Hok as [Hoe Hokb].
    rewrite sitems_SWhile in *. cbv zeta in *.
    set (cb0 := bitems c lr (Some 1) body) in *.
    rewrite !app_length, resolve_length, !app_length, map_length in *. cbn [length] in *.
    apply items_at_app in Hit as [Hce Hi]. apply items_at_CI in Hce. rewrite map_length in Hi.
    apply items_at_cons in Hi as [Hi1 Hi]. cbn [item_instr I] in Hi1.
    apply items_at_resolve in Hi. apply items_at_app in Hi as [Hib Hi2].
    apply items_at_cons in Hi2 as [Hi2 _]. cbn [item_instr I] in Hi2.
    set (k1 := k + length (xcode c cnd)) in *.
    set (kj := S k1 + length cb0) in *.
    set (fin := k + (length (xcode c cnd) + (1 + (length cb0 + 1)))) in *.
    assert (Hfin : fin = S kj) by (unfold fin, kj, k1; lia).
    replace (S k1 + (length cb0 + 1)) with fin in Hib by lia.
    replace (fin - 1) with kj in Hib by lia.
    match type of Hi1 with _ = Some {| op := _; args := [sN ?n] |} => set (off := n) in * end.
    set (i1 := mkI OP_WHILE_LOOP [sN off]) in *.
    assert (Hdec : decode i1 = DOk (DWhile (Z.of_nat off))) by (apply dec_while; apply small_code; unfold off; lia).
    cbn [after].
    assert (Hl1 : 1 <= length (locals env)).
    { destruct HR as (HG & _). destruct (Rfr_ne _ _ _ _ (Rg_fr _ _ _ HG)) as [Hne _].
      destruct (locals env); [congruence|cbn [length]; lia]. }
    enough (Hloop : forall fs0 fuel a g env s, fuel <= FU -> bound_in B env -> lc_ok il sl bt ct env fin -> a_ip a = k -> a_cb a = cb ->
              Rst pins env s a g -> 1 <= length (locals env) -> tl (frames g) = tl fs0 -> lkeep lr fs0 (frames g) ->
              post pins lr sl bt ct fin B env fs0 a g (Eval.exec fuel env (SWhile cnd body) s))
      by (apply Hloop; auto using lkeep_refl).
    clear a g env s Hb Hlc Hip Hcb HR Hl1 Hfu fuel. intros fs0.
    induction fuel as [|fuel IH]; intros a g env s Hfu Hb Hlc Hip Hcb HR Hl1 Hfs Hlk0; [exact Logic.I|].
    destruct HR as (HG & Hops & Hss).
    pose proof (rhs_run cnd pins c fuel k a g env s B ltac:(lia) Hoe Hb ltac:(lia) Hce ltac:(lia) Hip Hcb Hops HG) as He.
    rewrite exec_SWhile. rename s into s0.
    destruct (eval fuel env cnd s0) as [v s|s|f s|]; cbn [rhs_res] in He; [|exact Logic.I|exact He|exact Logic.I].
    destruct He as (Hfo & a1x & g1 & R1 & Hip1 & Hops1 & HG1 & Hf1 & Ha1 & Hss1 & Hlk1 & _).
    rewrite (act_ext a a1x _ _ Ha1 Hip1 Hops1 Hss1) in R1. clear a1x Hip1 Hops1 Ha1 Hss1.
    fold k1 in R1.
    set (a1 := upd a k1 [inj v]) in *.
    set (g1t := trc name a1 g1 i1).
    assert (HG1t : Rg pins env s g1t) by (apply Rg_trc; exact HG1).
    assert (Hlk1t : lkeep lr fs0 (frames g1t)) by (eapply lkeep_trans; [exact Hlk0|apply lkeepA_lkeep; exact Hlk1]).
    assert (Hnb : (forall b, v <> RBool b) -> post pins lr sl bt ct fin B env fs0 a g (SFailed (FType 12) s)).
    { intros Hv. cbn [post]. apply fail_post_intro. exists E_not_bool, g1t. split; [|split; [cbn; auto|exact (Rg_out _ _ _ HG1)]].
      eapply xrun_fail; [exact R1|]. eapply xstep_fail; [reflexivity|exact Hi1|exact Hdec|].
      apply (exec_while_nb _ a1 g1t (inj v)); [reflexivity|now apply not_bool_inj]. }
    destruct v as [z|b|t| |p bd ev]; try (apply Hnb; intros b0; discriminate).
    pose proof (exec_while (Z.of_nat off) a1 g1t b eq_refl) as Hx.
    destruct b.
    2:{ (* false: leave the loop *)
      cbn [post]. split; [apply same_tl_refl; exact (Rg_ne _ _ _ HG)|]. split; [exact Hb|].
      exists (upd a (k1 + off) []), g1t. split; [|split; [|split; [|split; [|split]]]].
      + eapply xrun_trans; [exact R1|].
        eapply (xstep_goto prog name code a1 g1 i1 _ k1 _ (set_ops a1 [])); [reflexivity|exact Hi1|exact Hdec|exact Hx|].
        apply goto_fwd. cbn [set_ops a_ip a1 upd set_ip]. unfold off, fin, k1 in *. lia.
      + cbn. unfold off, fin, k1. lia.
      + apply Rst_upd; assumption.
      + repeat split.
      + exact (eq_trans Hf1 Hfs).
      + exact Hlk1t. }
    (* true: push <while>, run the body *)
    set (a1' := upd a (S k1) []).
    set (a0 := set_ss a1' (S (a_ss a1'))).
    set (g0 := push_frame g1t LWhile).
    assert (R0 : xrun prog name code a g a0 g0).
    { eapply xrun_trans; [exact R1|].
      eapply (xstep_push prog name code a1 g1 i1 _ k1 LWhile (set_ops a1 [])); [reflexivity|exact Hi1|exact Hdec|exact Hx]. }
    assert (HR0 : Rst pins (push_scope env) s a0 g0).
    { split; [apply push_rel; [exact HG1t|reflexivity]|]. split; [reflexivity|].
      cbn [push_scope locals length a0 a1' set_ss a_ss upd set_ip set_ops]. lia. }
    assert (Hlc0 : lc_ok true (Some 1) fin kj (push_scope env) (S k1 + length cb0)).
    { split; [discriminate|]. intros m E. inversion E; subst m. cbn [push_scope locals length].
      fold kj. repeat split; try lia. }
    pose proof (Hbody pins lr true (Some 1) fin kj fuel (S k1) a0 g0 (push_scope env) s B ltac:(lia) ltac:(unfold k1; lia) Hokb Hb Hib
                  ltac:(left; fold cb0; lia) Hlc0 eq_refl Hcb HR0) as H.
    fold cb0 in H. fold kj in H. unfold in_block_.
    destruct (exec_block fuel (push_scope env) body s) as [sig env2 s2|f s2|]; [| |exact Logic.I].
    2:{ (* the body fails *)
      cbn [post] in H |- *. eapply fail_post_map; [|exact H]. intros (e0 & g' & Hf & Hr & Ho). exists e0, g'.
      split; [eapply xrun_fail; eassumption|]. auto. }
    cbn [post] in H. destruct H as [Hd H].
    destruct Hd as [Htl Hne2]. cbn [push_scope locals tl] in Htl.
    assert (Hd' : same_tl env (pop_scope env2)).
    { split; cbn [pop_scope locals]; rewrite Htl; [reflexivity|exact (Rg_ne _ _ _ HG)]. }
    assert (Hlen2 : length (locals env2) = S (length (locals env))).
    { destruct (locals env2) as [|sc2 l2]; [congruence|]. cbn [tl] in Htl. subst l2. reflexivity. }
    assert (Hnext : forall a2 g2, xrun prog name code a0 g0 a2 g2 -> a_ip a2 = kj -> Rst pins env2 s2 a2 g2 -> act_same a0 a2 ->
              tl (frames g2) = frames g1t ->
              post pins lr sl bt ct fin B env fs0 a g (Eval.exec fuel (pop_scope env2) (SWhile cnd body) s2)).
    { intros a2 g2 R2 Hip2 HR2 Ha2 Hf2.
      destruct (back_edge pins kj (1 + length cb0 + length (xcode c cnd)) k env2 s2 a2 g2 Hi2 ltac:(lia) ltac:(lia)
                  ltac:(unfold kj, k1; lia) Hip2 HR2 ltac:(lia)) as (g3 & R3 & HR3 & Hf3).
      eapply (post_seq pins lr sl bt ct fin B env fs0 a g (pop_scope env2) (set_ip a2 k) g3);
        [eapply xrun_trans; [exact R0|eapply xrun_trans; [exact R2|exact R3]]|exact Hd'| |].
      - destruct Ha2 as (A1 & A2 & A3). repeat split; assumption.
      - apply IH.
        + lia.
        + eapply bound_in_eq; [exact Hb|exact Htl].
        + eapply lc_ok_mono; [exact Hlc|lia|]. cbn [pop_scope locals]. now rewrite Htl.
        + reflexivity.
        + cbn [set_ip a_cb]. rewrite (proj2 (proj2 Ha2)). exact Hcb.
        + exact HR3.
        + cbn [pop_scope locals]. rewrite Htl. exact Hl1.
        + rewrite Hf3, Hf2. exact (eq_trans Hf1 Hfs).
        + rewrite Hf3, Hf2. exact Hlk1t. }
    destruct sig as [| | |rv].
    - destruct H as (_ & a2 & g2 & R2 & Hip2 & HR2 & Ha2 & Hf2 & _). eapply Hnext; eassumption.
    - (* break: control is at fin, the <while> frame is gone *)
      destruct H as (m & a2 & g2 & Esl & R2 & Hip2 & HR2 & Ha2 & Hf2). inversion Esl; subst m.
      rewrite popn_1 in HR2.
      cbn [post]. split; [exact Hd'|]. split; [eapply bound_in_eq; [exact Hb|exact Htl]|].
      exists a2, g2. split; [eapply xrun_trans; eassumption|]. split; [exact Hip2|]. split; [exact HR2|].
      split; [destruct Ha2 as (A1 & A2 & A3); repeat split; assumption|].
      rewrite Hf2. split; [exact (eq_trans Hf1 Hfs)|exact Hlk1t].
    - (* continue: control is at the back edge, the <while> frame still there *)
      destruct H as (m & a2 & g2 & Esl & R2 & Hip2 & HR2 & Ha2 & Hf2 & _). inversion Esl; subst m.
      cbn [Nat.sub] in HR2. rewrite popn_0 in HR2. eapply Hnext; eassumption.
    - (* return from inside the loop *)
      destruct rv as [v|]; [|destruct H].
      destruct H as (env'' & a2 & g2 & R2 & Hir & Hor & Hfor & HGr & Ha2).
      cbn [post]. split; [exact Hd'|]. exists env'', a2, g2. split; [eapply xrun_trans; eassumption|].
      repeat (split; [assumption|]). destruct Ha2 as (A1 & A2 & A3). repeat split; assumption.
  Qed.

  (* ================================================================ from loops (named, non-colliding counter) *)
  Section FromIter.
    Variables (fuel : nat) (incl : bool) (hi : Z) (step : option expr) (cname : str) (collide : bool) (body : list stmt).
    Fixpoint from_iter (n : nat) (e : fenv) (s : rstate) : sres_ :=
      match n with O => SFuel | S n =>
      match lookup_scopes cname (locals e) with
      | None => SFailed (FUnbound cname) s
      | Some c =>
        match sget s c with
        | Some (RInt i) =>
          if (if incl then i <=? hi else i <? hi)%Z then
            match in_block_ fuel body e s with
            | SOk (SigNormal | SigContinue) e s =>
              let bump (sv : rvalue) (s : rstate) : sres_ :=
                match sget s c, sv with
                | Some (RInt i'), RInt d => if i32_ok (i' + d)%Z then from_iter n e (sset s c (RInt (i' + d)%Z))
                                            else SFailed FOverflow s
                | _, _ => SFailed (FType 13) s end in
              match step with
              | None => bump (RInt 1) s
              | Some se => match eval fuel e se s with
                           | EVal sv s => bump sv s | ENoVal s => SFailed (FType 3) s
                           | EFail f s => SFailed f s | EFuel => SFuel end
              end
            | SOk SigBreak e s => SOk SigNormal (if collide then e else undeclare e cname) s
            | SOk g e s => SOk g (if collide then e else undeclare e cname) s
            | r => r end
          else SOk SigNormal (if collide then e else undeclare e cname) s
        | _ => SFailed (FType 13) s end
      end end.
  End FromIter.

  Lemma exec_SFrom : forall fuel env a b incl step nm collide body s,
    Eval.exec (S fuel) env (SFrom a b incl step nm collide body) s =
    match eval fuel env a s with
    | EVal va s =>
      match eval fuel env b s with
      | EVal vb s =>
        match va, vb with
        | RInt _, RInt hi =>
          let cname := match nm with Some x => x | None => [0%N] end in
          let '(e, s) := (if collide then assign env s cname va else declare env s cname va) in
          from_iter fuel incl hi step cname collide body fuel e s
        | _, _ => SFailed (FType 13) s end
      | ENoVal s => SFailed (FType 3) s | EFail f s => SFailed f s | EFuel => SFuel end
    | ENoVal s => SFailed (FType 3) s | EFail f s => SFailed f s | EFuel => SFuel end.
  Proof. reflexivity. Qed.

  Lemma from_iter_S : forall fuel incl hi step cname collide body n e s,
    from_iter fuel incl hi step cname collide body (S n) e s =
    match lookup_scopes cname (locals e) with
    | None => SFailed (FUnbound cname) s
    | Some c =>
      match sget s c with
      | Some (RInt i) =>
        if (if incl then i <=? hi else i <? hi)%Z then
          match in_block_ fuel body e s with
          | SOk (SigNormal | SigContinue) e s =>
            let bump (sv : rvalue) (s : rstate) : sres_ :=
              match sget s c, sv with
              | Some (RInt i'), RInt d => if i32_ok (i' + d)%Z then from_iter fuel incl hi step cname collide body n e (sset s c (RInt (i' + d)%Z))
                                          else SFailed FOverflow s
              | _, _ => SFailed (FType 13) s end in
            match step with
            | None => bump (RInt 1) s
            | Some se => match eval fuel e se s with
                         | EVal sv s => bump sv s | ENoVal s => SFailed (FType 3) s
                         | EFail f s => SFailed f s | EFuel => SFuel end
            end
          | SOk SigBreak e s => SOk SigNormal (if collide then e else undeclare e cname) s
          | SOk g e s => SOk g (if collide then e else undeclare e cname) s
          | r => r end
        else SOk SigNormal (if collide then e else undeclare e cname) s
      | _ => SFailed (FType 13) s end
    end.
  Proof. reflexivity. Qed.

  (* ---------------------------------------------------------------- simple loop bounds: one instruction, no register *)
  Lemma ok_expr_weaken : forall B x e, ok_expr B e = true -> ok_expr (x :: B) e = true.
  Proof.
    intros B x e H. unfold ok_expr in *. rewrite !Bool.andb_true_iff in *. destruct H as [[H1 H2] H3].
    split; [split; assumption|]. rewrite forallb_forall in *. intros y Hy. specialize (H3 y Hy).
    rewrite Bool.andb_true_iff in *. destruct H3 as [A B0]. split; [exact A|]. cbn [mem_str]. rewrite B0. apply Bool.orb_true_r.
  Qed.

  (* ---------------------------------------------------------------- the loop head of a from loop: load_fast counter,
     load_fast end register, compare (the operand stack may still hold the stale result of the last `+=`) *)
  Lemma cmp_sem : forall (incl : bool) i hi,
    bin_op_sem (if incl then op_le else op_lt) (VInt i) (VInt hi) = OV (VBool (if incl then (i <=? hi)%Z else (i <? hi)%Z)).
  Proof. intros [|] i hi; reflexivity. Qed.

  Lemma from_cond_run : forall kc x endr (incl : bool) aL gL c0' ce i hi,
    nth_error code kc = Some (mkI OP_LOAD_FAST [x]) -> nth_error code (S kc) = Some (mkI OP_LOAD_FAST [endr]) ->
    nth_error code (S (S kc)) = Some (mkI OP_BIN_OP [if incl then op_le else op_lt]) ->
    a_ip aL = kc -> find_in_function x (frames gL) = Some c0' -> cell_get gL c0' = Some (VInt i) ->
    find_in_function endr (frames gL) = Some ce -> cell_get gL ce = Some (VInt hi) ->
    exists g', xrun prog name code aL gL (upd aL (S (S (S kc))) [VBool (if incl then (i <=? hi)%Z else (i <? hi)%Z)]) g' /\
               frames g' = frames gL /\ (forall pins env s, Rg pins env s gL -> Rg pins env s g').
  Proof.
    intros kc x endr incl aL gL c0' ce i hi H1 H2 H3 Hip Fx Cx Fe Ce. subst kc.
    set (i1 := mkI OP_LOAD_FAST [x]) in *. set (i2 := mkI OP_LOAD_FAST [endr]) in *.
    set (i3 := mkI OP_BIN_OP [if incl then op_le else op_lt]) in *.
    set (o := a_ops aL).
    set (g1 := trc name aL gL i1).
    set (kc := a_ip aL) in *.
    set (a1 := set_ip (set_ops aL (o ++ [VInt i])) (S kc)).
    set (g2 := trc name a1 g1 i2).
    set (a2 := set_ip (set_ops a1 ((o ++ [VInt i]) ++ [VInt hi])) (S (S kc))).
    set (g3 := trc name a2 g2 i3).
    exists g3. split; [|split; [reflexivity|]].
    - eapply xrun_trans; [|eapply xrun_trans].
      + eapply (xstep_next prog name code aL gL i1 _ (a_ip aL) (set_ops aL (o ++ [VInt i]))); [reflexivity|exact H1|apply dec_load_fast|].
        exact (exec_load_fast x aL g1 c0' (VInt i) Fx Cx).
      + eapply (xstep_next prog name code a1 g1 i2 _ (S kc) (set_ops a1 ((o ++ [VInt i]) ++ [VInt hi]))); [reflexivity|exact H2|apply dec_load_fast|].
        exact (exec_load_fast endr a1 g2 ce (VInt hi) Fe Ce).
      + eapply (xstep_next prog name code a2 g2 i3 _ (S (S kc)) (set_ops a2 [VBool (if incl then (i <=? hi)%Z else (i <? hi)%Z)]));
          [reflexivity|exact H3|apply dec_bin_op|].
        rewrite (exec_bin_op_gen _ a2 g3 o (VInt i) (VInt hi)) by (cbn [a2 set_ip set_ops a_ops]; now rewrite <- app_assoc).
        rewrite cmp_sem. reflexivity.
    - intros pins env s H. apply Rg_trc. apply Rg_trc. apply Rg_trc. exact H.
  Qed.

  (* the step of a from loop, after the step value d has been computed: bin_op_assign += counter
     (leaves the new value on the operand stack) *)
  Lemma from_add_run : forall p x d a2 g2 cxv i',
    nth_error code p = Some (mkI OP_BIN_OP_ASSIGN [[43%N; 61%N]; x]) ->
    a_ip a2 = p -> a_ops a2 = [VInt d] -> find_in_function x (frames g2) = Some cxv -> cell_get g2 cxv = Some (VInt i') ->
    if i32_ok (i' + d)%Z then
      exists g3', xrun prog name code a2 g2 (upd a2 (S p) [VInt (i' + d)%Z]) (cell_set g3' cxv (VInt (i' + d)%Z)) /\
                  frames g3' = frames g2 /\ (forall pins env s, Rg pins env s g2 -> Rg pins env s g3')
    else exists g3, xfail prog name code a2 g2 (E_overflow OP_BIN_OP) g3 /\ out g3 = out g2.
  Proof.
    intros p x d a2 g2 cxv i' H2 Hip Hops Fx Cx. subst p.
    set (i2 := mkI OP_BIN_OP_ASSIGN [[43%N; 61%N]; x]) in *.
    set (g2b := trc name a2 g2 i2).
    assert (Hlv : lookup_var a2 g2b x = Some cxv) by (unfold lookup_var; change (frames g2b) with (frames g2); now rewrite Fx).
    pose proof (exec_bin_op_assign [43%N; 61%N] x a2 g2b cxv (VInt d) (VInt i') Hlv Hops Cx) as Hx.
    change (op_base [43%N; 61%N]) with op_plus in Hx.
    change (bin_op_sem op_plus (VInt i') (VInt d)) with (arith OP_BIN_OP (i' + d)%Z) in Hx. unfold arith in Hx.
    destruct (i32_ok (i' + d)%Z).
    - exists g2b. split; [|split; [reflexivity|]].
      + eapply (xstep_next prog name code a2 g2 i2 _ (a_ip a2) (set_ops a2 [VInt (i' + d)%Z])); [reflexivity|exact H2|apply dec_bin_op_assign|exact Hx].
      + intros pins env s H. apply Rg_trc. exact H.
    - exists g2b. split; [|reflexivity].
      eapply xstep_fail; [reflexivity|exact H2|apply dec_bin_op_assign|exact Hx].
  Qed.

  (* the back edge with an arbitrary operand stack (a from loop leaves the result of `+=` there) *)
  Lemma back_edge_gen : forall pins kj n k env2 s2 a2 g2,
    nth_error code kj = Some (mkI OP_JMP_POP [neg_off n]) -> n <= length code -> kj < length code -> kj = k + n ->
    a_ip a2 = kj -> Rg pins env2 s2 g2 -> 2 <= length (locals env2) ->
    exists g3, xrun prog name code a2 g2 (set_ip a2 k) g3 /\ Rg pins (pop_scope env2) s2 g3 /\
               frames g3 = tl (frames g2).
  Proof.
    intros pins kj n k env2 s2 a2 g2 Hi Hn Hkj Hk Hip HG Hlen.
    set (i1 := mkI OP_JMP_POP [neg_off n]) in *.
    destruct (popn_rel 1 env2 s2 (trc name a2 g2 i1) (Rg_trc _ _ _ _ _ _ HG) ltac:(lia)) as (g3 & Hpop & HG3 & Hf3 & _).
    rewrite popn_1 in HG3. exists g3. split; [|split].
    - eapply (xstep_gotopop prog name code a2 g2 i1 _ kj _ 1 a2); [exact Hip|exact Hi| |apply exec_jmp_pop| |exact Hpop].
      + apply dec_jmp_pop_back. apply small_code. lia.
      + rewrite Hip. rewrite goto_back by lia. f_equal. lia.
    - exact HG3.
    - rewrite Hf3. cbn [trc add_trace frames]. rewrite (skipn_S_tl _ 0). reflexivity.
  Qed.

  Definition step_expr (st : option expr) : expr := match st with Some e => e | None => EInt 1 end.
  Lemma step_code_expr : forall st, step_code c st = map CI (pcode c (step_expr st)).
  Proof. intros [e|]; reflexivity. Qed.
  Lemma step_ok_expr : forall B st, step_ok B st = true -> ok_expr B (step_expr st) = true.
  Proof. intros B [e|] H; [exact H|reflexivity]. Qed.

  (* agreement of the variables of an expression between two related views of the scopes *)
  Lemma assign_captured : forall env s x v env' s', assign env s x v = (env', s') -> captured env' = captured env.
  Proof.
    intros env s x v env' s' H. unfold assign in H. destruct (lookup_scopes x (locals env)); [inversion H; reflexivity|].
    unfold declare, alloc in H. destruct (locals env); inversion H; reflexivity.
  Qed.

  Lemma agree_of : forall pins env s g env' s' e B, Rg pins env s g -> ok_expr (B ++ CD) e = true -> bound_in B env ->
    captured env' = captured env ->
    (forall y, In y (used_e e) -> lookup_scopes y (locals env') = lookup_scopes y (locals env)) ->
    (forall c0 v, sget s c0 = Some v -> sget s' c0 = Some v) ->
    forall y, In y (used_e e) -> agree env s env' s' y.
  Proof.
    intros pins env s g env' s' e B HG Hok Hb Hc Hl Hs y Hy.
    apply ok_expr_parts in Hok as (_ & _ & Hu). destruct (Hu y Hy) as [Hun Hin].
    destruct (vsrc_lookup pins env s g y HG (vsrc_of B env y Hb Hun Hin)) as (c0 & v & E1 & _ & E3 & _).
    exists c0, c0, v. split; [exact E1|]. split; [exact E3|]. split; [|now apply Hs].
    rewrite lookup_app_split, Hc, (Hl y Hy), <- lookup_app_split. exact E1.
  Qed.

  (* ================================================================ hidden counters (anonymous from loops): the counter lives
     outside the data relation -- source name `hid` / VM register L#n -- in a pinned pair of cells *)
  Lemma Rg_pins_imp : forall P P' env s g, Rg P env s g ->
    (forall cy w, vpin P' cy w -> vpin P cy w) -> (forall c0 v, spin P' c0 v -> spin P c0 v) -> Rg P' env s g.
  Proof.
    intros P P' env s g [A B D E F0 G H I0 J K L M] Hv Hs. constructor; try assumption. exact (pins_imp_ P P' _ _ _ _ H Hv Hs).
  Qed.

  (* the innermost scope / the top frame change at names that are not user names *)
  Lemma top_swap_rel : forall pins env s g sc l f fs sc' vs,
    Rg pins env s g -> locals env = sc :: l -> frames g = f :: fs ->
    (forall y, y <> hid -> assoc y sc' = assoc y sc) ->
    (forall y, uname0 y -> assoc y vs = assoc y (vars f)) -> keys_nd vs ->
    Rg pins {| locals := sc' :: l; captured := captured env; cur := cur env |} s
       (with_frames g ({| lab := lab f; vars := vs |} :: fs)).
  Proof.
    intros pins [l0 cap cu] [st ro] [cs fs0 o tr] sc l f fs sc' vs [Hfr Hb Ho Hbase Hun Hns Hpins Hnd Hfp Hfl Hcur Hcf Hcapd Hdl] El Ef Hsc Hvs Hndv.
    cbn [locals captured cur store rout cells frames out trace with_frames] in *. subst l0 fs0.
    set (f' := {| lab := lab f; vars := vs |}).
    assert (Hs : forall x, uname x -> assoc x sc' = assoc x sc) by (intros x Hx; apply Hsc; exact (uname_not_hid _ Hx)).
    assert (Hfind : forall x, uname x -> find_in_function x (f' :: fs) = find_in_function x (f :: fs)).
    { intros x Hx. cbn [find_in_function f' vars lab]. now rewrite (Hvs x (proj1 Hx)). }
    assert (Hpairs : forall c0 c0', pairs (sc' :: l) (f' :: fs) c0 c0' -> pairs (sc :: l) (f :: fs) c0 c0').
    { intros c0 c0' Hp. apply (pairs_scope sc sc' l _ _ _ Hs) in Hp. apply (pairs_top (sc :: l) f f' fs _ _ Hfind) in Hp. exact Hp. }
    constructor; cbn [locals captured cur store rout cells frames out]; try assumption.
    - apply (Rfr_scope _ _ sc); [|exact Hs]. eapply Rfr_top; [exact Hfr|reflexivity|exact Hfind].
    - eapply bij_scope; [|exact Hs]. eapply bij_top; eassumption.
    - intros y Hy. destruct (list_eq_dec N.eq_dec y hid) as [->|Hne]; [right; right; reflexivity|]. apply Hun.
      cbn [lookup_scopes] in *. now rewrite <- (Hsc y Hne).
    - cbn [NS] in *. destruct Hns as [H1 H2]. split; [|exact H2]. intros y Hyh Hy. apply H1; [exact Hyh|]. now rewrite <- (Hsc y Hyh).
    - eapply pins_sub_; [exact Hpins|exact Hpairs].
    - apply (nd_top f fs); assumption.
    - eapply pins_sub_; [exact Hfp|exact Hpairs].
    - intros f0 c0 c0' cenv cbf E. specialize (Hfl f0 c0 c0' cenv cbf E).
      assert (Hin : In f0 funs) by (apply Hfck; congruence). pose proof (Hfun0 f0 Hin) as H0.
      eapply flook_top; [exact Hfl|apply Hsc; exact (proj2 (proj2 H0))|].
      cbn [find_in_function f' vars lab]. now rewrite (Hvs f0 H0).
    - intros x0 c0 c0' Hin. specialize (Hdl x0 c0 c0' Hin). pose proof (proj1 (Hdtab _ _ Hin)) as H0.
      eapply flook_top; [exact Hdl|apply Hsc; exact (proj2 (proj2 H0))|].
      cbn [find_in_function f' vars lab]. now rewrite (Hvs x0 H0).
  Qed.

  Definition add_spin (P : pinset) (c0 : N) (v : rvalue) : pinset :=
    {| vpin := vpin P; spin := fun c1 v1 => (c1 = c0 /\ v1 = v) \/ spin P c1 v1 |}.

  (* a new source cell (pinned) *)
  Lemma alloc_rel : forall pins env s g v, Rg pins env s g ->
    Rg (add_spin pins (N.of_nat (length (store s))) v) env {| store := store s ++ [v]; rout := rout s |} g.
  Proof.
    intros pins [l cap cu] [st ro] [cs fs o tr] v [Hfr Hb Ho Hbase Hun Hns Hpins Hnd Hfp Hfl Hcur Hcf].
    cbn [locals captured cur store rout cells frames out trace] in *.
    constructor; cbn [locals captured cur store rout cells frames out]; try assumption.
    - rewrite <- (app_nil_r cs). apply Rfr_mono. exact Hfr.
    - assert (Hold : pins_ok pins l fs (st ++ [v]) (cs ++ [])) by (apply pins_mono_; exact Hpins).
      rewrite app_nil_r in Hold. destruct Hold as [H1 H2]. split; [exact H1|].
      intros c0 v0 [[-> ->]|Hq]; [|exact (H2 c0 v0 Hq)]. split.
      + rewrite Nnat.Nat2N.id, nth_error_app2, Nat.sub_diag by lia. reflexivity.
      + intros c0' Hp. apply (pairs_cellrel st cs _ _ _ _ Hfr) in Hp. apply cellrel_valid in Hp. lia.
    - rewrite <- (app_nil_r cs). apply pins_mono_. exact Hfp.
  Qed.

  (* the pins of a running anonymous loop: the counter cells (source cx, VM c') hold i, the end register cell holds hi *)
  Definition cpins (P : pinset) (cx c' : N) (i : Z) (ce : N) (hi : Z) : pinset :=
    {| vpin := fun cy w => (cy = c' /\ w = VInt i) \/ (cy = ce /\ w = VInt hi) \/ vpin P cy w;
       spin := fun c0 v => (c0 = cx /\ v = RInt i) \/ spin P c0 v |}.

  Lemma cpins_update : forall P cx c' i i' ce hi env s g, Rg (cpins P cx c' i ce hi) env s g ->
    (forall w, ~ vpin P c' w) -> (forall v, ~ spin P cx v) -> (forall w, ~ vpin fpins c' w) -> (forall v, ~ spin fpins cx v) ->
    ce <> c' ->
    Rg (cpins P cx c' i' ce hi) env (sset s cx (RInt i')) (cell_set g c' (VInt i')).
  Proof.
    intros P cx c' i i' ce hi [l cap cu] [st ro] [cs fs o tr] [Hfr Hb Ho Hbase Hun Hns Hpins Hnd Hfp Hfl Hcur Hcf] Hv Hs Hfv Hfs Hce.
    cbn [locals captured cur store rout cells frames out trace sset cell_set] in *.
    destruct Hpins as [P1 P2].
    destruct (P1 c' (VInt i) (or_introl (conj eq_refl eq_refl))) as [Hc'v Hc'p].
    destruct (P2 cx (RInt i) (or_introl (conj eq_refl eq_refl))) as [Hcxv Hcxp].
    assert (Hlc : N.to_nat c' < length cs) by (apply nth_error_Some; congruence).
    assert (Hlx : N.to_nat cx < length st) by (apply nth_error_Some; congruence).
    assert (Hoc : forall cy, cy <> c' -> nth_error (set_nth (N.to_nat c') (VInt i') cs) (N.to_nat cy) = nth_error cs (N.to_nat cy)).
    { intros cy Hne. apply nth_error_set_nth_other. intros E. apply Hne. symmetry. now apply N2Nat.inj. }
    assert (Hos : forall c0, c0 <> cx -> nth_error (set_nth (N.to_nat cx) (RInt i') st) (N.to_nat c0) = nth_error st (N.to_nat c0)).
    { intros c0 Hne. apply nth_error_set_nth_other. intros E. apply Hne. symmetry. now apply N2Nat.inj. }
    constructor; cbn [locals captured cur store rout cells frames out]; try assumption.
    - eapply Rfr_pairs_vals; [exact Hfr| |].
      + intros c0 c0' v Hp Hn. rewrite Hos; [exact Hn|]. intros ->. exact (Hcxp _ Hp).
      + intros c0 c0' w Hp Hn. rewrite Hoc; [exact Hn|]. intros ->. exact (Hc'p _ Hp).
    - split.
      + intros cy w [[-> ->]|[[-> ->]|Hq]].
        * split; [now apply nth_error_set_nth_same|exact Hc'p].
        * destruct (P1 ce (VInt hi) (or_intror (or_introl (conj eq_refl eq_refl)))) as [A B0]. split; [rewrite Hoc by exact Hce; exact A|exact B0].
        * destruct (P1 cy w (or_intror (or_intror Hq))) as [A B0]. split; [|exact B0]. rewrite Hoc; [exact A|]. intros ->. exact (Hv _ Hq).
      + intros c0 v [[-> ->]|Hq].
        * split; [now apply nth_error_set_nth_same|exact Hcxp].
        * destruct (P2 c0 v (or_intror Hq)) as [A B0]. split; [|exact B0]. rewrite Hos; [exact A|]. intros ->. exact (Hs _ Hq).
    - destruct Hfp as [F1 F2]. split.
      + intros cy w Hq. destruct (F1 cy w Hq) as [A B0]. split; [|exact B0]. rewrite Hoc; [exact A|]. intros ->. exact (Hfv _ Hq).
      + intros c0 v Hq. destruct (F2 c0 v Hq) as [A B0]. split; [|exact B0]. rewrite Hos; [exact A|]. intros ->. exact (Hfs _ Hq).
  Qed.

  Lemma lregn_inj : forall a b, small a -> small b -> lregn a = lregn b -> a = b.
  Proof. intros a b Ha Hb E. unfold lregn in E. apply app_inv_head in E. now apply sN_inj. Qed.

  (* the step expression of a from loop: the VM evaluates it inside the loop-body scope, the reference semantics outside;
     its variables (locals of the enclosing scopes, captured data variables) are not shadowed by the body's scope *)
  Lemma step_vars : forall pins envL env2 s2 g2 Bb body e,
    Rg pins env2 s2 g2 -> ok_expr (Bb ++ CD) e = true -> ok_block FT SP CD true Bb body = true ->
    bound_in Bb envL -> tl (locals env2) = locals envL -> locals env2 <> [] ->
    ncd (after_l Bb body) env2 ->
    (forall y, In y (used_e e) -> vsrc env2 y) /\ (forall y, In y (used_e e) -> agree (pop_scope env2) s2 env2 s2 y).
  Proof.
    intros pins envL env2 s2 g2 Bb body e HG Hok Hokb Hb Htl Hne Hn.
    apply ok_expr_parts in Hok as (_ & _ & Hu).
    assert (Hcore : forall y, In y (used_e e) -> vsrc env2 y /\ lookup_scopes y (tl (locals env2)) = lookup_scopes y (locals env2)).
    { intros y Hy. destruct (Hu y Hy) as [Hu0 Hin].
      destruct (in_dec (list_eq_dec N.eq_dec) y Bb) as [HyB|HyB].
      - pose proof (bound_in_uname _ _ _ Hb Hu0 HyB) as Hun. pose proof (bound_in_look _ _ _ Hb HyB) as Hl. rewrite <- Htl in Hl.
        destruct (lookup_scopes y (tl (locals env2))) as [c0|] eqn:E; [|congruence].
        assert (E2 : lookup_scopes y (locals env2) = Some c0).
        { pose proof (Rg_ns _ _ _ HG) as Hns. destruct (locals env2) as [|sc2 l2]; [congruence|]. cbn [tl] in E.
          apply NS_lookup_tl; [exact Hns|exact (uname_not_hid _ Hun)|exact E]. }
        split; [apply vsrc_local; [exact Hun|congruence]|congruence].
      - apply in_app_or in Hin as [Hin|Hin]; [contradiction|].
        assert (E2 : lookup_scopes y (locals env2) = None).
        { destruct (lookup_scopes y (locals env2)) eqn:E; [|reflexivity]. exfalso. apply HyB.
          eapply after_l_cd; [exact Hokb|exact Hin|]. apply (Hn y Hin). congruence. }
        assert (E1 : lookup_scopes y (tl (locals env2)) = None).
        { destruct (lookup_scopes y (tl (locals env2))) eqn:E; [|reflexivity]. exfalso.
          apply (lookup_tl_ne (locals env2) y); congruence. }
        split; [|congruence]. pose proof (In_CD_assoc y Hin) as Ha. destruct (assoc y cdsc) as [c0|] eqn:E; [|congruence].
        split; [exact (proj1 (Hcd y c0 E))|]. right. split; [exact E2|congruence]. }
    split; [intros y Hy; exact (proj1 (Hcore y Hy))|].
    intros y Hy. destruct (Hcore y Hy) as [Hv He]. destruct (vsrc_lookup pins env2 s2 g2 y HG Hv) as (c0 & v & E1 & _ & E3 & _).
    exists c0, c0, v. split; [|split; [exact E3|split; [exact E1|exact E3]]].
    cbn [pop_scope locals captured]. rewrite lookup_app_split, He, <- lookup_app_split. exact E1.
  Qed.

  (* from loops: proved in the second fragment (Compile/ClosSim.v); not part of this one (ok_stmt rejects them) *)
  Lemma lregn_not_uname0 : forall n, ~ uname0 (lregn n).
  Proof. intros n [_ [H _]]. exact H. Qed.

  Lemma exec_SReturn : forall fuel env e s, Eval.exec (S fuel) env (SReturn (Some e)) s =
    match eval fuel env e s with
    | EVal v s => SOk (SigReturn (Some v)) env s
    | ENoVal s => SFailed (FType 3) s | EFail f s => SFailed f s | EFuel => SFuel end.
  Proof. reflexivity. Qed.

  Lemma return_correct : forall e, stmt_spec (SReturn (Some e)).
  Proof.
    intros e pins lr il sl bt ct fuel k a g env s B Hfu Hlr Hok Hb Hit Hend Hlc Hip Hcb HR.
    destruct fuel as [|fuel]; [exact Logic.I|].
    cbn [ok_stmt] in Hok. rename Hok into Hoe.
    cbn [sitems] in *. rewrite app_length, map_length in *. cbn [length] in *.
    apply items_at_app in Hit as [Hce Hi]. apply items_at_CI in Hce. rewrite map_length in Hi.
    apply items_at_cons in Hi as [Hi1 _]. cbn [item_instr I] in Hi1.
    destruct HR as (HG & Hops & Hss).
    assert (Hend' : k + length (xcode c e) < length code) by (destruct Hend as [H|[_ H]]; lia).
    pose proof (rhs_run e pins c fuel k a g env s B ltac:(lia) Hoe Hb ltac:(lia) Hce Hend' Hip Hcb Hops HG) as He.
    rewrite exec_SReturn.
    destruct (eval fuel env e s) as [v s1|s1|f s1|]; cbn [rhs_res] in He; [|exact Logic.I|exact He|exact Logic.I].
    destruct He as (Hfo & a1 & g1 & R1 & Hip1 & Hops1 & HG1 & Hf1 & Ha1 & Hss1 & Hlk1 & Hrk1).
    cbn [post]. split; [apply same_tl_refl; exact (Rg_ne _ _ _ HG)|].
    exists env, a1, g1.
    split; [exact R1|]. split; [rewrite Hip1; exact Hi1|]. split; [exact Hops1|]. split; [exact Hfo|]. split; [exact HG1|exact Ha1].
  Qed.

  (* ================================================================ all statements, all nesting depths *)
  Theorem stmt_sim : forall st, stmt_spec st.
  Proof.
    apply (stmt_ind' (fun _ => True) stmt_spec); try (intros; exact Logic.I).
    - intros x e _. apply assign_correct.
    - intros x e _ pins lr il sl bt ct fuel k a g env s B Hfu Hlr Hok. discriminate.
    - intros x o e _. apply opassign_correct.
    - intros e _. apply print_correct.
    - intros e sp _. apply assert_correct.
    - intros e _. apply expr_stmt_correct.
    - intros cnd b _ Hb. apply if_correct. now apply block_of_stmts.
    - intros cnd b e _ Hb He. apply ifelse_correct; now apply block_of_stmts.
    - intros cnd b n _ Hb Hn. apply ifelif_correct; [now apply block_of_stmts|exact Hn].
    - intros cnd b _ Hb. apply while_correct. now apply block_of_stmts.
    - intros a b incl step nm col body _ _ _ Hbody pins lr il sl bt ct fuel k a0 g env s B Hfu Hlr Hok. rewrite ok_SFrom in Hok. discriminate.
    - apply break_correct.
    - apply continue_correct.
    - intros [e|] _; [apply return_correct|]. intros pins lr il sl bt ct fuel k a g env s B Hfu Hlr Hok. discriminate.
  Qed.

  Theorem block_sim : forall l, block_spec l.
  Proof. intros l. apply block_of_stmts. apply Forall_forall. intros st _. apply stmt_sim. Qed.

End Sim.


(* ================================================================ outside a loop the items are instructions *)
Lemma resolve_all_CI : forall F S l idx, Forall is_CI (resolve F S idx l).
Proof.
  intros F S. induction l as [|it l IH]; intros idx; cbn [resolve]; [constructor|].
  destruct it; constructor; try exact Logic.I; apply IH.
Qed.
Lemma map_CI_all : forall l, Forall is_CI (map CI l).
Proof. induction l; cbn [map]; constructor; [exact Logic.I|assumption]. Qed.

Definition ci_spec (c : nat) (st : stmt) : Prop :=
  forall B lr sl, ok_stmt FT SP CD false B st = true -> Forall is_CI (sitems c lr sl st).

Lemma bitems_CI : forall c l, Forall (ci_spec c) l ->
  forall B lr sl, ok_block FT SP CD false B l = true -> Forall is_CI (bitems c lr sl l).
Proof.
  intros c. induction l as [|st l IH]; intros HF B lr sl Hok; [constructor|].
  cbn [ok_block] in Hok. apply Bool.andb_true_iff in Hok as [H1 H2]. cbn [bitems].
  apply Forall_app. split; [exact (Forall_inv HF B lr sl H1)|exact (IH (Forall_inv_tail HF) _ lr sl H2)].
Qed.

Ltac ci_tac := repeat (first [ apply map_CI_all | apply resolve_all_CI | assumption
                             | apply Forall_app; split | apply Forall_cons | apply Forall_nil | exact Logic.I ]).

Theorem sitems_CI : forall c st, ci_spec c st.
Proof.
  intros c. apply (stmt_ind' (fun _ => True) (ci_spec c)); try (intros; exact Logic.I); unfold ci_spec.
  - intros x e _ B lr sl H. cbn [sitems]. ci_tac.
  - intros x e _ B lr sl H. discriminate.
  - intros x o e _ B lr sl H. cbn [sitems]. ci_tac.
  - intros e _ B lr sl H. cbn [sitems]. ci_tac.
  - intros e sp _ B lr sl H. cbn [sitems]. ci_tac.
  - intros e _ B lr sl H. cbn [sitems]. ci_tac.
  - intros cnd b _ Hb B lr sl H. rewrite ok_SIf in H. apply Bool.andb_true_iff in H as [H1 H2].
    rewrite sitems_SIf. cbv zeta. pose proof (bitems_CI c b Hb B lr (option_map S sl) H2). ci_tac.
  - intros cnd b e _ Hb He B lr sl H. rewrite ok_SIfElse in H. rewrite !Bool.andb_true_iff in H. destruct H as [[H1 H2] H3].
    rewrite sitems_SIfElse. cbv zeta.
    pose proof (bitems_CI c b Hb B lr (option_map S sl) H2). pose proof (bitems_CI c e He B lr (option_map S sl) H3). ci_tac.
  - intros cnd b n _ Hb Hn B lr sl H. rewrite ok_SIfElif in H. rewrite !Bool.andb_true_iff in H. destruct H as [[H1 H2] H3].
    rewrite sitems_SIfElif. cbv zeta.
    pose proof (bitems_CI c b Hb B lr (option_map S sl) H2). pose proof (Hn B lr (option_map S sl) H3). ci_tac.
  - intros cnd b _ Hb B lr sl H. rewrite sitems_SWhile. cbv zeta. ci_tac.
  - intros a b incl step nm col body _ _ _ _ B lr sl H.
    rewrite sitems_SFrom. cbv zeta. destruct col; destruct step as [e|]; cbn [step_code]; ci_tac.
  - intros B sl H. discriminate.
  - intros B sl H. discriminate.
  - intros [e|] _ B lr sl H; [|discriminate]. cbn [sitems]. ci_tac.
Qed.

Lemma bitems_all_CI : forall c l B lr sl, ok_block FT SP CD false B l = true -> Forall is_CI (bitems c lr sl l).
Proof. intros c l. apply bitems_CI. apply Forall_forall. intros st _. apply sitems_CI. Qed.

Lemma CI_strip : forall its, Forall is_CI its -> map CI (strip its) = its.
Proof.
  induction its as [|it its IH]; intros H; [reflexivity|].
  pose proof (Forall_inv H) as H1. pose proof (Forall_inv_tail H) as H2.
  destruct it; cbn in H1; try contradiction. cbn [strip map]. now rewrite IH.
Qed.

Lemma items_at_strip : forall code bt ct k its, Forall is_CI its -> code_at code k (strip its) ->
  items_at code bt ct k its.
Proof.
  intros code bt ct k its HF Hc j it Hj. rewrite <- (CI_strip its HF) in Hj.
  rewrite nth_error_map in Hj. destruct (nth_error (strip its) j) as [i|] eqn:E; [|discriminate].
  cbn [option_map] in Hj. inversion Hj; subst it. cbn [item_instr]. exact (Hc j i E).
Qed.

(* ================================================================ C01: statement lists of the fragment *)
Section Top.
Variable path : str.

Theorem cblock_correct : forall l B, ok_block FT SP CD false B l = true ->
  forall c st pins prog name pre post_ a g env s fuel,
  let mid := strip (fst (cblockT path c None l st)) in
  let code := pre ++ mid ++ post_ in
  let fin := length pre + length mid in
  (post_ <> [] \/ ends_ret l = true) -> small (c + 2 * length code + 8) -> lreg st <= 2 * length pre ->
  a_ip a = length pre -> a_cb a = cb -> Rst pins env s a g -> bound_in B env ->
  (forall fuel', fuel' < fuel -> call_ok prog fuel') ->
  (forall fuel', fuel' < fuel -> self_ok prog fuel') ->
  match exec_block fuel env l s with
  | SOk SigNormal env' s' => exists a' g',
        xrun prog name code a g a' g' /\ a_ip a' = fin /\
        Rst pins env' s' a' g' /\ act_same a a' /\ same_tl env env' /\ bound_in (after_l B l) env' /\
        tl (frames g') = tl (frames g)
  | SOk (SigReturn (Some v)) env' s' => exists env'' a' g',
        xrun prog name code a g a' g' /\ nth_error code (a_ip a') = Some (mkI OP_RET []) /\
        a_ops a' = [inj v] /\ first_order v /\ Rg pins env'' s' g' /\ act_same a a'
  | SOk _ _ _ => False
  | SFailed f s' => fail_post f (exists e g',
        xfail prog name code a g e g' /\ err_rel_s f e /\ out g' = rout s')
  | SFuel => True
  end.
Proof.
  intros l B Hok c st pins prog name pre post_ a g env s fuel mid code fin Hpost Hsm Hlr Hip Hcb HR Hb Hcall Hself.
  pose proof (bitems_all_CI c l B (lreg st) None Hok) as HCI.
  assert (Emid : mid = strip (bitems c (lreg st) None l)) by (unfold mid; now rewrite (cblockT_ok path c l FT SP CD false B None st Hok)).
  assert (Elen : length mid = length (bitems c (lreg st) None l)) by (rewrite Emid; now apply strip_CI_length).
  pose proof (block_sim prog name code c Hsm fuel Hcall Hself l pins (lreg st) false None 0 0 fuel (length pre) a g env s B (le_n _) Hlr Hok Hb) as H.
  rewrite <- Elen in H. fold fin in H.
  assert (Hit : items_at code 0 0 (length pre) (bitems c (lreg st) None l)).
  { apply items_at_strip; [exact HCI|]. rewrite <- Emid. apply code_at_embed. }
  assert (Hend : endok code fin (ends_ret l)).
  { destruct post_ as [|i0 post0].
    - right. destruct Hpost as [Hp|Hp]; [congruence|]. split; [exact Hp|]. unfold fin, code. rewrite !app_length. cbn [length]. lia.
    - left. apply embed_length. discriminate. }
  assert (Hlc : lc_ok code false None 0 0 env fin) by (split; [discriminate|intros m E; discriminate]).
  specialize (H Hit Hend Hlc Hip Hcb HR).
  destruct (exec_block fuel env l s) as [sig env' s'|f s'|]; [| |exact Logic.I].
  - cbn [post] in H. destruct H as [Hd H]. destruct sig as [| | |rv].
    + destruct H as (HB' & a' & g' & R & Hip' & HR' & Ha). exists a', g'. split; [exact R|]. split; [exact Hip'|]. split; [exact HR'|]. split; [exact (proj1 Ha)|]. split; [exact Hd|]. split; [exact HB'|exact (proj1 (proj2 Ha))].
    + destruct H as (m & ? & ? & E & _). discriminate.
    + destruct H as (m & ? & ? & E & _). discriminate.
    + destruct rv as [v|]; exact H.
  - cbn [post] in H. eapply fail_post_map; [|exact H]. intros (e & g' & R & Hr & Ho). exists e, g'. auto.
Qed.
End Top.

End Base.
Arguments Rg : clear implicits.
Arguments Rst : clear implicits.

(* ================================================================ whole modules: Eval.run vs Model.execute *)
Lemma Rst_init : forall name,
  Rst [] [] [] [] None None name no_pins [] [] no_pins {| locals := [[]]; captured := []; cur := None |} {| store := []; rout := [] |}
      (act0 name [] None) (push_frame g0 (LFun name)).
Proof.
  intros name. split; [|split; [reflexivity|cbn; lia]].
  constructor; cbn [locals captured store rout cells frames out push_frame with_frames g0 length skipn]; try reflexivity.
  - cbn [StmtRel.Rfr]. split; [|reflexivity]. intros x Hx. cbn. exact Logic.I.
  - intros c1 c1' c2 c2' H1. cbn in H1. destruct H1 as [(x & _ & E & _)|[]]. discriminate.
  - intros x Hx. cbn in Hx. congruence.
  - cbn. split; [intros y Hy; congruence|exact Logic.I].
  - split; intros ? ? [].
  - repeat constructor.
  - split; intros ? ? [].
  - intros f c0 c0' cenv cbf E. discriminate.
  - intros x c0 E. discriminate.
  - intros x c0 c0' [].
Qed.

Section Program.
Variable path : str.

Lemma cblock0_eq : forall l st, cblock0 path l st = cblockT path 0 None l st.
Proof.
  induction l as [|s l IH]; intros st; [reflexivity|]. cbn [cblock0 cblockT].
  destruct (cstmt path 0 None s st) as [cs st1]. now rewrite IH.
Qed.

Definition ret_mod : instr := {| op := OP_RET_MOD; args := [] |}.
Definition module_code (p : source) : list instr := strip (bitems 0 0 None p) ++ [ret_mod].

Lemma cprogram_frag : forall p, ok_block [] None [] false [] p = true -> cprogram path p = [(s_module_fn path, module_code p)].
Proof.
  intros p H. unfold cprogram. rewrite cblock0_eq, (cblockT_ok path 0 p [] None [] false [] None _ H). reflexivity.
Qed.

Definition vm_outcome_ok (r : routcome) (o : outcome) : Prop :=
  match r, o with
  | RODone, Done => True
  | ROFail f, RuntimeErr e _ => err_rel_s f e
  | _, _ => False
  end.

(* C01 on the fragment: the compiled module, run by the VM model, prints exactly the lines the reference semantics
   prints and ends the same way (done with an empty call stack / the related run-time error after the same
   output prefix) *)
(* FType 13 = a `from` loop whose counter / bound is not an integer (rejected by the type checker): no claim *)
Definition no_claim (r : routcome) : Prop :=
  match r with ROFail f => f = FType 13%N \/ f = FType 3%N | _ => False end.

Theorem module_correct : forall p, ok_block [] None [] false [] p = true -> small (2 * length (module_code p) + 8) ->
  forall fuel, snd (run fuel p) <> ROFuel -> no_claim (snd (run fuel p)) \/
  exists fuel', fst (fst (execute fuel' (cprogram path p) (s_module_fn path))) = fst (run fuel p) /\
                vm_outcome_ok (snd (run fuel p)) (snd (fst (execute fuel' (cprogram path p) (s_module_fn path)))).
Proof.
  intros p Hok Hsm fuel Hnf.
  set (name := s_module_fn path).
  set (P := cprogram path p).
  pose proof (cblock_correct [] [] [] [] (fun f => f) None ltac:(intros f []) ltac:(intros f []) ltac:(intros f; cbn; split; [intros []|congruence])
                None None name ltac:(intros ps E; discriminate) no_pins ltac:(intros f c0 c0' cenv cbf E; discriminate)
                ltac:(intros f c0 c0' cenv cbf ps body E; discriminate)
                [] ltac:(intros x c0 E; discriminate) [] ltac:(intros x cc [])
                (fun _ => []) [] ltac:(intros f p0 []) ltac:(intros p0 [])
                path p [] Hok 0 {| fid := 0; lreg := 0; fbuf := [] |} no_pins P name [] [ret_mod]
                (act0 name [] None) (push_frame g0 (LFun name))
                {| locals := [[]]; captured := []; cur := None |} {| store := []; rout := [] |} fuel) as H.
  cbv zeta in H. rewrite (cblockT_ok path 0 p [] None [] false [] None _ Hok) in H. cbn [fst app length Nat.add lreg] in H.
  fold (module_code p) in H.
  specialize (H ltac:(left; discriminate) Hsm (le_n _) eq_refl eq_refl (Rst_init name) ltac:(split; [intros x _; cbn; split; [congruence|intros [[]|[]]]|intros x []])
                ltac:(intros fuel' _ f ps body c0 c0' cenv cbf E; discriminate)
                ltac:(intros fuel' _ ps body cenv E; discriminate)).
  unfold run in *.
  assert (Ecode : assoc name P = Some (module_code p)).
  { unfold P. rewrite (cprogram_frag p Hok). cbn [assoc]. fold name. now rewrite str_eqb_refl. }
  destruct (exec_block fuel {| locals := [[]]; captured := []; cur := None |} p {| store := []; rout := [] |})
    as [sig env' s'|f s'|]; [| |cbn in Hnf; congruence].
  - destruct sig as [| | |[v|]]; try contradiction.
    2:{ (* a `return` at module level ends the module *)
      destruct H as (env'' & a' & g' & Hn & Hi & Hops & Hfo & HG & Ha).
      pose proof (Rg_drop _ _ _ _ _ _ _ _ _ _ _ _ _ HG) as Hdrop.
      destruct (xrun_loop _ _ _ _ _ _ _ Hn) as (N & n & Hloop).
      set (f0 := Nat.max N (n + 1)).
      set (gf := with_frames (add_trace g' (name, N.of_nat (a_ip a'), op (mkI OP_RET []), N.of_nat (length (frames g')),
                                            N.of_nat (length [inj v]))) []).
      assert (Hrun : run_fn (S f0) P name [] None g0 = RDone (Some (inj v)) gf).
      { unfold run_fn. rewrite run_fn_gen_S, Ecode.
        change (run_fn_gen (fun _ _ _ => true) f0 P) with (run_fn f0 P).
        change (fun (_ : str) (_ : nat) (_ : bool) => true) with rcT.
        replace f0 with (n + (f0 - n)) at 2 by (unfold f0; lia).
        rewrite (Hloop f0 ltac:(unfold f0; lia)).
        destruct (f0 - n) as [|k] eqn:Ek; [unfold f0 in Ek; lia|].
        cbn [loop]. rewrite Hi. unfold Model.exec. change (decode (mkI OP_RET [])) with (DOk DRet). cbn [exec_d].
        rewrite Hops. cbn [add_trace frames]. rewrite Hdrop. reflexivity. }
      right. exists (S f0). unfold execute. fold P. rewrite Hrun. cbn [fst snd gf with_frames frames out add_trace].
      split; [exact (Rg_out _ _ _ _ _ _ _ _ _ _ _ _ _ HG)|exact Logic.I]. }
    destruct H as (a' & g' & Hn & Hip & (HG & Hops & Hss) & Ha & Hd).
    destruct Hd as (Hd & HB' & _). pose proof (same_tl_length {| locals := [[]]; captured := []; cur := None |} env' ltac:(cbn; discriminate) Hd) as Hl. cbn [locals length] in Hl.
    pose proof (Rg_base _ _ _ _ _ _ _ _ _ _ _ _ _ HG) as Hbase. rewrite Hl in Hbase.
    pose proof (Rg_fr _ _ _ _ _ _ _ _ _ _ _ _ _ HG) as Hfr.
    destruct (locals env') as [|sc [|sc' l']]; cbn [length] in Hl; try discriminate.
    destruct g' as [cs' fs' o' tr']. cbn [frames out] in *.
    destruct fs' as [|f fs]; [cbn in Hfr; contradiction|]. cbn [skipn] in Hbase. subst fs.
    cbn [StmtRel.Rfr] in Hfr. destruct Hfr as [_ Hsp].
    destruct (xrun_loop _ _ _ _ _ _ _ Hn) as (N & n & Hloop).
    set (f0 := Nat.max N (n + 1)).
    assert (Hrun : exists tr'', run_fn (S f0) P name [] None g0
                   = RDone (Some VModule) {| cells := cs'; frames := []; out := o'; trace := tr'' |}).
    { eexists. unfold run_fn. rewrite run_fn_gen_S, Ecode.
      change (run_fn_gen (fun _ _ _ => true) f0 P) with (run_fn f0 P).
      change (fun (_ : str) (_ : nat) (_ : bool) => true) with rcT.
      replace f0 with (n + (f0 - n)) at 2 by (unfold f0; lia).
      rewrite (Hloop f0 ltac:(unfold f0; lia)).
      destruct (f0 - n) as [|k] eqn:Ek; [unfold f0 in Ek; lia|].
      cbn [loop]. rewrite Hip. unfold module_code at 1. rewrite nth_error_app2 by lia. rewrite Nat.sub_diag.
      cbn [nth_error]. unfold Model.exec. change (decode ret_mod) with (DOk DRetMod). cbn [exec_d].
      rewrite Hops. cbn [add_trace frames with_frames drop_to_function cells out trace]. rewrite Hsp. reflexivity. }
    destruct Hrun as [tr'' Hrun]. right.
    exists (S f0). unfold execute. fold P. rewrite Hrun. cbn [fst snd frames out].
    split; [exact (Rg_out _ _ _ _ _ _ _ _ _ _ _ _ _ HG)|exact Logic.I].
  - apply fail_post_inv in H. destruct H as [[->| ->]|H]; [left; left; reflexivity|left; right; reflexivity|right].
    destruct H as (e & g' & Hn & Hr & Ho).
    destruct (xfail_loop _ _ _ _ _ _ _ Hn) as (N & n & Hloop).
    assert (Hrun : run_fn (S (Nat.max N n)) P name [] None g0 = RFail e g').
    { unfold run_fn. rewrite run_fn_gen_S, Ecode.
      change (run_fn_gen (fun _ _ _ => true) (Nat.max N n) P) with (run_fn (Nat.max N n) P).
      change (fun (_ : str) (_ : nat) (_ : bool) => true) with rcT.
      replace (Nat.max N n) with (n + (Nat.max N n - n)) at 2 by lia.
      apply (Hloop (Nat.max N n)). lia. }
    exists (S (Nat.max N n)). unfold execute. fold P. rewrite Hrun.
    cbn [fst snd]. split; [exact Ho|exact Hr].
Qed.
End Program.
