(* C01 / C07, closures -- part 2: the relation between the reference semantics (Lang/Eval.v) and the VM model for
   programs with first-class function values.

     cinj          a typed partial bijection between source cells and VM cells (it only grows)
     vrel          related values: a first-order value and its injection / a closure and a VFun whose code is the
                   compiled literal and whose captured cells are related to the captured environment
     heap_ok       related cells hold related values (cells are mutable and shared: `modify`)
     Rfr2 / Cl     the scopes of the current activation vs its frames; the captured environment vs the captured cells *)
From Coq Require Import List Arith ZArith Lia Bool.
Import ListNotations.
From MS Require Import Base.Str Vm.Model Lang.Syntax Lang.Eval Compile.Compile Compile.ExprBase Compile.ExprSim.
From MS Require Import Compile.StmtMach Compile.StmtRel Compile.StmtFrag Compile.StmtSim Compile.StmtFun Compile.ClosFrag.
Open Scope nat_scope.

Definition cinj := N -> N -> kind -> Prop.
Definition cinj_le (b b' : cinj) : Prop := forall c c' k, b c c' k -> b' c c' k.
(* b' extends b by pairs of cells that are new in both states *)
Definition bext (b b' : cinj) (s : rstate) (g : gstate) : Prop :=
  cinj_le b b' /\
  forall c c' k, b' c c' k -> b c c' k \/ (length (store s) <= N.to_nat c /\ length (cells g) <= N.to_nat c').
Definition add_pair (b : cinj) (c c' : N) (k : kind) : cinj :=
  fun d d' k' => b d d' k' \/ (d = c /\ d' = c' /\ k' = k).
(* the VM cells outside the relation (registers) keep their values *)
Definition keep (b : cinj) (g g' : gstate) : Prop :=
  forall c' w, cell_get g c' = Some w -> (forall c k, ~ b c c' k) -> cell_get g' c' = Some w.

Lemma cinj_le_refl : forall b, cinj_le b b.
Proof. intros b c c' k H. exact H. Qed.
Lemma cinj_le_trans : forall a b c, cinj_le a b -> cinj_le b c -> cinj_le a c.
Proof. intros a b c H1 H2 x y k H. exact (H2 _ _ _ (H1 _ _ _ H)). Qed.
Lemma bext_refl : forall b s g, bext b b s g.
Proof. intros b s g. split; [apply cinj_le_refl|]. intros c c' k H. now left. Qed.
Lemma bext_trans : forall b b1 b2 s g s1 g1, bext b b1 s g -> bext b1 b2 s1 g1 ->
  length (store s) <= length (store s1) -> length (cells g) <= length (cells g1) -> bext b b2 s g.
Proof.
  intros b b1 b2 s g s1 g1 [A1 A2] [B1 B2] Hs Hg. split; [eapply cinj_le_trans; eassumption|].
  intros c c' k H. destruct (B2 _ _ _ H) as [H1|[H1 H2]]; [exact (A2 _ _ _ H1)|right; lia].
Qed.
Lemma keep_refl : forall b g, keep b g g.
Proof. intros b g c' w H _. exact H. Qed.

Definition cbget (cb : option (list (str * N))) (x : str) : option N :=
  match cb with Some m => assoc x m | None => None end.

Section Rel.
Variable path : str.
Variable prog : program.

(* the functions a piece of code defines are in the program (and small enough for the decimal codec) *)
Definition installed (fb : fbl) : Prop :=
  forall n cc code, In (n, cc, code) fb -> assoc n prog = Some code /\ small (cc + 2 * length code + 8).
Lemma installed_app : forall f1 f2, installed (f1 ++ f2) <-> installed f1 /\ installed f2.
Proof.
  intros f1 f2. unfold installed. split.
  - intros H. split; intros n cc code Hin; apply H; apply in_or_app; [now left|now right].
  - intros [H1 H2] n cc code Hin. apply in_app_or in Hin as [Hin|Hin]; [now apply H1|now apply H2].
Qed.
Lemma installed_nil : installed [].
Proof. intros n cc code []. Qed.

(* the literal (ps, body) is well-kinded under the captured context G, with parameter kinds pk and result kind r *)
Definition kfn_ok (G : kctx) (ps : list str) (body : list stmt) (pk : list kind) (r : kind) : Prop :=
  pk = map (pkind body) ps /\ NoDup ps /\ forallb src_nameb ps = true /\ map fst G = free_vars ps body /\
  (r = KN \/ last_ret body = true) /\
  exists B' rets, kblock (Some (pk, r)) false (rev (combine ps pk)) G body = Some (B', rets) /\
                  (forall k, In k rets -> k = r \/ (r = KN /\ k = KD)).

Definition clos_ok (b : cinj) (pk : list kind) (r : kind) (ps : list str) (body : list stmt) (cenv : list scope)
           (loc : str) (cb : option (list (str * N))) : Prop :=
  exists G d lr k,
    kfn_ok G ps body pk r /\
    loc = fn_name path (k + length (snd (bc path (S d) lr None k body))) /\
    installed (snd (ec path d lr k (EFn ps body))) /\
    forall x kx, In (x, kx) G -> uname0 x /\ exists c c', lookup_scopes x cenv = Some c /\ cbget cb x = Some c' /\ b c c' kx.

Definition vrel (b : cinj) (k : kind) (v : rvalue) (w : value) : Prop :=
  match k with
  | KD | KN => first_order v /\ w = inj v
  | KF pk r => exists ps body cenv loc cb, v = RClos ps body cenv /\ w = VFun loc cb /\ clos_ok b pk r ps body cenv loc cb
  end.

Definition heap_ok (b : cinj) (s : rstate) (g : gstate) : Prop :=
  (forall c c' k, b c c' k -> exists v w, sget s c = Some v /\ cell_get g c' = Some w /\ vrel b k v w) /\
  (forall c1 c1' k1 c2 c2' k2, b c1 c1' k1 -> b c2 c2' k2 -> (c1 = c2 <-> c1' = c2') /\ (c1 = c2 -> k1 = k2)).

Lemma clos_ok_mono : forall b b' pk r ps body cenv loc cb, cinj_le b b' ->
  clos_ok b pk r ps body cenv loc cb -> clos_ok b' pk r ps body cenv loc cb.
Proof.
  intros b b' pk r ps body cenv loc cb Hle (G & d & lr & k & H1 & H2 & H3 & H4). exists G, d, lr, k.
  split; [exact H1|]. split; [exact H2|]. split; [exact H3|]. intros x kx Hin. destruct (H4 x kx Hin) as (Hx & c & c' & A1 & A2 & A3).
  split; [exact Hx|]. exists c, c'. auto.
Qed.
Lemma vrel_mono : forall b b' k v w, cinj_le b b' -> vrel b k v w -> vrel b' k v w.
Proof.
  intros b b' [|pk r|] v w Hle H; [exact H| |exact H]. destruct H as (ps & body & cenv & loc & cb & E1 & E2 & H).
  exists ps, body, cenv, loc, cb. split; [exact E1|]. split; [exact E2|]. eapply clos_ok_mono; eassumption.
Qed.

Lemma heap_valid : forall b s g c c' k, heap_ok b s g -> b c c' k -> N.to_nat c < length (store s) /\ N.to_nat c' < length (cells g).
Proof.
  intros b s g c c' k [H _] Hb. destruct (H _ _ _ Hb) as (v & w & A1 & A2 & _). unfold sget, cell_get in *.
  split; apply nth_error_Some; congruence.
Qed.

(* heap_ok only looks at the store and the cells *)
Lemma heap_ok_same : forall b s g s' g', heap_ok b s g -> store s' = store s -> cells g' = cells g -> heap_ok b s' g'.
Proof.
  intros b s g s' g' [H1 H2] Es Eg. split; [|exact H2]. intros c c' k Hb. destruct (H1 _ _ _ Hb) as (v & w & A1 & A2 & A3).
  exists v, w. unfold sget, cell_get in *. rewrite Es, Eg. auto.
Qed.

(* a related pair of cells is written *)
Lemma heap_update : forall b s g c c' k v w, heap_ok b s g -> b c c' k -> vrel b k v w ->
  heap_ok b (sset s c v) (cell_set g c' w).
Proof.
  intros b s g c c' k v w [H1 H2] Hb Hv. destruct (heap_valid b s g c c' k (conj H1 H2) Hb) as [Hc Hc'].
  split; [|exact H2]. intros d d' k' Hd. destruct (H2 _ _ _ _ _ _ Hd Hb) as [Hiff Hk].
  destruct (N.eq_dec d c) as [->|Hne].
  - assert (d' = c') by (apply Hiff; reflexivity). subst d'. rewrite (Hk eq_refl). exists v, w.
    unfold sget, sset, cell_get, cell_set. cbn [store cells]. rewrite !nth_error_set_nth_same by assumption. auto.
  - assert (Hne' : d' <> c') by (intros E; apply Hne, Hiff; exact E).
    destruct (H1 _ _ _ Hd) as (v0 & w0 & A1 & A2 & A3). exists v0, w0.
    unfold sget, sset, cell_get, cell_set in *. cbn [store cells].
    rewrite !nth_error_set_nth_other; [auto| |]; intros E; [apply Hne'|apply Hne]; now apply N2Nat.inj.
Qed.

(* a new related pair of cells *)
Lemma heap_alloc : forall b s g k v w, heap_ok b s g -> vrel b k v w ->
  let c := N.of_nat (length (store s)) in let c' := N.of_nat (length (cells g)) in
  forall s' g', store s' = store s ++ [v] -> cells g' = cells g ++ [w] ->
  heap_ok (add_pair b c c' k) s' g' /\ bext b (add_pair b c c' k) s g.
Proof.
  intros b s g k v w H Hv c c' s' g' Es Eg. pose proof H as [H1 H2].
  assert (Hle : cinj_le b (add_pair b c c' k)) by (intros x y z Hb; left; exact Hb).
  split; [split|].
  - intros d d' k' [Hd|(-> & -> & ->)].
    + destruct (H1 _ _ _ Hd) as (v0 & w0 & A1 & A2 & A3). exists v0, w0. unfold sget, cell_get in *. rewrite Es, Eg.
      rewrite !nth_error_app1 by (apply nth_error_Some; congruence). split; [exact A1|]. split; [exact A2|].
      eapply vrel_mono; eassumption.
    + exists v, w. unfold sget, cell_get, c, c'. rewrite Es, Eg, !Nnat.Nat2N.id.
      rewrite !nth_error_app2 by lia. rewrite !Nat.sub_diag. split; [reflexivity|]. split; [reflexivity|].
      eapply vrel_mono; eassumption.
  - intros c1 c1' k1 c2 c2' k2 [Ha|(-> & -> & ->)] [Hb|(-> & -> & ->)].
    + exact (H2 _ _ _ _ _ _ Ha Hb).
    + destruct (heap_valid _ _ _ _ _ _ H Ha) as [A1 A2]. unfold c, c'. split; [split|]; intros E; subst; rewrite Nnat.Nat2N.id in *; lia.
    + destruct (heap_valid _ _ _ _ _ _ H Hb) as [A1 A2]. unfold c, c'. split; [split|]; intros E; subst; rewrite Nnat.Nat2N.id in *; lia.
    + split; [tauto|reflexivity].
  - split; [exact Hle|]. intros d d' k' [Hd|(-> & -> & ->)]; [now left|right]. unfold c, c'. rewrite !Nnat.Nat2N.id. lia.
Qed.

(* the VM allocates a cell of its own (a register) *)
Lemma heap_vm_alloc : forall b s g g' w, heap_ok b s g -> cells g' = cells g ++ [w] -> heap_ok b s g'.
Proof.
  intros b s g g' w [H1 H2] Eg. split; [|exact H2]. intros c c' k Hb. destruct (H1 _ _ _ Hb) as (v0 & w0 & A1 & A2 & A3).
  exists v0, w0. unfold cell_get in *. rewrite Eg. rewrite nth_error_app1 by (apply nth_error_Some; congruence). auto.
Qed.
Lemma heap_mono : forall b b' s g, heap_ok b' s g -> cinj_le b b' -> forall c c' k, b c c' k ->
  exists v w, sget s c = Some v /\ cell_get g c' = Some w /\ vrel b' k v w.
Proof. intros b b' s g [H1 _] Hle c c' k Hb. exact (H1 _ _ _ (Hle _ _ _ Hb)). Qed.

(* ================================================================ scopes vs frames *)
Definition brel (b : cinj) (c c' : N) : Prop := exists k, b c c' k.
(* P: the names the VM binds only if the reference semantics does (all names, except while the upper bound of a `from` loop
   with a named counter is evaluated: the VM has bound the counter already) *)
Variable P : str -> Prop.
Definition orelP {A B} (p : Prop) (R : A -> B -> Prop) (x : option A) (y : option B) : Prop :=
  match x, y with Some a, Some b => R a b | None, None => True | Some _, None => False | None, Some _ => ~ p end.
Lemma orelP_impl : forall A B (p : Prop) (R R' : A -> B -> Prop) x y, (forall a b, R a b -> R' a b) -> orelP p R x y -> orelP p R' x y.
Proof. intros A B p R R' [a|] [b|] H H0; cbn in *; auto. Qed.
Definition look2 (b : cinj) (l : list scope) (fs : list frame) : Prop :=
  forall x, uname0 x -> orelP (P x) (brel b) (lookup_scopes x l) (find_in_function x fs).
Fixpoint Rfr2 (b : cinj) (l : list scope) (fs : list frame) {struct l} : Prop :=
  match l, fs with
  | _ :: l', f :: fs' =>
    look2 b l fs /\
    match l' with
    | [] => special (lab f) = false
    | _ :: _ => special (lab f) = true /\ Rfr2 b l' fs'
    end
  | _, _ => False
  end.

Lemma Rfr2_look : forall b l fs, Rfr2 b l fs -> look2 b l fs.
Proof. intros b [|sc l] [|f fs] H; cbn in H; try contradiction. exact (proj1 H). Qed.
Lemma Rfr2_ne : forall b l fs, Rfr2 b l fs -> l <> [] /\ fs <> [].
Proof. intros b [|sc l] [|f fs] H; cbn in H; try contradiction. split; discriminate. Qed.
Lemma Rfr2_mono : forall b b' l fs, cinj_le b b' -> Rfr2 b l fs -> Rfr2 b' l fs.
Proof.
  intros b b' l fs Hle. revert fs. induction l as [|sc l IH]; intros [|f fs] H; cbn in H; try contradiction.
  destruct H as [Hl H]. cbn [Rfr2]. split.
  - intros x Hx. eapply orelP_impl; [|exact (Hl x Hx)]. intros c c' [k Hk]. exists k. now apply Hle.
  - destruct l as [|sc' l]; [exact H|]. destruct H as [Hs H]. split; [exact Hs|]. now apply IH.
Qed.
Lemma Rfr2_pop : forall b sc sc' l f fs, Rfr2 b (sc :: sc' :: l) (f :: fs) -> Rfr2 b (sc' :: l) fs.
Proof. intros b sc sc' l f fs H. cbn [Rfr2] in H. exact (proj2 (proj2 H)). Qed.
Lemma Rfr2_top_special : forall b sc sc' l f fs, Rfr2 b (sc :: sc' :: l) (f :: fs) -> special (lab f) = true.
Proof. intros b sc sc' l f fs H. cbn [Rfr2] in H. exact (proj1 (proj2 H)). Qed.
Lemma Rfr2_length : forall b l fs, Rfr2 b l fs -> length l <= length fs.
Proof.
  intros b. induction l as [|sc l IH]; intros [|f fs] H; cbn in H; try contradiction.
  destruct H as [_ H]. destruct l as [|sc' l]; cbn [length]; [lia|].
  destruct H as [_ H]. specialize (IH fs H). cbn [length] in IH. lia.
Qed.
(* the top frame changes at names that are not user names (registers) *)
Lemma Rfr2_top : forall b l f f' fs, Rfr2 b l (f :: fs) -> lab f' = lab f ->
  (forall x, uname0 x -> find_in_function x (f' :: fs) = find_in_function x (f :: fs)) ->
  Rfr2 b l (f' :: fs).
Proof.
  intros b [|sc l] f f' fs H Hlab Hfind; cbn in H; [contradiction|].
  destruct H as [Hl H]. cbn [Rfr2]. split.
  - intros x Hx. rewrite (Hfind x Hx). exact (Hl x Hx).
  - rewrite Hlab. exact H.
Qed.
(* a new variable in the innermost scope / the top frame *)
Lemma Rfr2_declare : forall b sc l f fs x c c' k,
  Rfr2 b (sc :: l) (f :: fs) -> b c c' k ->
  Rfr2 b (assoc_set x c sc :: l) ({| lab := lab f; vars := assoc_set x c' (vars f) |} :: fs).
Proof.
  intros b sc l f fs x c c' k H Hb. cbn [Rfr2] in H |- *. destruct H as [Hl H]. split; [|exact H].
  intros y Hy. cbn [lookup_scopes find_in_function vars lab].
  destruct (list_eq_dec N.eq_dec y x) as [->|Hne].
  - rewrite !assoc_set_same. cbn [orelP]. exists k. exact Hb.
  - rewrite !assoc_set_other by exact Hne. exact (Hl y Hy).
Qed.
Lemma Rfr2_push : forall b l fs lb, Rfr2 b l fs -> special lb = true ->
  Rfr2 b ([] :: l) ({| lab := lb; vars := [] |} :: fs).
Proof.
  intros b l fs lb H Hs. destruct (Rfr2_ne _ _ _ H) as [Hl _].
  destruct l as [|sc l]; [congruence|]. cbn [Rfr2]. split; [|split; [exact Hs|exact H]].
  intros x Hx. cbn [lookup_scopes assoc find_in_function vars lab]. rewrite Hs.
  exact (Rfr2_look _ _ _ H x Hx).
Qed.
Lemma Rfr2_drop : forall b l fs, Rfr2 b l fs -> drop_to_function fs = skipn (length l) fs.
Proof.
  intros b. induction l as [|sc l IH]; intros [|f fs] H; cbn in H; try contradiction.
  destruct H as [_ H]. cbn [drop_to_function length skipn]. destruct l as [|sc' l].
  - rewrite H. reflexivity.
  - destruct H as [Hs H]. rewrite Hs. exact (IH fs H).
Qed.
(* removing a name from the innermost scope / the top frame *)
Lemma Rfr2_undeclare : forall b sc l f fs x vs,
  Rfr2 b (sc :: l) (f :: fs) -> uname0 x ->
  (forall y, uname0 y -> y <> x -> assoc y vs = assoc y (vars f)) -> assoc x vs = None ->
  assoc x (assoc_del x sc) = None -> lookup_scopes x l = None ->
  Rfr2 b (assoc_del x sc :: l) ({| lab := lab f; vars := vs |} :: fs).
Proof.
  intros b sc l f fs x vs H Hx Hvs Hxv Hxs Hxl. cbn [Rfr2] in H |- *. destruct H as [Hl H]. split; [|exact H].
  intros y Hy. cbn [lookup_scopes find_in_function vars lab].
  destruct (list_eq_dec N.eq_dec y x) as [->|Hne].
  - rewrite Hxv, Hxs, Hxl. destruct l as [|sc' l'].
    + rewrite H. exact Logic.I.
    + destruct H as [Hs H]. rewrite Hs. pose proof (Rfr2_look _ _ _ H x Hx) as Hk. rewrite Hxl in Hk. exact Hk.
  - rewrite assoc_del_other by exact Hne. rewrite (Hvs y Hy Hne). exact (Hl y Hy).
Qed.

(* ================================================================ one activation *)
Section Act.
Variable cb : option (list (str * N)).     (* the captured cells of the executing function value (a_cb) *)
Variable CD : kctx.                        (* the captured names and their kinds *)
Variable base : list frame.                (* the frames of the callers *)
Variable fnm : str.                        (* the name of the executing function (call_self) *)
Variable SF : sfk.                         (* inside a function literal: the kinds of its parameters and result *)

(* B lists exactly the names bound in the scopes of the activation *)
Definition bound2 (B : kctx) (env : fenv) : Prop :=
  (forall x, x <> hid -> (lookup_scopes x (locals env) <> None <-> In x (map fst B))) /\ (forall x, In x (map fst B) -> uname0 x).
Lemma bound2_in : forall B env x, bound2 B env -> x <> hid -> lookup_scopes x (locals env) <> None -> In x (map fst B).
Proof. intros B env x [H _] Hx Hl. exact (proj1 (H x Hx) Hl). Qed.
Lemma bound2_declare : forall B env x k c sc l env', bound2 B env -> locals env = sc :: l -> locals env' = assoc_set x c sc :: l ->
  uname0 x -> bound2 ((x, k) :: B) env'.
Proof.
  intros B env x k c sc l env' [H1 H2] El El' Hx. split.
  - intros y Hy. rewrite El'. cbn [lookup_scopes map fst In]. destruct (list_eq_dec N.eq_dec y x) as [->|Hne].
    + rewrite assoc_set_same. split; [intros _; now left|discriminate].
    + rewrite assoc_set_other by exact Hne. pose proof (H1 y Hy) as Hyy. rewrite El in Hyy. cbn [lookup_scopes] in Hyy. rewrite Hyy.
      split; [intros H; now right|intros [H|H]; [congruence|exact H]].
  - intros y [<-|Hy]; [exact Hx|exact (H2 y Hy)].
Qed.
Lemma bound2_push : forall B env, bound2 B env -> bound2 B (push_scope env).
Proof. intros B env [X1 X2]. split; [intros x Hx; cbn [push_scope locals lookup_scopes assoc]; apply X1; exact Hx|exact X2]. Qed.
Lemma bound2_look : forall B env x, bound2 B env -> In x (map fst B) -> lookup_scopes x (locals env) <> None.
Proof. intros B env x [H H2] Hin. exact (proj2 (H x (proj2 (proj2 (H2 x Hin)))) Hin). Qed.

(* the executing function value is a closure related to (fnm, cb): what `self(..)` calls *)
Definition cur_ok (b : cinj) (env : fenv) : Prop :=
  match SF with
  | Some (pk, r) => exists ps body cenv, cur env = Some (RClos ps body cenv) /\ clos_ok b pk r ps body cenv fnm cb
  | None => True end.
Lemma cur_ok_mono : forall b b' env, cinj_le b b' -> cur_ok b env -> cur_ok b' env.
Proof.
  unfold cur_ok. intros b b' env Hle H. destruct SF as [[pk r]|]; [|exact Logic.I].
  destruct H as (ps & body & cenv & E & H). exists ps, body, cenv. split; [exact E|]. eapply clos_ok_mono; eassumption.
Qed.
Lemma cur_ok_eq : forall b env env', cur env' = cur env -> cur_ok b env -> cur_ok b env'.
Proof. unfold cur_ok. intros b env env' E H. destruct SF as [[pk r]|]; [|exact Logic.I]. now rewrite E. Qed.
Lemma cf_top : forall f f' fs, lab f' = lab f -> current_function (f' :: fs) = current_function (f :: fs).
Proof. intros f f' fs E. cbn [current_function]. now rewrite E. Qed.
Lemma cf_special : forall f fs, special (lab f) = true -> current_function (f :: fs) = current_function fs.
Proof. intros f fs H. cbn [current_function]. destruct (lab f); [discriminate|reflexivity..]. Qed.

Record Cl (b : cinj) (B : kctx) (env : fenv) (s : rstate) (g : gstate) : Prop := {
  cl_heap : heap_ok b s g;
  cl_fr : Rfr2 b (locals env) (frames g);
  cl_B : forall x k, assoc x B = Some k -> uname0 x /\
         exists c c', lookup_scopes x (locals env) = Some c /\ find_in_function x (frames g) = Some c' /\ b c c' k;
  cl_cap : forall x k, assoc x CD = Some k ->
           uname0 x /\ exists c c', lookup_scopes x (captured env) = Some c /\ cbget cb x = Some c' /\ b c c' k;
  cl_out : out g = rout s;
  cl_base : skipn (length (locals env)) (frames g) = base;
  cl_ns : NS (locals env);
  cl_nd : frames_nd (frames g);
  cl_cf : current_function (frames g) = Some fnm;
  cl_cur : cur_ok b env
}.

Lemma Cl_ne : forall b B env s g, Cl b B env s g -> locals env <> [].
Proof. intros b B env s g H. exact (proj1 (Rfr2_ne _ _ _ (cl_fr _ _ _ _ _ H))). Qed.

(* Cl looks at the cells, the frames and the output only *)
Lemma Cl_same : forall b B env s g g', Cl b B env s g -> cells g' = cells g -> frames g' = frames g -> out g' = out g ->
  Cl b B env s g'.
Proof.
  intros b B env s g g' [H1 H2 H3 H4 H5 H6 H7 H8 H9 H10] Ec Ef Eo. constructor; rewrite ?Ef, ?Eo; try assumption.
  eapply heap_ok_same; [exact H1|reflexivity|exact Ec].
Qed.

(* after a call: the callee has extended the injection and written related cells; the frames are the caller's again *)
Lemma Cl_after : forall b b' B env s g s' g', Cl b B env s g -> cinj_le b b' -> heap_ok b' s' g' ->
  frames g' = frames g -> out g' = rout s' -> Cl b' B env s' g'.
Proof.
  intros b b' B env s g s' g' [H1 H2 H3 H4 H5 H6 H7 H8 H9 H10] Hle Hh Ef Eo. constructor; rewrite ?Ef; try assumption.
  - eapply Rfr2_mono; eassumption.
  - intros x k E. destruct (H3 x k E) as (Hx & c & c' & A1 & A2 & A3). split; [exact Hx|]. exists c, c'. auto.
  - intros x k E. destruct (H4 x k E) as (Hx & c & c' & A1 & A2 & A3). split; [exact Hx|]. exists c, c'. auto.
  - eapply cur_ok_mono; eassumption.
Qed.

(* an existing variable / a captured variable is written *)
Lemma Cl_update : forall b B env s g c c' k v w, Cl b B env s g -> b c c' k -> vrel b k v w ->
  Cl b B env (sset s c v) (cell_set g c' w).
Proof.
  intros b B env s g c c' k v w [H1 H2 H3 H4 H5 H6 H7 H8 H9 H10] Hb Hv. constructor; cbn [sset cell_set frames out rout]; try assumption.
  eapply heap_update; eassumption.
Qed.

(* a line is printed *)
Lemma Cl_print : forall b B env s g l, Cl b B env s g -> Cl b B env (sprint s l) (emit_line g l).
Proof.
  intros b B env s g l [H1 H2 H3 H4 H5 H6 H7 H8 H9 H10]. constructor; cbn [sprint emit_line frames out rout]; try assumption.
  now rewrite H5.
Qed.

(* the VM binds a name that is not a user name (a register) in its top frame *)
Lemma Cl_bind_reg : forall b B env s g y w, Cl b B env s g -> ~ uname0 y ->
  exists f fs, frames g = f :: fs /\
    let cn := N.of_nat (length (cells g)) in
    let g' := {| cells := cells g ++ [w]; frames := {| lab := lab f; vars := assoc_set y cn (vars f) |} :: fs;
                 out := out g; trace := trace g |} in
    bind_local g y w = Some g' /\ Cl b B env s g'.
Proof.
  intros b B env s [cs fs o tr] y w [H1 H2 H3 H4 H5 H6 H7 H8 H9 H10] Hy. cbn [cells frames out trace] in *.
  destruct fs as [|f fs]; [destruct (Rfr2_ne _ _ _ H2); congruence|]. exists f, fs. split; [reflexivity|]. cbv zeta.
  split; [reflexivity|].
  assert (Hfind : forall x, uname0 x -> find_in_function x ({| lab := lab f; vars := assoc_set y (N.of_nat (length cs)) (vars f) |} :: fs)
                                        = find_in_function x (f :: fs)).
  { intros x Hx. cbn [find_in_function vars lab]. rewrite assoc_set_other; [reflexivity|]. intros ->. exact (Hy Hx). }
  constructor; cbn [cells frames out]; try assumption.
  - eapply heap_vm_alloc; [exact H1|reflexivity].
  - apply (Rfr2_top _ _ f); [exact H2|reflexivity|exact Hfind].
  - intros x k E. destruct (H3 x k E) as (Hx & c & c' & A1 & A2 & A3). split; [exact Hx|]. exists c, c'. split; [exact A1|]. split; [|exact A3].
    rewrite (Hfind x Hx). exact A2.
  - destruct (locals env) as [|sc l]; [destruct (Rfr2_ne _ _ _ H2); congruence|]. cbn [length skipn] in *. exact H6.
  - apply (nd_top f fs); [exact H8|]. apply keys_nd_assoc_set. inversion H8; assumption.
Qed.

(* a new variable: both sides allocate a cell *)
Lemma Cl_declare : forall b B env s g x k v w sc l f fs,
  Cl b B env s g -> uname0 x -> vrel b k v w -> locals env = sc :: l -> frames g = f :: fs ->
  lookup_scopes x (locals env) = None -> assoc x B = None ->
  let c := N.of_nat (length (store s)) in let c' := N.of_nat (length (cells g)) in
  let b' := add_pair b c c' k in
  let env' := {| locals := assoc_set x c sc :: l; captured := captured env; cur := cur env |} in
  let s' := {| store := store s ++ [v]; rout := rout s |} in
  forall tr, let g' := {| cells := cells g ++ [w]; frames := {| lab := lab f; vars := assoc_set x c' (vars f) |} :: fs;
                          out := out g; trace := tr |} in
  Cl b' ((x, k) :: B) env' s' g' /\ bext b b' s g.
Proof.
  intros b B [lc cap cu] [st ro] [cs fr o tr0] x k v w sc l f fs [H1 H2 H3 H4 H5 H6 H7 H8 H9 H10] Hx Hv El Ef Hn HB c c' b' env' s' tr g'.
  cbn [locals captured cur store rout cells frames out] in *. subst lc fr.
  destruct (heap_alloc b _ _ k v w H1 Hv s' g' eq_refl eq_refl) as [Hh He]. fold c c' b' in Hh, He.
  assert (Hle : cinj_le b b') by exact (proj1 He).
  split; [|exact He]. constructor; cbn [env' s' g' locals captured cur store rout cells frames out].
  - exact Hh.
  - apply (Rfr2_declare b' sc l f fs x c c' k); [eapply Rfr2_mono; eassumption|right; auto].
  - intros y ky E. cbn [assoc] in E. destruct (str_eqb x y) eqn:Exy.
    + apply str_eqb_iff in Exy. subst y. inversion E; subst ky. split; [exact Hx|]. exists c, c'.
      cbn [lookup_scopes find_in_function vars lab]. rewrite !assoc_set_same. split; [reflexivity|]. split; [reflexivity|right; auto].
    + assert (Hne : y <> x) by (intros ->; rewrite str_eqb_refl in Exy; discriminate).
      destruct (H3 y ky E) as (Hy & d & d' & A1 & A2 & A3). split; [exact Hy|]. exists d, d'.
      cbn [lookup_scopes find_in_function vars lab] in *. rewrite !assoc_set_other by exact Hne. auto.
  - intros y ky E. destruct (H4 y ky E) as (Hy & d & d' & A1 & A2 & A3). split; [exact Hy|]. exists d, d'. auto.
  - exact H5.
  - cbn [length skipn] in *. exact H6.
  - apply NS_declare; [exact H7|right; exact Hn].
  - apply (nd_top f fs); [exact H8|]. apply keys_nd_assoc_set. inversion H8; assumption.
  - exact H9.
  - eapply cur_ok_mono; [exact Hle|]. eapply cur_ok_eq; [|exact H10]. reflexivity.
Qed.

(* entering / leaving a block *)
Lemma Cl_push : forall b B env s g lb, Cl b B env s g -> special lb = true ->
  Cl b B (push_scope env) s (push_frame g lb).
Proof.
  intros b B env s g lb H Hs. pose proof (Cl_ne _ _ _ _ _ H) as Hne. destruct H as [H1 H2 H3 H4 H5 H6 H7 H8 H9 H10].
  constructor; cbn [push_scope push_frame with_frames locals captured frames out cells]; try assumption.
  - now apply Rfr2_push.
  - intros x k E. destruct (H3 x k E) as (Hx & c & c' & A1 & A2 & A3). split; [exact Hx|]. exists c, c'.
    cbn [lookup_scopes assoc find_in_function vars lab]. rewrite Hs. auto.
  - now apply NS_push.
  - constructor; [constructor|exact H8].
  - rewrite <- H9. apply cf_special. exact Hs.
Qed.

Lemma Cl_pop : forall b B B0 env s g sc l f fs,
  Cl b B env s g -> locals env = sc :: l -> l <> [] -> frames g = f :: fs ->
  (forall x k, assoc x B0 = Some k -> assoc x B = Some k /\ lookup_scopes x l <> None) ->
  Cl b B0 (pop_scope env) s (with_frames g fs).
Proof.
  intros b B B0 [lc cap cu] s [cs fr o tr] sc l f fs [H1 H2 H3 H4 H5 H6 H7 H8 H9 H10] El Hl Ef HB0.
  cbn [locals captured cur cells frames out] in *. subst lc fr.
  destruct l as [|sc' l']; [congruence|].
  constructor; cbn [pop_scope with_frames locals captured cur tl cells frames out]; try assumption.
  - eapply Rfr2_pop; exact H2.
  - intros x k E. destruct (HB0 x k E) as [EB Hlk]. destruct (H3 x k EB) as (Hx & c & c' & A1 & A2 & A3). split; [exact Hx|].
    destruct (lookup_scopes x (sc' :: l')) as [d|] eqn:Ed; [|congruence].
    assert (d = c).
    { pose proof (NS_lookup_tl sc (sc' :: l') x d H7 (proj2 (proj2 Hx)) Ed) as E2. congruence. }
    subst d.
    pose proof (Rfr2_look _ _ _ (Rfr2_pop _ _ _ _ _ _ H2) x Hx) as Hk. rewrite Ed in Hk.
    destruct (find_in_function x fs) as [d'|] eqn:Ed'; [|contradiction]. destruct Hk as [k' Hk].
    exists c, d'. split; [reflexivity|]. split; [reflexivity|].
    destruct (proj2 H1 _ _ _ _ _ _ A3 Hk) as [Hiff Hkk]. assert (c' = d') by (apply Hiff; reflexivity). subst d'. exact A3.
  - exact (proj2 H7).
  - inversion H8; assumption.
  - rewrite <- H9. symmetry. apply cf_special. eapply Rfr2_top_special; exact H2.
Qed.
(* the end of a from loop: the counter leaves the innermost scope / the top frame (together with VM-only names) *)
Lemma Cl_undeclare : forall b B env s g x k sc l f fs vs,
  Cl b ((x, k) :: B) env s g -> locals env = sc :: l -> frames g = f :: fs -> uname0 x -> assoc x B = None ->
  (forall y, uname0 y -> y <> x -> assoc y vs = assoc y (vars f)) -> assoc x vs = None ->
  assoc x (assoc_del x sc) = None -> lookup_scopes x l = None -> keys_nd vs ->
  Cl b B (undeclare env x) s (with_frames g ({| lab := lab f; vars := vs |} :: fs)).
Proof.
  intros b B [lc cap cu] s [cs fr o tr] x k sc l f fs vs [H1 H2 H3 H4 H5 H6 H7 H8 H9 H10] El Ef Hx HxB Hvs Hxv Hxs Hxl Hnd.
  cbn [locals captured cur cells frames out] in *. subst lc fr. unfold undeclare. cbn [locals captured cur with_frames frames cells out].
  constructor; cbn [locals captured cur cells frames out]; try assumption.
  - eapply Rfr2_undeclare; eassumption.
  - intros y ky E. assert (Hne : y <> x) by (intros ->; congruence).
    destruct (H3 y ky) as (Hy & c & c' & A1 & A2 & A3).
    { cbn [assoc]. destruct (str_eqb x y) eqn:Exy; [apply str_eqb_iff in Exy; congruence|exact E]. }
    split; [exact Hy|]. exists c, c'. cbn [lookup_scopes find_in_function vars lab with_frames frames] in *.
    rewrite assoc_del_other by exact Hne. rewrite (Hvs y Hy Hne). auto.
  - exact (NS_undeclare _ _ _ H7).
  - apply (nd_top f fs); assumption.
Qed.
(* the context of the activation is recovered from the cells its names have (after a `break` / `continue` has popped
   the block frames) *)
Lemma Cl_weaken : forall b B env s g, Cl b B env s g -> Cl b [] env s g.
Proof. intros b B env s g [H1 H2 H3 H4 H5 H6 H7 H8 H9 H10]. constructor; try assumption. intros x k E. discriminate E. Qed.
Lemma Cl_B_of : forall b B env s g, Cl b [] env s g ->
  (forall x k, assoc x B = Some k -> uname0 x /\ exists c c', lookup_scopes x (locals env) = Some c /\ b c c' k) ->
  Cl b B env s g.
Proof.
  intros b B env s g [H1 H2 H3 H4 H5 H6 H7 H8 H9 H10] HB. constructor; try assumption.
  intros x k E. destruct (HB x k E) as (Hx & c & c' & A1 & A2). split; [exact Hx|]. exists c, c'. split; [exact A1|]. split; [|exact A2].
  pose proof (Rfr2_look _ _ _ H2 x Hx) as Hl. rewrite A1 in Hl. destruct (find_in_function x (frames g)) as [c''|]; [|contradiction].
  destruct Hl as [k' Hk']. destruct (proj2 H1 _ _ _ _ _ _ Hk' A2) as [Hiff _]. f_equal. apply Hiff. reflexivity.
Qed.
(* m block frames are popped at once *)
Lemma Cl_popn : forall m b B env s g, Cl b B env s g -> m < length (locals env) ->
  exists g', pop_frames m g = Some g' /\ Cl b [] (popn m env) s g' /\ frames g' = skipn m (frames g) /\
             cells g' = cells g /\ out g' = out g.
Proof.
  induction m as [|m IH]; intros b B env s g HC Hm.
  - exists g. split; [reflexivity|]. split; [|auto]. apply Cl_weaken in HC. destruct env. exact HC.
  - destruct (locals env) as [|sc l] eqn:El; [cbn in Hm; lia|]. destruct l as [|sc' l']; [cbn in Hm; lia|].
    destruct (frames g) as [|f fs] eqn:Ef; [exact (False_ind _ (proj2 (Rfr2_ne _ _ _ (cl_fr _ _ _ _ _ HC)) Ef))|].
    pose proof (Cl_pop b B [] env s g sc (sc' :: l') f fs HC El ltac:(discriminate) Ef ltac:(intros x k E; discriminate E)) as HC1.
    destruct (IH b [] (pop_scope env) s (with_frames g fs) HC1 ltac:(cbn [pop_scope locals]; rewrite El; cbn [tl length] in *; lia))
      as (g' & E1 & HC' & F & C & O).
    exists g'. split; [cbn [pop_frames]; unfold pop_frame; rewrite Ef; exact E1|]. split.
    + replace (popn (S m) env) with (popn m (pop_scope env)); [exact HC'|]. unfold popn, pop_scope. cbn [locals captured cur]. rewrite El. reflexivity.
    + split; [rewrite F; reflexivity|auto].
Qed.
(* ---- the hidden counter of an anonymous from loop: the reference semantics declares the name `hid`, the VM has bound a
   loop register to a cell of its own before (the upper bound was evaluated in between): the two cells are paired now *)
Lemma heap_pair_late : forall b s g v c', heap_ok b s g -> first_order v -> cell_get g c' = Some (inj v) -> (forall c k, ~ b c c' k) ->
  let c := N.of_nat (length (store s)) in
  heap_ok (add_pair b c c' KD) {| store := store s ++ [v]; rout := rout s |} g.
Proof.
  intros b s g v c' H Hfo Hc' Hn c. pose proof H as [H1 H2].
  assert (Hle : cinj_le b (add_pair b c c' KD)) by (intros x y z Hb; left; exact Hb).
  split.
  - intros d d' k' [Hd|(-> & -> & ->)].
    + destruct (H1 _ _ _ Hd) as (v0 & w0 & A1 & A2 & A3). exists v0, w0. unfold sget in *. cbn [store].
      rewrite nth_error_app1 by (apply nth_error_Some; congruence). split; [exact A1|]. split; [exact A2|]. eapply vrel_mono; eassumption.
    + exists v, (inj v). unfold sget, c. cbn [store]. rewrite Nnat.Nat2N.id, nth_error_app2, Nat.sub_diag by lia.
      split; [reflexivity|]. split; [exact Hc'|]. split; [exact Hfo|reflexivity].
  - intros c1 c1' k1 c2 c2' k2 [Ha|(-> & -> & ->)] [Hb|(-> & -> & ->)].
    + exact (H2 _ _ _ _ _ _ Ha Hb).
    + destruct (heap_valid _ _ _ _ _ _ H Ha) as [A1 _]. split; [split|]; intros E; subst.
      * unfold c in A1. rewrite Nnat.Nat2N.id in A1. lia.
      * exfalso. exact (Hn _ _ Ha).
      * unfold c in A1. rewrite Nnat.Nat2N.id in A1. lia.
    + destruct (heap_valid _ _ _ _ _ _ H Hb) as [A1 _]. split; [split|]; intros E; subst.
      * unfold c in A1. rewrite Nnat.Nat2N.id in A1. lia.
      * exfalso. exact (Hn _ _ Hb).
      * unfold c in A1. rewrite Nnat.Nat2N.id in A1. lia.
    + split; [tauto|reflexivity].
Qed.

Lemma Cl_declare_hid : forall b B env s g v c' sc l,
  Cl b B env s g -> locals env = sc :: l -> first_order v -> cell_get g c' = Some (inj v) -> (forall c k, ~ b c c' k) ->
  let c := N.of_nat (length (store s)) in
  Cl (add_pair b c c' KD) B {| locals := assoc_set hid c sc :: l; captured := captured env; cur := cur env |}
     {| store := store s ++ [v]; rout := rout s |} g.
Proof.
  intros b B [lc cap cu] [st ro] g v c' sc l [H1 H2 H3 H4 H5 H6 H7 H8 H9 H10] El Hfo Hc' Hn c.
  cbn [locals captured cur store rout] in *. subst lc.
  assert (Hle : cinj_le b (add_pair b c c' KD)) by (intros x y z Hb; left; exact Hb).
  constructor; cbn [locals captured cur store rout]; try assumption.
  - exact (heap_pair_late b {| store := st; rout := ro |} g v c' H1 Hfo Hc' Hn).
  - destruct (frames g) as [|f fs] eqn:Ef; [destruct (Rfr2_ne _ _ _ H2); congruence|].
    apply (Rfr2_mono b); [exact Hle|]. cbn [Rfr2] in H2 |- *. destruct H2 as [Hl H2]. split; [|exact H2].
    intros y Hy. cbn [lookup_scopes]. rewrite assoc_set_other by (intros E; exact (proj2 (proj2 Hy) E)). exact (Hl y Hy).
  - intros y ky E. destruct (H3 y ky E) as (Hy & d & d' & A1 & A2 & A3). split; [exact Hy|]. exists d, d'.
    cbn [lookup_scopes] in *. rewrite assoc_set_other by (intros E0; exact (proj2 (proj2 Hy) E0)). auto.
  - intros y ky E. destruct (H4 y ky E) as (Hy & d & d' & A1 & A2 & A3). split; [exact Hy|]. exists d, d'. auto.
  - apply NS_declare; [exact H7|now left].
  - eapply cur_ok_mono; [exact Hle|]. eapply cur_ok_eq; [|exact H10]. reflexivity.
Qed.

(* the end of an anonymous loop: the hidden name / the two loop registers leave the innermost scope / the top frame *)
Lemma Cl_undeclare_hid : forall b B env s g sc l f fs vs,
  Cl b B env s g -> locals env = sc :: l -> frames g = f :: fs ->
  (forall y, uname0 y -> assoc y vs = assoc y (vars f)) -> keys_nd vs ->
  Cl b B (undeclare env hid) s (with_frames g ({| lab := lab f; vars := vs |} :: fs)).
Proof.
  intros b B [lc cap cu] s [cs fr o tr] sc l f fs vs [H1 H2 H3 H4 H5 H6 H7 H8 H9 H10] El Ef Hvs Hnd.
  cbn [locals captured cur cells frames out] in *. subst lc fr. unfold undeclare. cbn [locals captured cur with_frames frames cells out].
  assert (Hfind : forall x, uname0 x -> find_in_function x ({| lab := lab f; vars := vs |} :: fs) = find_in_function x (f :: fs)).
  { intros x Hx. cbn [find_in_function vars lab]. now rewrite (Hvs x Hx). }
  constructor; cbn [locals captured cur cells frames out]; try assumption.
  - cbn [Rfr2] in H2 |- *. destruct H2 as [Hl H2]. split; [|exact H2].
    intros y Hy. cbn [with_frames frames]. rewrite (Hfind y Hy). cbn [lookup_scopes]. rewrite assoc_del_other by (exact (proj2 (proj2 Hy))). exact (Hl y Hy).
  - intros y ky E. destruct (H3 y ky E) as (Hy & c & c' & A1 & A2 & A3). split; [exact Hy|]. exists c, c'.
    cbn [with_frames frames]. rewrite (Hfind y Hy). cbn [lookup_scopes] in *. rewrite assoc_del_other by (exact (proj2 (proj2 Hy))). auto.
  - exact (NS_undeclare _ _ _ H7).
  - apply (nd_top f fs); assumption.
Qed.
End Act.
End Rel.

(* every name: the relation between statements *)
Definition allP : str -> Prop := fun _ => True.

(* ================================================================ a name the VM binds before the reference semantics does
   (the named counter of a `from` loop while the upper bound is evaluated) *)
Lemma Rfr2_weakenP : forall (P P' : str -> Prop) b l fs, (forall y, P y -> P' y) -> Rfr2 P' b l fs -> Rfr2 P b l fs.
Proof.
  intros P P' b l. induction l as [|sc l IH]; intros fs HP H; [destruct fs; exact H|]. destruct fs as [|f fs]; [exact H|].
  cbn [Rfr2] in H |- *. destruct H as [Hl H]. split.
  - intros x Hx. specialize (Hl x Hx). unfold orelP in *. destruct (lookup_scopes x (sc :: l)), (find_in_function x (f :: fs)); auto.
  - destruct l as [|sc' l']; [exact H|]. destruct H as [Hs H]. split; [exact Hs|]. now apply IH.
Qed.

(* store_fast x: the VM binds x in its top frame, to a cell of its own *)
Lemma Cl_bind_ghost : forall path prog (P P' : str -> Prop) cb CD base fnm SF b B env s g x w f fs,
  Cl path prog P' cb CD base fnm SF b B env s g -> (forall y, P y -> P' y /\ y <> x) -> frames g = f :: fs ->
  assoc x B = None -> lookup_scopes x (locals env) = None ->
  forall tr, let cn := N.of_nat (length (cells g)) in
  Cl path prog P cb CD base fnm SF b B env s
     {| cells := cells g ++ [w]; frames := {| lab := lab f; vars := assoc_set x cn (vars f) |} :: fs; out := out g; trace := tr |}.
Proof.
  intros path prog P P' cb CD base fnm SF b B env s [cs fr o tr0] x w f fs [H1 H2 H3 H4 H5 H6 H7 H8 H9 H10] HP Ef HxB Hn tr cn.
  cbn [cells frames out trace] in *. subst fr.
  constructor; cbn [cells frames out]; try assumption.
  - eapply heap_vm_alloc; [exact H1|reflexivity].
  - apply (Rfr2_weakenP P P') in H2; [|intros y Hy; exact (proj1 (HP y Hy))].
    destruct (locals env) as [|sc l] eqn:El; [exact H2|]. cbn [Rfr2] in H2 |- *. destruct H2 as [Hl H2]. split; [|exact H2].
    intros y Hy. cbn [find_in_function vars lab]. destruct (list_eq_dec N.eq_dec y x) as [->|Hne].
    + rewrite assoc_set_same, Hn. cbn [orelP]. intros Hp. exact (proj2 (HP x Hp) eq_refl).
    + rewrite assoc_set_other by exact Hne. exact (Hl y Hy).
  - intros y k E. destruct (H3 y k E) as (Hy & c & c' & A1 & A2 & A3). split; [exact Hy|]. exists c, c'. split; [exact A1|]. split; [|exact A3].
    cbn [find_in_function vars lab] in *. rewrite assoc_set_other; [exact A2|]. intros ->. congruence.
  - destruct (locals env) as [|sc l]; [destruct (Rfr2_ne _ _ _ _ H2); congruence|]. cbn [length skipn] in *. exact H6.
  - apply (nd_top f fs); [exact H8|]. apply keys_nd_assoc_set. inversion H8; assumption.
Qed.

(* ... and the reference semantics declares x now: the two cells are paired; every name is bound on both sides or on none again *)
Lemma Cl_declare_late : forall path prog (P P' : str -> Prop) cb CD base fnm SF b0 b B env s g x v c' sc l f0 f fs,
  Cl path prog P cb CD base fnm SF b B env s g -> (forall y, y <> x -> P' y -> P y) ->
  Rfr2 P' b0 (locals env) (f0 :: fs) -> cinj_le b0 b ->
  locals env = sc :: l -> frames g = f :: fs -> uname0 x -> assoc x (vars f) = Some c' ->
  first_order v -> cell_get g c' = Some (inj v) -> (forall c k, ~ b c c' k) ->
  lookup_scopes x (locals env) = None -> assoc x B = None ->
  let c := N.of_nat (length (store s)) in
  Cl path prog P' cb CD base fnm SF (add_pair b c c' KD) ((x, KD) :: B)
     {| locals := assoc_set x c sc :: l; captured := captured env; cur := cur env |}
     {| store := store s ++ [v]; rout := rout s |} g.
Proof.
  intros path prog P P' cb CD base fnm SF b0 b B [lc cap cu] [st ro] g x v c' sc l f0 f fs [H1 H2 H3 H4 H5 H6 H7 H8 H9 H10]
         HP H0 Hle0 El Ef Hx Hax Hfo Hc' Hn Hlk HxB c.
  cbn [locals captured cur store rout] in *. subst lc.
  assert (Hle : cinj_le b (add_pair b c c' KD)) by (intros x1 y1 z1 Hb; left; exact Hb).
  constructor; cbn [locals captured cur store rout]; try assumption.
  - apply (heap_pair_late path prog) with (s := {| store := st; rout := ro |}); assumption.
  - rewrite Ef in *. cbn [Rfr2] in H2, H0 |- *. destruct H2 as [Hl H2]. destruct H0 as [_ H0]. split.
    + intros y Hy. cbn [lookup_scopes find_in_function vars lab]. destruct (list_eq_dec N.eq_dec y x) as [->|Hne].
      * rewrite assoc_set_same, Hax. cbn [orelP]. exists KD. right. auto.
      * rewrite assoc_set_other by exact Hne. specialize (Hl y Hy). cbn [lookup_scopes find_in_function] in Hl.
        unfold orelP in *. destruct (match assoc y sc with Some c1 => Some c1 | None => lookup_scopes y l end) as [c1|];
          destruct (match assoc y (vars f) with Some c1 => Some c1 | None => if special (lab f) then find_in_function y fs else None end) as [c2|]; auto.
        destruct Hl as [k Hk]. exists k. now left.
    + destruct l as [|sc' l']; [exact H2|]. destruct H2 as [Hs _]. destruct H0 as [_ H0]. split; [exact Hs|].
      apply (Rfr2_mono P' b0); [|exact H0]. intros c1 c2 k Hb. left. now apply Hle0.
  - intros y ky E. cbn [assoc] in E. destruct (str_eqb x y) eqn:Exy.
    + apply str_eqb_iff in Exy. subst y. inversion E; subst ky. split; [exact Hx|]. exists c, c'.
      rewrite Ef. cbn [lookup_scopes find_in_function]. rewrite assoc_set_same, Hax. split; [reflexivity|]. split; [reflexivity|right; auto].
    + assert (Hne : y <> x) by (intros ->; rewrite str_eqb_refl in Exy; discriminate).
      destruct (H3 y ky E) as (Hy & d & d' & A1 & A2 & A3). split; [exact Hy|]. exists d, d'.
      cbn [lookup_scopes] in *. rewrite assoc_set_other by exact Hne. split; [exact A1|]. split; [exact A2|now left].
  - intros y ky E. destruct (H4 y ky E) as (Hy & d & d' & A1 & A2 & A3). split; [exact Hy|]. exists d, d'. split; [exact A1|]. split; [exact A2|now left].
  - apply NS_declare; [exact H7|right; exact Hlk].
  - eapply cur_ok_mono; [exact Hle|]. eapply cur_ok_eq; [|exact H10]. reflexivity.
Qed.

(* the captured context is used in one clause only *)
Lemma Cl_cd : forall path prog (P : str -> Prop) cb CD CD' base fnm SF b B env s g,
  Cl path prog P cb CD base fnm SF b B env s g ->
  (forall x k, assoc x CD' = Some k ->
     uname0 x /\ exists c c', lookup_scopes x (captured env) = Some c /\ cbget cb x = Some c' /\ b c c' k) ->
  Cl path prog P cb CD' base fnm SF b B env s g.
Proof. intros path prog P cb CD CD' base fnm SF b B env s g [H1 H2 H3 H4 H5 H6 H7 H8 H9 H10] H. constructor; assumption. Qed.
