(* C15 / C01, expression level: the code `cexpr` emits for a call-free expression computes, on the VM model,
   exactly what the reference semantics (Lang/Eval.v) prescribes -- value, failure, evaluation order and
   short-circuit -- at EVERY nesting depth, and touches no register below its own depth.

   VM side: `step`/`steps` are the body of the interpreter loop of `run_fn_gen` (Vm/Model.v) restricted to the
   outcomes the fragment can produce (SNext, SGoto, SFail); `loop_steps` ties them to the real loop. *)
From MS Require Import Lang.Eval.
From MS Require Import Vm.Model Lang.Syntax Compile.Compile Verify.Sound Compile.ExprBase.
From Coq Require Import Lia Sorted.
Open Scope nat_scope.

(* ================================================================ values, failures *)
Definition first_order (v : rvalue) : Prop := match v with RClos _ _ _ => False | _ => True end.

(* closures do not occur in the fragment (see `var_ok`); VModule is a placeholder that is never produced *)
Definition inj (v : rvalue) : value :=
  match v with
  | RInt z => VInt z | RBool b => VBool b | RStr s => VStr s | RNil => VNil
  | RClos _ _ _ => VModule
  end.

(* which VM error corresponds to which language-level failure *)
Definition err_rel (f : failure) (e : err) : Prop :=
  match f with
  | FDivZero => e = E_div_zero
  | FOverflow => e = E_overflow OP_BIN_OP \/ e = E_overflow OP_NEG
  | FUnwrapNil sp => e = E_unwrap_nil sp
  | FType _ => e = E_unsupported OP_BIN_OP \/ e = E_not_bool \/ e = E_invalid_op
  | FUnbound _ | FAssert _ => False
  end.

(* ================================================================ small steps of the interpreter loop *)
Inductive rstatus :=
| Running (a : act) (g : gstate)
| Failed (e : err) (g : gstate)          (* = RFail e g of the loop *)
| Escaped.                               (* fell off the code, or an outcome outside the fragment (call, ret, push ...) *)

Definition upd (a : act) (ip : nat) (ops : list value) : act := set_ip (set_ops a ops) ip.

Section Steps.
  Variable name : str.
  Variable code : list instr.

  Definition trc (a : act) (g : gstate) (i : instr) : gstate :=
    add_trace g (name, N.of_nat (a_ip a), op i, N.of_nat (length (frames g)), N.of_nat (length (a_ops a))).

  Definition step (a : act) (g : gstate) : rstatus :=
    match nth_error code (a_ip a) with
    | None => Escaped
    | Some i =>
      let g := trc a g i in
      match Model.exec i a g with
      | SFail e => Failed e g
      | SNext a g => Running (set_ip a (S (a_ip a))) g
      | SGoto off a g => match goto (length code) (a_ip a) off with
                         | Some t => Running (set_ip a t) g | None => Failed E_goto_range g end
      | _ => Escaped
      end
    end.

  Fixpoint steps (n : nat) (r : rstatus) : rstatus :=
    match n with
    | O => r
    | S n => match r with Running a g => steps n (step a g) | _ => r end
    end.

  Definition reaches (r r' : rstatus) : Prop := exists n, steps n r = r'.

  Lemma steps_stop_failed : forall n e g, steps n (Failed e g) = Failed e g.
  Proof. destruct n; reflexivity. Qed.
  Lemma steps_stop_escaped : forall n, steps n Escaped = Escaped.
  Proof. destruct n; reflexivity. Qed.

  Lemma steps_trans : forall n m r a g r', steps n r = Running a g -> steps m (Running a g) = r' -> steps (n + m) r = r'.
  Proof.
    induction n as [|n IH]; intros m r a g r' H1 H2.
    - cbn in H1. subst r. exact H2.
    - destruct r as [a0 g0|e0 g0|].
      + cbn [steps Nat.add] in *. eapply IH; eassumption.
      + rewrite steps_stop_failed in H1. discriminate.
      + rewrite steps_stop_escaped in H1. discriminate.
  Qed.

  Lemma reaches_refl : forall r, reaches r r.
  Proof. intros r. exists 0. reflexivity. Qed.
  Lemma reaches_step : forall a g r, step a g = r -> reaches (Running a g) r.
  Proof. intros a g r H. exists 1. cbn [steps]. rewrite H. reflexivity. Qed.
  Lemma reaches_trans : forall r a g r', reaches r (Running a g) -> reaches (Running a g) r' -> reaches r r'.
  Proof. intros r a g r' [n H1] [m H2]. exists (n + m). eapply steps_trans; eassumption. Qed.

  (* the tie to the interpreter loop (Verify.Sound.loop = the `fix loop` of run_fn_gen) *)
  Lemma loop_steps_running : forall rc callee n a g a' g', steps n (Running a g) = Running a' g' ->
    forall fuel, loop rc callee name code (n + fuel) a g = loop rc callee name code fuel a' g'.
  Proof.
    intros rc callee. induction n as [|n IH]; intros a g a' g' H fuel.
    - cbn in H. inversion H; subst. reflexivity.
    - cbn [steps] in H. cbn [Nat.add loop]. unfold step in H.
      destruct (nth_error code (a_ip a)) as [i|]; [|rewrite steps_stop_escaped in H; discriminate].
      fold (trc a g i). destruct (Model.exec i a (trc a g i)) as [a1 g1|off a1 g1| | | | | |e];
        try (rewrite steps_stop_escaped in H; discriminate).
      + apply IH. exact H.
      + destruct (goto (length code) (a_ip a1) off) as [t|].
        * apply IH. exact H.
        * rewrite steps_stop_failed in H. discriminate.
      + rewrite steps_stop_failed in H. discriminate.
  Qed.

  Lemma loop_steps_failed : forall rc callee n a g e g', steps n (Running a g) = Failed e g' ->
    forall fuel, loop rc callee name code (n + fuel) a g = RFail e g'.
  Proof.
    intros rc callee. induction n as [|n IH]; intros a g e g' H fuel.
    - cbn in H. discriminate.
    - cbn [steps] in H. cbn [Nat.add loop]. unfold step in H.
      destruct (nth_error code (a_ip a)) as [i|]; [|rewrite steps_stop_escaped in H; discriminate].
      fold (trc a g i). destruct (Model.exec i a (trc a g i)) as [a1 g1|off a1 g1| | | | | |e1];
        try (rewrite steps_stop_escaped in H; discriminate).
      + apply IH. exact H.
      + destruct (goto (length code) (a_ip a1) off) as [t|].
        * apply IH. exact H.
        * rewrite steps_stop_failed in H. inversion H; subst. reflexivity.
      + rewrite steps_stop_failed in H. inversion H; subst. reflexivity.
  Qed.

  (* ---------------------------------------------------------------- one instruction *)
  Lemma step_next : forall a g i dI ip ops' g', a_ip a = ip -> nth_error code ip = Some i -> decode i = DOk dI ->
    exec_d dI a (trc a g i) = SNext (set_ops a ops') g' ->
    step a g = Running (upd a (S ip) ops') g'.
  Proof.
    intros a g i dI ip ops' g' Hip Hf Hd He. unfold step. rewrite Hip, Hf. unfold Model.exec.
    rewrite Hd, He. subst ip. reflexivity.
  Qed.

  Lemma step_fail : forall a g i dI ip e, a_ip a = ip -> nth_error code ip = Some i -> decode i = DOk dI ->
    exec_d dI a (trc a g i) = SFail e ->
    step a g = Failed e (trc a g i).
  Proof.
    intros a g i dI ip e Hip Hf Hd He. unfold step. rewrite Hip, Hf. unfold Model.exec.
    rewrite Hd, He. reflexivity.
  Qed.

  Lemma step_goto : forall a g i dI ip off t, a_ip a = ip -> nth_error code ip = Some i -> decode i = DOk dI ->
    exec_d dI a (trc a g i) = SGoto off a (trc a g i) ->
    goto (length code) ip off = Some t ->
    step a g = Running (set_ip a t) (trc a g i).
  Proof.
    intros a g i dI ip off t Hip Hf Hd He Hg. unfold step. rewrite Hip, Hf. unfold Model.exec.
    rewrite Hd, He, Hip, Hg. reflexivity.
  Qed.
End Steps.

Lemma goto_fwd : forall len ip n, ip + n < len -> goto len ip (Z.of_nat n) = Some (ip + n).
Proof.
  intros len ip n H. rewrite goto_some by lia. f_equal. lia.
Qed.

(* ================================================================ what a sub-expression may change *)
(* the registers a sub-expression compiled at depth d may bind *)
Definition own_reg (d : nat) (x : str) : Prop := exists k, d <= k /\ small k /\ x = reg k.

Definition ev_ip (ev : tev) : nat := match ev with (_, ip, _, _, _) => N.to_nat ip end.

(* the instructions recorded in a trace segment (newest first) have strictly increasing ip in execution order:
   no instruction is executed twice, and code at a lower address is executed before code at a higher one *)
Definition ev_sorted (new : list tev) : Prop := StronglySorted (fun x y => ev_ip y < ev_ip x) new.

Lemma StronglySorted_app : forall A (R : A -> A -> Prop) l1 l2,
  StronglySorted R l1 -> StronglySorted R l2 -> (forall x y, In x l1 -> In y l2 -> R x y) ->
  StronglySorted R (l1 ++ l2).
Proof.
  induction l1 as [|x l1 IH]; intros l2 H1 H2 H; [exact H2|].
  inversion H1 as [|? ? Hs Hf]; subst. cbn [app]. constructor.
  - apply IH; [exact Hs|exact H2|]. intros a b Ha Hb. apply H; [now right|exact Hb].
  - apply Forall_app. split; [exact Hf|]. apply Forall_forall. intros y Hy. apply H; [now left|exact Hy].
Qed.

(* g' extends g: cells are only appended (never overwritten), the only names (re)bound are registers >= d
   of the TOP frame, nothing is printed, and the instructions executed in between lie in [lo, hi) and were
   executed in address order, each at most once *)
Definition top_vars (fs : list frame) : list (str * N) := match fs with f :: _ => vars f | [] => [] end.
Record ext (d lo hi : nat) (g g' : gstate) : Prop := {
  ext_cells : exists extra, cells g' = cells g ++ extra;
  ext_find : forall x, ~ own_reg d x -> find_in_function x (frames g') = find_in_function x (frames g);
  ext_out : out g' = out g;
  ext_labs : map lab (frames g') = map lab (frames g);
  ext_tail : tl (frames g') = tl (frames g);
  ext_trace : exists new, trace g' = new ++ trace g /\ Forall (fun ev => lo <= ev_ip ev < hi) new /\ ev_sorted new;
  (* frame-wise: the TOP frame binds the same cells to every name that is not one of the expression's registers *)
  ext_top : forall x, ~ own_reg d x -> assoc x (top_vars (frames g')) = assoc x (top_vars (frames g))
}.

Lemma ext_refl : forall d lo hi g, ext d lo hi g g.
Proof.
  intros. constructor; try reflexivity.
  - exists []. now rewrite app_nil_r.
  - exists []. split; [reflexivity|]. split; constructor.
Qed.

Lemma own_reg_mono : forall d d' x, d <= d' -> own_reg d' x -> own_reg d x.
Proof. intros d d' x H (k & L & S & E). exists k. repeat split; [lia|exact S|exact E]. Qed.

(* sequential composition: the second segment lies at higher addresses than the first *)
Lemma ext_seq : forall d1 lo1 hi1 d2 lo2 hi2 g g1 g2,
  ext d1 lo1 hi1 g g1 -> ext d2 lo2 hi2 g1 g2 ->
  forall d lo hi, d <= d1 -> d <= d2 -> hi1 <= lo2 -> lo <= lo1 -> lo <= lo2 -> hi1 <= hi -> hi2 <= hi ->
  ext d lo hi g g2.
Proof.
  intros d1 lo1 hi1 d2 lo2 hi2 g g1 g2 [C1 F1 O1 L1 T1 R1 V1] [C2 F2 O2 L2 T2 R2 V2] d lo hi Hd1 Hd2 Hadj Hl1 Hl2 Hh1 Hh2.
  constructor.
  - destruct C1 as [x1 E1], C2 as [x2 E2]. exists (x1 ++ x2). rewrite E2, E1, app_assoc. reflexivity.
  - intros x Hx. rewrite F2 by (intros Ho; apply Hx; exact (own_reg_mono d d2 x Hd2 Ho)).
    apply F1. intros Ho; apply Hx; exact (own_reg_mono d d1 x Hd1 Ho).
  - congruence.
  - congruence.
  - congruence.
  - destruct R1 as (n1 & E1 & A1 & S1), R2 as (n2 & E2 & A2 & S2). exists (n2 ++ n1). split; [|split].
    + rewrite E2, E1, app_assoc. reflexivity.
    + apply Forall_app. split; eapply Forall_impl; try eassumption; cbn beta; intros; lia.
    + apply StronglySorted_app; [exact S2|exact S1|]. intros x y Hx Hy.
      rewrite Forall_forall in A1, A2. specialize (A1 y Hy). specialize (A2 x Hx). cbn beta in *. lia.
  - intros x Hx. rewrite V2 by (intros Ho; apply Hx; exact (own_reg_mono d d2 x Hd2 Ho)).
    apply V1. intros Ho; apply Hx; exact (own_reg_mono d d1 x Hd1 Ho).
Qed.

Lemma ext_weaken : forall d lo hi d1 lo1 hi1 g g1, ext d1 lo1 hi1 g g1 -> d <= d1 -> lo <= lo1 -> hi1 <= hi -> ext d lo hi g g1.
Proof.
  intros d lo hi d1 lo1 hi1 g g1 [C1 F1 O1 L1 T1 R1 V1] Hd Hl Hh. constructor; try assumption.
  - intros x Hx. apply F1. intros Ho; apply Hx; exact (own_reg_mono d d1 x Hd Ho).
  - destruct R1 as (n1 & E1 & A1 & S1). exists n1. split; [exact E1|]. split; [|exact S1].
    eapply Forall_impl; try eassumption; cbn beta; intros; lia.
  - intros x Hx. apply V1. intros Ho; apply Hx; exact (own_reg_mono d d1 x Hd Ho).
Qed.

Lemma ext_frames_ne : forall d lo hi g g', ext d lo hi g g' -> frames g <> [] -> frames g' <> [].
Proof.
  intros d lo hi g g' H Hne E. apply ext_labs in H. rewrite E in H. destruct (frames g); [congruence|discriminate].
Qed.

Lemma ext_cell_get : forall d lo hi g g' c v, ext d lo hi g g' -> cell_get g c = Some v -> cell_get g' c = Some v.
Proof.
  intros d lo hi g g' c v H Hc. destruct (ext_cells _ _ _ _ _ H) as [extra E]. unfold cell_get in *.
  rewrite E, nth_error_app1; [exact Hc|]. apply nth_error_Some. congruence.
Qed.

Lemma ext_trc : forall name d lo hi a g i, lo <= a_ip a < hi -> ext d lo hi g (trc name a g i).
Proof.
  intros name d lo hi a g i H. constructor; try reflexivity.
  - exists []. cbn. now rewrite app_nil_r.
  - eexists [_]. split; [reflexivity|]. split.
    + constructor; [|constructor]. cbn [ev_ip]. rewrite Nnat.Nat2N.id. exact H.
    + constructor; constructor.
Qed.

(* ---------------------------------------------------------------- assoc / bind_local *)
Lemma assoc_set_same : forall A k (v : A) l, assoc k (assoc_set k v l) = Some v.
Proof.
  induction l as [|[k' v'] l IH]; cbn [assoc_set assoc].
  - now rewrite str_eqb_refl.
  - destruct (str_eqb k' k) eqn:E; cbn [assoc]; [now rewrite str_eqb_refl|]. rewrite E. exact IH.
Qed.
Lemma assoc_set_other : forall A k (v : A) x l, x <> k -> assoc x (assoc_set k v l) = assoc x l.
Proof.
  intros A k v x l Hne. induction l as [|[k' v'] l IH]; cbn [assoc_set assoc].
  - rewrite str_eqb_neq; [reflexivity|congruence].
  - destruct (str_eqb k' k) eqn:E; cbn [assoc].
    + apply str_eqb_iff in E. subst k'. rewrite (str_eqb_neq k x) by congruence. reflexivity.
    + destruct (str_eqb k' x); [reflexivity|exact IH].
Qed.

Lemma bind_local_ext : forall g k v d lo hi, frames g <> [] -> d <= k -> small k ->
  exists g' c, bind_local g (reg k) v = Some g' /\ ext d lo hi g g' /\
               find_in_function (reg k) (frames g') = Some c /\ cell_get g' c = Some v.
Proof.
  intros g k v d lo hi Hne Hk Hs. unfold bind_local. destruct (frames g) as [|f fs] eqn:Ef; [congruence|].
  cbn [cell_new]. eexists. eexists. split; [reflexivity|]. split; [|split].
  - constructor; cbn [cells frames out trace with_frames map tl]; try (rewrite Ef); try reflexivity.
    + eexists. reflexivity.
    + intros x Hx. cbn [find_in_function vars lab]. rewrite assoc_set_other; [reflexivity|].
      intros ->. apply Hx. exists k. auto.
    + exists []. split; [reflexivity|]. split; constructor.
    + intros x Hx. cbn [top_vars vars]. rewrite assoc_set_other; [reflexivity|].
      intros ->. apply Hx. exists k. auto.
  - cbn [with_frames frames find_in_function vars]. rewrite assoc_set_same. reflexivity.
  - unfold cell_get. cbn [with_frames cells]. rewrite Nnat.Nat2N.id.
    rewrite nth_error_app2 by lia. rewrite Nat.sub_diag. reflexivity.
Qed.

(* ---------------------------------------------------------------- exec_d on the shapes that occur *)
Lemma exec_load : forall x a g c v, lookup_var a g x = Some c -> cell_get g c = Some v ->
  exec_d (DLoad x) a g = SNext (set_ops a (a_ops a ++ [v])) g.
Proof. intros x a g c v H1 H2. unfold exec_d. rewrite H1, H2. reflexivity. Qed.
Lemma exec_load_fast : forall x a g c v, find_in_function x (frames g) = Some c -> cell_get g c = Some v ->
  exec_d (DLoadFast x) a g = SNext (set_ops a (a_ops a ++ [v])) g.
Proof. intros x a g c v H1 H2. unfold exec_d. rewrite H1, H2. reflexivity. Qed.
Lemma exec_store_fast : forall x a g v g', a_ops a = [v] -> bind_local g x v = Some g' ->
  exec_d (DStoreFast x) a g = SNext (set_ops a []) g'.
Proof. intros x a g v g' H1 H2. unfold exec_d. rewrite H1, H2. reflexivity. Qed.
Lemma exec_rev2 : forall a g x y, a_ops a = [x; y] -> exec_d DRev2 a g = SNext (set_ops a [y; x]) g.
Proof. intros a g x y H. unfold exec_d. rewrite H. reflexivity. Qed.
Lemma exec_bin_op : forall sym a g x y, a_ops a = [x; y] ->
  exec_d (DBinOp sym) a g = match bin_op_sem sym x y with OV v => SNext (set_ops a [v]) g | OE e => SFail e end.
Proof. intros sym a g x y H. unfold exec_d. rewrite H. reflexivity. Qed.
Lemma exec_equ : forall a g x y, a_ops a = [x; y] ->
  exec_d DEqu a g = match val_equals 100 y x with Some b => SNext (set_ops a [VBool b]) g | None => SFail E_invalid_op end.
Proof. intros a g x y H. unfold exec_d. rewrite H. reflexivity. Qed.
Lemma exec_neq : forall a g x y, a_ops a = [x; y] ->
  exec_d DNeq a g = match val_equals 100 y x with Some b => SNext (set_ops a [VBool (negb b)]) g | None => SFail E_invalid_op end.
Proof. intros a g x y H. unfold exec_d. rewrite H. reflexivity. Qed.
Lemma exec_not : forall a g v, a_ops a = [v] ->
  exec_d DNot a g = match v with VBool b => SNext (set_ops a [VBool (negb b)]) g | _ => SFail E_not_bool end.
Proof. intros a g v H. unfold exec_d. rewrite H. destruct v; reflexivity. Qed.
Lemma exec_neg : forall a g v, a_ops a = [v] ->
  exec_d DNeg a g = match v with
                    | VInt z => if i32_ok (- z) then SNext (set_ops a [VInt (- z)]) g else SFail (E_overflow OP_NEG)
                    | _ => SFail E_invalid_op end.
Proof. intros a g v H. unfold exec_d. rewrite H. destruct v; reflexivity. Qed.
Lemma exec_unwrap : forall sp a g v, a_ops a = [v] ->
  exec_d (DUnwrap sp) a g = match v with
                            | VSome w => SNext (set_ops a [w]) g
                            | VNil => SFail (E_unwrap_nil sp)
                            | _ => SNext a g end.
Proof. intros sp a g v H. unfold exec_d. rewrite H. destruct v; reflexivity. Qed.
Lemma exec_jmp_not_nil : forall off a g v, a_ops a = [v] ->
  exec_d (DJmpNotNil off) a g = match v with VNil => SNext (set_ops a []) g | _ => SGoto off a g end.
Proof. intros off a g v H. unfold exec_d. rewrite H. destruct v; reflexivity. Qed.
Lemma exec_store_skip : forall x p off a g v, a_ops a = [v] ->
  exec_d (DStoreSkip x p off) a g =
  match v with
  | VBool b => if (if p then b else negb b) then SGoto off a g
               else match bind_local g x (VBool b) with
                    | Some g' => SNext (set_ops a []) g' | None => SFail (E_panic OP_STORE_SKIP) end
  | _ => SFail E_not_bool end.
Proof. intros x p off a g v H. unfold exec_d. rewrite H. destruct v; reflexivity. Qed.

(* ================================================================ operators agree on injected values *)
Lemma val_equals_inj : forall va vb, val_equals 100 (inj vb) (inj va) = req va vb.
Proof.
  intros va vb. destruct va, vb; cbn; try reflexivity.
  - now rewrite Z.eqb_sym.
  - now destruct b, b0.
  - now rewrite str_eqb_sym.
Qed.

Definition arith_op (o : binop) : Prop := o <> BEq /\ o <> BNeq.

Lemma binop_agree : forall o va vb s, arith_op o ->
  match binop_sem o va vb s with
  | EVal v s' => s' = s /\ first_order v /\ bin_op_sem (binop_sym o) (inj va) (inj vb) = OV (inj v)
  | EFail f s' => s' = s /\ exists e, bin_op_sem (binop_sym o) (inj va) (inj vb) = OE e /\ err_rel f e
  | _ => False
  end.
Proof.
  intros o va vb s [H1 H2].
  destruct o; try congruence; clear H1 H2;
  destruct va as [x|x|x| |p1 b1 e1], vb as [y|y|y| |p2 b2 e2]; cbn [binop_sem inj rshow];
  try (cbn; split; [reflexivity|]; eexists; split; [reflexivity|]; cbn; auto; fail);
  try (cbn; repeat split; reflexivity).
  all: try (unfold arith_res; cbn [bin_op_sem binop_sym s_eq str_eqb N.eqb Pos.eqb andb op_plus op_minus op_times op_div op_mod];
            unfold arith;
            try (destruct (y =? 0)%Z; [split; [reflexivity|]; eexists; split; [reflexivity|]; reflexivity|]);
            match goal with |- context [i32_ok ?z] => destruct (i32_ok z) end;
            [repeat split; reflexivity | split; [reflexivity|]; eexists; split; [reflexivity|]; left; reflexivity]).
  all: try (destruct y; cbn; repeat split; reflexivity).
  all: try (destruct x; cbn; repeat split; reflexivity).
Qed.

Lemma eq_agree : forall va vb s,
  match binop_sem BEq va vb s with
  | EVal v s' => s' = s /\ exists b, v = RBool b /\ val_equals 100 (inj vb) (inj va) = Some b
  | EFail f s' => s' = s /\ val_equals 100 (inj vb) (inj va) = None /\ err_rel f E_invalid_op
  | _ => False end.
Proof.
  intros va vb s. rewrite val_equals_inj.
  assert (E : binop_sem BEq va vb s = match req va vb with Some r => EVal (RBool r) s | None => EFail (FType 1) s end)
    by (destruct va, vb; reflexivity).
  rewrite E. destruct (req va vb) as [r|].
  - split; [reflexivity|]. exists r. auto.
  - split; [reflexivity|]. split; [reflexivity|]. cbn. auto.
Qed.
Lemma neq_agree : forall va vb s,
  match binop_sem BNeq va vb s with
  | EVal v s' => s' = s /\ exists b, v = RBool (negb b) /\ val_equals 100 (inj vb) (inj va) = Some b
  | EFail f s' => s' = s /\ val_equals 100 (inj vb) (inj va) = None /\ err_rel f E_invalid_op
  | _ => False end.
Proof.
  intros va vb s. rewrite val_equals_inj.
  assert (E : binop_sem BNeq va vb s = match req va vb with Some r => EVal (RBool (negb r)) s | None => EFail (FType 1) s end)
    by (destruct va, vb; reflexivity).
  rewrite E. destruct (req va vb) as [r|].
  - split; [reflexivity|]. exists r. auto.
  - split; [reflexivity|]. split; [reflexivity|]. cbn. auto.
Qed.

(* ================================================================ environments *)
(* every source variable the reference semantics can see (holding a first-order value) is found by the VM's
   `load` (own frames, then captured cells) in a cell holding the injected value *)
Definition Renv (env : fenv) (s : rstate) (a : act) (g : gstate) : Prop :=
  forall x c v, src_name x -> lookup_scopes x (locals env ++ captured env) = Some c -> sget s c = Some v ->
    first_order v ->
    exists c', lookup_var a g x = Some c' /\ cell_get g c' = Some (inj v).

(* a variable of the expression: a source name, bound, holding a first-order value (well-scopedness) *)
Definition var_ok (env : fenv) (s : rstate) (x : str) : Prop :=
  src_name x /\ exists c v, lookup_scopes x (locals env ++ captured env) = Some c /\ sget s c = Some v /\ first_order v.

Lemma own_reg_not_src : forall d x, src_name x -> ~ own_reg d x.
Proof. intros d x H (k & _ & _ & E). exact (src_name_not_reg x k H E). Qed.

Lemma Renv_ext : forall env s a g a' g' d lo hi, Renv env s a g -> ext d lo hi g g' -> a_cb a' = a_cb a ->
  Renv env s a' g'.
Proof.
  intros env s a g a' g' d lo hi HR He Hcb x c v Hx Hl Hg Hf.
  destruct (HR x c v Hx Hl Hg Hf) as (c' & H1 & H2). exists c'. split.
  - unfold lookup_var, load_cb in *. rewrite (ext_find _ _ _ _ _ He x (own_reg_not_src d x Hx)), Hcb. exact H1.
  - eapply ext_cell_get; eassumption.
Qed.

(* ================================================================ code embedded in a function *)
Definition code_at (code : list instr) (k : nat) (l : list instr) : Prop :=
  forall j i, nth_error l j = Some i -> nth_error code (k + j) = Some i.

Lemma code_at_app : forall code k l1 l2, code_at code k (l1 ++ l2) ->
  code_at code k l1 /\ code_at code (k + length l1) l2.
Proof.
  intros code k l1 l2 H. split; intros j i Hj.
  - apply H. rewrite nth_error_app1; [exact Hj|]. apply nth_error_Some. congruence.
  - rewrite <- Nat.add_assoc. apply H. rewrite nth_error_app2 by lia.
    replace (length l1 + j - length l1) with j by lia. exact Hj.
Qed.
Lemma code_at_cons : forall code k i l, code_at code k (i :: l) -> nth_error code k = Some i /\ code_at code (S k) l.
Proof.
  intros code k i l H. split.
  - specialize (H 0 i eq_refl). now rewrite Nat.add_0_r in H.
  - intros j i' Hj. specialize (H (S j) i' Hj). now rewrite <- plus_n_Sm in H.
Qed.
Lemma code_at_embed : forall pre mid post, code_at (pre ++ mid ++ post) (length pre) mid.
Proof.
  intros pre mid post j i Hj. rewrite nth_error_app2 by lia.
  replace (length pre + j - length pre) with j by lia.
  rewrite nth_error_app1; [exact Hj|]. apply nth_error_Some. congruence.
Qed.

(* ================================================================ eval, one level *)
Lemma eval_EBin : forall fuel e o a b s, eval (S fuel) e (EBin o a b) s =
  match eval fuel e a s with
  | EVal va s => match eval fuel e b s with
                 | EVal vb s => binop_sem o va vb s
                 | ENoVal s => EFail (FType 3) s | r => r end
  | ENoVal s => EFail (FType 3) s | r => r end.
Proof. reflexivity. Qed.
Lemma eval_EAnd : forall fuel e a b s, eval (S fuel) e (EAnd a b) s =
  match eval fuel e a s with
  | EVal (RBool false) s => EVal (RBool false) s
  | EVal (RBool true) s => match eval fuel e b s with
                           | EVal (RBool vb) s => EVal (RBool vb) s
                           | EVal _ s | ENoVal s => EFail (FType 6) s | r => r end
  | EVal _ s | ENoVal s => EFail (FType 6) s | r => r end.
Proof. reflexivity. Qed.
Lemma eval_EOr : forall fuel e a b s, eval (S fuel) e (EOr a b) s =
  match eval fuel e a s with
  | EVal (RBool true) s => EVal (RBool true) s
  | EVal (RBool false) s => match eval fuel e b s with
                            | EVal (RBool vb) s => EVal (RBool vb) s
                            | EVal _ s | ENoVal s => EFail (FType 6) s | r => r end
  | EVal _ s | ENoVal s => EFail (FType 6) s | r => r end.
Proof. reflexivity. Qed.
Lemma eval_ENot : forall fuel e a s, eval (S fuel) e (ENot a) s =
  match eval fuel e a s with
  | EVal (RBool b) s => EVal (RBool (negb b)) s
  | EVal _ s | ENoVal s => EFail (FType 7) s | r => r end.
Proof. reflexivity. Qed.
Lemma eval_ENeg : forall fuel e a s, eval (S fuel) e (ENeg a) s =
  match eval fuel e a s with
  | EVal (RInt z) s => arith_res (- z) s
  | EVal _ s | ENoVal s => EFail (FType 7) s | r => r end.
Proof. reflexivity. Qed.
Lemma eval_ENilOr : forall fuel e a b s, eval (S fuel) e (ENilOr a b) s =
  match eval fuel e a s with
  | EVal RNil s => eval fuel e b s
  | r => r end.
Proof. reflexivity. Qed.
Lemma eval_EGet : forall fuel e a sp s, eval (S fuel) e (EGet a sp) s =
  match eval fuel e a s with
  | EVal RNil s => EFail (FUnwrapNil sp) s
  | r => r end.
Proof. reflexivity. Qed.
Lemma eval_EVar : forall fuel e n s, eval (S fuel) e (EVar n) s =
  match lookup_scopes n (locals e ++ captured e) with
  | Some c => match sget s c with Some v => EVal v s | None => EFail (FUnbound n) s end
  | None => EFail (FUnbound n) s end.
Proof. reflexivity. Qed.

Lemma used_e_bin : forall o a b, used_e (EBin o a b) = used_e a ++ used_e b. Proof. reflexivity. Qed.
Lemma used_e_and : forall a b, used_e (EAnd a b) = used_e a ++ used_e b. Proof. reflexivity. Qed.
Lemma used_e_or : forall a b, used_e (EOr a b) = used_e a ++ used_e b. Proof. reflexivity. Qed.
Lemma used_e_nilor : forall a b, used_e (ENilOr a b) = used_e a ++ used_e b. Proof. reflexivity. Qed.
Lemma used_e_not : forall a, used_e (ENot a) = used_e a. Proof. reflexivity. Qed.
Lemma used_e_neg : forall a, used_e (ENeg a) = used_e a. Proof. reflexivity. Qed.
Lemma used_e_get : forall a sp, used_e (EGet a sp) = used_e a. Proof. reflexivity. Qed.

(* ================================================================ the simulation *)
(* present the target activation `upd a x y` as `upd a1 x y` (convertible when a1 is itself an `upd a _ _`) *)
Ltac re_upd a a1 :=
  match goal with |- context [upd a ?x ?y] => change (upd a x y) with (upd a1 x y) end.

Section Sim.
  Variable name : str.
  Variable code : list instr.

  (* from (a, g) the loop reaches (a', g') / fails, executing only instructions in [lo, hi) and binding only
     registers >= d *)
  Definition run_ok (d lo hi : nat) (a : act) (g : gstate) (a' : act) (g' : gstate) : Prop :=
    reaches name code (Running a g) (Running a' g') /\ ext d lo hi g g'.
  Definition run_fail (d lo hi : nat) (a : act) (g : gstate) (f : failure) : Prop :=
    exists e g', reaches name code (Running a g) (Failed e g') /\ err_rel f e /\ ext d lo hi g g'.

  Lemma run_ok_seq : forall d1 lo1 hi1 d2 lo2 hi2 a g a1 g1 a2 g2,
    run_ok d1 lo1 hi1 a g a1 g1 -> run_ok d2 lo2 hi2 a1 g1 a2 g2 ->
    forall d lo hi, d <= d1 -> d <= d2 -> hi1 <= lo2 -> lo <= lo1 -> lo <= lo2 -> hi1 <= hi -> hi2 <= hi ->
    run_ok d lo hi a g a2 g2.
  Proof.
    intros d1 lo1 hi1 d2 lo2 hi2 a g a1 g1 a2 g2 [R1 E1] [R2 E2] d lo hi H1 H2 H3 H4 H5 H6 H7. split.
    - eapply reaches_trans; eassumption.
    - eapply ext_seq; eassumption.
  Qed.
  Lemma run_ok_fail_seq : forall d1 lo1 hi1 d2 lo2 hi2 a g a1 g1 f,
    run_ok d1 lo1 hi1 a g a1 g1 -> run_fail d2 lo2 hi2 a1 g1 f ->
    forall d lo hi, d <= d1 -> d <= d2 -> hi1 <= lo2 -> lo <= lo1 -> lo <= lo2 -> hi1 <= hi -> hi2 <= hi ->
    run_fail d lo hi a g f.
  Proof.
    intros d1 lo1 hi1 d2 lo2 hi2 a g a1 g1 f [R1 E1] (e & g' & R2 & Hr & E2) d lo hi H1 H2 H3 H4 H5 H6 H7.
    exists e, g'. split; [|split].
    - eapply reaches_trans; eassumption.
    - exact Hr.
    - eapply ext_seq; eassumption.
  Qed.
  Lemma run_ok_weaken : forall d lo hi d1 lo1 hi1 a g a1 g1,
    run_ok d1 lo1 hi1 a g a1 g1 -> d <= d1 -> lo <= lo1 -> hi1 <= hi -> run_ok d lo hi a g a1 g1.
  Proof. intros d lo hi d1 lo1 hi1 a g a1 g1 [R E] H1 H2 H3. split; [exact R|]. eapply ext_weaken; eassumption. Qed.
  Lemma run_fail_weaken : forall d lo hi d1 lo1 hi1 a g f,
    run_fail d1 lo1 hi1 a g f -> d <= d1 -> lo <= lo1 -> hi1 <= hi -> run_fail d lo hi a g f.
  Proof.
    intros d lo hi d1 lo1 hi1 a g f (e & g' & R & Hr & E) H1 H2 H3. exists e, g'.
    split; [exact R|]. split; [exact Hr|]. eapply ext_weaken; eassumption.
  Qed.

  Lemma Renv_run : forall env s d lo hi a g a' g', Renv env s a g -> run_ok d lo hi a g a' g' -> a_cb a' = a_cb a ->
    Renv env s a' g'.
  Proof. intros env s d lo hi a g a' g' HR [_ E] Hcb. eapply Renv_ext; eassumption. Qed.

  (* ---------------------------------------------------------------- single instructions *)
  Lemma run_step_next : forall d a g i dI ip ops', nth_error code ip = Some i -> a_ip a = ip -> decode i = DOk dI ->
    exec_d dI a (trc name a g i) = SNext (set_ops a ops') (trc name a g i) ->
    run_ok d ip (S ip) a g (upd a (S ip) ops') (trc name a g i).
  Proof.
    intros d a g i dI ip ops' Hf Hip Hd He. split.
    - apply reaches_step. eapply step_next; eassumption.
    - apply ext_trc. lia.
  Qed.

  Lemma run_step_fail : forall d a g i dI ip e f, nth_error code ip = Some i -> a_ip a = ip -> decode i = DOk dI ->
    exec_d dI a (trc name a g i) = SFail e -> err_rel f e ->
    run_fail d ip (S ip) a g f.
  Proof.
    intros d a g i dI ip e f Hf Hip Hd He Hrel. exists e, (trc name a g i). split; [|split].
    - apply reaches_step. eapply step_fail; eassumption.
    - exact Hrel.
    - apply ext_trc. lia.
  Qed.

  Lemma run_step_goto : forall d a g i dI ip n, nth_error code ip = Some i -> a_ip a = ip -> decode i = DOk dI ->
    exec_d dI a (trc name a g i) = SGoto (Z.of_nat n) a (trc name a g i) -> ip + n < length code ->
    run_ok d ip (S ip) a g (set_ip a (ip + n)) (trc name a g i).
  Proof.
    intros d a g i dI ip n Hf Hip Hd He Hlen. split.
    - apply reaches_step. eapply step_goto; try eassumption. apply goto_fwd. exact Hlen.
    - apply ext_trc. lia.
  Qed.

  Lemma run_step_bind : forall d a g i dI ip r v e0, nth_error code ip = Some i -> a_ip a = ip -> decode i = DOk dI ->
    (forall g0, exec_d dI a g0 = match bind_local g0 (reg r) v with
                                 | Some g' => SNext (set_ops a []) g' | None => SFail e0 end) ->
    frames g <> [] -> d <= r -> small r ->
    exists g' c, run_ok d ip (S ip) a g (upd a (S ip) []) g' /\
                 find_in_function (reg r) (frames g') = Some c /\ cell_get g' c = Some v.
  Proof.
    intros d a g i dI ip r v e0 Hf Hip Hd He Hfr Hdr Hs.
    destruct (bind_local_ext (trc name a g i) r v d (S ip) (S ip) Hfr Hdr Hs) as (g' & c & Hb & Hx & Hfi & Hc).
    exists g', c. split; [|split; assumption]. split.
    - apply reaches_step. eapply step_next; try eassumption. rewrite He, Hb. reflexivity.
    - eapply ext_seq; [apply (ext_trc name d ip (S ip) a g i); lia|exact Hx|lia..].
  Qed.

  Lemma ext_reg_keep : forall d lo hi g g' k c v, ext d lo hi g g' -> k < d -> small k ->
    find_in_function (reg k) (frames g) = Some c -> cell_get g c = Some v ->
    find_in_function (reg k) (frames g') = Some c /\ cell_get g' c = Some v.
  Proof.
    intros d lo hi g g' k c v He Hk Hs Hf Hc. split.
    - rewrite (ext_find _ _ _ _ _ He); [exact Hf|]. intros (k' & Hle & Hs' & E).
      apply reg_inj in E; [lia|assumption|assumption].
    - eapply ext_cell_get; eassumption.
  Qed.

  (* ---------------------------------------------------------------- the statement carried by the induction *)
  Definition sim_post (d k len : nat) (s : rstate) (a : act) (g : gstate) (r : eres) : Prop :=
    match r with
    | EVal v s' => s' = s /\ first_order v /\ exists g', run_ok d k (k + len) a g (upd a (k + len) [inj v]) g'
    | EFail f s' => s' = s /\ run_fail d k (k + len) a g f
    | EFuel => True
    | ENoVal _ => False
    end.

  Definition sim_spec (e : expr) : Prop :=
    forall d fuel k a g env s,
      lits_ok e = true -> (forall x, In x (used_e e) -> var_ok env s x) ->
      small (d + length (pcode d e) + 3) ->
      code_at code k (pcode d e) -> k + length (pcode d e) < length code ->
      a_ip a = k -> a_ops a = [] -> frames g <> [] -> Renv env s a g ->
      sim_post d k (length (pcode d e)) s a g (eval fuel env e s).

  Lemma sim_leaf : forall d k a g s i dI v,
    nth_error code k = Some i -> decode i = DOk dI -> a_ip a = k -> a_ops a = [] ->
    exec_d dI a (trc name a g i) = SNext (set_ops a (a_ops a ++ [inj v])) (trc name a g i) -> first_order v ->
    sim_post d k 1 s a g (EVal v s).
  Proof.
    intros d k a g s i dI v Hi Hd Hip Hops He Hfo. split; [reflexivity|]. split; [exact Hfo|].
    exists (trc name a g i). rewrite Nat.add_1_r. rewrite Hops in He. cbn [app] in He.
    eapply run_step_next; try eassumption.
  Qed.

  Lemma sim_EInt : forall z, sim_spec (EInt z).
  Proof.
    intros z d fuel k a g env s Hl Hv Hsm Hc Hend Hip Hops Hfr HR.
    destruct fuel as [|fuel]; [exact Logic.I|].
    change (eval (S fuel) env (EInt z) s) with (EVal (RInt z) s).
    cbn [pcode length lits_ok] in *. apply code_at_cons in Hc as [Hi _].
    eapply sim_leaf; try eassumption; [apply dec_make_int; exact Hl|reflexivity|exact Logic.I].
  Qed.
  Lemma sim_EBool : forall b, sim_spec (EBool b).
  Proof.
    intros b d fuel k a g env s Hl Hv Hsm Hc Hend Hip Hops Hfr HR.
    destruct fuel as [|fuel]; [exact Logic.I|].
    change (eval (S fuel) env (EBool b) s) with (EVal (RBool b) s).
    cbn [pcode length] in *. apply code_at_cons in Hc as [Hi _].
    eapply sim_leaf; try eassumption; [apply dec_make_bool|reflexivity|exact Logic.I].
  Qed.
  Lemma sim_EStr : forall t, sim_spec (EStr t).
  Proof.
    intros t d fuel k a g env s Hl Hv Hsm Hc Hend Hip Hops Hfr HR.
    destruct fuel as [|fuel]; [exact Logic.I|].
    change (eval (S fuel) env (EStr t) s) with (EVal (RStr t) s).
    cbn [pcode length] in *. apply code_at_cons in Hc as [Hi _].
    eapply sim_leaf; try eassumption; [apply dec_make_str|reflexivity|exact Logic.I].
  Qed.
  Lemma sim_ENil : sim_spec ENil.
  Proof.
    intros d fuel k a g env s Hl Hv Hsm Hc Hend Hip Hops Hfr HR.
    destruct fuel as [|fuel]; [exact Logic.I|].
    change (eval (S fuel) env ENil s) with (EVal RNil s).
    cbn [pcode length] in *. apply code_at_cons in Hc as [Hi _].
    eapply sim_leaf; try eassumption; [apply dec_reserve|reflexivity|exact Logic.I].
  Qed.
  Lemma sim_EVar : forall x, sim_spec (EVar x).
  Proof.
    intros x d fuel k a g env s Hl Hv Hsm Hc Hend Hip Hops Hfr HR.
    destruct fuel as [|fuel]; [exact Logic.I|].
    rewrite eval_EVar.
    destruct (Hv x (or_introl eq_refl)) as (Hsrc & c & v & Hlk & Hget & Hfo). rewrite Hlk, Hget.
    destruct (HR x c v Hsrc Hlk Hget Hfo) as (c' & Hl1 & Hl2).
    cbn [pcode length] in *. apply code_at_cons in Hc as [Hi _].
    eapply sim_leaf; try eassumption; [apply dec_load|].
    eapply exec_load; [exact Hl1|exact Hl2].
  Qed.
  (* ---------------------------------------------------------------- unary operators *)
  Lemma sim_ENot : forall ea, sim_spec ea -> sim_spec (ENot ea).
  Proof.
    intros ea IHa d fuel k a g env s Hl Hv Hsm Hc Hend Hip Hops Hfr HR.
    destruct fuel as [|fuel]; [exact Logic.I|].
    rewrite eval_ENot. cbn [lits_ok] in Hl. rewrite used_e_not in Hv.
    cbn [pcode] in *. rewrite app_length in *. cbn [length] in *.
    apply code_at_app in Hc as [Hca Hi]. apply code_at_cons in Hi as [Hi _].
    assert (Hsa : small (S d + length (pcode (S d) ea) + 3)) by (eapply small_le; [|exact Hsm]; lia).
    pose proof (IHa (S d) fuel k a g env s Hl Hv Hsa Hca ltac:(lia) Hip Hops Hfr HR) as Ha.
    destruct (eval fuel env ea s) as [va s1|s1|f s1|]; cbn [sim_post] in Ha |- *; [|contradiction| |exact Logic.I].
    2:{ destruct Ha as [-> Hf]. split; [reflexivity|]. eapply run_fail_weaken; [exact Hf|lia..]. }
    destruct Ha as (-> & Hfo & g1 & R1).
    set (a1 := upd a (k + length (pcode (S d) ea)) [inj va]) in *.
    pose proof (exec_not a1 (trc name a1 g1 (mkI OP_NOT [])) (inj va) eq_refl) as He.
    destruct va as [z|b|t| |p bd ev]; cbn [inj] in He; cbn [sim_post];
      try (split; [reflexivity|]; eapply run_ok_fail_seq; [exact R1|eapply (run_step_fail d); [exact Hi|reflexivity|apply dec_not|exact He|cbn; auto]|lia..]).
    split; [reflexivity|]. split; [exact Logic.I|]. eexists.
    replace (k + (length (pcode (S d) ea) + 1)) with (S (k + length (pcode (S d) ea))) by lia.
    eapply run_ok_seq; [exact R1|re_upd a a1; eapply (run_step_next d); [exact Hi|reflexivity|apply dec_not|exact He]|lia..].
  Qed.

  Lemma sim_ENeg : forall ea, sim_spec ea -> sim_spec (ENeg ea).
  Proof.
    intros ea IHa d fuel k a g env s Hl Hv Hsm Hc Hend Hip Hops Hfr HR.
    destruct fuel as [|fuel]; [exact Logic.I|].
    rewrite eval_ENeg. cbn [lits_ok] in Hl. rewrite used_e_neg in Hv.
    cbn [pcode] in *. rewrite app_length in *. cbn [length] in *.
    apply code_at_app in Hc as [Hca Hi]. apply code_at_cons in Hi as [Hi _].
    assert (Hsa : small (S d + length (pcode (S d) ea) + 3)) by (eapply small_le; [|exact Hsm]; lia).
    pose proof (IHa (S d) fuel k a g env s Hl Hv Hsa Hca ltac:(lia) Hip Hops Hfr HR) as Ha.
    destruct (eval fuel env ea s) as [va s1|s1|f s1|]; cbn [sim_post] in Ha |- *; [|contradiction| |exact Logic.I].
    2:{ destruct Ha as [-> Hf]. split; [reflexivity|]. eapply run_fail_weaken; [exact Hf|lia..]. }
    destruct Ha as (-> & Hfo & g1 & R1).
    set (a1 := upd a (k + length (pcode (S d) ea)) [inj va]) in *.
    pose proof (exec_neg a1 (trc name a1 g1 (mkI OP_NEG [])) (inj va) eq_refl) as He.
    destruct va as [z|b|t| |p bd ev]; cbn [inj] in He; cbn [sim_post];
      try (split; [reflexivity|]; eapply run_ok_fail_seq; [exact R1|eapply (run_step_fail d); [exact Hi|reflexivity|apply dec_neg|exact He|cbn; auto]|lia..]).
    unfold arith_res. destruct (i32_ok (- z)); cbn [sim_post].
    - split; [reflexivity|]. split; [exact Logic.I|]. eexists.
      replace (k + (length (pcode (S d) ea) + 1)) with (S (k + length (pcode (S d) ea))) by lia.
      eapply run_ok_seq; [exact R1|re_upd a a1; eapply (run_step_next d); [exact Hi|reflexivity|apply dec_neg|exact He]|lia..].
    - split; [reflexivity|]. eapply run_ok_fail_seq; [exact R1|eapply (run_step_fail d); [exact Hi|reflexivity|apply dec_neg|exact He|cbn; auto]|lia..].
  Qed.

  Lemma sim_EGet : forall ea sp, sim_spec ea -> sim_spec (EGet ea sp).
  Proof.
    intros ea sp IHa d fuel k a g env s Hl Hv Hsm Hc Hend Hip Hops Hfr HR.
    destruct fuel as [|fuel]; [exact Logic.I|].
    rewrite eval_EGet. cbn [lits_ok] in Hl. rewrite used_e_get in Hv.
    cbn [pcode] in *. rewrite app_length in *. cbn [length] in *.
    apply code_at_app in Hc as [Hca Hi]. apply code_at_cons in Hi as [Hi _].
    assert (Hsa : small (S d + length (pcode (S d) ea) + 3)) by (eapply small_le; [|exact Hsm]; lia).
    pose proof (IHa (S d) fuel k a g env s Hl Hv Hsa Hca ltac:(lia) Hip Hops Hfr HR) as Ha.
    destruct (eval fuel env ea s) as [va s1|s1|f s1|]; cbn [sim_post] in Ha |- *; [|contradiction| |exact Logic.I].
    2:{ destruct Ha as [-> Hf]. split; [reflexivity|]. eapply run_fail_weaken; [exact Hf|lia..]. }
    destruct Ha as (-> & Hfo & g1 & R1).
    set (a1 := upd a (k + length (pcode (S d) ea)) [inj va]) in *.
    pose proof (exec_unwrap sp a1 (trc name a1 g1 (mkI OP_UNWRAP [sp])) (inj va) eq_refl) as He.
    destruct va as [z|b|t| |p bd ev]; cbn [inj] in He; cbn [sim_post]; try contradiction;
      try (split; [reflexivity|]; split; [exact Logic.I|]; eexists;
           replace (k + (length (pcode (S d) ea) + 1)) with (S (k + length (pcode (S d) ea))) by lia;
           eapply run_ok_seq; [exact R1|re_upd a a1; eapply (run_step_next d); [exact Hi|reflexivity|apply dec_unwrap|exact He]|lia..]).
    split; [reflexivity|]. eapply run_ok_fail_seq; [exact R1|eapply (run_step_fail d); [exact Hi|reflexivity|apply dec_unwrap|exact He|reflexivity]|lia..].
  Qed.
  (* ---------------------------------------------------------------- binary operators *)
  Lemma dec_op_instr_arith : forall o, arith_op o -> decode (op_instr o) = DOk (DBinOp (binop_sym o)).
  Proof. intros o [H1 H2]. destruct o; try congruence; reflexivity. Qed.

  Lemma arith_op_dec : forall o, o = BEq \/ o = BNeq \/ arith_op o.
  Proof. intros o. unfold arith_op. destruct o; auto; right; right; split; discriminate. Qed.

  Lemma sim_EBin : forall o ea eb, sim_spec ea -> sim_spec eb -> sim_spec (EBin o ea eb).
  Proof.
    intros o ea eb IHa IHb d fuel k a g env s Hl Hv Hsm Hc Hend Hip Hops Hfr HR.
    destruct fuel as [|fuel]; [exact Logic.I|].
    rewrite eval_EBin. cbn [lits_ok] in Hl. apply Bool.andb_true_iff in Hl as [Hla Hlb].
    rewrite used_e_bin in Hv.
    assert (Hva : forall x, In x (used_e ea) -> var_ok env s x) by (intros x Hx; apply Hv, in_or_app; now left).
    assert (Hvb : forall x, In x (used_e eb) -> var_ok env s x) by (intros x Hx; apply Hv, in_or_app; now right).
    cbn [pcode] in *. rewrite !app_length in *. cbn [length] in *.
    set (la := length (pcode (S d) ea)) in *. set (lb := length (pcode (S d) eb)) in *.
    set (hi := k + (la + (1 + (lb + (2 + 1))))) in *.
    apply code_at_app in Hc as [Hca Hc]. apply code_at_app in Hc as [Hi1 Hc]. apply code_at_cons in Hi1 as [Hi1 _].
    apply code_at_app in Hc as [Hcb Hc]. apply code_at_app in Hc as [Hc Hi4].
    apply code_at_cons in Hc as [Hi2 Hc]. apply code_at_cons in Hc as [Hi3 _]. apply code_at_cons in Hi4 as [Hi4 _].
    cbn [length] in *. fold la in Hi1, Hcb, Hi2, Hi3, Hi4. fold lb in Hi2, Hi3, Hi4.
    assert (Hsd : small d) by (eapply small_le; [|exact Hsm]; lia).
    assert (Hsa : small (S d + la + 3)) by (eapply small_le; [|exact Hsm]; lia).
    assert (Hsb : small (S d + lb + 3)) by (eapply small_le; [|exact Hsm]; lia).
    (* left operand *)
    pose proof (IHa (S d) fuel k a g env s Hla Hva Hsa Hca ltac:(fold la; lia) Hip Hops Hfr HR) as Ha. fold la in Ha.
    destruct (eval fuel env ea s) as [va s1|s1|f s1|]; cbn [sim_post] in Ha |- *; [|contradiction| |exact Logic.I].
    2:{ destruct Ha as [-> Hf]. split; [reflexivity|]. eapply run_fail_weaken; [exact Hf|lia..]. }
    destruct Ha as (-> & Hfoa & g1 & R1).
    set (a1 := upd a (k + la) [inj va]) in *.
    (* store_fast #d *)
    destruct (run_step_bind d a1 g1 _ _ _ d (inj va) (E_panic OP_STORE_FAST) Hi1 eq_refl (dec_store_fast _))
      as (g2 & c2 & R2 & Hf2 & Hc2);
      [intros g0; unfold exec_d; reflexivity|destruct R1 as [_ E1]; exact (ext_frames_ne _ _ _ _ _ E1 Hfr)|lia|exact Hsd|].
    pose proof (run_ok_seq _ _ _ _ _ _ _ _ _ _ _ _ R1 R2 d k (S (k + la)) ltac:(lia) ltac:(lia) ltac:(lia) ltac:(lia) ltac:(lia) ltac:(lia) ltac:(lia)) as R02. clear R1 R2.
    set (a2 := upd a (S (k + la)) []) in *. change (upd a1 (S (k + la)) []) with a2 in R02.
    (* right operand *)
    assert (Hfr2 : frames g2 <> []) by (destruct R02 as [_ E]; exact (ext_frames_ne _ _ _ _ _ E Hfr)).
    assert (HR2 : Renv env s a2 g2) by (exact (Renv_run _ _ _ _ _ _ _ _ _ HR R02 eq_refl)).
    pose proof (IHb (S d) fuel (k + la + 1) a2 g2 env s Hlb Hvb Hsb Hcb ltac:(fold lb; lia) ltac:(cbn; lia) eq_refl Hfr2 HR2) as Hb.
    fold lb in Hb.
    destruct (eval fuel env eb s) as [vb s1|s1|f s1|]; cbn [sim_post] in Hb |- *; [|contradiction| |exact Logic.I].
    2:{ destruct Hb as [-> Hf]. split; [reflexivity|]. eapply run_ok_fail_seq; [exact R02|exact Hf|lia..]. }
    destruct Hb as (-> & Hfob & g3 & R3).
    destruct (ext_reg_keep _ _ _ _ _ d c2 (inj va) (proj2 R3) ltac:(lia) Hsd Hf2 Hc2) as [Hf3 Hc3].
    pose proof (run_ok_seq _ _ _ _ _ _ _ _ _ _ _ _ R02 R3 d k (k + la + 1 + lb) ltac:(lia) ltac:(lia) ltac:(lia) ltac:(lia) ltac:(lia) ltac:(lia) ltac:(lia)) as R03. clear R02 R3.
    set (a3 := upd a (k + la + 1 + lb) [inj vb]) in *. change (upd a2 (k + la + 1 + lb) [inj vb]) with a3 in R03.
    (* load_fast #d *)
    assert (R4 : run_ok d (k + la + 1 + lb) (S (k + la + 1 + lb)) a3 g3 (upd a3 (S (k + la + 1 + lb)) [inj vb; inj va]) (trc name a3 g3 (mkI OP_LOAD_FAST [reg d]))).
    { eapply run_step_next; [exact Hi2|reflexivity|apply dec_load_fast|].
      exact (exec_load_fast (reg d) a3 (trc name a3 g3 (mkI OP_LOAD_FAST [reg d])) c2 (inj va) Hf3 Hc3). }
    pose proof (run_ok_seq _ _ _ _ _ _ _ _ _ _ _ _ R03 R4 d k (S (k + la + 1 + lb)) ltac:(lia) ltac:(lia) ltac:(lia) ltac:(lia) ltac:(lia) ltac:(lia) ltac:(lia)) as R04. clear R03 R4.
    set (a4 := upd a (S (k + la + 1 + lb)) [inj vb; inj va]) in *.
    change (upd a3 (S (k + la + 1 + lb)) [inj vb; inj va]) with a4 in R04.
    set (g4 := trc name a3 g3 (mkI OP_LOAD_FAST [reg d])) in *.
    (* fast_rev2 *)
    assert (R5 : run_ok d (S (k + la + 1 + lb)) (S (S (k + la + 1 + lb))) a4 g4 (upd a4 (S (S (k + la + 1 + lb))) [inj va; inj vb]) (trc name a4 g4 (mkI OP_FAST_REV2 []))).
    { eapply run_step_next; [exact Hi3|reflexivity|apply dec_rev2|].
      exact (exec_rev2 a4 _ (inj vb) (inj va) eq_refl). }
    pose proof (run_ok_seq _ _ _ _ _ _ _ _ _ _ _ _ R04 R5 d k (S (S (k + la + 1 + lb))) ltac:(lia) ltac:(lia) ltac:(lia) ltac:(lia) ltac:(lia) ltac:(lia) ltac:(lia)) as R05. clear R04 R5.
    set (a5 := upd a (S (S (k + la + 1 + lb))) [inj va; inj vb]) in *.
    change (upd a4 (S (S (k + la + 1 + lb))) [inj va; inj vb]) with a5 in R05.
    set (g5 := trc name a4 g4 (mkI OP_FAST_REV2 [])) in *.
    assert (Hip5 : a_ip a5 = k + la + 1 + lb + 2) by (cbn; lia).
    assert (Hhi : hi = S (k + la + 1 + lb + 2)) by (unfold hi; lia).
    (* the operator *)
    destruct (arith_op_dec o) as [->|[->|Hao]].
    - pose proof (eq_agree va vb s) as Hag. pose proof (exec_equ a5 (trc name a5 g5 (op_instr BEq)) _ _ eq_refl) as He.
      destruct (binop_sem BEq va vb s) as [v s1|s1|f s1|]; cbn [sim_post]; try contradiction.
      + destruct Hag as (-> & b & -> & Hve). rewrite Hve in He.
        split; [reflexivity|]. split; [exact Logic.I|]. eexists. fold hi. rewrite Hhi. re_upd a a5.
        eapply run_ok_seq; [exact R05|eapply (run_step_next d); [exact Hi4|exact Hip5|apply dec_equ|exact He]|lia..].
      + destruct Hag as (-> & Hve & Hrel). rewrite Hve in He.
        split; [reflexivity|]. eapply run_ok_fail_seq; [exact R05|eapply (run_step_fail d); [exact Hi4|exact Hip5|apply dec_equ|exact He|exact Hrel]|lia..].
    - pose proof (neq_agree va vb s) as Hag. pose proof (exec_neq a5 (trc name a5 g5 (op_instr BNeq)) _ _ eq_refl) as He.
      destruct (binop_sem BNeq va vb s) as [v s1|s1|f s1|]; cbn [sim_post]; try contradiction.
      + destruct Hag as (-> & b & -> & Hve). rewrite Hve in He.
        split; [reflexivity|]. split; [exact Logic.I|]. eexists. fold hi. rewrite Hhi. re_upd a a5.
        eapply run_ok_seq; [exact R05|eapply (run_step_next d); [exact Hi4|exact Hip5|apply dec_neq|exact He]|lia..].
      + destruct Hag as (-> & Hve & Hrel). rewrite Hve in He.
        split; [reflexivity|]. eapply run_ok_fail_seq; [exact R05|eapply (run_step_fail d); [exact Hi4|exact Hip5|apply dec_neq|exact He|exact Hrel]|lia..].
    - pose proof (binop_agree o va vb s Hao) as Hag.
      pose proof (exec_bin_op (binop_sym o) a5 (trc name a5 g5 (op_instr o)) _ _ eq_refl) as He.
      destruct (binop_sem o va vb s) as [v s1|s1|f s1|]; cbn [sim_post]; try contradiction.
      + destruct Hag as (-> & Hfov & Hbo). rewrite Hbo in He.
        split; [reflexivity|]. split; [exact Hfov|]. eexists. fold hi. rewrite Hhi. re_upd a a5.
        eapply run_ok_seq; [exact R05|eapply (run_step_next d); [exact Hi4|exact Hip5|apply dec_op_instr_arith; exact Hao|exact He]|lia..].
      + destruct Hag as (-> & e & Hbo & Hrel). rewrite Hbo in He.
        split; [reflexivity|]. eapply run_ok_fail_seq; [exact R05|eapply (run_step_fail d); [exact Hi4|exact Hip5|apply dec_op_instr_arith; exact Hao|exact He|exact Hrel]|lia..].
  Qed.
  (* ---------------------------------------------------------------- && : short-circuit *)
  Lemma sim_EAnd : forall ea eb, sim_spec ea -> sim_spec eb -> sim_spec (EAnd ea eb).
  Proof.
    intros ea eb IHa IHb d fuel k a g env s Hl Hv Hsm Hc Hend Hip Hops Hfr HR.
    destruct fuel as [|fuel]; [exact Logic.I|].
    rewrite eval_EAnd. cbn [lits_ok] in Hl. apply Bool.andb_true_iff in Hl as [Hla Hlb].
    rewrite used_e_and in Hv.
    assert (Hva : forall x, In x (used_e ea) -> var_ok env s x) by (intros x Hx; apply Hv, in_or_app; now left).
    assert (Hvb : forall x, In x (used_e eb) -> var_ok env s x) by (intros x Hx; apply Hv, in_or_app; now right).
    cbn [pcode] in *. rewrite !app_length in *. cbn [length] in *.
    set (la := length (pcode (S d) ea)) in *. set (lb := length (pcode (S d) eb)) in *.
    set (hi := k + (la + (1 + (lb + 2)))) in *.
    apply code_at_app in Hc as [Hca Hc]. apply code_at_app in Hc as [Hi1 Hc]. apply code_at_cons in Hi1 as [Hi1 _].
    apply code_at_app in Hc as [Hcb Hc].
    apply code_at_cons in Hc as [Hi2 Hc]. apply code_at_cons in Hc as [Hi3 _].
    cbn [length] in *. fold la in Hi1, Hcb, Hi2, Hi3. fold lb in Hi2, Hi3.
    assert (Hsd : small d) by (eapply small_le; [|exact Hsm]; lia).
    assert (Hsa : small (S d + la + 3)) by (eapply small_le; [|exact Hsm]; lia).
    assert (Hsb : small (S d + lb + 3)) by (eapply small_le; [|exact Hsm]; lia).
    assert (Hsk : small (lb + 3)) by (eapply small_le; [|exact Hsm]; lia).
    (* left operand *)
    pose proof (IHa (S d) fuel k a g env s Hla Hva Hsa Hca ltac:(fold la; lia) Hip Hops Hfr HR) as Ha. fold la in Ha.
    destruct (eval fuel env ea s) as [va s1|s1|f s1|]; cbn [sim_post] in Ha |- *; [|contradiction| |exact Logic.I].
    2:{ destruct Ha as [-> Hf]. split; [reflexivity|]. eapply run_fail_weaken; [exact Hf|lia..]. }
    destruct Ha as (-> & Hfoa & g1 & R1).
    set (a1 := upd a (k + la) [inj va]) in *.
    set (i1 := mkI OP_STORE_SKIP [reg d; s_zero; sN (lb + 3)]) in *.
    pose proof (dec_store_skip (reg d) false (lb + 3) Hsk) as Hd1.
    pose proof (exec_store_skip (reg d) false (Z.of_nat (lb + 3)) a1 (trc name a1 g1 i1) (inj va) eq_refl) as He1.
    (* the left operand is not a boolean: store_skip rejects it *)
    destruct va as [z|b|t| |p0 bd ev]; cbn [inj] in He1; cbn [sim_post];
      try (split; [reflexivity|]; eapply run_ok_fail_seq; [exact R1|eapply (run_step_fail d); [exact Hi1|reflexivity|exact Hd1|exact He1|cbn; auto]|lia..]).
    destruct b; cbn [negb] in He1; cbn [sim_post].
    2:{ (* false: jump over the right operand; its code is not executed *)
      split; [reflexivity|]. split; [exact Logic.I|]. eexists.
      fold hi. replace hi with (k + la + (lb + 3)) by (unfold hi; lia).
      change (upd a (k + la + (lb + 3)) [inj (RBool false)]) with (set_ip a1 (k + la + (lb + 3))).
      eapply run_ok_seq; [exact R1|eapply (run_step_goto d); [exact Hi1|reflexivity|exact Hd1|exact He1|lia]|lia..]. }
    (* true: park it in #d and evaluate the right operand *)
    destruct (run_step_bind d a1 g1 i1 _ _ d (VBool true) (E_panic OP_STORE_SKIP) Hi1 eq_refl Hd1)
      as (g2 & c2 & R2 & Hf2 & Hc2);
      [intros g0; unfold exec_d; reflexivity|destruct R1 as [_ E1]; exact (ext_frames_ne _ _ _ _ _ E1 Hfr)|lia|exact Hsd|].
    pose proof (run_ok_seq _ _ _ _ _ _ _ _ _ _ _ _ R1 R2 d k (S (k + la)) ltac:(lia) ltac:(lia) ltac:(lia) ltac:(lia) ltac:(lia) ltac:(lia) ltac:(lia)) as R02. clear R1 R2.
    set (a2 := upd a (S (k + la)) []) in *. change (upd a1 (S (k + la)) []) with a2 in R02.
    assert (Hfr2 : frames g2 <> []) by (destruct R02 as [_ E]; exact (ext_frames_ne _ _ _ _ _ E Hfr)).
    assert (HR2 : Renv env s a2 g2) by (exact (Renv_run _ _ _ _ _ _ _ _ _ HR R02 eq_refl)).
    pose proof (IHb (S d) fuel (k + la + 1) a2 g2 env s Hlb Hvb Hsb Hcb ltac:(fold lb; lia) ltac:(cbn; lia) eq_refl Hfr2 HR2) as Hb.
    fold lb in Hb.
    destruct (eval fuel env eb s) as [vb s1|s1|f s1|]; cbn [sim_post] in Hb |- *; [|contradiction| |exact Logic.I].
    2:{ destruct Hb as [-> Hf]. split; [reflexivity|]. eapply run_ok_fail_seq; [exact R02|exact Hf|lia..]. }
    destruct Hb as (-> & Hfob & g3 & R3).
    destruct (ext_reg_keep _ _ _ _ _ d c2 (VBool true) (proj2 R3) ltac:(lia) Hsd Hf2 Hc2) as [Hf3 Hc3].
    pose proof (run_ok_seq _ _ _ _ _ _ _ _ _ _ _ _ R02 R3 d k (k + la + 1 + lb) ltac:(lia) ltac:(lia) ltac:(lia) ltac:(lia) ltac:(lia) ltac:(lia) ltac:(lia)) as R03. clear R02 R3.
    set (a3 := upd a (k + la + 1 + lb) [inj vb]) in *. change (upd a2 (k + la + 1 + lb) [inj vb]) with a3 in R03.
    (* load_fast #d *)
    assert (R4 : run_ok d (k + la + 1 + lb) (S (k + la + 1 + lb)) a3 g3 (upd a3 (S (k + la + 1 + lb)) [inj vb; VBool true]) (trc name a3 g3 (mkI OP_LOAD_FAST [reg d]))).
    { eapply run_step_next; [exact Hi2|reflexivity|apply dec_load_fast|].
      exact (exec_load_fast (reg d) a3 (trc name a3 g3 (mkI OP_LOAD_FAST [reg d])) c2 (VBool true) Hf3 Hc3). }
    pose proof (run_ok_seq _ _ _ _ _ _ _ _ _ _ _ _ R03 R4 d k (S (k + la + 1 + lb)) ltac:(lia) ltac:(lia) ltac:(lia) ltac:(lia) ltac:(lia) ltac:(lia) ltac:(lia)) as R04. clear R03 R4.
    set (a4 := upd a (S (k + la + 1 + lb)) [inj vb; VBool true]) in *.
    change (upd a3 (S (k + la + 1 + lb)) [inj vb; VBool true]) with a4 in R04.
    set (g4 := trc name a3 g3 (mkI OP_LOAD_FAST [reg d])) in *.
    assert (Hhi : hi = S (S (k + la + 1 + lb))) by (unfold hi; lia).
    pose proof (exec_bin_op op_and a4 (trc name a4 g4 (mkI OP_BIN_OP [op_and])) _ _ eq_refl) as He.
    destruct vb as [z|b|t| |p0 bd ev]; cbn [inj] in He; cbn [sim_post];
      try (split; [reflexivity|]; eapply run_ok_fail_seq; [exact R04|eapply (run_step_fail d); [exact Hi3|reflexivity|apply dec_bin_op|exact He|cbn; auto]|lia..]).
    split; [reflexivity|]. split; [exact Logic.I|]. eexists. fold hi. rewrite Hhi. re_upd a a4.
    eapply run_ok_seq; [exact R04|eapply (run_step_next d); [exact Hi3|reflexivity|apply dec_bin_op| ]|lia..].
    rewrite He. destruct b; reflexivity.
  Qed.
  (* ---------------------------------------------------------------- || : short-circuit *)
  Lemma sim_EOr : forall ea eb, sim_spec ea -> sim_spec eb -> sim_spec (EOr ea eb).
  Proof.
    intros ea eb IHa IHb d fuel k a g env s Hl Hv Hsm Hc Hend Hip Hops Hfr HR.
    destruct fuel as [|fuel]; [exact Logic.I|].
    rewrite eval_EOr. cbn [lits_ok] in Hl. apply Bool.andb_true_iff in Hl as [Hla Hlb].
    rewrite used_e_or in Hv.
    assert (Hva : forall x, In x (used_e ea) -> var_ok env s x) by (intros x Hx; apply Hv, in_or_app; now left).
    assert (Hvb : forall x, In x (used_e eb) -> var_ok env s x) by (intros x Hx; apply Hv, in_or_app; now right).
    cbn [pcode] in *. rewrite !app_length in *. cbn [length] in *.
    set (la := length (pcode (S d) ea)) in *. set (lb := length (pcode (S d) eb)) in *.
    set (hi := k + (la + (1 + (lb + 2)))) in *.
    apply code_at_app in Hc as [Hca Hc]. apply code_at_app in Hc as [Hi1 Hc]. apply code_at_cons in Hi1 as [Hi1 _].
    apply code_at_app in Hc as [Hcb Hc].
    apply code_at_cons in Hc as [Hi2 Hc]. apply code_at_cons in Hc as [Hi3 _].
    cbn [length] in *. fold la in Hi1, Hcb, Hi2, Hi3. fold lb in Hi2, Hi3.
    assert (Hsd : small d) by (eapply small_le; [|exact Hsm]; lia).
    assert (Hsa : small (S d + la + 3)) by (eapply small_le; [|exact Hsm]; lia).
    assert (Hsb : small (S d + lb + 3)) by (eapply small_le; [|exact Hsm]; lia).
    assert (Hsk : small (lb + 3)) by (eapply small_le; [|exact Hsm]; lia).
    (* left operand *)
    pose proof (IHa (S d) fuel k a g env s Hla Hva Hsa Hca ltac:(fold la; lia) Hip Hops Hfr HR) as Ha. fold la in Ha.
    destruct (eval fuel env ea s) as [va s1|s1|f s1|]; cbn [sim_post] in Ha |- *; [|contradiction| |exact Logic.I].
    2:{ destruct Ha as [-> Hf]. split; [reflexivity|]. eapply run_fail_weaken; [exact Hf|lia..]. }
    destruct Ha as (-> & Hfoa & g1 & R1).
    set (a1 := upd a (k + la) [inj va]) in *.
    set (i1 := mkI OP_STORE_SKIP [reg d; s_one; sN (lb + 3)]) in *.
    pose proof (dec_store_skip (reg d) true (lb + 3) Hsk) as Hd1.
    pose proof (exec_store_skip (reg d) true (Z.of_nat (lb + 3)) a1 (trc name a1 g1 i1) (inj va) eq_refl) as He1.
    (* the left operand is not a boolean: store_skip rejects it *)
    destruct va as [z|b|t| |p0 bd ev]; cbn [inj] in He1; cbn [sim_post];
      try (split; [reflexivity|]; eapply run_ok_fail_seq; [exact R1|eapply (run_step_fail d); [exact Hi1|reflexivity|exact Hd1|exact He1|cbn; auto]|lia..]).
    destruct b; cbn [negb] in He1; cbn [sim_post].
    1:{ (* true: jump over the right operand; its code is not executed *)
      split; [reflexivity|]. split; [exact Logic.I|]. eexists.
      fold hi. replace hi with (k + la + (lb + 3)) by (unfold hi; lia).
      change (upd a (k + la + (lb + 3)) [inj (RBool true)]) with (set_ip a1 (k + la + (lb + 3))).
      eapply run_ok_seq; [exact R1|eapply (run_step_goto d); [exact Hi1|reflexivity|exact Hd1|exact He1|lia]|lia..]. }
    (* false: park it in #d and evaluate the right operand *)
    destruct (run_step_bind d a1 g1 i1 _ _ d (VBool false) (E_panic OP_STORE_SKIP) Hi1 eq_refl Hd1)
      as (g2 & c2 & R2 & Hf2 & Hc2);
      [intros g0; unfold exec_d; reflexivity|destruct R1 as [_ E1]; exact (ext_frames_ne _ _ _ _ _ E1 Hfr)|lia|exact Hsd|].
    pose proof (run_ok_seq _ _ _ _ _ _ _ _ _ _ _ _ R1 R2 d k (S (k + la)) ltac:(lia) ltac:(lia) ltac:(lia) ltac:(lia) ltac:(lia) ltac:(lia) ltac:(lia)) as R02. clear R1 R2.
    set (a2 := upd a (S (k + la)) []) in *. change (upd a1 (S (k + la)) []) with a2 in R02.
    assert (Hfr2 : frames g2 <> []) by (destruct R02 as [_ E]; exact (ext_frames_ne _ _ _ _ _ E Hfr)).
    assert (HR2 : Renv env s a2 g2) by (exact (Renv_run _ _ _ _ _ _ _ _ _ HR R02 eq_refl)).
    pose proof (IHb (S d) fuel (k + la + 1) a2 g2 env s Hlb Hvb Hsb Hcb ltac:(fold lb; lia) ltac:(cbn; lia) eq_refl Hfr2 HR2) as Hb.
    fold lb in Hb.
    destruct (eval fuel env eb s) as [vb s1|s1|f s1|]; cbn [sim_post] in Hb |- *; [|contradiction| |exact Logic.I].
    2:{ destruct Hb as [-> Hf]. split; [reflexivity|]. eapply run_ok_fail_seq; [exact R02|exact Hf|lia..]. }
    destruct Hb as (-> & Hfob & g3 & R3).
    destruct (ext_reg_keep _ _ _ _ _ d c2 (VBool false) (proj2 R3) ltac:(lia) Hsd Hf2 Hc2) as [Hf3 Hc3].
    pose proof (run_ok_seq _ _ _ _ _ _ _ _ _ _ _ _ R02 R3 d k (k + la + 1 + lb) ltac:(lia) ltac:(lia) ltac:(lia) ltac:(lia) ltac:(lia) ltac:(lia) ltac:(lia)) as R03. clear R02 R3.
    set (a3 := upd a (k + la + 1 + lb) [inj vb]) in *. change (upd a2 (k + la + 1 + lb) [inj vb]) with a3 in R03.
    (* load_fast #d *)
    assert (R4 : run_ok d (k + la + 1 + lb) (S (k + la + 1 + lb)) a3 g3 (upd a3 (S (k + la + 1 + lb)) [inj vb; VBool false]) (trc name a3 g3 (mkI OP_LOAD_FAST [reg d]))).
    { eapply run_step_next; [exact Hi2|reflexivity|apply dec_load_fast|].
      exact (exec_load_fast (reg d) a3 (trc name a3 g3 (mkI OP_LOAD_FAST [reg d])) c2 (VBool false) Hf3 Hc3). }
    pose proof (run_ok_seq _ _ _ _ _ _ _ _ _ _ _ _ R03 R4 d k (S (k + la + 1 + lb)) ltac:(lia) ltac:(lia) ltac:(lia) ltac:(lia) ltac:(lia) ltac:(lia) ltac:(lia)) as R04. clear R03 R4.
    set (a4 := upd a (S (k + la + 1 + lb)) [inj vb; VBool false]) in *.
    change (upd a3 (S (k + la + 1 + lb)) [inj vb; VBool false]) with a4 in R04.
    set (g4 := trc name a3 g3 (mkI OP_LOAD_FAST [reg d])) in *.
    assert (Hhi : hi = S (S (k + la + 1 + lb))) by (unfold hi; lia).
    pose proof (exec_bin_op op_or a4 (trc name a4 g4 (mkI OP_BIN_OP [op_or])) _ _ eq_refl) as He.
    destruct vb as [z|b|t| |p0 bd ev]; cbn [inj] in He; cbn [sim_post];
      try (split; [reflexivity|]; eapply run_ok_fail_seq; [exact R04|eapply (run_step_fail d); [exact Hi3|reflexivity|apply dec_bin_op|exact He|cbn; auto]|lia..]).
    split; [reflexivity|]. split; [exact Logic.I|]. eexists. fold hi. rewrite Hhi. re_upd a a4.
    eapply run_ok_seq; [exact R04|eapply (run_step_next d); [exact Hi3|reflexivity|apply dec_bin_op| ]|lia..].
    rewrite He. destruct b; reflexivity.
  Qed.
  (* ---------------------------------------------------------------- (a) or b : nil-coalescing *)
  Lemma sim_ENilOr : forall ea eb, sim_spec ea -> sim_spec eb -> sim_spec (ENilOr ea eb).
  Proof.
    intros ea eb IHa IHb d fuel k a g env s Hl Hv Hsm Hc Hend Hip Hops Hfr HR.
    destruct fuel as [|fuel]; [exact Logic.I|].
    rewrite eval_ENilOr. cbn [lits_ok] in Hl. apply Bool.andb_true_iff in Hl as [Hla Hlb].
    rewrite used_e_nilor in Hv.
    assert (Hva : forall x, In x (used_e ea) -> var_ok env s x) by (intros x Hx; apply Hv, in_or_app; now left).
    assert (Hvb : forall x, In x (used_e eb) -> var_ok env s x) by (intros x Hx; apply Hv, in_or_app; now right).
    cbn [pcode] in *. rewrite !app_length in *. cbn [length] in *.
    set (la := length (pcode (S d) ea)) in *. set (lb := length (pcode (S d) eb)) in *.
    set (hi := k + (la + (1 + lb))) in *.
    apply code_at_app in Hc as [Hca Hc]. apply code_at_app in Hc as [Hi1 Hcb]. apply code_at_cons in Hi1 as [Hi1 _].
    cbn [length] in *. fold la in Hi1, Hcb.
    assert (Hsa : small (S d + la + 3)) by (eapply small_le; [|exact Hsm]; lia).
    assert (Hsb : small (S d + lb + 3)) by (eapply small_le; [|exact Hsm]; lia).
    assert (Hsk : small (lb + 1)) by (eapply small_le; [|exact Hsm]; lia).
    pose proof (IHa (S d) fuel k a g env s Hla Hva Hsa Hca ltac:(fold la; lia) Hip Hops Hfr HR) as Ha. fold la in Ha.
    destruct (eval fuel env ea s) as [va s1|s1|f s1|]; cbn [sim_post] in Ha |- *; [|contradiction| |exact Logic.I].
    2:{ destruct Ha as [-> Hf]. split; [reflexivity|]. eapply run_fail_weaken; [exact Hf|lia..]. }
    destruct Ha as (-> & Hfoa & g1 & R1).
    set (a1 := upd a (k + la) [inj va]) in *.
    set (i1 := mkI OP_JMP_NOT_NIL [sN (lb + 1)]) in *.
    pose proof (dec_jmp_not_nil (lb + 1) Hsk) as Hd1.
    pose proof (exec_jmp_not_nil (Z.of_nat (lb + 1)) a1 (trc name a1 g1 i1) (inj va) eq_refl) as He1.
    destruct va as [z|b|t| |p0 bd ev]; cbn [inj] in He1; cbn [sim_post];
      try (split; [reflexivity|]; split; [exact Hfoa|]; eexists;
           fold hi; replace hi with (k + la + (lb + 1)) by (unfold hi; lia);
           match goal with |- context [upd a ?x ?y] => change (upd a x y) with (set_ip a1 x) end;
           eapply run_ok_seq; [exact R1|eapply (run_step_goto d); [exact Hi1|reflexivity|exact Hd1|exact He1|lia]|lia..]).
    (* nil: fall through into the right operand *)
    assert (R2 : run_ok d (k + la) (S (k + la)) a1 g1 (upd a1 (S (k + la)) []) (trc name a1 g1 i1)).
    { eapply run_step_next; [exact Hi1|reflexivity|exact Hd1|exact He1]. }
    pose proof (run_ok_seq _ _ _ _ _ _ _ _ _ _ _ _ R1 R2 d k (S (k + la)) ltac:(lia) ltac:(lia) ltac:(lia) ltac:(lia) ltac:(lia) ltac:(lia) ltac:(lia)) as R02. clear R1 R2.
    set (a2 := upd a (S (k + la)) []) in *. change (upd a1 (S (k + la)) []) with a2 in R02.
    set (g2 := trc name a1 g1 i1) in *.
    assert (Hfr2 : frames g2 <> []) by (destruct R02 as [_ E]; exact (ext_frames_ne _ _ _ _ _ E Hfr)).
    assert (HR2 : Renv env s a2 g2) by (exact (Renv_run _ _ _ _ _ _ _ _ _ HR R02 eq_refl)).
    pose proof (IHb (S d) fuel (k + la + 1) a2 g2 env s Hlb Hvb Hsb Hcb ltac:(fold lb; lia) ltac:(cbn; lia) eq_refl Hfr2 HR2) as Hb.
    fold lb in Hb.
    destruct (eval fuel env eb s) as [vb s1|s1|f s1|]; cbn [sim_post] in Hb |- *; [|contradiction| |exact Logic.I].
    - destruct Hb as (-> & Hfob & g3 & R3). split; [reflexivity|]. split; [exact Hfob|]. exists g3.
      fold hi. replace hi with (k + la + 1 + lb) by (unfold hi; lia).
      eapply run_ok_seq; [exact R02|exact R3|lia..].
    - destruct Hb as [-> Hf]. split; [reflexivity|]. eapply run_ok_fail_seq; [exact R02|exact Hf|lia..].
  Qed.

  (* ---------------------------------------------------------------- all call-free expressions *)
  Theorem sim_pure : forall e, pure e = true -> sim_spec e.
  Proof.
    induction e; intros Hp; cbn [pure] in Hp; try discriminate;
      try (apply Bool.andb_true_iff in Hp as [Hp1 Hp2]).
    - apply sim_EInt.
    - apply sim_EBool.
    - apply sim_EStr.
    - apply sim_ENil.
    - apply sim_EVar.
    - apply sim_EBin; auto.
    - apply sim_EAnd; auto.
    - apply sim_EOr; auto.
    - apply sim_ENot; auto.
    - apply sim_ENeg; auto.
    - apply sim_ENilOr; auto.
    - apply sim_EGet; auto.
  Qed.
  (* ---------------------------------------------------------------- short-circuit: the skipped operand is not executed *)
  (* generic form: after the left operand `ea` (value va) the instruction i1 jumps n ahead; only instructions of
     `ea` and i1 itself are executed, only registers > d are bound *)
  Lemma skip_generic : forall ea d fuel k a g env s va i1 dI n len,
    pure ea = true -> lits_ok ea = true -> (forall x, In x (used_e ea) -> var_ok env s x) ->
    small (S d + length (pcode (S d) ea) + 3) ->
    code_at code k (pcode (S d) ea) -> nth_error code (k + length (pcode (S d) ea)) = Some i1 -> decode i1 = DOk dI ->
    (forall a0 g0, a_ops a0 = [inj va] -> exec_d dI a0 g0 = SGoto (Z.of_nat n) a0 g0) ->
    length (pcode (S d) ea) + n = len -> k + len < length code ->
    a_ip a = k -> a_ops a = [] -> frames g <> [] -> Renv env s a g ->
    eval fuel env ea s = EVal va s ->
    exists g', run_ok (S d) k (k + length (pcode (S d) ea) + 1) a g (upd a (k + len) [inj va]) g'.
  Proof.
    intros ea d fuel k a g env s va i1 dI n len Hp Hl Hv Hsm Hca Hi1 Hd1 He1 Hlen Hend Hip Hops Hfr HR Hev.
    pose proof (sim_pure ea Hp (S d) fuel k a g env s Hl Hv Hsm Hca ltac:(lia) Hip Hops Hfr HR) as Ha.
    rewrite Hev in Ha. cbn [sim_post] in Ha. destruct Ha as (_ & _ & g1 & R1).
    set (a1 := upd a (k + length (pcode (S d) ea)) [inj va]) in *.
    eexists.
    replace (k + len) with (k + length (pcode (S d) ea) + n) by lia.
    change (upd a (k + length (pcode (S d) ea) + n) [inj va]) with (set_ip a1 (k + length (pcode (S d) ea) + n)).
    eapply run_ok_seq; [exact R1|eapply (run_step_goto (S d)); [exact Hi1|reflexivity|exact Hd1|apply He1; reflexivity|lia]|lia..].
  Qed.
End Sim.

(* ================================================================ top-level statements *)
(* the C15 register invariant: every register below d and every source variable visible in the function's
   frames keeps its cell, and the cell keeps its value *)
Definition regs_below_preserved (d : nat) (g g' : gstate) : Prop :=
  forall x c v, (src_name x \/ exists k, k < d /\ x = reg k) ->
    find_in_function x (frames g) = Some c -> cell_get g c = Some v ->
    find_in_function x (frames g') = Some c /\ cell_get g' c = Some v.

Definition frames_same_shape (g g' : gstate) : Prop :=
  map lab (frames g') = map lab (frames g) /\ tl (frames g') = tl (frames g).

Lemma ext_regs_below : forall d lo hi g g', small d -> ext d lo hi g g' -> regs_below_preserved d g g'.
Proof.
  intros d lo hi g g' Hs He x c v Hx Hf Hc. destruct Hx as [Hx|(k & Hk & ->)].
  - split; [|eapply ext_cell_get; eassumption].
    rewrite (ext_find _ _ _ _ _ He); [exact Hf|]. now apply own_reg_not_src.
  - eapply ext_reg_keep; try eassumption. eapply small_le; [|exact Hs]. lia.
Qed.

(* "once, in order": the instructions executed between g and g' (the new trace records, newest first) have
   strictly increasing addresses in execution order -- in particular none is executed twice, and everything
   belonging to the left operand (lower addresses) runs before anything of the right operand *)
Lemma ev_sorted_nodup : forall new, ev_sorted new -> NoDup (map ev_ip new).
Proof.
  induction new as [|x l IH]; intros H; [constructor|].
  inversion H as [|? ? Hs Hf]; subst. cbn [map]. constructor; [|now apply IH].
  intros Hin. apply in_map_iff in Hin as (y & Ey & Hy).
  rewrite Forall_forall in Hf. specialize (Hf y Hy). cbn beta in Hf. lia.
Qed.

Theorem ext_once : forall d lo hi g g', ext d lo hi g g' ->
  exists new, trace g' = new ++ trace g /\ Forall (fun ev => lo <= ev_ip ev < hi) new /\
              ev_sorted new /\ NoDup (map ev_ip new).
Proof.
  intros d lo hi g g' H. destruct (ext_trace _ _ _ _ _ H) as (new & E & A & S).
  exists new. repeat split; try assumption. now apply ev_sorted_nodup.
Qed.

Lemma ext_shape : forall d lo hi g g', ext d lo hi g g' -> frames_same_shape g g'.
Proof. intros d lo hi g g' H. split; [eapply ext_labs|eapply ext_tail]; exact H. Qed.

Lemma upd_ip : forall a ip ops, a_ip (upd a ip ops) = ip. Proof. reflexivity. Qed.
Lemma upd_ops : forall a ip ops, a_ops (upd a ip ops) = ops. Proof. reflexivity. Qed.
Lemma upd_rest : forall a ip ops, a_fn (upd a ip ops) = a_fn a /\ a_args (upd a ip ops) = a_args a /\
                                  a_cb (upd a ip ops) = a_cb a /\ a_ss (upd a ip ops) = a_ss a.
Proof. intros. repeat split. Qed.

Lemma embed_length : forall (pre mid post : list instr), post <> [] ->
  length pre + length mid < length (pre ++ mid ++ post).
Proof. intros pre mid post H. rewrite !app_length. destruct post; [congruence|]. cbn [length]. lia. Qed.

Section Top.
Variable path : str.

(* C01/C15 for call-free expressions: value, failure (which one, hence evaluation ORDER), registers, frames.
   No bound on the nesting depth of e. *)
Theorem cexpr_correct : forall e, pure e = true -> lits_ok e = true ->
  forall d st name pre post a g env s fuel,
  post <> [] -> small (d + length (code_of path d e st) + 3) ->
  a_ip a = length pre -> a_ops a = [] -> frames g <> [] ->
  Renv env s a g -> (forall x, In x (used_e e) -> var_ok env s x) ->
  let mid := code_of path d e st in
  let code := pre ++ mid ++ post in
  let fin := length pre + length mid in
  match eval fuel env e s with
  | EVal v s' => s' = s /\ first_order v /\ exists n g',
        steps name code n (Running a g) = Running (upd a fin [inj v]) g' /\
        Renv env s (upd a fin [inj v]) g' /\ regs_below_preserved d g g' /\ out g' = out g /\
        frames_same_shape g g' /\ ext d (length pre) fin g g'
  | EFail f s' => s' = s /\ exists n e g',
        steps name code n (Running a g) = Failed e g' /\ err_rel f e /\ out g' = out g /\
        ext d (length pre) fin g g'
  | EFuel => True
  | ENoVal _ => False
  end.
Proof.
  intros e Hp Hl d st name pre post a g env s fuel Hpost Hsm Hip Hops Hfr HR Hv mid code fin.
  subst mid code fin. rewrite (code_of_pure path e d st Hp) in *.
  pose proof (sim_pure name (pre ++ pcode d e ++ post) e Hp d fuel (length pre) a g env s Hl Hv Hsm
                       (code_at_embed _ _ _) (embed_length _ _ _ Hpost) Hip Hops Hfr HR) as H.
  destruct (eval fuel env e s) as [v s1|s1|f s1|]; cbn [sim_post] in H; [|contradiction| |exact Logic.I].
  - destruct H as (-> & Hfo & g' & [[n Hn] He]). split; [reflexivity|]. split; [exact Hfo|].
    exists n, g'. split; [exact Hn|]. split; [|split; [|split; [|split]]].
    + eapply Renv_ext; [exact HR|exact He|reflexivity].
    + eapply ext_regs_below; [|exact He]. eapply small_le; [|exact Hsm]. lia.
    + eapply ext_out; exact He.
    + eapply ext_shape; exact He.
    + exact He.
  - destruct H as (-> & e0 & g' & [n Hn] & Hr & He). split; [reflexivity|].
    exists n, e0, g'. split; [exact Hn|]. split; [exact Hr|]. split; [eapply ext_out; exact He|exact He].
Qed.

(* the same run, seen by the interpreter loop of run_fn_gen itself (Verify.Sound.loop, tied by run_fn_gen_S) *)
Corollary cexpr_correct_loop : forall e, pure e = true -> lits_ok e = true ->
  forall d st name pre post a g env s fuel rc callee,
  post <> [] -> small (d + length (code_of path d e st) + 3) ->
  a_ip a = length pre -> a_ops a = [] -> frames g <> [] ->
  Renv env s a g -> (forall x, In x (used_e e) -> var_ok env s x) ->
  let mid := code_of path d e st in
  let code := pre ++ mid ++ post in
  let fin := length pre + length mid in
  match eval fuel env e s with
  | EVal v _ => exists n g', (forall k, loop rc callee name code (n + k) a g = loop rc callee name code k (upd a fin [inj v]) g') /\
                             ext d (length pre) fin g g'
  | EFail f _ => exists n e g', (forall k, loop rc callee name code (n + k) a g = RFail e g') /\ err_rel f e /\ out g' = out g
  | EFuel => True
  | ENoVal _ => False
  end.
Proof.
  intros e Hp Hl d st name pre post a g env s fuel rc callee Hpost Hsm Hip Hops Hfr HR Hv mid code fin.
  pose proof (cexpr_correct e Hp Hl d st name pre post a g env s fuel Hpost Hsm Hip Hops Hfr HR Hv) as H.
  cbv zeta in H. fold mid code fin in H.
  destruct (eval fuel env e s) as [v s1|s1|f s1|]; [|exact H| |exact Logic.I].
  - destruct H as (_ & _ & n & g' & Hn & _ & _ & _ & _ & He). exists n, g'. split; [|exact He].
    intros k. eapply loop_steps_running. exact Hn.
  - destruct H as (_ & n & e0 & g' & Hn & Hr & Ho & _). exists n, e0, g'. split; [|split; assumption].
    intros k. eapply loop_steps_failed. exact Hn.
Qed.

(* ---------------------------------------------------------------- C15 corollaries *)
(* (1a) left to right, first failure wins: if the LEFT operand fails, the compiled binary expression fails with
   that failure -- whatever the right operand is (it may itself fail, differently) *)
Corollary left_failure_first : forall o ea eb, pure (EBin o ea eb) = true -> lits_ok (EBin o ea eb) = true ->
  forall d st name pre post a g env s fuel f,
  post <> [] -> small (d + length (code_of path d (EBin o ea eb) st) + 3) ->
  a_ip a = length pre -> a_ops a = [] -> frames g <> [] ->
  Renv env s a g -> (forall x, In x (used_e (EBin o ea eb)) -> var_ok env s x) ->
  eval fuel env ea s = EFail f s ->
  exists n e g', steps name (pre ++ code_of path d (EBin o ea eb) st ++ post) n (Running a g) = Failed e g' /\
                 err_rel f e /\ out g' = out g.
Proof.
  intros o ea eb Hp Hl d st name pre post a g env s fuel f Hpost Hsm Hip Hops Hfr HR Hv Hev.
  pose proof (cexpr_correct _ Hp Hl d st name pre post a g env s (S fuel) Hpost Hsm Hip Hops Hfr HR Hv) as H.
  cbv zeta in H. rewrite eval_EBin, Hev in H.
  destruct H as (_ & n & e & g' & Hn & Hr & Ho & _). exists n, e, g'. auto.
Qed.

(* (1b) ... and when the left operand has a value, a failure of the RIGHT operand is the one reported *)
Corollary right_failure_second : forall o ea eb, pure (EBin o ea eb) = true -> lits_ok (EBin o ea eb) = true ->
  forall d st name pre post a g env s fuel va f,
  post <> [] -> small (d + length (code_of path d (EBin o ea eb) st) + 3) ->
  a_ip a = length pre -> a_ops a = [] -> frames g <> [] ->
  Renv env s a g -> (forall x, In x (used_e (EBin o ea eb)) -> var_ok env s x) ->
  eval fuel env ea s = EVal va s -> eval fuel env eb s = EFail f s ->
  exists n e g', steps name (pre ++ code_of path d (EBin o ea eb) st ++ post) n (Running a g) = Failed e g' /\
                 err_rel f e /\ out g' = out g.
Proof.
  intros o ea eb Hp Hl d st name pre post a g env s fuel va f Hpost Hsm Hip Hops Hfr HR Hv Hev1 Hev2.
  pose proof (cexpr_correct _ Hp Hl d st name pre post a g env s (S fuel) Hpost Hsm Hip Hops Hfr HR Hv) as H.
  cbv zeta in H. rewrite eval_EBin, Hev1, Hev2 in H.
  destruct H as (_ & n & e & g' & Hn & Hr & Ho & _). exists n, e, g'. auto.
Qed.

(* (1c) short-circuit.  `a && b` with a = false: the machine reaches the end of the expression with [false],
   having executed ONLY instructions of a's code and the store_skip (trace component of `ext`: every executed
   ip is < |pre| + |code a| + 1), binding only registers > d.  The right operand b is ARBITRARY: any expression
   of the language (calls, function literals, ill-scoped, failing ...) -- none of its instructions is executed. *)
Lemma strip_app : forall a b, strip (a ++ b) = strip a ++ strip b.
Proof.
  induction a as [|x a IH]; intros b; [reflexivity|]. destruct x; cbn [app strip]; rewrite IH; reflexivity.
Qed.
Lemma strip_CI_length : forall l, Forall is_CI l -> length (strip l) = length l.
Proof.
  induction l as [|x l IH]; intros H; [reflexivity|]. inversion H as [|? ? Hx Hl]; subst.
  destruct x; try contradiction. cbn [strip length]. now rewrite IH.
Qed.

Lemma code_of_EAnd_any : forall ea eb d st, pure ea = true ->
  code_of path d (EAnd ea eb) st =
  pcode (S d) ea ++ [mkI OP_STORE_SKIP [reg d; s_zero; sN (length (code_of path (S d) eb st) + 3)]]
    ++ (code_of path (S d) eb st ++ [mkI OP_LOAD_FAST [reg d]; mkI OP_BIN_OP [op_and]]).
Proof.
  intros ea eb d st Hp. unfold code_of. rewrite cexpr_EAnd, (cexpr_pure path ea Hp).
  pose proof (cexpr_only_instructions path eb (S d) st) as Hci.
  destruct (cexpr path (S d) eb st) as [cb st']. cbn [fst] in *.
  rewrite !strip_app, strip_map_CI, (strip_CI_length cb Hci). reflexivity.
Qed.
Lemma code_of_EOr_any : forall ea eb d st, pure ea = true ->
  code_of path d (EOr ea eb) st =
  pcode (S d) ea ++ [mkI OP_STORE_SKIP [reg d; s_one; sN (length (code_of path (S d) eb st) + 3)]]
    ++ (code_of path (S d) eb st ++ [mkI OP_LOAD_FAST [reg d]; mkI OP_BIN_OP [op_or]]).
Proof.
  intros ea eb d st Hp. unfold code_of. rewrite cexpr_EOr, (cexpr_pure path ea Hp).
  pose proof (cexpr_only_instructions path eb (S d) st) as Hci.
  destruct (cexpr path (S d) eb st) as [cb st']. cbn [fst] in *.
  rewrite !strip_app, strip_map_CI, (strip_CI_length cb Hci). reflexivity.
Qed.
Lemma code_of_ENilOr_any : forall ea eb d st, pure ea = true ->
  code_of path d (ENilOr ea eb) st =
  pcode (S d) ea ++ [mkI OP_JMP_NOT_NIL [sN (length (code_of path (S d) eb st) + 1)]] ++ code_of path (S d) eb st.
Proof.
  intros ea eb d st Hp. unfold code_of. rewrite cexpr_ENilOr, (cexpr_pure path ea Hp).
  pose proof (cexpr_only_instructions path eb (S d) st) as Hci.
  destruct (cexpr path (S d) eb st) as [cb st']. cbn [fst] in *.
  rewrite !strip_app, strip_map_CI, (strip_CI_length cb Hci). reflexivity.
Qed.

Definition skip_stmt (e ea : expr) (v : rvalue) : Prop :=
  forall d st name pre post a g env s fuel,
  pure ea = true -> lits_ok ea = true ->
  post <> [] -> small (d + length (code_of path d e st) + 3) ->
  a_ip a = length pre -> a_ops a = [] -> frames g <> [] ->
  Renv env s a g -> (forall x, In x (used_e ea) -> var_ok env s x) ->
  eval fuel env ea s = EVal v s ->
  exists n g',
    steps name (pre ++ code_of path d e st ++ post) n (Running a g)
      = Running (upd a (length pre + length (code_of path d e st)) [inj v]) g' /\
    ext (S d) (length pre) (length pre + length (code_of path (S d) ea st) + 1) g g'.

Lemma skip_top : forall e ea v i1 dI rest,
  (forall a0 g0, a_ops a0 = [inj v] -> exec_d dI a0 g0 = SGoto (Z.of_nat (length rest + 1)) a0 g0) ->
  forall d st name pre post a g env s fuel,
  pure ea = true -> lits_ok ea = true ->
  code_of path d e st = pcode (S d) ea ++ [i1] ++ rest -> decode i1 = DOk dI ->
  post <> [] -> small (d + length (code_of path d e st) + 3) ->
  a_ip a = length pre -> a_ops a = [] -> frames g <> [] ->
  Renv env s a g -> (forall x, In x (used_e ea) -> var_ok env s x) ->
  eval fuel env ea s = EVal v s ->
  exists n g',
    steps name (pre ++ code_of path d e st ++ post) n (Running a g)
      = Running (upd a (length pre + length (code_of path d e st)) [inj v]) g' /\
    ext (S d) (length pre) (length pre + length (code_of path (S d) ea st) + 1) g g'.
Proof.
  intros e ea v i1 dI rest He1 d st name pre post a g env s fuel Hpa Hla Hlay Hd1 Hpost Hsm Hip Hops Hfr HR Hv Hev.
  rewrite (code_of_pure path _ (S d) st Hpa).
  pose proof (code_at_embed pre (code_of path d e st) post) as Hc.
  pose proof (embed_length pre (code_of path d e st) post Hpost) as Hend.
  rewrite Hlay in Hc, Hend, Hsm |- *. rewrite !app_length in Hend, Hsm |- *. cbn [length] in Hend, Hsm |- *.
  apply code_at_app in Hc as [Hca Hc]. apply code_at_app in Hc as [Hi1 _]. apply code_at_cons in Hi1 as [Hi1 _].
  destruct (skip_generic name _ ea d fuel (length pre) a g env s v i1 dI
              (length rest + 1) (length (pcode (S d) ea) + (1 + length rest))
              Hpa Hla Hv ltac:(eapply small_le; [|exact Hsm]; lia) Hca Hi1 Hd1 He1)
    as (g' & [[n Hn] He]); try assumption; try lia.
  exists n, g'. split; [exact Hn|exact He].
Qed.

Corollary and_false_skips_right : forall ea eb, skip_stmt (EAnd ea eb) ea (RBool false).
Proof.
  intros ea eb d st name pre post a g env s fuel Hpa Hla Hpost Hsm.
  pose proof (code_of_EAnd_any ea eb d st Hpa) as Hlay.
  assert (Hsk : small (length (code_of path (S d) eb st) + 3)).
  { eapply small_le; [|exact Hsm]. rewrite Hlay, !app_length. cbn [length]. lia. }
  eapply skip_top with (rest := code_of path (S d) eb st ++ [mkI OP_LOAD_FAST [reg d]; mkI OP_BIN_OP [op_and]])
                      (dI := DStoreSkip (reg d) false (Z.of_nat (length (code_of path (S d) eb st) + 3)));
    try eassumption.
  - intros a0 g0 H0. rewrite (exec_store_skip _ _ _ _ _ _ H0). cbn [inj negb]. rewrite app_length. cbn [length].
    replace (length (code_of path (S d) eb st) + 2 + 1) with (length (code_of path (S d) eb st) + 3) by lia. reflexivity.
  - exact (dec_store_skip (reg d) false _ Hsk).
Qed.

Corollary or_true_skips_right : forall ea eb, skip_stmt (EOr ea eb) ea (RBool true).
Proof.
  intros ea eb d st name pre post a g env s fuel Hpa Hla Hpost Hsm.
  pose proof (code_of_EOr_any ea eb d st Hpa) as Hlay.
  assert (Hsk : small (length (code_of path (S d) eb st) + 3)).
  { eapply small_le; [|exact Hsm]. rewrite Hlay, !app_length. cbn [length]. lia. }
  eapply skip_top with (rest := code_of path (S d) eb st ++ [mkI OP_LOAD_FAST [reg d]; mkI OP_BIN_OP [op_or]])
                      (dI := DStoreSkip (reg d) true (Z.of_nat (length (code_of path (S d) eb st) + 3)));
    try eassumption.
  - intros a0 g0 H0. rewrite (exec_store_skip _ _ _ _ _ _ H0). cbn [inj negb]. rewrite app_length. cbn [length].
    replace (length (code_of path (S d) eb st) + 2 + 1) with (length (code_of path (S d) eb st) + 3) by lia. reflexivity.
  - exact (dec_store_skip (reg d) true _ Hsk).
Qed.

Corollary nilor_nonnil_skips_right : forall ea eb v, v <> RNil -> skip_stmt (ENilOr ea eb) ea v.
Proof.
  intros ea eb v Hnn d st name pre post a g env s fuel Hpa Hla Hpost Hsm.
  pose proof (code_of_ENilOr_any ea eb d st Hpa) as Hlay.
  assert (Hsk : small (length (code_of path (S d) eb st) + 1)).
  { eapply small_le; [|exact Hsm]. rewrite Hlay, !app_length. cbn [length]. lia. }
  eapply skip_top with (rest := code_of path (S d) eb st)
                      (dI := DJmpNotNil (Z.of_nat (length (code_of path (S d) eb st) + 1))); try eassumption.
  - intros a0 g0 H0. rewrite (exec_jmp_not_nil _ _ _ _ H0). destruct v; try reflexivity. congruence.
  - exact (dec_jmp_not_nil _ Hsk).
Qed.

(* (2) register non-interference, the invariant C15 singles out: running the code of a sub-expression compiled
   at depth d leaves every register #k, k < d, and every source variable in the cell it had, with the value it had *)
Corollary regs_noninterference : forall e, pure e = true -> lits_ok e = true ->
  forall d st name pre post a g env s fuel v,
  post <> [] -> small (d + length (code_of path d e st) + 3) ->
  a_ip a = length pre -> a_ops a = [] -> frames g <> [] ->
  Renv env s a g -> (forall x, In x (used_e e) -> var_ok env s x) ->
  eval fuel env e s = EVal v s ->
  exists n g', steps name (pre ++ code_of path d e st ++ post) n (Running a g)
                 = Running (upd a (length pre + length (code_of path d e st)) [inj v]) g' /\
    forall k c w, k < d -> find_in_function (reg k) (frames g) = Some c -> cell_get g c = Some w ->
                  find_in_function (reg k) (frames g') = Some c /\ cell_get g' c = Some w.
Proof.
  intros e Hp Hl d st name pre post a g env s fuel v Hpost Hsm Hip Hops Hfr HR Hv Hev.
  pose proof (cexpr_correct _ Hp Hl d st name pre post a g env s fuel Hpost Hsm Hip Hops Hfr HR Hv) as H.
  cbv zeta in H. rewrite Hev in H. destruct H as (_ & _ & n & g' & Hn & _ & Hreg & _).
  exists n, g'. split; [exact Hn|]. intros k c w Hk Hf Hc. apply (Hreg (reg k) c w); [right; exists k; auto|exact Hf|exact Hc].
Qed.
End Top.

(* ================================================================ enough fuel: eval of a call-free expression terminates *)
Fixpoint height (e : expr) : nat :=
  match e with
  | EBin _ a b | EAnd a b | EOr a b | ENilOr a b => S (Nat.max (height a) (height b))
  | ENot a | ENeg a | EGet a _ => S (height a)
  | _ => 0
  end.

Lemma binop_sem_not_fuel : forall o a b s, binop_sem o a b s <> EFuel.
Proof.
  intros o a b s. destruct o, a, b; cbn; unfold arith_res;
    repeat match goal with |- context [if ?c then _ else _] => destruct c end;
    try discriminate;
    repeat match goal with |- context [match ?c with _ => _ end] => destruct c end; discriminate.
Qed.

Lemma eval_pure_fuel : forall e, pure e = true -> forall fuel env s0, height e < fuel -> eval fuel env e s0 <> EFuel.
Proof.
  induction e; intros Hp fuel env s0 Hh; cbn [pure] in Hp; try discriminate;
    try (apply Bool.andb_true_iff in Hp as [Hp1 Hp2]);
    (destruct fuel as [|fuel]; [lia|]); cbn [height] in Hh.
  - discriminate.
  - discriminate.
  - discriminate.
  - discriminate.
  - rewrite eval_EVar. destruct (lookup_scopes _ _); [destruct (sget _ _)|]; discriminate.
  - rewrite eval_EBin. pose proof (IHe1 Hp1 fuel env s0 ltac:(lia)) as H1.
    destruct (eval fuel env e1 s0) as [va s1|s1|f s1|]; try discriminate; [|contradiction].
    pose proof (IHe2 Hp2 fuel env s1 ltac:(lia)) as H2.
    destruct (eval fuel env e2 s1) as [vb s2|s2|f s2|]; try discriminate; [|contradiction].
    apply binop_sem_not_fuel.
  - rewrite eval_EAnd. pose proof (IHe1 Hp1 fuel env s0 ltac:(lia)) as H1.
    destruct (eval fuel env e1 s0) as [va s1|s1|f s1|]; try discriminate; [|contradiction].
    destruct va as [z|[|]|t| |p b c]; try discriminate.
    pose proof (IHe2 Hp2 fuel env s1 ltac:(lia)) as H2.
    destruct (eval fuel env e2 s1) as [vb s2|s2|f s2|]; try discriminate; [|contradiction].
    destruct vb; discriminate.
  - rewrite eval_EOr. pose proof (IHe1 Hp1 fuel env s0 ltac:(lia)) as H1.
    destruct (eval fuel env e1 s0) as [va s1|s1|f s1|]; try discriminate; [|contradiction].
    destruct va as [z|[|]|t| |p b c]; try discriminate.
    pose proof (IHe2 Hp2 fuel env s1 ltac:(lia)) as H2.
    destruct (eval fuel env e2 s1) as [vb s2|s2|f s2|]; try discriminate; [|contradiction].
    destruct vb; discriminate.
  - rewrite eval_ENot. pose proof (IHe Hp fuel env s0 ltac:(lia)) as H1.
    destruct (eval fuel env e s0) as [va s1|s1|f s1|]; try discriminate; [|contradiction].
    destruct va; discriminate.
  - rewrite eval_ENeg. pose proof (IHe Hp fuel env s0 ltac:(lia)) as H1.
    destruct (eval fuel env e s0) as [va s1|s1|f s1|]; try discriminate; [|contradiction].
    destruct va; try discriminate. unfold arith_res. destruct (i32_ok (- z)); discriminate.
  - rewrite eval_ENilOr. pose proof (IHe1 Hp1 fuel env s0 ltac:(lia)) as H1.
    destruct (eval fuel env e1 s0) as [va s1|s1|f s1|]; try discriminate; [|contradiction].
    destruct va; try discriminate. apply IHe2; [exact Hp2|lia].
  - rewrite eval_EGet. pose proof (IHe Hp fuel env s0 ltac:(lia)) as H1.
    destruct (eval fuel env e s0) as [va s1|s1|f s1|]; try discriminate; [|contradiction].
    destruct va; discriminate.
Qed.
