(* C01 / C07, closures -- part 1: the fragment with FIRST-CLASS FUNCTION VALUES.

   Function literals anywhere (inside function bodies and blocks: factories), closures by reference with `modify`
   writes through the captured cell, function values returned, stored, passed as arguments and called through a
   variable, `self(..)`.  Statements: assignment, modify, op-assignment, print, assert, expression statements, if,
   if / else, else-if, while, from loops of every form (named fresh / colliding / anonymous counter, step), break, continue,
   return (with and without a value).  Expressions: calls anywhere -- operands of arithmetic and comparisons, of && || !
   (short-circuit over calls), of `(a) or b` and `get a`, arguments of calls.

     kind            the static kinds: KD (a first-order value) / KF ps r (a function taking ps, returning r) /
                     KN (the result of a function that does not surely end with `return e`: maybe no value).
                     The Core syntax carries no types: the kind of a parameter is read off its use in the body
                     (called with n arguments = a function of n data arguments returning data, otherwise data)
     kexpr / kstmt   the decidable fragment test = a kind checker (contexts: B the locals, CD the captured names)
     ec / sc         the code of an expression / statement and the functions it defines, as plain functions of the
                     syntax (k = the id of the next function literal, lr = the loop-register counter)
     cexpr_clos / cstmt_clos   the code generator (Compile/Compile.v) computes exactly that on the fragment *)
From Coq Require Import List Arith ZArith Lia Bool.
Import ListNotations.
From MS Require Import Base.Str Vm.Model Lang.Syntax Lang.Eval Compile.Compile Compile.ExprBase Compile.ExprSim.
From MS Require Import Compile.StmtMach Compile.StmtRel Compile.StmtFrag Compile.StmtSim Compile.StmtFun.
Open Scope nat_scope.

(* ================================================================ kinds *)
(* KN: the result of a function that may return no value (a procedure): a first-order value if there is one *)
Inductive kind := KD | KF (ps : list kind) (r : kind) | KN.

Fixpoint kind_eqb (a b : kind) {struct a} : bool :=
  match a, b with
  | KD, KD => true
  | KN, KN => true
  | KF p1 r1, KF p2 r2 =>
    (fix go (l1 l2 : list kind) {struct l1} : bool :=
       match l1, l2 with
       | [], [] => true
       | x :: l1, y :: l2 => kind_eqb x y && go l1 l2
       | _, _ => false end) p1 p2 && kind_eqb r1 r2
  | _, _ => false
  end.
Fixpoint kinds_eqb (l1 l2 : list kind) : bool :=
  match l1, l2 with
  | [], [] => true
  | x :: l1, y :: l2 => kind_eqb x y && kinds_eqb l1 l2
  | _, _ => false end.
Lemma kind_eqb_KF : forall p1 r1 p2 r2, kind_eqb (KF p1 r1) (KF p2 r2) = kinds_eqb p1 p2 && kind_eqb r1 r2.
Proof. reflexivity. Qed.

Lemma kind_eqb_eq : forall a b, kind_eqb a b = true -> a = b.
Proof.
  fix IH 1. intros [|p1 r1|] [|p2 r2|] H; try discriminate; try reflexivity.
  rewrite kind_eqb_KF in H. apply andb_true_iff in H as [Hp Hr]. rewrite (IH r1 r2 Hr). f_equal.
  revert p2 Hp. induction p1 as [|x p1 IHp]; intros [|y p2] Hp; try discriminate; [reflexivity|].
  cbn [kinds_eqb] in Hp. apply andb_true_iff in Hp as [Hx Hp]. rewrite (IH x y Hx), (IHp p2 Hp). reflexivity.
Qed.
Lemma kinds_eqb_eq : forall l1 l2, kinds_eqb l1 l2 = true -> l1 = l2.
Proof.
  induction l1 as [|x l1 IH]; intros [|y l2] H; try discriminate; [reflexivity|].
  cbn [kinds_eqb] in H. apply andb_true_iff in H as [Hx H]. now rewrite (kind_eqb_eq _ _ Hx), (IH _ H).
Qed.

(* ================================================================ the kind of a parameter: how the body uses it *)
Fixpoint call_ar_e (p : str) (e : expr) {struct e} : option nat :=
  let fix go (l : list expr) : option nat :=
    match l with [] => None | a :: l => match call_ar_e p a with Some n => Some n | None => go l end end in
  match e with
  | EBin _ a b | EAnd a b | EOr a b | ENilOr a b => match call_ar_e p a with Some n => Some n | None => call_ar_e p b end
  | ENot a | ENeg a | EGet a _ => call_ar_e p a
  | ECall f args =>
    match f with
    | EVar g => if str_eqb g p then Some (length args) else go args
    | _ => go args end
  | ESelf args => go args
  | _ => None
  end.
Fixpoint call_ar_s (p : str) (s : stmt) {struct s} : option nat :=
  let fix gs (l : list stmt) : option nat :=
    match l with [] => None | s :: l => match call_ar_s p s with Some n => Some n | None => gs l end end in
  match s with
  | SAssign _ e | SModify _ e | SOpAssign _ _ e | SPrint e | SAssert e _ | SExpr e => call_ar_e p e
  | SReturn (Some e) => call_ar_e p e
  | SIf c b | SWhile c b => match call_ar_e p c with Some n => Some n | None => gs b end
  | SIfElse c b e => match call_ar_e p c with Some n => Some n | None => match gs b with Some n => Some n | None => gs e end end
  | SFrom a b _ _ _ _ body =>
    match call_ar_e p a with Some n => Some n | None => match call_ar_e p b with Some n => Some n | None => gs body end end
  | _ => None
  end.
Fixpoint call_ar_b (p : str) (l : list stmt) : option nat :=
  match l with [] => None | s :: l => match call_ar_s p s with Some n => Some n | None => call_ar_b p l end end.
Definition pkind (body : list stmt) (p : str) : kind :=
  match call_ar_b p body with Some n => KF (repeat KD n) KD | None => KD end.

(* ================================================================ the kind checker = the fragment *)
Definition kctx := list (str * kind).
Definition kvar (B CD : kctx) (x : str) : option kind :=
  match assoc x B with Some k => Some k | None => assoc x CD end.
Definition is_KD (k : option kind) : bool := match k with Some KD => true | _ => false end.
(* a call-free expression over DATA variables *)
Definition ok_dexpr (B CD : kctx) (e : expr) : bool :=
  pure e && lits_ok e && forallb (fun x => src_nameb x && is_KD (kvar B CD x)) (used_e e).
Fixpoint capctx (B CD : kctx) (ns : list str) : option kctx :=
  match ns with
  | [] => Some []
  | n :: ns => match kvar B CD n, capctx B CD ns with
               | Some k, Some G => Some ((n, k) :: G) | _, _ => None end
  end.
Fixpoint nodupb (l : list str) : bool :=
  match l with [] => true | x :: t => negb (mem_str x t) && nodupb t end.

(* the body surely ends with `return e` *)
Fixpoint last_ret (l : list stmt) : bool :=
  match l with
  | [] => false
  | [st] => match st with SReturn (Some _) => true | _ => false end
  | _ :: l' => last_ret l' end.
(* the kind of the result of a function: that of its returned values if it surely returns, otherwise "maybe nothing" *)
Definition rkind (body : list stmt) (rets : list kind) : kind := if last_ret body then hd KD rets else KN.
(* the kinds of the values a function of result kind r returns: r; a function that may return no value (KN) may also return data *)
Definition ret_ok (r k : kind) : bool := kind_eqb r k || (kind_eqb r KN && kind_eqb k KD).

(* the code of a statement (list) may end exactly at the end of the function when it is a `return` (with or without value) *)
Definition isret (st : stmt) : bool := match st with SReturn _ => true | _ => false end.
Fixpoint endsret (l : list stmt) : bool :=
  match l with [] => true | [st] => isret st | _ :: l' => endsret l' end.
Lemma endsret_snoc : forall l st, endsret (l ++ [st]) = isret st.
Proof.
  induction l as [|x l IH]; intros st; [reflexivity|]. cbn [app]. destruct l as [|y l]; [reflexivity|].
  change (endsret (x :: (y :: l) ++ [st])) with (endsret ((y :: l) ++ [st])). apply IH.
Qed.

(* no function literal inside (the step expression of a `from` loop) *)
Fixpoint noefn (e : expr) {struct e} : bool :=
  let fix go (l : list expr) : bool := match l with [] => true | a :: l => noefn a && go l end in
  match e with
  | EFn _ _ => false
  | EBin _ a b | EAnd a b | EOr a b | ENilOr a b => noefn a && noefn b
  | ENot a | ENeg a | EGet a _ => noefn a
  | ECall f l => noefn f && go l
  | ESelf l => go l
  | _ => true
  end.

(* the names a statement may leave bound in a scope that did not bind them: assigned names and counters that are existing variables,
   at any depth (a step expression of a `from` loop may read a captured variable none of these shadows: the step runs while the frame
   of the body is still there) *)
Fixpoint asg (st : stmt) {struct st} : list str :=
  match st with
  | SAssign x _ => [x]
  | SIf _ body | SWhile _ body => flat_map asg body
  | SIfElse _ body els => flat_map asg body ++ flat_map asg els
  | SIfElif _ body nxt => flat_map asg body ++ asg nxt
  | SFrom _ _ _ _ nm collide body =>
    match nm, collide with
    | Some x, false => filter (fun z => negb (str_eqb x z)) (flat_map asg body)    (* a fresh counter is bound throughout the body, and gone afterwards *)
    | Some x, true => x :: flat_map asg body
    | None, _ => flat_map asg body
    end
  | _ => []
  end.
Definition asgl (l : list stmt) : list str := flat_map asg l.
Definition step_free (B : kctx) (body : list stmt) (e : expr) : bool :=
  forallb (fun y => mem_str y (map fst B) || negb (mem_str y (asgl body))) (used_e e).

(* x is not mentioned in e: not as a variable, not as a free variable of a function literal *)
Fixpoint nm (x : str) (e : expr) {struct e} : bool :=
  let fix go (l : list expr) : bool := match l with [] => true | a :: l => nm x a && go l end in
  match e with
  | EVar y => negb (str_eqb y x)
  | EBin _ a b | EAnd a b | EOr a b | ENilOr a b => nm x a && nm x b
  | ENot a | ENeg a | EGet a _ => nm x a
  | ECall f l => nm x f && go l
  | ESelf l => go l
  | EFn ps body => negb (mem_str x (free_vars ps body))
  | _ => true
  end.
Definition nml (x : str) (l : list expr) : bool := forallb (nm x) l.
Lemma nm_ECall : forall x f l, nm x (ECall f l) = nm x f && nml x l.
Proof. reflexivity. Qed.
Lemma nm_ESelf : forall x l, nm x (ESelf l) = nml x l.
Proof. reflexivity. Qed.

Definition kres := option (kctx * list kind).       (* the locals afterwards, the kinds of the values returned *)

Definition sfk := option (list kind * kind).     (* inside a function: the kinds of its parameters and of its result (for self(..)) *)

Fixpoint kexpr (SF : sfk) (B CD : kctx) (e : expr) {struct e} : option kind :=
  let fix kargs (l : list expr) {struct l} : option (list kind) :=
    match l with
    | [] => Some []
    | a :: l => match kexpr SF B CD a, kargs l with Some k, Some ks => Some (k :: ks) | _, _ => None end
    end in
  if ok_dexpr B CD e then Some KD else
  match e with
  | EVar x => if src_nameb x then kvar B CD x else None
  | EBin _ a b | EAnd a b | EOr a b | ENilOr a b =>
    match kexpr SF B CD a, kexpr SF B CD b with Some KD, Some KD => Some KD | _, _ => None end
  | ENot a | ENeg a | EGet a _ => match kexpr SF B CD a with Some KD => Some KD | _ => None end
  | ECall f args =>
    match f with
    | EVar g =>
      if src_nameb g then
        match kvar B CD g, kargs args with
        | Some (KF pk r), Some ks => if kinds_eqb ks pk then Some r else None
        | _, _ => None end
      else None
    | _ => None end
  | ESelf args =>
    match SF with
    | Some (pk, r) => match kargs args with Some ks => if kinds_eqb ks pk then Some r else None | None => None end
    | None => None end
  | EFn ps body =>
    let pk := map (pkind body) ps in
    match capctx B CD (free_vars ps body) with
    | Some G =>
      let kb := fun (sf : sfk) => fix kb (B' : kctx) (l : list stmt) {struct l} : kres :=
        match l with
        | [] => Some (B', [])
        | s :: l => match kstmt sf false B' G s with
                    | Some (B'', r1) => match kb B'' l with Some (B3, r2) => Some (B3, r1 ++ r2) | None => None end
                    | None => None end
        end in
      match kb (Some (pk, KD)) (rev (combine ps pk)) body with
      | Some (_, rets0) =>
        let r := rkind body rets0 in
        match (if kind_eqb r KD then Some rets0
               else match kb (Some (pk, r)) (rev (combine ps pk)) body with Some (_, rets) => Some rets | None => None end) with
        | Some rets => if nodupb ps && forallb src_nameb ps && forallb (ret_ok r) rets then Some (KF pk r) else None
        | None => None end
      | None => None end
    | None => None end
  | _ => None
  end
with kstmt (SF : sfk) (il : bool) (B CD : kctx) (s : stmt) {struct s} : kres :=
  let fix kb (il : bool) (B' : kctx) (l : list stmt) {struct l} : kres :=
    match l with
    | [] => Some (B', [])
    | s :: l => match kstmt SF il B' CD s with
                | Some (B'', r1) => match kb il B'' l with Some (B3, r2) => Some (B3, r1 ++ r2) | None => None end
                | None => None end
    end in
  match s with
  | SAssign x e =>
    if src_nameb x then
      match kexpr SF B CD e with
      | Some k => match assoc x B with
                  | Some k' => if kind_eqb k k' then Some (B, []) else None
                  | None => Some ((x, k) :: B, []) end
      | None => None end
    else None
  | SModify x e =>
    match assoc x CD, kexpr SF B CD e with
    | Some k', Some k => if src_nameb x && kind_eqb k k' then Some (B, []) else None
    | _, _ => None end
  | SOpAssign x o e =>
    if arith5 o && src_nameb x && is_KD (kvar B CD x) && is_KD (kexpr SF B CD e) then Some (B, []) else None
  | SPrint e => if is_KD (kexpr SF B CD e) then Some (B, []) else None
  | SAssert e _ => if is_KD (kexpr SF B CD e) then Some (B, []) else None
  | SExpr e => match kexpr SF B CD e with Some _ => Some (B, []) | None => None end
  | SIf c body =>
    if is_KD (kexpr SF B CD c) then match kb il B body with Some (_, r) => Some (B, r) | None => None end else None
  | SIfElse c body els =>
    if is_KD (kexpr SF B CD c) then
      match kb il B body, kb il B els with Some (_, r1), Some (_, r2) => Some (B, r1 ++ r2) | _, _ => None end
    else None
  | SIfElif c body nxt =>
    if is_KD (kexpr SF B CD c) then
      match kb il B body, kstmt SF il B CD nxt with Some (_, r1), Some (_, r2) => Some (B, r1 ++ r2) | _, _ => None end
    else None
  | SWhile c body =>
    if is_KD (kexpr SF B CD c) then match kb true B body with Some (_, r) => Some (B, r) | None => None end else None
  | SFrom a b incl step name collide body =>
    (* the step: a call-free expression over data variables; it runs inside the frame of the body, so the captured ones it reads
       are not bound anywhere in the body *)
    let kstep := fun B' => match step with None => true | Some e => ok_dexpr B' CD e && step_free B' body e end in
    match name, collide with
    | Some x, false =>   (* a fresh counter: a variable of the enclosing block for the duration of the loop *)
      if is_KD (kexpr SF B CD a) && is_KD (kexpr SF B CD b) && src_nameb x && negb (mem_str x (map fst B)) && kstep ((x, KD) :: B) then
        match kb true ((x, KD) :: B) body with Some (_, r) => Some (B, r) | None => None end
      else None
    | Some x, true =>    (* the counter is an existing local variable *)
      if is_KD (kexpr SF B CD a) && is_KD (kexpr SF B CD b) && src_nameb x && is_KD (assoc x B) && kstep B then
        match kb true B body with Some (_, r) => Some (B, r) | None => None end
      else None
    | None, false =>     (* a hidden counter *)
      if is_KD (kexpr SF B CD a) && is_KD (kexpr SF B CD b) && kstep B then
        match kb true B body with Some (_, r) => Some (B, r) | None => None end
      else None
    | None, true => None
    end
  | SBreak | SContinue => if il then Some (B, []) else None
  | SReturn None => Some (B, [KN])
  | SReturn (Some e) => match kexpr SF B CD e with Some k => Some (B, [k]) | None => None end
  end.

Fixpoint kblock (SF : sfk) (il : bool) (B CD : kctx) (l : list stmt) {struct l} : kres :=
  match l with
  | [] => Some (B, [])
  | s :: l => match kstmt SF il B CD s with
              | Some (B', r1) => match kblock SF il B' CD l with Some (B3, r2) => Some (B3, r1 ++ r2) | None => None end
              | None => None end
  end.
Fixpoint kargs (SF : sfk) (B CD : kctx) (l : list expr) : option (list kind) :=
  match l with
  | [] => Some []
  | a :: l => match kexpr SF B CD a, kargs SF B CD l with Some k, Some ks => Some (k :: ks) | _, _ => None end
  end.

(* the kind of a function literal.  The kind of the result is read off the first `return` (rkind); `self(..)` has that kind
   (first pass with the guess "data", a second one when the function returns a function) *)
Definition kfn (B CD : kctx) (ps : list str) (body : list stmt) : option (kctx * list kind * kind) :=
  let pk := map (pkind body) ps in
  match capctx B CD (free_vars ps body) with
  | Some G =>
    match kblock (Some (pk, KD)) false (rev (combine ps pk)) G body with
    | Some (_, rets0) =>
      let r := rkind body rets0 in
      match (if kind_eqb r KD then Some rets0
             else match kblock (Some (pk, r)) false (rev (combine ps pk)) G body with Some (_, rets) => Some rets | None => None end) with
      | Some rets => if nodupb ps && forallb src_nameb ps && forallb (ret_ok r) rets then Some (G, pk, r) else None
      | None => None end
    | None => None end
  | None => None end.

Lemma kblock_fix : forall SF CD l il B,
  (fix kb (il : bool) (B' : kctx) (l : list stmt) {struct l} : kres :=
     match l with
     | [] => Some (B', [])
     | s :: l => match kstmt SF il B' CD s with
                 | Some (B'', r1) => match kb il B'' l with Some (B3, r2) => Some (B3, r1 ++ r2) | None => None end
                 | None => None end
     end) il B l = kblock SF il B CD l.
Proof.
  intros SF CD. induction l as [|s l IH]; intros il B; [reflexivity|]. cbn [kblock].
  destruct (kstmt SF il B CD s) as [[B' r1]|]; [|reflexivity]. now rewrite IH.
Qed.
Lemma kblock_fix0 : forall SF CD l B,
  (fix kb (B' : kctx) (l : list stmt) {struct l} : kres :=
     match l with
     | [] => Some (B', [])
     | s :: l => match kstmt SF false B' CD s with
                 | Some (B'', r1) => match kb B'' l with Some (B3, r2) => Some (B3, r1 ++ r2) | None => None end
                 | None => None end
     end) B l = kblock SF false B CD l.
Proof.
  intros SF CD. induction l as [|s l IH]; intros B; [reflexivity|]. cbn [kblock].
  destruct (kstmt SF false B CD s) as [[B' r1]|]; [|reflexivity]. now rewrite IH.
Qed.
Lemma kargs_fix : forall SF B CD l,
  (fix kargs (l : list expr) {struct l} : option (list kind) :=
     match l with
     | [] => Some []
     | a :: l => match kexpr SF B CD a, kargs l with Some k, Some ks => Some (k :: ks) | _, _ => None end
     end) l = kargs SF B CD l.
Proof. intros SF B CD. induction l as [|a l IH]; [reflexivity|]. cbn [kargs]. now rewrite IH. Qed.

(* the equations of the checker *)
Lemma kexpr_eq : forall SF B CD e, kexpr SF B CD e =
  if ok_dexpr B CD e then Some KD else
  match e with
  | EVar x => if src_nameb x then kvar B CD x else None
  | EBin _ a b | EAnd a b | EOr a b | ENilOr a b =>
    match kexpr SF B CD a, kexpr SF B CD b with Some KD, Some KD => Some KD | _, _ => None end
  | ENot a | ENeg a | EGet a _ => match kexpr SF B CD a with Some KD => Some KD | _ => None end
  | ECall (EVar g) args =>
      if src_nameb g then
        match kvar B CD g, kargs SF B CD args with
        | Some (KF pk r), Some ks => if kinds_eqb ks pk then Some r else None
        | _, _ => None end
      else None
  | ESelf args =>
    match SF with
    | Some (pk, r) => match kargs SF B CD args with Some ks => if kinds_eqb ks pk then Some r else None | None => None end
    | None => None end
  | EFn ps body => match kfn B CD ps body with Some (_, pk, r) => Some (KF pk r) | None => None end
  | _ => None
  end.
Proof.
  intros SF B CD e. destruct e as [z|b|s| |x|o a b|a b|a b|a|a|f args|args|ps body|a b|a sp]; try reflexivity.
  - cbn [kexpr]. destruct (ok_dexpr B CD (ECall f args)); [reflexivity|]. destruct f; try reflexivity. now rewrite kargs_fix.
  - cbn [kexpr]. destruct (ok_dexpr B CD (ESelf args)); [reflexivity|]. now rewrite kargs_fix.
  - cbn [kexpr]. destruct (ok_dexpr B CD (EFn ps body)); [reflexivity|]. unfold kfn.
    destruct (capctx B CD (free_vars ps body)) as [G|]; [|reflexivity]. rewrite !kblock_fix0.
    destruct (kblock (Some (map (pkind body) ps, KD)) false (rev (combine ps (map (pkind body) ps))) G body) as [[B' rets0]|]; [|reflexivity].
    rewrite ?kblock_fix0. destruct (kind_eqb (rkind body rets0) KD).
    + destruct (nodupb ps && forallb src_nameb ps && forallb (ret_ok (rkind body rets0)) rets0); reflexivity.
    + destruct (kblock (Some (map (pkind body) ps, rkind body rets0)) false (rev (combine ps (map (pkind body) ps))) G body) as [[B2 rets]|]; [|reflexivity].
      destruct (nodupb ps && forallb src_nameb ps && forallb (ret_ok (rkind body rets0)) rets); reflexivity.
Qed.

(* ---- a captured name that an expression does not mention (not as a variable, not as a free variable of a function literal)
   can be left out of the captured context *)
Definition remove_key (x : str) (CD : kctx) : kctx := filter (fun p => negb (str_eqb (fst p) x)) CD.
Lemma assoc_remove_key : forall x CD y, assoc y (remove_key x CD) = if str_eqb y x then None else assoc y CD.
Proof.
  intros x CD y. unfold remove_key. induction CD as [|[z k] t IH]; [now destruct (str_eqb y x)|]. cbn [filter fst].
  destruct (str_eqb z x) eqn:Ezx; cbn [negb assoc].
  - rewrite IH. apply str_eqb_iff in Ezx. subst z. destruct (str_eqb y x) eqn:Eyx; [reflexivity|].
    destruct (str_eqb x y) eqn:Exy; [apply str_eqb_iff in Exy; subst y; now rewrite str_eqb_refl in Eyx|reflexivity].
  - destruct (str_eqb z y) eqn:Ezy.
    + apply str_eqb_iff in Ezy. subst z. now rewrite Ezx.
    + exact IH.
Qed.
Lemma remove_key_id : forall x CD, ~ In x (map fst CD) -> remove_key x CD = CD.
Proof.
  intros x CD. unfold remove_key. induction CD as [|[z k] t IH]; intros H; [reflexivity|]. cbn [filter fst map In] in *.
  rewrite str_eqb_neq by (intros E; apply H; now left). cbn [negb]. rewrite IH; [reflexivity|]. intros Hi. apply H. now right.
Qed.
Lemma assoc_remove_key_same : forall x CD, assoc x (remove_key x CD) = None.
Proof. intros. now rewrite assoc_remove_key, str_eqb_refl. Qed.
Lemma assoc_remove_key_sub : forall x CD y k, assoc y (remove_key x CD) = Some k -> assoc y CD = Some k.
Proof. intros x CD y k H. rewrite assoc_remove_key in H. destruct (str_eqb y x); [discriminate|exact H]. Qed.
Lemma kvar_remove_key : forall x B CD y, y <> x -> kvar B (remove_key x CD) y = kvar B CD y.
Proof. intros x B CD y Hne. unfold kvar. rewrite assoc_remove_key, str_eqb_neq by exact Hne. reflexivity. Qed.

Lemma nm_used : forall x e, pure e = true -> nm x e = true -> ~ In x (used_e e).
Proof.
  intros x. induction e; intros Hp Hn; cbn [pure] in Hp; try discriminate; cbn [used_e nm] in *; try (intros Hi; exact Hi).
  - intros [->|[]]. rewrite str_eqb_refl in Hn. discriminate.
  - apply andb_true_iff in Hp as [P1 P2]. apply andb_true_iff in Hn as [N1 N2]. intros Hi. apply in_app_or in Hi as [Hi|Hi]; [exact (IHe1 P1 N1 Hi)|exact (IHe2 P2 N2 Hi)].
  - apply andb_true_iff in Hp as [P1 P2]. apply andb_true_iff in Hn as [N1 N2]. intros Hi. apply in_app_or in Hi as [Hi|Hi]; [exact (IHe1 P1 N1 Hi)|exact (IHe2 P2 N2 Hi)].
  - apply andb_true_iff in Hp as [P1 P2]. apply andb_true_iff in Hn as [N1 N2]. intros Hi. apply in_app_or in Hi as [Hi|Hi]; [exact (IHe1 P1 N1 Hi)|exact (IHe2 P2 N2 Hi)].
  - exact (IHe Hp Hn).
  - exact (IHe Hp Hn).
  - apply andb_true_iff in Hp as [P1 P2]. apply andb_true_iff in Hn as [N1 N2]. intros Hi. apply in_app_or in Hi as [Hi|Hi]; [exact (IHe1 P1 N1 Hi)|exact (IHe2 P2 N2 Hi)].
  - exact (IHe Hp Hn).
Qed.
Lemma forallb_ext_in : forall A (f g : A -> bool) l, (forall y, In y l -> f y = g y) -> forallb f l = forallb g l.
Proof. intros A f g. induction l as [|a l IH]; intros H; [reflexivity|]. cbn [forallb]. rewrite (H a (or_introl eq_refl)), IH; [reflexivity|]. intros y Hy. apply H. now right. Qed.
Lemma ok_dexpr_remove_key : forall x B CD e, nm x e = true -> ok_dexpr B (remove_key x CD) e = ok_dexpr B CD e.
Proof.
  intros x B CD e Hn. unfold ok_dexpr. destruct (pure e) eqn:Hp; [|reflexivity]. f_equal.
  apply forallb_ext_in. intros y Hy. rewrite kvar_remove_key; [reflexivity|]. intros ->. exact (nm_used x e Hp Hn Hy).
Qed.
Lemma capctx_remove_key : forall x B CD ns, ~ In x ns -> capctx B (remove_key x CD) ns = capctx B CD ns.
Proof.
  intros x B CD. induction ns as [|n ns IH]; intros Hn; [reflexivity|]. cbn [capctx].
  rewrite kvar_remove_key by (intros ->; apply Hn; now left). rewrite IH by (intros Hi; apply Hn; now right). reflexivity.
Qed.
Lemma kexpr_remove_key : forall x e SF B CD, nm x e = true -> kexpr SF B (remove_key x CD) e = kexpr SF B CD e.
Proof.
  Local Ltac kx := match goal with |- kexpr ?SF ?B (remove_key ?x ?CD) ?e = _ => rewrite (kexpr_eq SF B (remove_key x CD) e), (kexpr_eq SF B CD e) end.
  intros x. apply (expr_ind' (fun e => forall SF B CD, nm x e = true -> kexpr SF B (remove_key x CD) e = kexpr SF B CD e) (fun _ => True));
    try (intros; exact Logic.I).
  - intros z SF B CD Hn. kx. rewrite ok_dexpr_remove_key by exact Hn. reflexivity.
  - intros b SF B CD Hn. kx. rewrite ok_dexpr_remove_key by exact Hn. reflexivity.
  - intros s SF B CD Hn. kx. rewrite ok_dexpr_remove_key by exact Hn. reflexivity.
  - intros SF B CD Hn. kx. rewrite ok_dexpr_remove_key by exact Hn. reflexivity.
  - intros y SF B CD Hn. kx. rewrite ok_dexpr_remove_key by exact Hn. cbn [nm] in Hn. apply negb_true_iff in Hn.
    rewrite kvar_remove_key; [reflexivity|]. intros ->. rewrite str_eqb_refl in Hn. discriminate.
  - intros o a b IHa IHb SF B CD Hn. kx. rewrite ok_dexpr_remove_key by exact Hn. cbn [nm] in Hn. apply andb_true_iff in Hn as [N1 N2]. now rewrite IHa, IHb.
  - intros a b IHa IHb SF B CD Hn. kx. rewrite ok_dexpr_remove_key by exact Hn. cbn [nm] in Hn. apply andb_true_iff in Hn as [N1 N2]. now rewrite IHa, IHb.
  - intros a b IHa IHb SF B CD Hn. kx. rewrite ok_dexpr_remove_key by exact Hn. cbn [nm] in Hn. apply andb_true_iff in Hn as [N1 N2]. now rewrite IHa, IHb.
  - intros a IHa SF B CD Hn. kx. rewrite ok_dexpr_remove_key by exact Hn. cbn [nm] in Hn. now rewrite IHa.
  - intros a IHa SF B CD Hn. kx. rewrite ok_dexpr_remove_key by exact Hn. cbn [nm] in Hn. now rewrite IHa.
  - intros f l IHf IHl SF B CD Hn. kx. rewrite ok_dexpr_remove_key by exact Hn. rewrite nm_ECall in Hn. apply andb_true_iff in Hn as [N1 N2].
    assert (Hl : kargs SF B (remove_key x CD) l = kargs SF B CD l).
    { clear -IHl N2. induction l as [|a l IH]; [reflexivity|]. cbn [nml forallb] in N2. apply andb_true_iff in N2 as [Na Nl].
      inversion IHl; subst. cbn [kargs]. rewrite (H1 SF B CD Na), (IH H2 Nl). reflexivity. }
    destruct f; try reflexivity. cbn [nm] in N1. apply negb_true_iff in N1.
    rewrite kvar_remove_key, Hl; [reflexivity|]. intros ->. rewrite str_eqb_refl in N1. discriminate.
  - intros l IHl SF B CD Hn. kx. rewrite ok_dexpr_remove_key by exact Hn. rewrite nm_ESelf in Hn.
    assert (Hl : kargs SF B (remove_key x CD) l = kargs SF B CD l).
    { clear -IHl Hn. induction l as [|a l IH]; [reflexivity|]. cbn [nml forallb] in Hn. apply andb_true_iff in Hn as [Na Nl].
      inversion IHl; subst. cbn [kargs]. rewrite (H1 SF B CD Na), (IH H2 Nl). reflexivity. }
    now rewrite Hl.
  - intros ps body _ SF B CD Hn. kx. rewrite ok_dexpr_remove_key by exact Hn. cbn [nm] in Hn. apply negb_true_iff in Hn.
    unfold kfn. rewrite capctx_remove_key; [reflexivity|]. intros Hi. apply In_mem_str in Hi. congruence.
  - intros a b IHa IHb SF B CD Hn. kx. rewrite ok_dexpr_remove_key by exact Hn. cbn [nm] in Hn. apply andb_true_iff in Hn as [N1 N2]. now rewrite IHa, IHb.
  - intros a sp IHa SF B CD Hn. kx. rewrite ok_dexpr_remove_key by exact Hn. cbn [nm] in Hn. now rewrite IHa.
Qed.


Lemma kstmt_SIf : forall SF il B CD c body, kstmt SF il B CD (SIf c body) =
  if is_KD (kexpr SF B CD c) then match kblock SF il B CD body with Some (_, r) => Some (B, r) | None => None end else None.
Proof. intros. cbn [kstmt]. now rewrite kblock_fix. Qed.
Lemma kstmt_SIfElse : forall SF il B CD c body els, kstmt SF il B CD (SIfElse c body els) =
  if is_KD (kexpr SF B CD c) then
    match kblock SF il B CD body, kblock SF il B CD els with Some (_, r1), Some (_, r2) => Some (B, r1 ++ r2) | _, _ => None end
  else None.
Proof. intros. cbn [kstmt]. now rewrite !kblock_fix. Qed.
Lemma kstmt_SIfElif : forall SF il B CD c body nxt, kstmt SF il B CD (SIfElif c body nxt) =
  if is_KD (kexpr SF B CD c) then
    match kblock SF il B CD body, kstmt SF il B CD nxt with Some (_, r1), Some (_, r2) => Some (B, r1 ++ r2) | _, _ => None end
  else None.
Proof. intros. cbn [kstmt]. now rewrite !kblock_fix. Qed.
Lemma kstmt_SWhile : forall SF il B CD c body, kstmt SF il B CD (SWhile c body) =
  if is_KD (kexpr SF B CD c) then match kblock SF true B CD body with Some (_, r) => Some (B, r) | None => None end else None.
Proof. intros. cbn [kstmt]. now rewrite kblock_fix. Qed.
Definition kstep (SF : sfk) (B CD : kctx) (body : list stmt) (step : option expr) : bool :=
  match step with None => true | Some e => ok_dexpr B CD e && step_free B body e end.
Lemma ok_dexpr_locals : forall B CD e, ok_dexpr B [] e = true -> ok_dexpr B CD e = true.
Proof.
  intros B CD e H. unfold ok_dexpr in *. rewrite !andb_true_iff in *. destruct H as [[Hp Hl] Hu]. split; [split; assumption|].
  rewrite forallb_forall in *. intros x Hx. specialize (Hu x Hx). apply andb_true_iff in Hu as [H1 H2]. rewrite H1. cbn [andb].
  unfold kvar in *. destruct (assoc x B); [exact H2|discriminate H2].
Qed.
Lemma kstmt_SFrom : forall SF il B CD a b incl step name collide body, kstmt SF il B CD (SFrom a b incl step name collide body) =
  match name, collide with
  | Some x, false =>
    if is_KD (kexpr SF B CD a) && is_KD (kexpr SF B CD b) && src_nameb x && negb (mem_str x (map fst B)) && kstep SF ((x, KD) :: B) CD body step then
      match kblock SF true ((x, KD) :: B) CD body with Some (_, r) => Some (B, r) | None => None end
    else None
  | Some x, true =>
    if is_KD (kexpr SF B CD a) && is_KD (kexpr SF B CD b) && src_nameb x && is_KD (assoc x B) && kstep SF B CD body step then
      match kblock SF true B CD body with Some (_, r) => Some (B, r) | None => None end
    else None
  | None, false =>
    if is_KD (kexpr SF B CD a) && is_KD (kexpr SF B CD b) && kstep SF B CD body step then
      match kblock SF true B CD body with Some (_, r) => Some (B, r) | None => None end
    else None
  | None, true => None
  end.
Proof. intros SF il B CD a b incl step [x|] [|] body; cbn [kstmt]; rewrite ?kblock_fix; reflexivity. Qed.

Lemma ok_dexpr_kexpr : forall SF B CD e, ok_dexpr B CD e = true -> kexpr SF B CD e = Some KD.
Proof. intros SF B CD e H. rewrite kexpr_eq, H. reflexivity. Qed.
Lemma is_KD_eq : forall o, is_KD o = true -> o = Some KD.
Proof. intros [[| |]|] H; try discriminate; reflexivity. Qed.
(* what the checker says about the parts of a from loop, whatever its form *)
Lemma kstmt_SFrom_parts : forall SF il B CD a b incl step name collide body r, kstmt SF il B CD (SFrom a b incl step name collide body) = Some r ->
  kexpr SF B CD a = Some KD /\ kexpr SF B CD b = Some KD /\
  exists Bb, (exists rb, kblock SF true Bb CD body = Some rb) /\ forall e, step = Some e -> kexpr SF Bb CD e = Some KD.
Proof.
  intros SF il B CD a b incl step name collide body r H. rewrite kstmt_SFrom in H.
  destruct name as [x|]; destruct collide; try discriminate.
  - match type of H with (if ?c then _ else _) = _ => destruct c eqn:Hc; [|discriminate] end.
    rewrite !andb_true_iff in Hc. destruct Hc as [[[[Ha Hb] _] _] Hs].
    split; [now apply is_KD_eq|]. split; [now apply is_KD_eq|]. exists B. split.
    + destruct (kblock SF true B CD body) as [rb|]; [eauto|discriminate].
    + intros e ->. cbn [kstep] in Hs. apply andb_true_iff in Hs as [Hs _]. now apply ok_dexpr_kexpr.
  - match type of H with (if ?c then _ else _) = _ => destruct c eqn:Hc; [|discriminate] end.
    rewrite !andb_true_iff in Hc. destruct Hc as [[[[Ha Hb] _] _] Hs].
    split; [now apply is_KD_eq|]. split; [now apply is_KD_eq|]. exists ((x, KD) :: B). split.
    + destruct (kblock SF true ((x, KD) :: B) CD body) as [rb|]; [eauto|discriminate].
    + intros e ->. cbn [kstep] in Hs. apply andb_true_iff in Hs as [Hs _]. now apply ok_dexpr_kexpr.
  - destruct (is_KD (kexpr SF B CD a) && is_KD (kexpr SF B CD b) && kstep SF B CD body step) eqn:Hc; [|discriminate].
    rewrite !andb_true_iff in Hc. destruct Hc as [[Ha Hb] Hs].
    split; [now apply is_KD_eq|]. split; [now apply is_KD_eq|]. exists B. split.
    + destruct (kblock SF true B CD body) as [rb|]; [eauto|discriminate].
    + intros e ->. cbn [kstep] in Hs. apply andb_true_iff in Hs as [Hs _]. now apply ok_dexpr_kexpr.
Qed.

(* ================================================================ the code, as functions of the syntax *)
Definition fbl := list (str * nat * list instr).     (* the functions defined: name, register levels of the body (expression + loop registers), code *)
Definition fbe (x : str * nat * list instr) : str * list instr := (fst (fst x), snd x).
(* the end of a function body: `void; ret` unless the body ends with ret (callable.rs) *)
Definition tailc (cb : list instr) : list instr :=
  match rev cb with
  | i :: _ => if (op i =? OP_RET)%N then [] else [mkI OP_VOID []; mkI OP_RET []]
  | [] => [mkI OP_VOID []; mkI OP_RET []] end.
Definition sln (sl : option nat) : nat := match sl with Some n => n | None => 0 end.

Section Code.
Variable path : str.

(* expressions: instructions.  statements: items, the break / continue placeholders of a loop body are resolved by the
   loop (sl = scopes since the innermost loop, None outside a loop) *)
Fixpoint ec (d lr k : nat) (e : expr) {struct e} : list instr * fbl :=
  let fix args (j k : nat) (l : list expr) {struct l} : list instr * list instr * fbl :=
    match l with
    | [] => ([], [], [])
    | a :: l => let '(ca, fa) := ec j lr k a in
                let '(ci, cl, fl) := args (S j) (k + length fa) l in
                (ca ++ [mkI OP_STORE_FAST [reg j]] ++ ci, mkI OP_LOAD_FAST [reg j] :: cl, fa ++ fl)
    end in
  match e with
  | EBin o a b =>
    let '(ca, fa) := ec (S d) lr k a in
    let '(cb, fb) := ec (S d) lr (k + length fa) b in
    (ca ++ [mkI OP_STORE_FAST [reg d]] ++ cb ++ [mkI OP_LOAD_FAST [reg d]; mkI OP_FAST_REV2 []] ++ [op_instr o], fa ++ fb)
  | EAnd a b =>
    let '(ca, fa) := ec (S d) lr k a in
    let '(cb, fb) := ec (S d) lr (k + length fa) b in
    (ca ++ [mkI OP_STORE_SKIP [reg d; s_zero; sN (length cb + 3)]] ++ cb ++ [mkI OP_LOAD_FAST [reg d]; mkI OP_BIN_OP [op_and]], fa ++ fb)
  | EOr a b =>
    let '(ca, fa) := ec (S d) lr k a in
    let '(cb, fb) := ec (S d) lr (k + length fa) b in
    (ca ++ [mkI OP_STORE_SKIP [reg d; s_one; sN (length cb + 3)]] ++ cb ++ [mkI OP_LOAD_FAST [reg d]; mkI OP_BIN_OP [op_or]], fa ++ fb)
  | ENot a => let '(ca, fa) := ec (S d) lr k a in (ca ++ [mkI OP_NOT []], fa)
  | ENeg a => let '(ca, fa) := ec (S d) lr k a in (ca ++ [mkI OP_NEG []], fa)
  | ENilOr a b =>
    let '(ca, fa) := ec (S d) lr k a in
    let '(cb, fb) := ec (S d) lr (k + length fa) b in
    (ca ++ [mkI OP_JMP_NOT_NIL [sN (length cb + 1)]] ++ cb, fa ++ fb)
  | EGet a sp => let '(ca, fa) := ec (S d) lr k a in (ca ++ [mkI OP_UNWRAP [sp]], fa)
  | ESelf l => let '(ci, cl, fl) := args (S d) k l in (ci ++ cl ++ [mkI OP_CALL_SELF []], fl)
  | ECall f l =>
    match f with
    | EVar g =>
      let '(ci, cl, fl) := args (S (S d)) k l in
      ([mkI OP_LOAD [g]] ++ [mkI OP_STORE_FAST [reg (S d)]] ++ ci ++ cl ++ [mkI OP_LOAD_FAST [reg (S d)]; mkI OP_CALL []], fl)
    | _ => (pcode d e, []) end
  | EFn ps body =>
    let fix bc (k : nat) (l : list stmt) {struct l} : list citem * fbl :=
      match l with
      | [] => ([], [])
      | s :: l => let '(cs, fs) := sc (S d) lr None k s in
                  let '(cl, fl) := bc (k + length fs) l in (cs ++ cl, fs ++ fl)
      end in
    let '(cb, fb) := bc k body in
    let name := fn_name path (k + length fb) in
    ([mkI OP_MAKE_FUNCTION (name :: free_vars ps body)], fb ++ [(name, S d + lr, pcodeP 0 ps ++ strip cb ++ tailc (strip cb))])
  | _ => (pcode d e, [])
  end
with sc (c lr : nat) (sl : option nat) (k : nat) (s : stmt) {struct s} : list citem * fbl :=
  let fix bc (lr : nat) (sl : option nat) (k : nat) (l : list stmt) {struct l} : list citem * fbl :=
    match l with
    | [] => ([], [])
    | s :: l => let '(cs, fs) := sc c lr sl k s in
                let '(cl, fl) := bc lr sl (k + length fs) l in (cs ++ cl, fs ++ fl)
    end in
  let inner := option_map S sl in
  match s with
  | SAssign x e => let '(ce, fe) := ec c lr k e in (map CI ce ++ [I OP_STORE [x]], fe)
  | SModify x e => let '(ce, fe) := ec c lr k e in (map CI ce ++ [I OP_STORE_OBJECT [x]], fe)
  | SOpAssign x o e =>
    let '(ce, fe) := ec (S c) lr k e in (map CI ce ++ [I OP_BIN_OP_ASSIGN [binop_sym o ++ [61%N]; x]; I OP_VOID []], fe)
  | SPrint e => let '(ce, fe) := ec c lr k e in (map CI ce ++ [I OP_PRINTN [s_star]; I OP_VOID []], fe)
  | SAssert e sp => let '(ce, fe) := ec c lr k e in (map CI ce ++ [I OP_ASSERT [sp]], fe)
  | SExpr e => let '(ce, fe) := ec c lr k e in (map CI ce ++ [I OP_VOID []], fe)
  | SIf cnd body =>
    let '(cc, fc) := ec c lr k cnd in
    let '(cb0, fb) := bc lr inner (k + length fc) body in
    let cb := cb0 ++ [I OP_DONE []] in
    (map CI cc ++ [I OP_IF_STMT [sN (length cb + 1)]] ++ cb, fc ++ fb)
  | SIfElse cnd body els =>
    let '(cc, fc) := ec c lr k cnd in
    let '(cb0, fb) := bc lr inner (k + length fc) body in
    let cb := cb0 ++ [I OP_DONE []] in
    let '(ce0, fe) := bc lr inner (k + length fc + length fb) els in
    let ce := I OP_ELSE_STMT [] :: ce0 ++ [I OP_DONE []] in
    (map CI cc ++ [I OP_IF_STMT [sN (length cb + 2)]] ++ cb ++ [I OP_JMP [sN (length ce + 1)]] ++ ce, fc ++ fb ++ fe)
  | SIfElif cnd body nxt =>
    let '(cc, fc) := ec c lr k cnd in
    let '(cb0, fb) := bc lr inner (k + length fc) body in
    let cb := cb0 ++ [I OP_DONE []] in
    let '(ce0, fe) := sc c lr inner (k + length fc + length fb) nxt in
    let ce := I OP_ELSE_STMT [] :: ce0 ++ [I OP_DONE []] in
    (map CI cc ++ [I OP_IF_STMT [sN (length cb + 2)]] ++ cb ++ [I OP_JMP [sN (length ce + 1)]] ++ ce, fc ++ fb ++ fe)
  | SWhile cnd body =>
    let '(cc, fc) := ec c lr k cnd in
    let '(cb0, fb) := bc lr (Some 1) (k + length fc) body in
    let cb := cb0 ++ [I OP_JMP_POP [neg_off (1 + length cb0 + length cc)]] in
    (map CI cc ++ [I OP_WHILE_LOOP [sN (length cb + 1)]] ++ resolve (length cb) 0 0 cb, fc ++ fb)
  | SFrom a b incl step name collide body =>
    let idn := from_idn lr name in
    let lr1 := from_lr1 lr name in
    let startr := lregn (S lr1) in
    let endr := lregn (S (S lr1)) in
    let '(ca, fa) := ec c lr1 k a in
    let '(cb_, fb) := ec c lr1 (k + length fa) b in
    let cond := [I OP_LOAD_FAST [idn]; I OP_LOAD_FAST [endr]; I OP_BIN_OP [if incl then op_le else op_lt]] in
    let '(cbody, fbd) := bc (S (S lr1)) (Some 1) (k + length fa + length fb) body in
    let '(cs, fs) := match step with
                     | Some e => ec c (S (S lr1)) (k + length fa + length fb + length fbd) e
                     | None => ([mkI OP_MAKE_INT [s_one]], []) end in
    let cstep := map CI cs ++ [I OP_BIN_OP_ASSIGN [[43; 61]%N; idn]] in
    let full0 := cbody ++ cstep in
    let full := full0 ++ [I OP_JMP_POP [neg_off (1 + length cond + length full0)]] in
    (map CI ca ++ [I OP_STORE_FAST [startr]] ++ map CI cb_ ++ [I OP_STORE_FAST [endr]; I OP_LOAD_FAST [startr];
                                                             I (if collide then OP_STORE else OP_STORE_FAST) [idn]] ++ cond
       ++ [I OP_WHILE_LOOP [sN (length full + 1)]] ++ resolve (length full) (length cstep) 0 full
       ++ (if collide then [] else [I OP_DELETE_NAME_SCOPED [idn; startr; endr]]), fa ++ fb ++ fbd ++ fs)
  | SBreak => ([CBrk (sln sl)], [])
  | SContinue => ([CCont (sln sl)], [])
  | SReturn None => ([I OP_RET []], [])
  | SReturn (Some e) => let '(ce, fe) := ec c lr k e in (map CI ce ++ [I OP_RET []], fe)
  end.

Fixpoint bc (c lr : nat) (sl : option nat) (k : nat) (l : list stmt) {struct l} : list citem * fbl :=
  match l with
  | [] => ([], [])
  | s :: l => let '(cs, fs) := sc c lr sl k s in
              let '(cl, fl) := bc c lr sl (k + length fs) l in (cs ++ cl, fs ++ fl)
  end.
Fixpoint eargs (lr j k : nat) (l : list expr) {struct l} : list instr * list instr * fbl :=
  match l with
  | [] => ([], [], [])
  | a :: l => let '(ca, fa) := ec j lr k a in
              let '(ci, cl, fl) := eargs lr (S j) (k + length fa) l in
              (ca ++ [mkI OP_STORE_FAST [reg j]] ++ ci, mkI OP_LOAD_FAST [reg j] :: cl, fa ++ fl)
  end.

Lemma bc_fix : forall c l lr sl k,
  (fix bc (lr : nat) (sl : option nat) (k : nat) (l : list stmt) {struct l} : list citem * fbl :=
     match l with
     | [] => ([], [])
     | s :: l => let '(cs, fs) := sc c lr sl k s in
                 let '(cl, fl) := bc lr sl (k + length fs) l in (cs ++ cl, fs ++ fl)
     end) lr sl k l = bc c lr sl k l.
Proof.
  intros c. induction l as [|s l IH]; intros lr sl k; [reflexivity|]. cbn [bc].
  destruct (sc c lr sl k s) as [cs fs]. now rewrite IH.
Qed.
Lemma bc_fix1 : forall d lr l k,
  (fix bc (k : nat) (l : list stmt) {struct l} : list citem * fbl :=
     match l with
     | [] => ([], [])
     | s :: l => let '(cs, fs) := sc (S d) lr None k s in
                 let '(cl, fl) := bc (k + length fs) l in (cs ++ cl, fs ++ fl)
     end) k l = bc (S d) lr None k l.
Proof.
  intros d lr. induction l as [|s l IH]; intros k; [reflexivity|]. cbn [bc].
  destruct (sc (S d) lr None k s) as [cs fs]. now rewrite IH.
Qed.
Lemma eargs_fix : forall lr l j k,
  (fix args (j k : nat) (l : list expr) {struct l} : list instr * list instr * fbl :=
     match l with
     | [] => ([], [], [])
     | a :: l => let '(ca, fa) := ec j lr k a in
                 let '(ci, cl, fl) := args (S j) (k + length fa) l in
                 (ca ++ [mkI OP_STORE_FAST [reg j]] ++ ci, mkI OP_LOAD_FAST [reg j] :: cl, fa ++ fl)
     end) j k l = eargs lr j k l.
Proof.
  intros lr. induction l as [|a l IH]; intros j k; [reflexivity|]. cbn [eargs].
  destruct (ec j lr k a) as [ca fa]. now rewrite IH.
Qed.

(* the code of a function literal *)
Definition fcode (d lr k : nat) (ps : list str) (body : list stmt) : list instr :=
  let cb := strip (fst (bc (S d) lr None k body)) in pcodeP 0 ps ++ cb ++ tailc cb.

Lemma ec_EBin : forall d lr k o a b, ec d lr k (EBin o a b) =
  let '(ca, fa) := ec (S d) lr k a in
  let '(cb, fb) := ec (S d) lr (k + length fa) b in
  (ca ++ [mkI OP_STORE_FAST [reg d]] ++ cb ++ [mkI OP_LOAD_FAST [reg d]; mkI OP_FAST_REV2 []] ++ [op_instr o], fa ++ fb).
Proof. reflexivity. Qed.
Lemma ec_ECall : forall d lr k g l, ec d lr k (ECall (EVar g) l) =
  let '(ci, cl, fl) := eargs lr (S (S d)) k l in
  ([mkI OP_LOAD [g]] ++ [mkI OP_STORE_FAST [reg (S d)]] ++ ci ++ cl ++ [mkI OP_LOAD_FAST [reg (S d)]; mkI OP_CALL []], fl).
Proof. intros. cbn [ec]. now rewrite eargs_fix. Qed.
Lemma ec_EFn : forall d lr k ps body, ec d lr k (EFn ps body) =
  let fb := snd (bc (S d) lr None k body) in
  let name := fn_name path (k + length fb) in
  ([mkI OP_MAKE_FUNCTION (name :: free_vars ps body)], fb ++ [(name, S d + lr, fcode d lr k ps body)]).
Proof. intros. cbn [ec]. rewrite bc_fix1. unfold fcode. destruct (bc (S d) lr None k body) as [cb fb]. reflexivity. Qed.
Lemma ec_EAnd : forall d lr k a b, ec d lr k (EAnd a b) =
  let '(ca, fa) := ec (S d) lr k a in
  let '(cb, fb) := ec (S d) lr (k + length fa) b in
  (ca ++ [mkI OP_STORE_SKIP [reg d; s_zero; sN (length cb + 3)]] ++ cb ++ [mkI OP_LOAD_FAST [reg d]; mkI OP_BIN_OP [op_and]], fa ++ fb).
Proof. reflexivity. Qed.
Lemma ec_EOr : forall d lr k a b, ec d lr k (EOr a b) =
  let '(ca, fa) := ec (S d) lr k a in
  let '(cb, fb) := ec (S d) lr (k + length fa) b in
  (ca ++ [mkI OP_STORE_SKIP [reg d; s_one; sN (length cb + 3)]] ++ cb ++ [mkI OP_LOAD_FAST [reg d]; mkI OP_BIN_OP [op_or]], fa ++ fb).
Proof. reflexivity. Qed.
Lemma ec_ENot : forall d lr k a, ec d lr k (ENot a) = let '(ca, fa) := ec (S d) lr k a in (ca ++ [mkI OP_NOT []], fa).
Proof. reflexivity. Qed.
Lemma ec_ENeg : forall d lr k a, ec d lr k (ENeg a) = let '(ca, fa) := ec (S d) lr k a in (ca ++ [mkI OP_NEG []], fa).
Proof. reflexivity. Qed.
Lemma ec_ENilOr : forall d lr k a b, ec d lr k (ENilOr a b) =
  let '(ca, fa) := ec (S d) lr k a in
  let '(cb, fb) := ec (S d) lr (k + length fa) b in
  (ca ++ [mkI OP_JMP_NOT_NIL [sN (length cb + 1)]] ++ cb, fa ++ fb).
Proof. reflexivity. Qed.
Lemma ec_EGet : forall d lr k a sp, ec d lr k (EGet a sp) = let '(ca, fa) := ec (S d) lr k a in (ca ++ [mkI OP_UNWRAP [sp]], fa).
Proof. reflexivity. Qed.
Lemma ec_ESelf : forall d lr k l, ec d lr k (ESelf l) =
  let '(ci, cl, fl) := eargs lr (S d) k l in (ci ++ cl ++ [mkI OP_CALL_SELF []], fl).
Proof. intros. cbn [ec]. now rewrite eargs_fix. Qed.

Lemma ec_pure : forall e, pure e = true -> forall d lr k, ec d lr k e = (pcode d e, []).
Proof.
  induction e; intros Hp d lr k; cbn [pure] in Hp; try discriminate; try reflexivity.
  - apply andb_true_iff in Hp as [H1 H2]. rewrite ec_EBin, (IHe1 H1), (IHe2 H2). reflexivity.
  - apply andb_true_iff in Hp as [H1 H2]. rewrite ec_EAnd, (IHe1 H1), (IHe2 H2). reflexivity.
  - apply andb_true_iff in Hp as [H1 H2]. rewrite ec_EOr, (IHe1 H1), (IHe2 H2). reflexivity.
  - rewrite ec_ENot, (IHe Hp). reflexivity.
  - rewrite ec_ENeg, (IHe Hp). reflexivity.
  - apply andb_true_iff in Hp as [H1 H2]. rewrite ec_ENilOr, (IHe1 H1), (IHe2 H2). reflexivity.
  - rewrite ec_EGet, (IHe Hp). reflexivity.
Qed.

Lemma sc_SIf : forall c lr sl k cnd body, sc c lr sl k (SIf cnd body) =
  let '(cc, fc) := ec c lr k cnd in
  let '(cb0, fb) := bc c lr (option_map S sl) (k + length fc) body in
  let cb := cb0 ++ [I OP_DONE []] in
  (map CI cc ++ [I OP_IF_STMT [sN (length cb + 1)]] ++ cb, fc ++ fb).
Proof. intros. cbn [sc]. destruct (ec c lr k cnd) as [cc fc]. now rewrite bc_fix. Qed.
Lemma sc_SIfElse : forall c lr sl k cnd body els, sc c lr sl k (SIfElse cnd body els) =
  let '(cc, fc) := ec c lr k cnd in
  let '(cb0, fb) := bc c lr (option_map S sl) (k + length fc) body in
  let cb := cb0 ++ [I OP_DONE []] in
  let '(ce0, fe) := bc c lr (option_map S sl) (k + length fc + length fb) els in
  let ce := I OP_ELSE_STMT [] :: ce0 ++ [I OP_DONE []] in
  (map CI cc ++ [I OP_IF_STMT [sN (length cb + 2)]] ++ cb ++ [I OP_JMP [sN (length ce + 1)]] ++ ce, fc ++ fb ++ fe).
Proof.
  intros. cbn [sc]. destruct (ec c lr k cnd) as [cc fc]. rewrite bc_fix. destruct (bc c lr (option_map S sl) (k + length fc) body) as [cb0 fb].
  now rewrite bc_fix.
Qed.
Lemma sc_SIfElif : forall c lr sl k cnd body nxt, sc c lr sl k (SIfElif cnd body nxt) =
  let '(cc, fc) := ec c lr k cnd in
  let '(cb0, fb) := bc c lr (option_map S sl) (k + length fc) body in
  let cb := cb0 ++ [I OP_DONE []] in
  let '(ce0, fe) := sc c lr (option_map S sl) (k + length fc + length fb) nxt in
  let ce := I OP_ELSE_STMT [] :: ce0 ++ [I OP_DONE []] in
  (map CI cc ++ [I OP_IF_STMT [sN (length cb + 2)]] ++ cb ++ [I OP_JMP [sN (length ce + 1)]] ++ ce, fc ++ fb ++ fe).
Proof. intros. cbn [sc]. destruct (ec c lr k cnd) as [cc fc]. now rewrite bc_fix. Qed.
Lemma sc_SWhile : forall c lr sl k cnd body, sc c lr sl k (SWhile cnd body) =
  let '(cc, fc) := ec c lr k cnd in
  let '(cb0, fb) := bc c lr (Some 1) (k + length fc) body in
  let cb := cb0 ++ [I OP_JMP_POP [neg_off (1 + length cb0 + length cc)]] in
  (map CI cc ++ [I OP_WHILE_LOOP [sN (length cb + 1)]] ++ resolve (length cb) 0 0 cb, fc ++ fb).
Proof. intros. cbn [sc]. destruct (ec c lr k cnd) as [cc fc]. now rewrite bc_fix. Qed.
Definition stepc (c lr k : nat) (step : option expr) : list instr * fbl :=
  match step with Some e => ec c lr k e | None => ([mkI OP_MAKE_INT [s_one]], []) end.
Lemma sc_SFrom : forall c lr sl k a b incl step name collide body, sc c lr sl k (SFrom a b incl step name collide body) =
  let idn := from_idn lr name in
  let lr1 := from_lr1 lr name in
  let startr := lregn (S lr1) in
  let endr := lregn (S (S lr1)) in
  let '(ca, fa) := ec c lr1 k a in
  let '(cb_, fb) := ec c lr1 (k + length fa) b in
  let cond := [I OP_LOAD_FAST [idn]; I OP_LOAD_FAST [endr]; I OP_BIN_OP [if incl then op_le else op_lt]] in
  let '(cbody, fbd) := bc c (S (S lr1)) (Some 1) (k + length fa + length fb) body in
  let '(cs, fs) := stepc c (S (S lr1)) (k + length fa + length fb + length fbd) step in
  let cstep := map CI cs ++ [I OP_BIN_OP_ASSIGN [[43; 61]%N; idn]] in
  let full0 := cbody ++ cstep in
  let full := full0 ++ [I OP_JMP_POP [neg_off (1 + length cond + length full0)]] in
  (map CI ca ++ [I OP_STORE_FAST [startr]] ++ map CI cb_ ++ [I OP_STORE_FAST [endr]; I OP_LOAD_FAST [startr];
                                                           I (if collide then OP_STORE else OP_STORE_FAST) [idn]] ++ cond
     ++ [I OP_WHILE_LOOP [sN (length full + 1)]] ++ resolve (length full) (length cstep) 0 full
     ++ (if collide then [] else [I OP_DELETE_NAME_SCOPED [idn; startr; endr]]), fa ++ fb ++ fbd ++ fs).
Proof.
  intros. cbn [sc]. destruct (ec c (from_lr1 lr name) k a) as [ca fa]. destruct (ec c (from_lr1 lr name) (k + length fa) b) as [cb_ fb].
  rewrite bc_fix. reflexivity.
Qed.
End Code.

(* ================================================================ the code generator computes ec / sc on the fragment *)
Definition stx (st : cst) (f : fbl) : cst :=
  {| fid := fid st + length f; lreg := lreg st; fbuf := fbuf st ++ map fbe f |}.
Lemma stx_nil : forall st, stx st [] = st.
Proof. intros [f l b]. unfold stx. cbn. now rewrite Nat.add_0_r, app_nil_r. Qed.
Lemma stx_app : forall st f1 f2, stx (stx st f1) f2 = stx st (f1 ++ f2).
Proof. intros st f1 f2. unfold stx. cbn. now rewrite app_length, Nat.add_assoc, map_app, app_assoc. Qed.
Lemma stx_lreg : forall st f, lreg (stx st f) = lreg st.
Proof. reflexivity. Qed.
Lemma stx_fid : forall st f, fid (stx st f) = fid st + length f.
Proof. reflexivity. Qed.

Lemma resolve_map_CI : forall F S l idx, resolve F S idx (map CI l) = map CI l.
Proof. intros F S. induction l as [|i l IH]; intros idx; [reflexivity|]. cbn [map resolve]. now rewrite IH. Qed.
Lemma strip_snoc : forall l it, strip (l ++ [it]) = strip l ++ strip [it].
Proof. induction l as [|x l IH]; intros it; [reflexivity|]. cbn [app]. destruct x; cbn [strip]; now rewrite IH. Qed.
(* the `void; ret` a function body gets (callable.rs looks at the last item: a placeholder is not a ret) *)
Lemma strip_ftail : forall its, Forall is_CI its -> strip (ftail its) = tailc (strip its).
Proof.
  intros its H. unfold ftail, ends_in_ret, tailc.
  destruct (rev its) as [|it r] eqn:E.
  - apply (f_equal (@rev citem)) in E. rewrite rev_involutive in E. subst its. reflexivity.
  - apply (f_equal (@rev citem)) in E. rewrite rev_involutive in E. cbn [rev] in E. subst its.
    apply Forall_app in H as [_ H]. pose proof (Forall_inv H) as Hi. destruct it as [i|n|n]; try contradiction.
    rewrite strip_snoc. cbn [strip]. rewrite rev_app_distr. cbn [rev app]. destruct (op i =? OP_RET)%N; reflexivity.
Qed.

Section Comp.
Variable path : str.

Definition comp_e (e : expr) : Prop :=
  forall SF B CD k0, kexpr SF B CD e = Some k0 -> forall d st,
    cexpr path d e st = (map CI (fst (ec path d (lreg st) (fid st) e)), stx st (snd (ec path d (lreg st) (fid st) e))).
Definition comp_s (s : stmt) : Prop :=
  forall SF il B CD r, kstmt SF il B CD s = Some r -> forall c sl st,
    cstmt path c sl s st = (fst (sc path c (lreg st) sl (fid st) s), stx st (snd (sc path c (lreg st) sl (fid st) s))) /\
    (il = false -> Forall is_CI (fst (sc path c (lreg st) sl (fid st) s))).

Lemma comp_pure : forall e, pure e = true -> forall d st,
  cexpr path d e st = (map CI (fst (ec path d (lreg st) (fid st) e)), stx st (snd (ec path d (lreg st) (fid st) e))).
Proof. intros e Hp d st. rewrite (ec_pure path e Hp), (cexpr_pure path e Hp). cbn [fst snd]. now rewrite stx_nil. Qed.

Lemma ok_dexpr_pure : forall B CD e, ok_dexpr B CD e = true -> pure e = true.
Proof. intros B CD e H. unfold ok_dexpr in H. rewrite !andb_true_iff in H. tauto. Qed.

Lemma comp_block : forall l, Forall comp_s l -> forall SF il B CD r, kblock SF il B CD l = Some r -> forall c sl st,
  cblockT path c sl l st = (fst (bc path c (lreg st) sl (fid st) l), stx st (snd (bc path c (lreg st) sl (fid st) l))) /\
  (il = false -> Forall is_CI (fst (bc path c (lreg st) sl (fid st) l))).
Proof.
  induction l as [|s l IH]; intros HF SF il B CD r Hk c sl st.
  - cbn [cblockT bc fst snd]. rewrite stx_nil. split; [reflexivity|constructor].
  - cbn [kblock] in Hk. destruct (kstmt SF il B CD s) as [[B' r1]|] eqn:Es; [|discriminate].
    destruct (kblock SF il B' CD l) as [[B3 r2]|] eqn:El; [|discriminate].
    cbn [cblockT bc]. destruct (Forall_inv HF SF il B CD _ Es c sl st) as [E1 C1]. rewrite E1.
    destruct (sc path c (lreg st) sl (fid st) s) as [cs fs] eqn:E2. cbn [fst snd] in *.
    destruct (IH (Forall_inv_tail HF) SF il B' CD _ El c sl (stx st fs)) as [E3 C3]. rewrite E3. rewrite stx_lreg, stx_fid in *.
    destruct (bc path c (lreg st) sl (fid st + length fs) l) as [cl fl]. cbn [fst snd] in *. rewrite stx_app. split; [reflexivity|].
    intros Hil. apply Forall_app. split; [exact (C1 Hil)|exact (C3 Hil)].
Qed.

Lemma comp_args : forall l, Forall comp_e l -> forall SF B CD ks, kargs SF B CD l = Some ks -> forall j st,
  cargs path j l st = (map CI (fst (fst (eargs path (lreg st) j (fid st) l))), map CI (snd (fst (eargs path (lreg st) j (fid st) l))),
                       stx st (snd (eargs path (lreg st) j (fid st) l))).
Proof.
  induction l as [|a l IH]; intros HF SF B CD ks Hk j st.
  - cbn [cargs eargs fst snd map]. now rewrite stx_nil.
  - cbn [kargs] in Hk. destruct (kexpr SF B CD a) as [k1|] eqn:Ea; [|discriminate].
    destruct (kargs SF B CD l) as [ks'|] eqn:El; [|discriminate].
    cbn [cargs eargs]. rewrite (Forall_inv HF SF B CD _ Ea j st).
    destruct (ec path j (lreg st) (fid st) a) as [ca fa]. cbn [fst snd].
    rewrite (IH (Forall_inv_tail HF) SF B CD _ El (S j) (stx st fa)). rewrite stx_lreg, stx_fid.
    destruct (eargs path (lreg st) (S j) (fid st + length fa) l) as [[ci cl] fl]. cbn [fst snd].
    rewrite stx_app, !map_app. reflexivity.
Qed.

Lemma cstmt_Assign : forall c sl x e st, cstmt path c sl (SAssign x e) st =
  let '(ce, st) := cexpr path c e st in (ce ++ [I OP_STORE [x]], st).
Proof. reflexivity. Qed.
Lemma cstmt_Modify : forall c sl x e st, cstmt path c sl (SModify x e) st =
  let '(ce, st) := cexpr path c e st in (ce ++ [I OP_STORE_OBJECT [x]], st).
Proof. reflexivity. Qed.
Lemma cstmt_OpAssign : forall c sl x o e st, cstmt path c sl (SOpAssign x o e) st =
  let '(ce, st) := cexpr path (S c) e st in (ce ++ [I OP_BIN_OP_ASSIGN [binop_sym o ++ [61%N]; x]; I OP_VOID []], st).
Proof. reflexivity. Qed.
Lemma cstmt_Print : forall c sl e st, cstmt path c sl (SPrint e) st =
  let '(ce, st) := cexpr path c e st in (ce ++ [I OP_PRINTN [s_star]; I OP_VOID []], st).
Proof. reflexivity. Qed.
Lemma cstmt_Assert : forall c sl e sp st, cstmt path c sl (SAssert e sp) st =
  let '(ce, st) := cexpr path c e st in (ce ++ [I OP_ASSERT [sp]], st).
Proof. reflexivity. Qed.
Lemma cstmt_Expr : forall c sl e st, cstmt path c sl (SExpr e) st =
  let '(ce, st) := cexpr path c e st in (ce ++ [I OP_VOID []], st).
Proof. reflexivity. Qed.
Lemma cstmt_Return : forall c sl e st, cstmt path c sl (SReturn (Some e)) st =
  let '(ce, st) := cexpr path c e st in (ce ++ [I OP_RET []], st).
Proof. reflexivity. Qed.
Lemma sc_Assign : forall c lr sl k x e, sc path c lr sl k (SAssign x e) = let '(ce, fe) := ec path c lr k e in (map CI ce ++ [I OP_STORE [x]], fe).
Proof. reflexivity. Qed.
Lemma sc_Modify : forall c lr sl k x e, sc path c lr sl k (SModify x e) = let '(ce, fe) := ec path c lr k e in (map CI ce ++ [I OP_STORE_OBJECT [x]], fe).
Proof. reflexivity. Qed.
Lemma sc_OpAssign : forall c lr sl k x o e, sc path c lr sl k (SOpAssign x o e) =
  let '(ce, fe) := ec path (S c) lr k e in (map CI ce ++ [I OP_BIN_OP_ASSIGN [binop_sym o ++ [61%N]; x]; I OP_VOID []], fe).
Proof. reflexivity. Qed.
Lemma sc_Print : forall c lr sl k e, sc path c lr sl k (SPrint e) = let '(ce, fe) := ec path c lr k e in (map CI ce ++ [I OP_PRINTN [s_star]; I OP_VOID []], fe).
Proof. reflexivity. Qed.
Lemma sc_Assert : forall c lr sl k e sp, sc path c lr sl k (SAssert e sp) = let '(ce, fe) := ec path c lr k e in (map CI ce ++ [I OP_ASSERT [sp]], fe).
Proof. reflexivity. Qed.
Lemma sc_Expr : forall c lr sl k e, sc path c lr sl k (SExpr e) = let '(ce, fe) := ec path c lr k e in (map CI ce ++ [I OP_VOID []], fe).
Proof. reflexivity. Qed.
Lemma sc_Return : forall c lr sl k e, sc path c lr sl k (SReturn (Some e)) = let '(ce, fe) := ec path c lr k e in (map CI ce ++ [I OP_RET []], fe).
Proof. reflexivity. Qed.

Lemma cstmt_SIfElse' : forall c sl cnd body els st, cstmt path c sl (SIfElse cnd body els) st =
  let '(cc, st) := cexpr path c cnd st in
  let '(cb, st) := cblockT path c (option_map S sl) body st in
  let cb := cb ++ [I OP_DONE []] in
  let '(ce, st) := cblockT path c (option_map S sl) els st in
  let ce := I OP_ELSE_STMT [] :: ce ++ [I OP_DONE []] in
  (cc ++ [I OP_IF_STMT [sN (length cb + 2)]] ++ cb ++ [I OP_JMP [sN (length ce + 1)]] ++ ce, st).
Proof. intros. apply cstmt_SIfElse. Qed.
Lemma cstmt_SIfElif' : forall c sl cnd body nxt st, cstmt path c sl (SIfElif cnd body nxt) st =
  let '(cc, st) := cexpr path c cnd st in
  let '(cb, st) := cblockT path c (option_map S sl) body st in
  let cb := cb ++ [I OP_DONE []] in
  let '(ce, st) := cstmt path c (option_map S sl) nxt st in
  let ce := I OP_ELSE_STMT [] :: ce ++ [I OP_DONE []] in
  (cc ++ [I OP_IF_STMT [sN (length cb + 2)]] ++ cb ++ [I OP_JMP [sN (length ce + 1)]] ++ ce, st).
Proof. intros. apply cstmt_SIfElif. Qed.

Ltac ci2 := repeat (first [ apply map_CI_all | apply resolve_all_CI | assumption
                          | apply Forall_app; split | apply Forall_cons | apply Forall_nil | exact Logic.I ]).

(* the two-operand forms share the shape of the proof *)
Ltac two_ops IHa IHb SF B CD Ea Eb d st :=
  rewrite (IHa SF B CD _ Ea (S d) st);
  destruct (ec path (S d) (lreg st) (fid st) _) as [ca fa]; cbn [fst snd];
  rewrite (IHb SF B CD _ Eb (S d) (stx st fa)); rewrite stx_lreg, stx_fid;
  destruct (ec path (S d) (lreg st) (fid st + length fa) _) as [cb fb]; cbn [fst snd];
  rewrite stx_app, ?I_op_instr, !map_app, ?map_length; reflexivity.
(* a statement that is an expression followed by instructions *)
Ltac simple_stmt IHe SF B CD Ee c st :=
  rewrite (IHe SF B CD _ Ee c st);
  destruct (ec path c (lreg st) (fid st) _) as [ce fe]; cbn [fst snd]; split; [reflexivity|intros _; ci2].

Theorem comp_both : (forall e, comp_e e) /\ (forall s, comp_s s).
Proof.
  apply expr_stmt_ind'; unfold comp_e, comp_s.
  all: try (intros; apply comp_pure; reflexivity).
  - (* EBin *)
    intros o a b IHa IHb SF B CD k0 Hk d st. destruct (pure (EBin o a b)) eqn:Hp; [now apply comp_pure|].
    rewrite kexpr_eq in Hk. destruct (ok_dexpr B CD (EBin o a b)) eqn:Ho; [apply ok_dexpr_pure in Ho; congruence|].
    destruct (kexpr SF B CD a) as [[|? ?|]|] eqn:Ea; try discriminate. destruct (kexpr SF B CD b) as [[|? ?|]|] eqn:Eb; try discriminate.
    rewrite cexpr_EBin, ec_EBin. two_ops IHa IHb SF B CD Ea Eb d st.
  - (* EAnd *)
    intros a b IHa IHb SF B CD k0 Hk d st. destruct (pure (EAnd a b)) eqn:Hp; [now apply comp_pure|].
    rewrite kexpr_eq in Hk. destruct (ok_dexpr B CD (EAnd a b)) eqn:Ho; [apply ok_dexpr_pure in Ho; congruence|].
    destruct (kexpr SF B CD a) as [[|? ?|]|] eqn:Ea; try discriminate. destruct (kexpr SF B CD b) as [[|? ?|]|] eqn:Eb; try discriminate.
    rewrite cexpr_EAnd, ec_EAnd. two_ops IHa IHb SF B CD Ea Eb d st.
  - (* EOr *)
    intros a b IHa IHb SF B CD k0 Hk d st. destruct (pure (EOr a b)) eqn:Hp; [now apply comp_pure|].
    rewrite kexpr_eq in Hk. destruct (ok_dexpr B CD (EOr a b)) eqn:Ho; [apply ok_dexpr_pure in Ho; congruence|].
    destruct (kexpr SF B CD a) as [[|? ?|]|] eqn:Ea; try discriminate. destruct (kexpr SF B CD b) as [[|? ?|]|] eqn:Eb; try discriminate.
    rewrite cexpr_EOr, ec_EOr. two_ops IHa IHb SF B CD Ea Eb d st.
  - (* ENot *)
    intros a IHa SF B CD k0 Hk d st. destruct (pure (ENot a)) eqn:Hp; [now apply comp_pure|].
    rewrite kexpr_eq in Hk. destruct (ok_dexpr B CD (ENot a)) eqn:Ho; [apply ok_dexpr_pure in Ho; congruence|].
    destruct (kexpr SF B CD a) as [[|? ?|]|] eqn:Ea; try discriminate.
    rewrite cexpr_ENot, ec_ENot. rewrite (IHa SF B CD _ Ea (S d) st).
    destruct (ec path (S d) (lreg st) (fid st) a) as [ca fa]. cbn [fst snd]. now rewrite map_app.
  - (* ENeg *)
    intros a IHa SF B CD k0 Hk d st. destruct (pure (ENeg a)) eqn:Hp; [now apply comp_pure|].
    rewrite kexpr_eq in Hk. destruct (ok_dexpr B CD (ENeg a)) eqn:Ho; [apply ok_dexpr_pure in Ho; congruence|].
    destruct (kexpr SF B CD a) as [[|? ?|]|] eqn:Ea; try discriminate.
    rewrite cexpr_ENeg, ec_ENeg. rewrite (IHa SF B CD _ Ea (S d) st).
    destruct (ec path (S d) (lreg st) (fid st) a) as [ca fa]. cbn [fst snd]. now rewrite map_app.
  - (* ECall *)
    intros f l _ IHl SF B CD k0 Hk d st. rewrite kexpr_eq in Hk.
    destruct (ok_dexpr B CD (ECall f l)) eqn:Ho; [apply ok_dexpr_pure in Ho; discriminate|].
    destruct f as [| | | |g| | | | | | | | | |]; try discriminate.
    destruct (src_nameb g); [|discriminate]. destruct (kvar B CD g) as [[|pk r|]|]; try discriminate.
    destruct (kargs SF B CD l) as [ks|] eqn:El; [|discriminate].
    rewrite cexpr_ECall, ec_ECall. cbn [cexpr]. rewrite (comp_args l IHl SF B CD ks El (S (S d)) st).
    destruct (eargs path (lreg st) (S (S d)) (fid st) l) as [[ci cl] fl]. cbn [fst snd]. rewrite !map_app. reflexivity.
  - (* ESelf *)
    intros l IHl SF B CD k0 Hk d st. rewrite kexpr_eq in Hk. destruct (ok_dexpr B CD (ESelf l)) eqn:Ho; [apply ok_dexpr_pure in Ho; discriminate|].
    destruct SF as [[pk r]|] eqn:ESF; [|discriminate]. rewrite <- ESF in *. destruct (kargs SF B CD l) as [ks|] eqn:El; [|discriminate].
    rewrite cexpr_ESelf, ec_ESelf. rewrite (comp_args l IHl _ B CD ks El (S d) st).
    destruct (eargs path (lreg st) (S d) (fid st) l) as [[ci cl] fl]. cbn [fst snd]. rewrite !map_app. reflexivity.
  - (* EFn *)
    intros ps body IHb SF B CD k0 Hk d st. rewrite kexpr_eq in Hk.
    destruct (ok_dexpr B CD (EFn ps body)) eqn:Ho; [apply ok_dexpr_pure in Ho; discriminate|].
    unfold kfn in Hk. destruct (capctx B CD (free_vars ps body)) as [G|]; [|discriminate].
    destruct (kblock (Some (map (pkind body) ps, KD)) false (rev (combine ps (map (pkind body) ps))) G body) as [[B' rets]|] eqn:Eb; [|discriminate].
    rewrite cexpr_EFn_eq, ec_EFn. destruct (comp_block body IHb _ false _ G _ Eb (S d) None st) as [E1 C1]. rewrite E1.
    specialize (C1 eq_refl).
    unfold fcode. destruct (bc path (S d) (lreg st) None (fid st) body) as [cb fb]. cbn [fst snd] in *. cbv zeta.
    rewrite stx_fid, stx_lreg. f_equal.
    unfold stx. cbn [fid lreg fbuf]. rewrite app_length, map_app. cbn [length map fbe fst snd].
    rewrite !strip_app, strip_map_CI, (strip_ftail cb C1). rewrite <- app_assoc.
    f_equal. lia.
  - (* ENilOr *)
    intros a b IHa IHb SF B CD k0 Hk d st. destruct (pure (ENilOr a b)) eqn:Hp; [now apply comp_pure|].
    rewrite kexpr_eq in Hk. destruct (ok_dexpr B CD (ENilOr a b)) eqn:Ho; [apply ok_dexpr_pure in Ho; congruence|].
    destruct (kexpr SF B CD a) as [[|? ?|]|] eqn:Ea; try discriminate. destruct (kexpr SF B CD b) as [[|? ?|]|] eqn:Eb; try discriminate.
    rewrite cexpr_ENilOr, ec_ENilOr. two_ops IHa IHb SF B CD Ea Eb d st.
  - (* EGet *)
    intros a sp IHa SF B CD k0 Hk d st. destruct (pure (EGet a sp)) eqn:Hp; [now apply comp_pure|].
    rewrite kexpr_eq in Hk. destruct (ok_dexpr B CD (EGet a sp)) eqn:Ho; [apply ok_dexpr_pure in Ho; congruence|].
    destruct (kexpr SF B CD a) as [[|? ?|]|] eqn:Ea; try discriminate.
    rewrite cexpr_EGet, ec_EGet. rewrite (IHa SF B CD _ Ea (S d) st).
    destruct (ec path (S d) (lreg st) (fid st) a) as [ca fa]. cbn [fst snd]. now rewrite map_app.
  - (* SAssign *)
    intros x e IHe SF il B CD r Hk c sl st. cbn [kstmt] in Hk. destruct (src_nameb x); [|discriminate].
    destruct (kexpr SF B CD e) as [k|] eqn:Ee; [|discriminate]. rewrite cstmt_Assign, sc_Assign. simple_stmt IHe SF B CD Ee c st.
  - (* SModify *)
    intros x e IHe SF il B CD r Hk c sl st. cbn [kstmt] in Hk. destruct (assoc x CD) as [kx|]; [|discriminate].
    destruct (kexpr SF B CD e) as [k1|] eqn:Ee; [|discriminate]. rewrite cstmt_Modify, sc_Modify. simple_stmt IHe SF B CD Ee c st.
  - (* SOpAssign *)
    intros x o e IHe SF il B CD r Hk c sl st. cbn [kstmt] in Hk.
    destruct (kexpr SF B CD e) as [k1|] eqn:Ee; [|rewrite andb_false_r in Hk; discriminate].
    rewrite cstmt_OpAssign, sc_OpAssign. simple_stmt IHe SF B CD Ee (S c) st.
  - (* SPrint *)
    intros e IHe SF il B CD r Hk c sl st. cbn [kstmt] in Hk. destruct (kexpr SF B CD e) as [k|] eqn:Ee; [|discriminate].
    rewrite cstmt_Print, sc_Print. simple_stmt IHe SF B CD Ee c st.
  - (* SAssert *)
    intros e sp IHe SF il B CD r Hk c sl st. cbn [kstmt] in Hk. destruct (kexpr SF B CD e) as [k|] eqn:Ee; [|discriminate].
    rewrite cstmt_Assert, sc_Assert. simple_stmt IHe SF B CD Ee c st.
  - (* SExpr *)
    intros e IHe SF il B CD r Hk c sl st. cbn [kstmt] in Hk. destruct (kexpr SF B CD e) as [k|] eqn:Ee; [|discriminate].
    rewrite cstmt_Expr, sc_Expr. simple_stmt IHe SF B CD Ee c st.
  - (* SIf *)
    intros cnd body IHc IHb SF il B CD r Hk c sl st. rewrite kstmt_SIf in Hk.
    destruct (kexpr SF B CD cnd) as [k|] eqn:Ec; [|discriminate]. cbn [is_KD] in Hk. destruct k; [|discriminate..].
    destruct (kblock SF il B CD body) as [[B' rb]|] eqn:Eb; [|discriminate].
    rewrite cstmt_SIf, sc_SIf. rewrite (IHc SF B CD _ Ec c st).
    destruct (ec path c (lreg st) (fid st) cnd) as [cc fc]. cbn [fst snd].
    destruct (comp_block body IHb SF il B CD _ Eb c (option_map S sl) (stx st fc)) as [E1 C1]. rewrite E1. rewrite stx_lreg, stx_fid in *.
    destruct (bc path c (lreg st) (option_map S sl) (fid st + length fc) body) as [cb0 fb]. cbn [fst snd] in *.
    rewrite stx_app, !app_length. split; [reflexivity|]. intros Hil. specialize (C1 Hil). ci2.
  - (* SIfElse *)
    intros cnd body els IHc IHb IHe SF il B CD r Hk c sl st. rewrite kstmt_SIfElse in Hk.
    destruct (kexpr SF B CD cnd) as [k|] eqn:Ec; [|discriminate]. cbn [is_KD] in Hk. destruct k; [|discriminate..].
    destruct (kblock SF il B CD body) as [[B' rb]|] eqn:Eb; [|discriminate].
    destruct (kblock SF il B CD els) as [[B2 re]|] eqn:Ee; [|discriminate].
    rewrite cstmt_SIfElse', sc_SIfElse. rewrite (IHc SF B CD _ Ec c st).
    destruct (ec path c (lreg st) (fid st) cnd) as [cc fc]. cbn [fst snd].
    destruct (comp_block body IHb SF il B CD _ Eb c (option_map S sl) (stx st fc)) as [E1 C1]. rewrite E1. rewrite stx_lreg, stx_fid in *.
    destruct (bc path c (lreg st) (option_map S sl) (fid st + length fc) body) as [cb0 fb]. cbn [fst snd] in *.
    destruct (comp_block els IHe SF il B CD _ Ee c (option_map S sl) (stx (stx st fc) fb)) as [E2 C2]. rewrite E2. rewrite !stx_lreg, !stx_fid in *.
    destruct (bc path c (lreg st) (option_map S sl) (fid st + length fc + length fb) els) as [ce0 fe]. cbn [fst snd] in *. cbv zeta.
    rewrite !stx_app. split; [reflexivity|]. intros Hil. specialize (C1 Hil). specialize (C2 Hil). ci2.
  - (* SIfElif *)
    intros cnd body nxt IHc IHb IHn SF il B CD r Hk c sl st. rewrite kstmt_SIfElif in Hk.
    destruct (kexpr SF B CD cnd) as [k|] eqn:Ec; [|discriminate]. cbn [is_KD] in Hk. destruct k; [|discriminate..].
    destruct (kblock SF il B CD body) as [[B' rb]|] eqn:Eb; [|discriminate].
    destruct (kstmt SF il B CD nxt) as [[B2 re]|] eqn:Ee; [|discriminate].
    rewrite cstmt_SIfElif', sc_SIfElif. rewrite (IHc SF B CD _ Ec c st).
    destruct (ec path c (lreg st) (fid st) cnd) as [cc fc]. cbn [fst snd].
    destruct (comp_block body IHb SF il B CD _ Eb c (option_map S sl) (stx st fc)) as [E1 C1]. rewrite E1. rewrite stx_lreg, stx_fid in *.
    destruct (bc path c (lreg st) (option_map S sl) (fid st + length fc) body) as [cb0 fb]. cbn [fst snd] in *.
    destruct (IHn SF il B CD _ Ee c (option_map S sl) (stx (stx st fc) fb)) as [E2 C2]. rewrite E2. rewrite !stx_lreg, !stx_fid in *.
    destruct (sc path c (lreg st) (option_map S sl) (fid st + length fc + length fb) nxt) as [ce0 fe]. cbn [fst snd] in *. cbv zeta.
    rewrite !stx_app. split; [reflexivity|]. intros Hil. specialize (C1 Hil). specialize (C2 Hil). ci2.
  - (* SWhile *)
    intros cnd body IHc IHb SF il B CD r Hk c sl st. rewrite kstmt_SWhile in Hk.
    destruct (kexpr SF B CD cnd) as [k|] eqn:Ec; [|discriminate]. cbn [is_KD] in Hk. destruct k; [|discriminate..].
    destruct (kblock SF true B CD body) as [[B' rb]|] eqn:Eb; [|discriminate].
    rewrite cstmt_SWhile, sc_SWhile. rewrite (IHc SF B CD _ Ec c st).
    destruct (ec path c (lreg st) (fid st) cnd) as [cc fc]. cbn [fst snd].
    destruct (comp_block body IHb SF true B CD _ Eb c (Some 1) (stx st fc)) as [E1 _]. rewrite E1. rewrite stx_lreg, stx_fid.
    destruct (bc path c (lreg st) (Some 1) (fid st + length fc) body) as [cb0 fb]. cbn [fst snd]. cbv zeta.
    rewrite stx_app, !map_length. split; [reflexivity|]. intros _. ci2.
  - (* SFrom *)
    intros a b incl step name collide body IHa IHb IHs IHbody SF il B CD r Hk c sl st.
    destruct (kstmt_SFrom_parts SF il B CD a b incl step name collide body r Hk) as (Ea & Eb & Bb & [rb Ebody] & Estep).
    rewrite cstmt_SFrom, sc_SFrom.
    destruct name as [x|]; cbn [from_idn from_lr1]; cbv zeta.
    + rewrite (IHa SF B CD _ Ea c st). destruct (ec path c (lreg st) (fid st) a) as [ca fa]. cbn [fst snd].
      pose proof (IHb SF B CD _ Eb c (stx st fa)) as E2. rewrite stx_lreg, stx_fid in E2. rewrite E2. clear E2.
      destruct (ec path c (lreg st) (fid st + length fa) b) as [cb_ fb]. cbn [fst snd].
      rewrite ?stx_lreg, ?stx_fid.
      match goal with |- context [cblockT path c (Some 1) body ?ST] =>
        destruct (comp_block body IHbody SF true Bb CD _ Ebody c (Some 1) ST) as [E3 _]; cbn [lreg fid] in E3; rewrite E3; clear E3 end.
      destruct (bc path c (S (S (lreg st))) (Some 1) (fid st + length fa + length fb) body) as [cbody fbd]. cbn [fst snd].
      destruct step as [e|]; cbn [stepc].
      * match goal with |- context [cexpr path c e ?ST] =>
          pose proof (IHs e eq_refl SF Bb CD _ (Estep e eq_refl) c ST) as E4 end.
        rewrite stx_lreg, stx_fid in E4. cbn [lreg fid] in E4. rewrite E4. clear E4.
        destruct (ec path c (S (S (lreg st))) (fid st + length fa + length fb + length fbd) e) as [cs fs]. cbn [fst snd].
        split; [|intros _; destruct collide; ci2]. f_equal.
        unfold stx. cbn [fid lreg fbuf]. f_equal; [rewrite !app_length; lia|lia|rewrite !map_app, <- !app_assoc; reflexivity].
      * cbn [fst snd map]. split; [|intros _; destruct collide; ci2]. f_equal.
        unfold stx. cbn [fid lreg fbuf]. f_equal; [rewrite !app_length; cbn [length]; lia|lia|rewrite !map_app, <- !app_assoc; cbn [map]; now rewrite app_nil_r].
    + set (st1 := {| fid := fid st; lreg := S (lreg st); fbuf := fbuf st |}).
      pose proof (IHa SF B CD _ Ea c st1) as E1. cbn [st1 lreg fid] in E1. fold st1 in E1. rewrite E1. clear E1.
      destruct (ec path c (S (lreg st)) (fid st) a) as [ca fa]. cbn [fst snd].
      pose proof (IHb SF B CD _ Eb c (stx st1 fa)) as E2. rewrite stx_lreg, stx_fid in E2. cbn [st1 lreg fid] in E2. fold st1 in E2. rewrite E2. clear E2.
      destruct (ec path c (S (lreg st)) (fid st + length fa) b) as [cb_ fb]. cbn [fst snd].
      rewrite ?stx_lreg, ?stx_fid. cbn [st1 lreg fid]. fold st1.
      match goal with |- context [cblockT path c (Some 1) body ?ST] =>
        destruct (comp_block body IHbody SF true Bb CD _ Ebody c (Some 1) ST) as [E3 _]; cbn [lreg fid] in E3; rewrite E3; clear E3 end.
      destruct (bc path c (S (S (S (lreg st)))) (Some 1) (fid st + length fa + length fb) body) as [cbody fbd]. cbn [fst snd].
      destruct step as [e|]; cbn [stepc].
      * match goal with |- context [cexpr path c e ?ST] =>
          pose proof (IHs e eq_refl SF Bb CD _ (Estep e eq_refl) c ST) as E4 end.
        rewrite stx_lreg, stx_fid in E4. cbn [lreg fid] in E4. rewrite E4. clear E4.
        destruct (ec path c (S (S (S (lreg st)))) (fid st + length fa + length fb + length fbd) e) as [cs fs]. cbn [fst snd].
        split; [|intros _; destruct collide; ci2]. f_equal.
        unfold stx. cbn [st1 fid lreg fbuf]. f_equal; [rewrite !app_length; lia|lia|rewrite !map_app, <- !app_assoc; reflexivity].
      * cbn [fst snd map]. split; [|intros _; destruct collide; ci2]. f_equal.
        unfold stx. cbn [st1 fid lreg fbuf]. f_equal; [rewrite !app_length; cbn [length]; lia|lia|rewrite !map_app, <- !app_assoc; cbn [map]; now rewrite app_nil_r].
  - (* SBreak *) intros SF il B CD r Hk c sl st. cbn [kstmt] in Hk. destruct il; [|discriminate]. cbn [cstmt sc fst snd]. rewrite stx_nil.
    split; [reflexivity|discriminate].
  - (* SContinue *) intros SF il B CD r Hk c sl st. cbn [kstmt] in Hk. destruct il; [|discriminate]. cbn [cstmt sc fst snd]. rewrite stx_nil.
    split; [reflexivity|discriminate].
  - (* SReturn *)
    intros [e|] IHe SF il B CD r Hk c sl st.
    + cbn [kstmt] in Hk. destruct (kexpr SF B CD e) as [k|] eqn:Ee; [|discriminate]. rewrite cstmt_Return, sc_Return.
      simple_stmt (IHe e eq_refl) SF B CD Ee c st.
    + cbn [cstmt sc fst snd]. rewrite stx_nil. split; [reflexivity|intros _; ci2].
Qed.
End Comp.
