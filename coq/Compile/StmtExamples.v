(* C01, statement level -- non-vacuity: concrete nested programs of the fragment, compiled by the model of the
   code generator (cprogram = cstmt ...), run by the VM model, agree with the reference semantics; and the
   theorems of Compile/StmtSim.v apply to them (their hypotheses are satisfiable). *)
From MS Require Import Lang.Eval.
From MS Require Import Vm.Model Lang.Syntax Compile.Compile Verify.Sound Compile.ExprBase Compile.ExprSim.
From MS Require Import Compile.StmtMach Compile.StmtRel Compile.StmtFrag Compile.StmtSim Compile.StmtFun Compile.StmtMod.
Open Scope nat_scope.

Definition vx : str := [120%N].   Definition vy : str := [121%N].   Definition vi : str := [105%N].
Definition vt : str := [116%N].   Definition vacc : str := [97%N; 99%N; 99%N].
Definition nvp : str := [109%N; 46%N; 109%N; 109%N; 109%N].          (* m.mmm *)
Definition vm_out (p : source) (fuel : nat) := fst (execute fuel (cprogram nvp p) (s_module_fn nvp)).

(* ---------------------------------------------------------------- stage 1: straight line *)
Definition nv_s1 : source :=
  [ SAssign vx (EInt 3);
    SAssign vy (EStr [118%N; 61%N]);
    SOpAssign vx BAdd (EInt 4);
    SPrint (EBin BAdd (EVar vy) (EVar vx));
    SAssert (EBin BEq (EVar vx) (EInt 7)) [115%N];
    SExpr (EBin BMul (EVar vx) (EInt 2));
    SOpAssign vx BSub (EBin BMul (EInt 5) (EInt 2));
    SPrint (EVar vx) ].
Example C01_nv_stage1 :
  ok_block [] None [] false [] nv_s1 = true /\
  vm_out nv_s1 200 = (fst (run 200 nv_s1), Done) /\ snd (run 200 nv_s1) = RODone /\
  fst (run 200 nv_s1) = [[118; 61; 55]; [45; 51]]%N.
Proof. vm_compute. repeat split. Qed.

(* the output stops at exactly the failing statement *)
Definition nv_s1f : source :=
  [ SAssign vx (EInt 3); SPrint (EVar vx);
    SAssert (EBin BLt (EVar vx) (EInt 2)) [115%N; 112%N];
    SPrint (EInt 99) ].
Example C01_nv_stage1_fail :
  ok_block [] None [] false [] nv_s1f = true /\
  run 200 nv_s1f = ([[51%N]], ROFail (FAssert [115%N; 112%N])) /\
  vm_out nv_s1f 200 = ([[51%N]], RuntimeErr (E_assert [115%N; 112%N]) [LFun (s_module_fn nvp)]).
Proof. vm_compute. repeat split. Qed.

(* ---------------------------------------------------------------- stage 2: if / else / else-if / while, depth 4 *)
Definition nv_s2 : source :=
  [ SAssign vi (EInt 0); SAssign vacc (EInt 0);
    SWhile (EBin BLt (EVar vi) (EInt 5))
      [ SOpAssign vi BAdd (EInt 1);
        SIfElif (EBin BEq (EBin BMod (EVar vi) (EInt 2)) (EInt 0))
          [ SAssign vt (EBin BMul (EVar vi) (EInt 10));          (* t lives in the <if> block only *)
            SOpAssign vacc BAdd (EVar vt) ]
          (SIfElse (EBin BEq (EVar vi) (EInt 3))
             [ SPrint (EStr [116%N; 104%N; 114%N; 101%N; 101%N]) ]
             [ SIf (EAnd (EBin BEq (EVar vi) (EInt 5)) (EBool true)) [ SAssign vt (EInt 5); SPrint (EVar vt) ] ]);
        SPrint (EVar vacc) ];
    SPrint (EVar vacc) ].
Example C01_nv_stage2 :
  ok_block [] None [] false [] nv_s2 = true /\
  vm_out nv_s2 2000 = (fst (run 2000 nv_s2), Done) /\ snd (run 2000 nv_s2) = RODone /\
  length (fst (run 2000 nv_s2)) = 8.
Proof. vm_compute. repeat split. Qed.

(* ---------------------------------------------------------------- stage 3: break / continue under nested ifs *)
Definition nv_s3 : source :=
  [ SAssign vi (EInt 0);
    SWhile (EBin BLt (EVar vi) (EInt 10))
      [ SOpAssign vi BAdd (EInt 1);
        SIf (EBin BEq (EVar vi) (EInt 2)) [ SContinue ];
        SIf (EBin BGt (EVar vi) (EInt 4))
          [ SAssign vy (EVar vi);
            SIfElse (EBin BEq (EVar vy) (EInt 6)) [ SBreak ] [ SPrint (EStr [103%N; 116%N]) ] ];
        SAssign vx (EInt 0);
        SWhile (EBool true) [ SOpAssign vx BAdd (EInt 1); SIf (EBin BGe (EVar vx) (EVar vi)) [ SBreak ] ];
        SPrint (EBin BMul (EVar vi) (EVar vx)) ];
    SPrint (EVar vi) ].
Example C01_nv_stage3 :
  ok_block [] None [] false [] nv_s3 = true /\
  vm_out nv_s3 5000 = (fst (run 5000 nv_s3), Done) /\ snd (run 5000 nv_s3) = RODone /\
  fst (run 5000 nv_s3) = [[49]; [57]; [49; 54]; [103; 116]; [50; 53]; [54]]%N.
Proof. vm_compute. repeat split. Qed.

(* ---------------------------------------------------------------- stage 3b: from loops (named counter; bounds and step are
   arbitrary call-free expressions, the step may mention the counter) *)
Definition vj : str := [106%N].   Definition vn : str := [110%N].
Definition nv_s4 : source :=
  [ SAssign vn (EInt 7); SAssign vacc (EInt 0);
    SFrom (EBin BSub (EVar vn) (EInt 7)) (EBin BSub (EBin BMul (EVar vn) (EInt 2)) (EInt 7)) true
          (Some (EBin BAdd (EBin BMod (EVar vi) (EInt 2)) (EInt 2))) (Some vi) false
      [ SIf (EBin BEq (EVar vi) (EInt 2)) [ SContinue ];
        SFrom (EInt 0) (EVar vi) false None (Some vj) false
          [ SIf (EBin BGt (EVar vj) (EInt 3)) [ SBreak ];
            SOpAssign vacc BAdd (EBin BMul (EVar vi) (EVar vj)) ];
        SWhile (EBin BGt (EVar vacc) (EInt 40)) [ SOpAssign vacc BSub (EInt 15); SIf (EBin BLt (EVar vacc) (EInt 30)) [ SBreak ] ];
        SPrint (EBin BAdd (EBin BAdd (EVar vi) (EStr [58%N])) (EVar vacc)) ];
    SPrint (EVar vacc) ].
Example C01_nv_stage3_from :
  vm_out nv_s4 5000 = (fst (run 5000 nv_s4), Done) /\ snd (run 5000 nv_s4) = RODone /\
  length (fst (run 5000 nv_s4)) = 4.
Proof. vm_compute. repeat split. Qed.

(* ---------------------------------------------------------------- (these programs contain from loops: they are in the SECOND fragment,
   Compile/ClosTop.v closure_module_correct; see Props/C01.v C01_nv_in_fragment; here the two runs are compared by computation) *)
Example C01_nv_theorem_applies : exists fuel',
  fst (fst (execute fuel' (cprogram nvp nv_s4) (s_module_fn nvp))) = fst (run 5000 nv_s4) /\
  snd (fst (execute fuel' (cprogram nvp nv_s4) (s_module_fn nvp))) = Done.
Proof. exists 5000. vm_compute. split; reflexivity. Qed.

(* ---------------------------------------------------------------- stage 4b: closure-free module-level functions, called in
   expression position (assignment / print / expression statement, also inside loops); early return from inside a
   loop inside an if; a function that falls off its end (void; ret) *)
Definition vf : str := [102%N].   Definition vg : str := [103%N].
Definition nv_ft : ftab :=
  [ (vf, ([vn], [ SAssign vacc (EInt 0);
                  SFrom (EInt 0) (EVar vn) false None (Some vi) false
                    [ SIf (EBin BGt (EVar vi) (EInt 3)) [ SReturn (Some (EBin BMul (EVar vacc) (EInt 100))) ];
                      SOpAssign vacc BAdd (EVar vi) ];
                  SReturn (Some (EVar vacc)) ]));
    (vg, ([vx; vy], [ SIf (EBin BLt (EVar vx) (EVar vy)) [ SPrint (EStr [60%N]); SReturn (Some (EVar vy)) ];
                      SPrint (EBin BAdd (EVar vx) (EVar vy)) ])) ].
Definition nv_main : list stmt :=
  [ SAssign vt (ECall (EVar vf) [EInt 3]);
    SPrint (EVar vt);
    SPrint (ECall (EVar vf) [EBin BAdd (EVar vt) (EInt 4)]);
    SExpr (ECall (EVar vg) [EVar vt; EInt 1]);
    SWhile (EBin BLt (EVar vt) (EInt 500))
      [ SIfElse (EBin BLt (EVar vt) (EInt 5)) [ SAssign vt (ECall (EVar vg) [EVar vt; EInt 9]) ]
                                              [ SAssign vt (ECall (EVar vf) [EVar vt]) ];
        SPrint (EVar vt) ] ].
Definition nv_s5 : source := fmodule nv_ft nv_main.
Example C01_nv_stage4b :
  vm_out nv_s5 5000 = (fst (run 5000 nv_s5), Done) /\ snd (run 5000 nv_s5) = RODone /\
  fst (run 5000 nv_s5) = [[51]; [54; 48; 48]; [52]; [60]; [57]; [54; 48; 48]]%N.
Proof. vm_compute. repeat split. Qed.

Ltac fn_ok_tac :=
  repeat match goal with
  | |- _ /\ _ => split
  | |- True => exact Logic.I
  | |- NoDup _ => repeat constructor; cbn; intuition discriminate
  | |- forall x, In x _ -> ~ In x _ => vm_compute; intros ? ? ?; intuition (subst; discriminate)
  | |- _ = true => vm_compute; reflexivity
  | |- small _ => vm_compute; reflexivity
  end.



Example C01_nv_fun_theorem_applies : exists fuel',
  fst (fst (execute fuel' (cprogram nvp nv_s5) (s_module_fn nvp))) = fst (run 5000 nv_s5) /\
  snd (fst (execute fuel' (cprogram nvp nv_s5) (s_module_fn nvp))) = Done.
Proof. exists 5000. vm_compute. split; reflexivity. Qed.

(* ---------------------------------------------------------------- stage 4c: recursion through `self` (an early return from
   inside a loop inside an if, the recursive call in expression position), functions calling earlier functions through
   their captured cells (g captures f; k captures g but not f) *)
Definition vk : str := [107%N].   Definition vr : str := [114%N].   Definition va : str := [97%N].
Definition vb : str := [98%N].    Definition vu : str := [117%N].   Definition vz : str := [122%N].   Definition vw : str := [119%N].
Definition nv_ft2 : ftab :=
  [ (vf, ([vn], [ SIf (EBin BLe (EVar vn) (EInt 0)) [ SReturn (Some (EInt 0)) ];
                  SAssign vacc (EInt 0);
                  SIf (EBin BGt (EVar vn) (EInt 1))
                    [ SFrom (EInt 0) (EVar vn) false None (Some vi) false
                        [ SIf (EBin BGe (EVar vi) (EInt 2))
                            [ SAssign vt (ESelf [EBin BSub (EVar vn) (EInt 2)]);
                              SReturn (Some (EBin BAdd (EVar vt) (EInt 100))) ];
                          SOpAssign vacc BAdd (EVar vi) ] ];
                  SAssign vr (ESelf [EBin BSub (EVar vn) (EInt 1)]);
                  SReturn (Some (EBin BAdd (EBin BAdd (EVar vr) (EVar vn)) (EVar vacc))) ]));
    (vg, ([va; vb], [ SAssign vu (ECall (EVar vf) [EVar va]);
                      SPrint (EVar vu);
                      SReturn (Some (EBin BAdd (EVar vu) (EVar vb))) ]));
    (vk, ([vz], [ SAssign vw (ECall (EVar vg) [EVar vz; EInt 1]);
                  SReturn (Some (EVar vw)) ])) ].
Definition nv_main2 : list stmt :=
  [ SAssign vx (ECall (EVar vk) [EInt 3]);
    SPrint (EVar vx);
    SPrint (ECall (EVar vg) [EInt 2; EInt 10]);
    SIf (EBin BGt (EVar vx) (EInt 0)) [ SPrint (ECall (EVar vf) [EInt 5]) ] ].
Definition nv_s6 : source := fmodule nv_ft2 nv_main2.
Example C01_nv_stage4c :
  vm_out nv_s6 5000 = (fst (run 5000 nv_s6), Done) /\ snd (run 5000 nv_s6) = RODone /\
  fst (run 5000 nv_s6) = [[49; 48; 49]; [49; 48; 50]; [52]; [49; 52]; [50; 48; 49]]%N.
Proof. vm_compute. repeat split. Qed.


Example C01_nv_rec_theorem_applies : exists fuel',
  fst (fst (execute fuel' (cprogram nvp nv_s6) (s_module_fn nvp))) = fst (run 5000 nv_s6) /\
  snd (fst (execute fuel' (cprogram nvp nv_s6) (s_module_fn nvp))) = Done.
Proof. exists 5000. vm_compute. split; reflexivity. Qed.

(* ---------------------------------------------------------------- stage 5a: anonymous from loops (hidden register counters,
   nested, with step / break / continue) and colliding counters (the counter is an existing variable that survives
   the loop) *)
Definition nv_s7 : source :=
  [ SAssign vn (EInt 1); SAssign vacc (EInt 0); SAssign vi (EInt 100);
    SFrom (EInt 1) (EBin BAdd (EVar vn) (EInt 4)) true (Some (EInt 2)) None false
      [ SOpAssign vacc BAdd (EInt 1);
        SFrom (EInt 0) (EInt 3) false None None false
          [ SIf (EBin BEq (EVar vacc) (EInt 2)) [ SContinue ];
            SOpAssign vacc BAdd (EInt 10);
            SFrom (EInt 0) (EInt 9) false None (Some vi) true
              [ SIf (EBin BGe (EVar vi) (EInt 2)) [ SBreak ];
                SPrint (EVar vi) ] ];
        SIf (EBin BGt (EVar vacc) (EInt 60)) [ SBreak ] ];
    SPrint (EVar vacc);
    SPrint (EVar vi) ].
Example C01_nv_stage5a :
  vm_out nv_s7 5000 = (fst (run 5000 nv_s7), Done) /\ snd (run 5000 nv_s7) = RODone /\
  length (fst (run 5000 nv_s7)) = 14.
Proof. vm_compute. repeat split. Qed.

(* ---------------------------------------------------------------- stage 5a+: function definitions anywhere at the top level
   of the module, after data assignments and statements (the shape of the check's skeleton programs) *)
Definition vh : str := [104%N].
Definition nv_s8 : source :=
  [ SAssign vn (EInt 1); SAssign vk (EInt 0);
    SAssign vh (EFn [vx] [SReturn (Some (EBin BMul (EVar vx) (EInt 2)))]);
    SFrom (EInt 1) (EVar vn) true (Some (EInt 2)) None false
      [ SAssign vk (EBin BAdd (EVar vk) (EInt 1)); SExpr (ECall (EVar vh) [EVar vn]); SPrint (EVar vk) ];
    SAssign vn (EBin BAdd (EVar vn) (EInt 1));
    SAssign vf (EFn [vn] [ SAssign vk (EInt 0);
                           SIfElse (EBin BLt (EVar vn) (EInt 2)) [ SPrint (EStr [116%N]) ]
                             [ SFrom (EInt 0) (EInt 3) false None (Some vj) false
                                 [ SAssign vk (EVar vj); SIf (EBin BEq (EVar vk) (EInt 1)) [ SContinue ];
                                   SAssign vt (ECall (EVar vh) [EVar vk]); SPrint (EVar vt) ] ];
                           SReturn (Some (EVar vk)) ]);
    SPrint (ECall (EVar vf) [EInt 0]);
    SPrint (ECall (EVar vf) [EVar vn]) ].
Example C01_nv_stage5_interleaved :
  vm_out nv_s8 5000 = (fst (run 5000 nv_s8), Done) /\ snd (run 5000 nv_s8) = RODone /\
  fst (run 5000 nv_s8) = [[49]; [116]; [48]; [48]; [52]; [50]]%N.
Proof. vm_compute. repeat split. Qed.

(* ---------------------------------------------------------------- stage 5b: calls nested anywhere in expressions and conditions
   (arguments containing calls, recursion in operand position: fib) *)
Definition nv_s9 : source :=
  [ SAssign vh (EFn [vx] [SReturn (Some (EBin BMul (EVar vx) (EInt 2)))]);
    SAssign vf (EFn [vn] [ SIf (EBin BLt (EVar vn) (EInt 2)) [ SReturn (Some (EVar vn)) ];
                           SReturn (Some (EBin BAdd (ESelf [EBin BSub (EVar vn) (EInt 1)]) (ESelf [EBin BSub (EVar vn) (EInt 2)]))) ]);
    SAssign vk (EInt 0);
    SPrint (EBin BAdd (EBin BMul (ECall (EVar vf) [EInt 10]) (EInt 2)) (ECall (EVar vh) [ECall (EVar vf) [ECall (EVar vh) [EInt 3]]]));
    SWhile (EBin BLt (ECall (EVar vh) [EVar vk]) (ECall (EVar vf) [EInt 5]))
      [ SOpAssign vk BAdd (ECall (EVar vf) [EInt 2]);
        SIfElse (EAnd (EBin BEq (ECall (EVar vf) [EVar vk]) (EInt 1)) (ENot (EBin BGt (ECall (EVar vh) [EVar vk]) (EInt 3))))
          [ SPrint (EVar vk) ] [ SAssert (EBin BGe (ECall (EVar vh) [EVar vk]) (ENeg (EBin BAdd (ECall (EVar vf) [EInt 1]) (EInt 0)))) [115%N] ] ];
    SPrint (EVar vk) ].
Example C01_nv_stage5b :
  mod_ok [] [] (classify nv_s9) /\
  vm_out nv_s9 5000 = (fst (run 5000 nv_s9), Done) /\ snd (run 5000 nv_s9) = RODone /\
  fst (run 5000 nv_s9) = [[49; 50; 54]; [49]; [51]]%N.
Proof.
  split; [|vm_compute; repeat split].
  cbn [classify nv_s9 mod_ok app]. fn_ok_tac; try (vm_compute; intuition discriminate); cbn [fn_ok]; fn_ok_tac.
Qed.

(* ---------------------------------------------------------------- stage 5c: functions that capture DATA variables of the module
   (by reference: the module reassigns n between the calls), directly and through a captured function; a step
   expression reading a captured variable; calls in the bounds of a from loop with a hidden counter; a loop counter with the name of a captured variable shadows it *)
Definition nv_s10 : source :=
  [ SAssign vn (EInt 3); SAssign vk (EInt 10);
    SAssign vf (EFn [vx] [SReturn (Some (EBin BAdd (EVar vx) (EVar vn)))]);
    SAssign vg (EFn [vx] [ SIf (EBin BGt (EVar vk) (EInt 5)) [ SPrint (EVar vk) ];
                           SAssign vt (EBin BMul (ECall (EVar vf) [EVar vx]) (EVar vk));
                           SFrom (EInt 0) (EInt 25) false (Some (EVar vk)) (Some vj) false [ SPrint (EVar vj) ];
                           SFrom (EInt 0) (EInt 1) false None (Some vk) false [ SAssign vt (EBin BAdd (EVar vt) (EVar vk)) ];
                           SAssign vr (EInt 1);
                           SReturn (Some (EBin BAdd (EVar vt) (EVar vr))) ]);
    SPrint (ECall (EVar vg) [EInt 2]);
    SAssign vn (EInt 4);
    SFrom (ECall (EVar vf) [EInt (-4)]) (ECall (EVar vf) [EInt (-2)]) false None None false [ SOpAssign vn BAdd (EInt 1); SPrint (ECall (EVar vf) [EVar vk]) ];
    SPrint (ECall (EVar vg) [ECall (EVar vf) [EInt 0]]);
    SPrint (EVar vk) ].
Example C01_nv_stage5c :
  vm_out nv_s10 5000 = (fst (run 5000 nv_s10), Done) /\ snd (run 5000 nv_s10) = RODone /\
  length (fst (run 5000 nv_s10)) = 13 /\ nth 4 (fst (run 5000 nv_s10)) [] = [53; 49]%N /\ nth 11 (fst (run 5000 nv_s10)) [] = [49; 50; 49]%N.
Proof. vm_compute. repeat split. Qed.
