(* Model of the code generator for Core MScript:
     compiler/src/ast/math_expr.rs   compile_depth            (cexpr)
     compiler/src/ast/callable.rs    Callable::compile        (ECall / ESelf cases)
     compiler/src/ast/{if_statement,while_loop,number_loop,loop_control_flow,return,assignment,
                       print_statement,assertion,declaration,function,function_parameters}.rs (cstmt)
     compiler/src/parser.rs          File::compile            (cprogram)
   Counters of CompilationState are threaded explicitly: temporary registers (#n: the `d`/`c` arguments),
   loop registers (L#n) and function ids (__fnN) with the function buffer. *)
From MS Require Export Lang.Syntax Codec.Model Gen.OpcodeTable Vm.Model.
Open Scope nat_scope.

Inductive citem := CI (i : instr) | CBrk (n : nat) | CCont (n : nat).

Record cst := { fid : nat; lreg : nat; fbuf : list (str * list instr) }.

Definition sN (n : nat) : str := show_Z (Z.of_nat n).
Definition sZ (z : Z) : str := show_Z z.
Definition reg (n : nat) : str := 35%N :: sN n.                       (* #n *)
Definition lregn (n : nat) : str := [76; 35]%N ++ sN n.               (* L#n *)
Definition I (o : N) (a : list str) : citem := CI {| op := o; args := a |}.

Definition binop_sym (o : binop) : str :=
  match o with
  | BAdd => [43] | BSub => [45] | BMul => [42] | BDiv => [47] | BMod => [37]
  | BLt => [60] | BLe => [60; 61] | BGt => [62] | BGe => [62; 61] | BEq => [61; 61] | BNeq => [33; 61]
  end%N.

Definition s_zero : str := [48]%N.
Definition s_one : str := [49]%N.
Definition s_fn_prefix : str := [35; 95; 95; 102; 110]%N.              (* #__fn *)

(* ---- free variables (the capture list of make_function): names used minus names bound inside *)
Fixpoint remove_str (x : str) (l : list str) : list str :=
  match l with [] => [] | y :: l => if str_eqb x y then remove_str x l else y :: remove_str x l end.
Fixpoint mem_str (x : str) (l : list str) : bool :=
  match l with [] => false | y :: l => str_eqb x y || mem_str x l end.
Fixpoint dedup (l : list str) : list str :=
  match l with [] => [] | x :: l => if mem_str x l then dedup l else x :: dedup l end.
Definition minus (a b : list str) : list str := filter (fun x => negb (mem_str x b)) a.

(* names a statement list binds in the enclosing function: plain assignments and named loop counters *)
Fixpoint assigned (s : stmt) : list str :=
  let fix go (l : list stmt) : list str := match l with [] => [] | s :: l => assigned s ++ go l end in
  match s with
  | SAssign x _ => [x]
  | SIf _ b => go b
  | SIfElse _ b e => go b ++ go e
  | SIfElif _ b n => go b ++ assigned n
  | SWhile _ b => go b
  | SFrom _ _ _ _ (Some x) _ b => x :: go b
  | SFrom _ _ _ _ None _ b => go b
  | _ => []
  end.

Fixpoint used_e (e : expr) : list str :=
  let fix go (l : list expr) : list str := match l with [] => [] | a :: l => used_e a ++ go l end in
  match e with
  | EVar x => [x]
  | EBin _ a b | EAnd a b | EOr a b | ENilOr a b => used_e a ++ used_e b
  | ENot a | ENeg a | EGet a _ => used_e a
  | ECall f a => used_e f ++ go a
  | ESelf a => go a
  | EFn ps body =>
    let fix gs (l : list stmt) : list str := match l with [] => [] | s :: l => used_s s ++ gs l end in
    let fix as_ (l : list stmt) : list str := match l with [] => [] | s :: l => assigned s ++ as_ l end in
    minus (gs body) (ps ++ as_ body)
  | _ => []
  end
with used_s (s : stmt) : list str :=
  let fix gs (l : list stmt) : list str := match l with [] => [] | s :: l => used_s s ++ gs l end in
  match s with
  | SAssign _ e | SPrint e | SAssert e _ | SExpr e => used_e e
  | SModify x e | SOpAssign x _ e => x :: used_e e
  | SIf c b => used_e c ++ gs b
  | SIfElse c b e => used_e c ++ gs b ++ gs e
  | SIfElif c b n => used_e c ++ gs b ++ used_s n
  | SWhile c b => used_e c ++ gs b
  | SFrom a b _ st _ _ body => used_e a ++ used_e b ++ (match st with Some e => used_e e | None => [] end) ++ gs body
  | SReturn (Some e) => used_e e
  | _ => []
  end.

(* order-sensitive free-variable analysis: `bound` = names of the current function known to be local at this
   point (parameters, names assigned EARLIER in an enclosing-or-same block, loop counters inside their loop).
   A use of a name that is not bound yet refers to the enclosing scope and is a capture, even if the function
   assigns a local of the same name later. *)
Fixpoint fv_e (bound : list str) (e : expr) : list str :=
  let fix go (l : list expr) : list str := match l with [] => [] | a :: l => fv_e bound a ++ go l end in
  match e with
  | EVar x => if mem_str x bound then [] else [x]
  | EBin _ a b | EAnd a b | EOr a b | ENilOr a b => fv_e bound a ++ fv_e bound b
  | ENot a | ENeg a | EGet a _ => fv_e bound a
  | ECall f a => fv_e bound f ++ go a
  | ESelf a => go a
  | EFn ps body =>
    let fix gs (bd : list str) (l : list stmt) : list str :=
      match l with [] => [] | s :: l => let '(u, bd') := fv_s bd s in u ++ gs bd' l end in
    minus (gs ps body) bound
  | _ => []
  end
with fv_s (bound : list str) (s : stmt) : list str * list str :=
  let fix gs (bd : list str) (l : list stmt) : list str :=
    match l with [] => [] | s :: l => let '(u, bd') := fv_s bd s in u ++ gs bd' l end in
  let use x := if mem_str x bound then [] else [x] in
  match s with
  | SAssign x e => (fv_e bound e, x :: bound)
  | SPrint e | SAssert e _ | SExpr e => (fv_e bound e, bound)
  | SModify x e | SOpAssign x _ e => (use x ++ fv_e bound e, bound)
  | SIf c b => (fv_e bound c ++ gs bound b, bound)
  | SIfElse c b e => (fv_e bound c ++ gs bound b ++ gs bound e, bound)
  | SIfElif c b n => (fv_e bound c ++ gs bound b ++ fst (fv_s bound n), bound)
  | SWhile c b => (fv_e bound c ++ gs bound b, bound)
  | SFrom a b _ st name collide body =>
    let inner := match name with Some x => x :: bound | None => bound end in
    (fv_e bound a ++ fv_e bound b ++ (match name, collide with Some x, true => use x | _, _ => [] end)
       ++ gs inner body ++ (match st with Some e => fv_e inner e | None => [] end), bound)
  | SReturn (Some e) => (fv_e bound e, bound)
  | _ => ([], bound)
  end.

Definition free_vars (ps : list str) (body : list stmt) : list str :=
  dedup (fv_e [] (EFn ps body)).

(* ---- loops: resolve the Break/Continue placeholders of a finished body (while_loop.rs, number_loop.rs) *)
Fixpoint resolve (final_len step_len idx : nat) (l : list citem) : list citem :=
  match l with
  | [] => []
  | CCont n :: l => I OP_JMP_POP [sN (final_len - step_len - idx - 1); sN (n - 1)] :: resolve final_len step_len (S idx) l
  | CBrk n :: l => I OP_JMP_POP [sN (final_len - idx); sN n] :: resolve final_len step_len (S idx) l
  | x :: l => x :: resolve final_len step_len (S idx) l
  end.

Definition neg_off (n : nat) : str := 45%N :: sN n.

Definition ends_in_ret (l : list citem) : bool :=
  match rev l with CI i :: _ => (op i =? OP_RET)%N | _ => false end.

Fixpoint strip (l : list citem) : list instr :=
  match l with [] => [] | CI i :: l => i :: strip l | _ :: l => strip l end.

Section WithPath.
Variable path : str.                                     (* e.g. "main.mmm" *)

Definition fn_name (k : nat) : str := path ++ s_fn_prefix ++ sN k.

(* d = the temporary register this expression may use (`depth`); registers >= d+1 are free for children.
   sl = scopes since the innermost loop (None outside a loop) for break/continue inside function literals: reset. *)
Fixpoint cexpr (d : nat) (e : expr) (st : cst) {struct e} : list citem * cst :=
  let fix cargs (k : nat) (l : list expr) (st : cst) {struct l} : list citem * list citem * cst :=
    match l with
    | [] => ([], [], st)
    | a :: l => let '(ca, st) := cexpr k a st in
                let '(ci, cl, st) := cargs (S k) l st in
                (ca ++ [I OP_STORE_FAST [reg k]] ++ ci, I OP_LOAD_FAST [reg k] :: cl, st)
    end in
  match e with
  | EInt z => ([I OP_MAKE_INT [sZ z]], st)
  | EBool b => ([I OP_MAKE_BOOL [if b then s_true else s_false]], st)
  | EStr s => ([I OP_MAKE_STR [s]], st)
  | ENil => ([I OP_RESERVE_PRIMITIVE []], st)
  | EVar x => ([I OP_LOAD [x]], st)
  | EBin o a b =>
    let '(ca, st) := cexpr (S d) a st in
    let '(cb, st) := cexpr (S d) b st in
    (ca ++ [I OP_STORE_FAST [reg d]] ++ cb ++ [I OP_LOAD_FAST [reg d]; I OP_FAST_REV2 []]
        ++ [match o with BEq => I OP_EQU [] | BNeq => I OP_NEQ [] | _ => I OP_BIN_OP [binop_sym o] end], st)
  | EAnd a b =>
    let '(ca, st) := cexpr (S d) a st in
    let '(cb, st) := cexpr (S d) b st in
    (ca ++ [I OP_STORE_SKIP [reg d; s_zero; sN (length cb + 3)]] ++ cb
        ++ [I OP_LOAD_FAST [reg d]; I OP_BIN_OP [op_and]], st)
  | EOr a b =>
    let '(ca, st) := cexpr (S d) a st in
    let '(cb, st) := cexpr (S d) b st in
    (ca ++ [I OP_STORE_SKIP [reg d; s_one; sN (length cb + 3)]] ++ cb
        ++ [I OP_LOAD_FAST [reg d]; I OP_BIN_OP [op_or]], st)
  | ENot a => let '(ca, st) := cexpr (S d) a st in (ca ++ [I OP_NOT []], st)
  | ENeg a => let '(ca, st) := cexpr (S d) a st in (ca ++ [I OP_NEG []], st)
  | ECall f l =>
    let '(cf, st) := cexpr (S d) f st in
    let '(ci, cl, st) := cargs (S (S d)) l st in
    (cf ++ [I OP_STORE_FAST [reg (S d)]] ++ ci ++ cl ++ [I OP_LOAD_FAST [reg (S d)]; I OP_CALL []], st)
  | ESelf l =>
    let '(ci, cl, st) := cargs (S d) l st in
    (ci ++ cl ++ [I OP_CALL_SELF []], st)
  | EFn ps body =>
    let fix cparams (k : nat) (l : list str) : list citem :=
      match l with [] => [] | x :: l => I OP_ARG [sN k] :: I OP_STORE [x] :: cparams (S k) l end in
    let fix cbody (l : list stmt) (st : cst) {struct l} : list citem * cst :=
      match l with
      | [] => ([], st)
      | s :: l => let '(cs, st) := cstmt (S d) None s st in
                  let '(cl, st) := cbody l st in (cs ++ cl, st)
      end in
    let '(cb, st) := cbody body st in
    let cb := if ends_in_ret cb then cb else cb ++ [I OP_VOID []; I OP_RET []] in
    let name := fn_name (fid st) in
    ([I OP_MAKE_FUNCTION (name :: free_vars ps body)],
     {| fid := S (fid st); lreg := lreg st; fbuf := fbuf st ++ [(name, strip (cparams 0 ps ++ cb))] |})
  | ENilOr a b =>
    let '(ca, st) := cexpr (S d) a st in
    let '(cb, st) := cexpr (S d) b st in
    (ca ++ [I OP_JMP_NOT_NIL [sN (length cb + 1)]] ++ cb, st)
  | EGet a span => let '(ca, st) := cexpr (S d) a st in (ca ++ [I OP_UNWRAP [span]], st)
  end
(* c = first free temporary register at statement level; sl = scopes since the innermost loop *)
with cstmt (c : nat) (sl : option nat) (s : stmt) (st : cst) {struct s} : list citem * cst :=
  let fix cblock (sl : option nat) (l : list stmt) (st : cst) {struct l} : list citem * cst :=
    match l with
    | [] => ([], st)
    | s :: l => let '(cs, st) := cstmt c sl s st in
                let '(cl, st) := cblock sl l st in (cs ++ cl, st)
    end in
  let inner := option_map S sl in
  match s with
  | SAssign x e => let '(ce, st) := cexpr c e st in (ce ++ [I OP_STORE [x]], st)
  | SModify x e => let '(ce, st) := cexpr c e st in (ce ++ [I OP_STORE_OBJECT [x]], st)
  | SOpAssign x o e =>
    let '(ce, st) := cexpr (S c) e st in
    (ce ++ [I OP_BIN_OP_ASSIGN [binop_sym o ++ [61%N]; x]; I OP_VOID []], st)
  | SPrint e => let '(ce, st) := cexpr c e st in (ce ++ [I OP_PRINTN [s_star]; I OP_VOID []], st)
  | SAssert e span => let '(ce, st) := cexpr c e st in (ce ++ [I OP_ASSERT [span]], st)
  | SExpr e => let '(ce, st) := cexpr c e st in (ce ++ [I OP_VOID []], st)
  | SIf cnd body =>
    let '(cc, st) := cexpr c cnd st in
    let '(cb, st) := cblock inner body st in
    let cb := cb ++ [I OP_DONE []] in
    (cc ++ [I OP_IF_STMT [sN (length cb + 1)]] ++ cb, st)
  | SIfElse cnd body els =>
    let '(cc, st) := cexpr c cnd st in
    let '(cb, st) := cblock inner body st in
    let cb := cb ++ [I OP_DONE []] in
    let '(ce, st) := cblock inner els st in
    let ce := I OP_ELSE_STMT [] :: ce ++ [I OP_DONE []] in
    (cc ++ [I OP_IF_STMT [sN (length cb + 2)]] ++ cb ++ [I OP_JMP [sN (length ce + 1)]] ++ ce, st)
  | SIfElif cnd body nxt =>
    let '(cc, st) := cexpr c cnd st in
    let '(cb, st) := cblock inner body st in
    let cb := cb ++ [I OP_DONE []] in
    let '(ce, st) := cstmt c inner nxt st in
    let ce := I OP_ELSE_STMT [] :: ce ++ [I OP_DONE []] in
    (cc ++ [I OP_IF_STMT [sN (length cb + 2)]] ++ cb ++ [I OP_JMP [sN (length ce + 1)]] ++ ce, st)
  | SWhile cnd body =>
    let '(cc, st) := cexpr c cnd st in
    let '(cb, st) := cblock (Some 1) body st in
    let cb := cb ++ [I OP_JMP_POP [neg_off (1 + length cb + length cc)]] in
    (cc ++ [I OP_WHILE_LOOP [sN (length cb + 1)]] ++ resolve (length cb) 0 0 cb, st)
  | SFrom a b incl step name collide body =>
    let '(idn, st) := match name with
                      | Some x => (x, st)
                      | None => (lregn (S (lreg st)), {| fid := fid st; lreg := S (lreg st); fbuf := fbuf st |})
                      end in
    let '(ca, st) := cexpr c a st in
    let '(cb_, st) := cexpr c b st in
    (* both bounds are evaluated before the counter receives its first value: L#start holds the lower bound meanwhile *)
    let startr := lregn (S (lreg st)) in
    let endr := lregn (S (S (lreg st))) in
    let st := {| fid := fid st; lreg := S (S (lreg st)); fbuf := fbuf st |} in
    let cond := [I OP_LOAD_FAST [idn]; I OP_LOAD_FAST [endr]; I OP_BIN_OP [if incl then op_le else op_lt]] in
    let '(cbody, st) := cblock (Some 1) body st in
    let '(cstep, st) := match step with
                        | Some e => cexpr c e st
                        | None => ([I OP_MAKE_INT [s_one]], st) end in
    let cstep := cstep ++ [I OP_BIN_OP_ASSIGN [[43; 61]%N; idn]] in
    let full := cbody ++ cstep in
    let full := full ++ [I OP_JMP_POP [neg_off (1 + length cond + length full)]] in
    let st := {| fid := fid st; lreg := lreg st - (match name with Some _ => 2 | None => 3 end); fbuf := fbuf st |} in
    (ca ++ [I OP_STORE_FAST [startr]] ++ cb_ ++ [I OP_STORE_FAST [endr]; I OP_LOAD_FAST [startr];
                                                  I (if collide then OP_STORE else OP_STORE_FAST) [idn]] ++ cond
        ++ [I OP_WHILE_LOOP [sN (length full + 1)]] ++ resolve (length full) (length cstep) 0 full
        ++ (if collide then [] else [I OP_DELETE_NAME_SCOPED [idn; startr; endr]]), st)
  | SBreak => ([CBrk (match sl with Some n => n | None => 0 end)], st)
  | SContinue => ([CCont (match sl with Some n => n | None => 0 end)], st)
  | SReturn None => ([I OP_RET []], st)
  | SReturn (Some e) => let '(ce, st) := cexpr c e st in (ce ++ [I OP_RET []], st)
  end.

Fixpoint cblock0 (l : list stmt) (st : cst) : list citem * cst :=
  match l with
  | [] => ([], st)
  | s :: l => let '(cs, st) := cstmt 0 None s st in
              let '(cl, st) := cblock0 l st in (cs ++ cl, st)
  end.

Definition s_module_fn : str := path ++ [35%N] ++ s_module.

(* File::compile: the functions in completion order, then __module__ ending in ret_mod *)
Definition cprogram (p : source) : list (str * list instr) :=
  let '(c, st) := cblock0 p {| fid := 0; lreg := 0; fbuf := [] |} in
  fbuf st ++ [(s_module_fn, strip c ++ [{| op := OP_RET_MOD; args := [] |}])].
End WithPath.
