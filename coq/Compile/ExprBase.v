(* Helpers for the expression-simulation proof (C15 / C01):
     - show_Z / parse_Z round trip (the textual arguments of make_int, store_skip, jmp_not_nil), register names
     - decoding of the instructions the expression compiler emits
     - a nested induction principle for expr / stmt
     - the call-free fragment `pure`, its direct code generator `pcode` and `cexpr = pcode` on it
     - structural facts for ALL expressions: cexpr emits only instructions; registers written are >= d. *)
From MS Require Import Vm.Model Lang.Syntax Compile.Compile.
From Coq Require Import Lia.
Open Scope nat_scope.

(* ================================================================ strings *)
Lemma str_eqb_iff : forall a b : str, str_eqb a b = true <-> a = b.
Proof.
  induction a as [|x a IH]; intros [|y b]; cbn; split; intros H; try discriminate; auto.
  - apply Bool.andb_true_iff in H as [H1 H2]. apply N.eqb_eq in H1. apply IH in H2. congruence.
  - inversion H; subst. rewrite N.eqb_refl. cbn. now apply IH.
Qed.
Lemma str_eqb_refl : forall a : str, str_eqb a a = true.
Proof. intros a. now apply str_eqb_iff. Qed.
Lemma str_eqb_neq : forall a b : str, a <> b -> str_eqb a b = false.
Proof. intros a b H. destruct (str_eqb a b) eqn:E; [|reflexivity]. apply str_eqb_iff in E. contradiction. Qed.
Lemma str_eqb_sym : forall a b : str, str_eqb a b = str_eqb b a.
Proof.
  intros a b. destruct (str_eqb a b) eqn:E.
  - apply str_eqb_iff in E. subst. symmetry. apply str_eqb_refl.
  - symmetry. apply str_eqb_neq. intros ->. rewrite str_eqb_refl in E. discriminate.
Qed.

(* ================================================================ show_Z / parse_Z *)
Definition small (n : nat) : Prop := (Z.of_nat n < 10 ^ 50)%Z.

Lemma digit_cases : forall d, (0 <= d < 10)%Z ->
  d = 0%Z \/ d = 1%Z \/ d = 2%Z \/ d = 3%Z \/ d = 4%Z \/ d = 5%Z \/ d = 6%Z \/ d = 7%Z \/ d = 8%Z \/ d = 9%Z.
Proof. intros d H. lia. Qed.

Lemma digit_of_char : forall d, (0 <= d < 10)%Z -> digit_of (Z.to_N (48 + d)) = Some d.
Proof.
  intros d H. destruct (digit_cases d H) as [E|[E|[E|[E|[E|[E|[E|[E|[E|E]]]]]]]]]; subst d; reflexivity.
Qed.

Lemma digit_char_range : forall d, (0 <= d < 10)%Z -> (48 <= Z.to_N (48 + d) <= 57)%N.
Proof.
  intros d H. destruct (digit_cases d H) as [E|[E|[E|[E|[E|[E|[E|[E|[E|E]]]]]]]]]; subst d; cbn; lia.
Qed.

Lemma show_pos_spec : forall fuel z acc, (0 <= z < 10 ^ Z.of_nat fuel)%Z -> fuel <> 0 ->
  exists ds, show_pos_fuel fuel z acc = ds ++ acc /\ ds <> [] /\
             (forall c, In c ds -> (48 <= c <= 57)%N) /\
             (forall a rest, parse_digits a (ds ++ rest) = parse_digits (a * 10 ^ Z.of_nat (length ds) + z) rest).
Proof.
  induction fuel as [|f IH]; intros z acc Hz Hf.
  - congruence.
  - cbn [show_pos_fuel].
    assert (Hm : (0 <= z mod 10 < 10)%Z) by (apply Z.mod_pos_bound; lia).
    destruct (z <? 10)%Z eqn:E.
    + apply Z.ltb_lt in E.
      exists [Z.to_N (48 + z mod 10)]. split; [reflexivity|]. split; [discriminate|]. split.
      * intros c [<-|[]]. now apply digit_char_range.
      * intros a rest. cbn [app parse_digits length]. rewrite digit_of_char by exact Hm.
        rewrite Z.mod_small by lia. f_equal; change (Z.of_nat 1) with 1%Z; lia.
    + apply Z.ltb_ge in E.
      assert (Hq : (0 <= z / 10 < 10 ^ Z.of_nat f)%Z).
      { split; [apply Z.div_pos; lia|]. apply Z.div_lt_upper_bound; [lia|].
        rewrite Nat2Z.inj_succ, Z.pow_succ_r in Hz by lia. lia. }
      assert (Hf' : f <> 0).
      { intros ->. change (10 ^ Z.of_nat 1)%Z with 10%Z in Hz. lia. }
      destruct (IH (z / 10)%Z (Z.to_N (48 + z mod 10) :: acc) Hq Hf') as (ds & E1 & Hne & Hr & Hp).
      exists (ds ++ [Z.to_N (48 + z mod 10)]). split; [rewrite E1, <- app_assoc; reflexivity|].
      split; [destruct ds; discriminate|]. split.
      * intros c Hc. apply in_app_or in Hc as [Hc|[<-|[]]]; [now apply Hr|now apply digit_char_range].
      * intros a rest. rewrite <- app_assoc. cbn [app]. rewrite Hp. cbn [parse_digits].
        rewrite digit_of_char by exact Hm. f_equal.
        rewrite app_length. cbn [length]. rewrite Nat2Z.inj_add. change (Z.of_nat 1) with 1%Z.
        rewrite Z.pow_add_r by lia. change (10 ^ 1)%Z with 10%Z.
        pose proof (Z.div_mod z 10 ltac:(lia)) as D. lia.
Qed.

Lemma parse_Z_plain : forall c r, c <> 45%N -> c <> 43%N -> parse_Z (c :: r) = parse_digits 0 (c :: r).
Proof.
  intros c r H1 H2. unfold parse_Z.
  destruct c as [|p]; [reflexivity|].
  do 6 (destruct p as [p|p|]; try reflexivity); try congruence; destruct r; reflexivity.
Qed.

Lemma parse_show_nonneg : forall z, (0 <= z < 10 ^ 50)%Z -> parse_Z (show_Z z) = Some z.
Proof.
  intros z Hz. unfold show_Z. destruct (z <? 0)%Z eqn:E; [apply Z.ltb_lt in E; lia|].
  destruct (show_pos_spec 50 z [] Hz ltac:(discriminate)) as (ds & E1 & Hne & Hr & Hp).
  rewrite E1, app_nil_r. destruct ds as [|c r]; [congruence|].
  assert (Hc : (48 <= c <= 57)%N) by (apply Hr; now left).
  rewrite parse_Z_plain by lia.
  specialize (Hp 0%Z []). rewrite app_nil_r in Hp. rewrite Hp. cbn [parse_digits]. f_equal; lia.
Qed.

Lemma parse_show_neg : forall z, (- 10 ^ 50 < z < 0)%Z -> parse_Z (show_Z z) = Some z.
Proof.
  intros z Hz. unfold show_Z. destruct (z <? 0)%Z eqn:E; [|apply Z.ltb_ge in E; lia].
  assert (Hz' : (0 <= - z < 10 ^ Z.of_nat 50)%Z) by (change (Z.of_nat 50) with 50%Z; lia).
  destruct (show_pos_spec 50 (- z) [] Hz' ltac:(discriminate)) as (ds & E1 & Hne & Hr & Hp).
  rewrite E1, app_nil_r. destruct ds as [|c r]; [congruence|].
  change (parse_Z (45%N :: c :: r)) with (option_map Z.opp (parse_digits 0 (c :: r))).
  specialize (Hp 0%Z []). rewrite app_nil_r in Hp. rewrite Hp. cbn [parse_digits option_map]. f_equal; lia.
Qed.

Lemma parse_show_Z : forall z, (- 10 ^ 50 < z < 10 ^ 50)%Z -> parse_Z (show_Z z) = Some z.
Proof.
  intros z Hz. destruct (Z_lt_le_dec z 0); [apply parse_show_neg|apply parse_show_nonneg]; lia.
Qed.

Lemma i32_ok_range : forall z, i32_ok z = true -> (-2147483648 <= z <= 2147483647)%Z.
Proof. intros z H. unfold i32_ok in H. apply Bool.andb_true_iff in H as [A B]. apply Z.leb_le in A, B. lia. Qed.

Lemma parse_sZ : forall z, i32_ok z = true -> parse_Z (sZ z) = Some z.
Proof.
  intros z H. apply i32_ok_range in H. apply parse_show_Z.
  assert (2147483647 < 10 ^ 50)%Z by reflexivity. lia.
Qed.

Lemma parse_sN : forall n, small n -> parse_Z (sN n) = Some (Z.of_nat n).
Proof. intros n H. apply parse_show_nonneg. unfold small in H. lia. Qed.

Lemma sN_inj : forall a b, small a -> small b -> sN a = sN b -> a = b.
Proof.
  intros a b Ha Hb E. apply parse_sN in Ha, Hb. rewrite E in Ha. rewrite Ha in Hb.
  inversion Hb. lia.
Qed.

Lemma reg_inj : forall a b, small a -> small b -> reg a = reg b -> a = b.
Proof. intros a b Ha Hb E. unfold reg in E. inversion E. now apply sN_inj. Qed.

Lemma small_le : forall a b, a <= b -> small b -> small a.
Proof. unfold small. intros. lia. Qed.

(* source names never start with '#' (registers are "#n") *)
Definition src_name (x : str) : Prop := match x with 35%N :: _ => False | _ => True end.
Lemma src_name_not_reg : forall x k, src_name x -> x <> reg k.
Proof. intros x k H E. subst x. exact H. Qed.

(* ================================================================ decoding the emitted instructions *)
Definition mkI (o : N) (a : list str) : instr := {| op := o; args := a |}.
Lemma I_mkI : forall o a, I o a = CI (mkI o a).
Proof. reflexivity. Qed.

Lemma dec_make_int : forall z, i32_ok z = true -> decode (mkI OP_MAKE_INT [sZ z]) = DOk (DMakeInt z).
Proof.
  intros z H.
  change (decode (mkI OP_MAKE_INT [sZ z])) with
    (match parse_Z (sZ z) with
     | Some z => if i32_ok z then DOk (DMakeInt z) else DErr (E_bad_arg OP_MAKE_INT)
     | None => DErr (E_bad_arg OP_MAKE_INT) end).
  rewrite parse_sZ by exact H. rewrite H. reflexivity.
Qed.
Lemma dec_make_bool : forall b : bool, decode (mkI OP_MAKE_BOOL [if b then s_true else s_false]) = DOk (DMakeBool b).
Proof. intros [|]; reflexivity. Qed.
Lemma dec_make_str : forall s, decode (mkI OP_MAKE_STR [s]) = DOk (DMakeStr s).
Proof. reflexivity. Qed.
Lemma dec_reserve : decode (mkI OP_RESERVE_PRIMITIVE []) = DOk DReserve.
Proof. reflexivity. Qed.
Lemma dec_load : forall x, decode (mkI OP_LOAD [x]) = DOk (DLoad x).
Proof. reflexivity. Qed.
Lemma dec_load_fast : forall x, decode (mkI OP_LOAD_FAST [x]) = DOk (DLoadFast x).
Proof. reflexivity. Qed.
Lemma dec_store_fast : forall x, decode (mkI OP_STORE_FAST [x]) = DOk (DStoreFast x).
Proof. reflexivity. Qed.
Lemma dec_rev2 : decode (mkI OP_FAST_REV2 []) = DOk DRev2.
Proof. reflexivity. Qed.
Lemma dec_equ : decode (mkI OP_EQU []) = DOk DEqu.
Proof. reflexivity. Qed.
Lemma dec_neq : decode (mkI OP_NEQ []) = DOk DNeq.
Proof. reflexivity. Qed.
Lemma dec_bin_op : forall sym, decode (mkI OP_BIN_OP [sym]) = DOk (DBinOp sym).
Proof. reflexivity. Qed.
Lemma dec_not : decode (mkI OP_NOT []) = DOk DNot.
Proof. reflexivity. Qed.
Lemma dec_neg : decode (mkI OP_NEG []) = DOk DNeg.
Proof. reflexivity. Qed.
Lemma dec_unwrap : forall sp, decode (mkI OP_UNWRAP [sp]) = DOk (DUnwrap sp).
Proof. reflexivity. Qed.
Lemma dec_jmp_not_nil : forall n, small n -> decode (mkI OP_JMP_NOT_NIL [sN n]) = DOk (DJmpNotNil (Z.of_nat n)).
Proof.
  intros n H.
  change (decode (mkI OP_JMP_NOT_NIL [sN n])) with
    (match parse_Z (sN n) with Some z => DOk (DJmpNotNil z) | None => DErr (E_bad_arg OP_JMP_NOT_NIL) end).
  rewrite parse_sN by exact H. reflexivity.
Qed.
Lemma dec_store_skip : forall x (p : bool) n, small n ->
  decode (mkI OP_STORE_SKIP [x; if p then s_one else s_zero; sN n]) = DOk (DStoreSkip x p (Z.of_nat n)).
Proof.
  intros x p n H.
  assert (E : decode (mkI OP_STORE_SKIP [x; if p then s_one else s_zero; sN n]) =
              match parse_nat (if p then s_one else s_zero), parse_Z (sN n) with
              | Some pred, Some off => if (off <? 0)%Z then DErr (E_bad_arg OP_STORE_SKIP)
                                       else DOk (DStoreSkip x (Nat.eqb pred 1) off)
              | _, _ => DErr (E_bad_arg OP_STORE_SKIP) end) by reflexivity.
  rewrite E, parse_sN by exact H.
  destruct (Z.of_nat n <? 0)%Z eqn:L; [apply Z.ltb_lt in L; lia|].
  destruct p; reflexivity.
Qed.

(* ================================================================ nested induction principle *)
Section ExprInd.
  Variable P : expr -> Prop.
  Variable Q : stmt -> Prop.
  Hypothesis HInt : forall z, P (EInt z).
  Hypothesis HBool : forall b, P (EBool b).
  Hypothesis HStr : forall s, P (EStr s).
  Hypothesis HNil : P ENil.
  Hypothesis HVar : forall x, P (EVar x).
  Hypothesis HBin : forall o a b, P a -> P b -> P (EBin o a b).
  Hypothesis HAnd : forall a b, P a -> P b -> P (EAnd a b).
  Hypothesis HOr : forall a b, P a -> P b -> P (EOr a b).
  Hypothesis HNot : forall a, P a -> P (ENot a).
  Hypothesis HNeg : forall a, P a -> P (ENeg a).
  Hypothesis HCall : forall f l, P f -> Forall P l -> P (ECall f l).
  Hypothesis HSelf : forall l, Forall P l -> P (ESelf l).
  Hypothesis HFn : forall ps body, Forall Q body -> P (EFn ps body).
  Hypothesis HNilOr : forall a b, P a -> P b -> P (ENilOr a b).
  Hypothesis HGet : forall a sp, P a -> P (EGet a sp).
  Hypothesis HAssign : forall x e, P e -> Q (SAssign x e).
  Hypothesis HModify : forall x e, P e -> Q (SModify x e).
  Hypothesis HOpAssign : forall x o e, P e -> Q (SOpAssign x o e).
  Hypothesis HPrint : forall e, P e -> Q (SPrint e).
  Hypothesis HAssert : forall e sp, P e -> Q (SAssert e sp).
  Hypothesis HExpr : forall e, P e -> Q (SExpr e).
  Hypothesis HIf : forall c b, P c -> Forall Q b -> Q (SIf c b).
  Hypothesis HIfElse : forall c b e, P c -> Forall Q b -> Forall Q e -> Q (SIfElse c b e).
  Hypothesis HIfElif : forall c b n, P c -> Forall Q b -> Q n -> Q (SIfElif c b n).
  Hypothesis HWhile : forall c b, P c -> Forall Q b -> Q (SWhile c b).
  Hypothesis HFrom : forall a b incl step name collide body,
    P a -> P b -> (forall e, step = Some e -> P e) -> Forall Q body -> Q (SFrom a b incl step name collide body).
  Hypothesis HBreak : Q SBreak.
  Hypothesis HContinue : Q SContinue.
  Hypothesis HReturn : forall e, (forall x, e = Some x -> P x) -> Q (SReturn e).

  Fixpoint expr_ind' (e : expr) : P e :=
    let fix goe (l : list expr) : Forall P l :=
      match l with [] => Forall_nil P | x :: l => Forall_cons x (expr_ind' x) (goe l) end in
    let fix gos (l : list stmt) : Forall Q l :=
      match l with [] => Forall_nil Q | x :: l => Forall_cons x (stmt_ind' x) (gos l) end in
    match e with
    | EInt z => HInt z | EBool b => HBool b | EStr s => HStr s | ENil => HNil | EVar x => HVar x
    | EBin o a b => HBin o a b (expr_ind' a) (expr_ind' b)
    | EAnd a b => HAnd a b (expr_ind' a) (expr_ind' b)
    | EOr a b => HOr a b (expr_ind' a) (expr_ind' b)
    | ENot a => HNot a (expr_ind' a)
    | ENeg a => HNeg a (expr_ind' a)
    | ECall f l => HCall f l (expr_ind' f) (goe l)
    | ESelf l => HSelf l (goe l)
    | EFn ps body => HFn ps body (gos body)
    | ENilOr a b => HNilOr a b (expr_ind' a) (expr_ind' b)
    | EGet a sp => HGet a sp (expr_ind' a)
    end
  with stmt_ind' (s : stmt) : Q s :=
    let fix gos (l : list stmt) : Forall Q l :=
      match l with [] => Forall_nil Q | x :: l => Forall_cons x (stmt_ind' x) (gos l) end in
    match s with
    | SAssign x e => HAssign x e (expr_ind' e)
    | SModify x e => HModify x e (expr_ind' e)
    | SOpAssign x o e => HOpAssign x o e (expr_ind' e)
    | SPrint e => HPrint e (expr_ind' e)
    | SAssert e sp => HAssert e sp (expr_ind' e)
    | SExpr e => HExpr e (expr_ind' e)
    | SIf c b => HIf c b (expr_ind' c) (gos b)
    | SIfElse c b e => HIfElse c b e (expr_ind' c) (gos b) (gos e)
    | SIfElif c b n => HIfElif c b n (expr_ind' c) (gos b) (stmt_ind' n)
    | SWhile c b => HWhile c b (expr_ind' c) (gos b)
    | SFrom a b incl step name collide body =>
      HFrom a b incl step name collide body (expr_ind' a) (expr_ind' b)
            (match step as o return forall e, o = Some e -> P e with
             | Some e0 => fun e (E : Some e0 = Some e) =>
                            match E in _ = y return match y with Some e' => P e' | None => True end with
                            | eq_refl => expr_ind' e0 end
             | None => fun e (E : None = Some e) =>
                         match E in _ = y return match y with Some e' => P e' | None => True end with
                         | eq_refl => Logic.I end
             end)
            (gos body)
    | SBreak => HBreak
    | SContinue => HContinue
    | SReturn e =>
      HReturn e
        (match e as o return forall x, o = Some x -> P x with
         | Some e0 => fun x (E : Some e0 = Some x) =>
                        match E in _ = y return match y with Some e' => P e' | None => True end with
                        | eq_refl => expr_ind' e0 end
         | None => fun x (E : None = Some x) =>
                     match E in _ = y return match y with Some e' => P e' | None => True end with
                     | eq_refl => Logic.I end
         end)
    end.

  Lemma expr_stmt_ind' : (forall e, P e) /\ (forall s, Q s).
  Proof. split; [exact expr_ind'|exact stmt_ind']. Qed.
End ExprInd.

(* ================================================================ the call-free fragment *)
Fixpoint pure (e : expr) : bool :=
  match e with
  | EInt _ | EBool _ | EStr _ | ENil | EVar _ => true
  | EBin _ a b | EAnd a b | EOr a b | ENilOr a b => pure a && pure b
  | ENot a | ENeg a | EGet a _ => pure a
  | ECall _ _ | ESelf _ | EFn _ _ => false
  end.

(* integer literals are i32 (anything else is not a `make_int`) *)
Fixpoint lits_ok (e : expr) : bool :=
  match e with
  | EInt z => i32_ok z
  | EBin _ a b | EAnd a b | EOr a b | ENilOr a b => lits_ok a && lits_ok b
  | ENot a | ENeg a | EGet a _ => lits_ok a
  | _ => true
  end.

Definition op_instr (o : binop) : instr :=
  match o with BEq => mkI OP_EQU [] | BNeq => mkI OP_NEQ [] | _ => mkI OP_BIN_OP [binop_sym o] end.

(* the code of a pure expression, as a plain instruction list *)
Fixpoint pcode (d : nat) (e : expr) : list instr :=
  match e with
  | EInt z => [mkI OP_MAKE_INT [sZ z]]
  | EBool b => [mkI OP_MAKE_BOOL [if b then s_true else s_false]]
  | EStr s => [mkI OP_MAKE_STR [s]]
  | ENil => [mkI OP_RESERVE_PRIMITIVE []]
  | EVar x => [mkI OP_LOAD [x]]
  | EBin o a b => pcode (S d) a ++ [mkI OP_STORE_FAST [reg d]] ++ pcode (S d) b
                    ++ [mkI OP_LOAD_FAST [reg d]; mkI OP_FAST_REV2 []] ++ [op_instr o]
  | EAnd a b => pcode (S d) a ++ [mkI OP_STORE_SKIP [reg d; s_zero; sN (length (pcode (S d) b) + 3)]]
                  ++ pcode (S d) b ++ [mkI OP_LOAD_FAST [reg d]; mkI OP_BIN_OP [op_and]]
  | EOr a b => pcode (S d) a ++ [mkI OP_STORE_SKIP [reg d; s_one; sN (length (pcode (S d) b) + 3)]]
                 ++ pcode (S d) b ++ [mkI OP_LOAD_FAST [reg d]; mkI OP_BIN_OP [op_or]]
  | ENot a => pcode (S d) a ++ [mkI OP_NOT []]
  | ENeg a => pcode (S d) a ++ [mkI OP_NEG []]
  | ENilOr a b => pcode (S d) a ++ [mkI OP_JMP_NOT_NIL [sN (length (pcode (S d) b) + 1)]] ++ pcode (S d) b
  | EGet a sp => pcode (S d) a ++ [mkI OP_UNWRAP [sp]]
  | ECall _ _ | ESelf _ | EFn _ _ => []
  end.

Lemma strip_map_CI : forall l, strip (map CI l) = l.
Proof. induction l as [|i l IH]; [reflexivity|]. cbn [map strip]. now rewrite IH. Qed.

Lemma map_CI_app : forall a b, map CI (a ++ b) = map CI a ++ map CI b.
Proof. intros. apply map_app. Qed.

Section WithPath.
Variable path : str.

(* cexpr with its local `cargs` loop as a top-level function *)
Fixpoint cargs (k : nat) (l : list expr) (st : cst) : list citem * list citem * cst :=
  match l with
  | [] => ([], [], st)
  | a :: l => let '(ca, st) := cexpr path k a st in
              let '(ci, cl, st) := cargs (S k) l st in
              (ca ++ [I OP_STORE_FAST [reg k]] ++ ci, I OP_LOAD_FAST [reg k] :: cl, st)
  end.

Lemma cexpr_EBin : forall d o a b st, cexpr path d (EBin o a b) st =
  let '(ca, st) := cexpr path (S d) a st in
  let '(cb, st) := cexpr path (S d) b st in
  (ca ++ [I OP_STORE_FAST [reg d]] ++ cb ++ [I OP_LOAD_FAST [reg d]; I OP_FAST_REV2 []]
      ++ [match o with BEq => I OP_EQU [] | BNeq => I OP_NEQ [] | _ => I OP_BIN_OP [binop_sym o] end], st).
Proof. reflexivity. Qed.
Lemma cexpr_EAnd : forall d a b st, cexpr path d (EAnd a b) st =
  let '(ca, st) := cexpr path (S d) a st in
  let '(cb, st) := cexpr path (S d) b st in
  (ca ++ [I OP_STORE_SKIP [reg d; s_zero; sN (length cb + 3)]] ++ cb
      ++ [I OP_LOAD_FAST [reg d]; I OP_BIN_OP [op_and]], st).
Proof. reflexivity. Qed.
Lemma cexpr_EOr : forall d a b st, cexpr path d (EOr a b) st =
  let '(ca, st) := cexpr path (S d) a st in
  let '(cb, st) := cexpr path (S d) b st in
  (ca ++ [I OP_STORE_SKIP [reg d; s_one; sN (length cb + 3)]] ++ cb
      ++ [I OP_LOAD_FAST [reg d]; I OP_BIN_OP [op_or]], st).
Proof. reflexivity. Qed.
Lemma cexpr_ENot : forall d a st, cexpr path d (ENot a) st =
  let '(ca, st) := cexpr path (S d) a st in (ca ++ [I OP_NOT []], st).
Proof. reflexivity. Qed.
Lemma cexpr_ENeg : forall d a st, cexpr path d (ENeg a) st =
  let '(ca, st) := cexpr path (S d) a st in (ca ++ [I OP_NEG []], st).
Proof. reflexivity. Qed.
Lemma cexpr_ENilOr : forall d a b st, cexpr path d (ENilOr a b) st =
  let '(ca, st) := cexpr path (S d) a st in
  let '(cb, st) := cexpr path (S d) b st in
  (ca ++ [I OP_JMP_NOT_NIL [sN (length cb + 1)]] ++ cb, st).
Proof. reflexivity. Qed.
Lemma cexpr_EGet : forall d a sp st, cexpr path d (EGet a sp) st =
  let '(ca, st) := cexpr path (S d) a st in (ca ++ [I OP_UNWRAP [sp]], st).
Proof. reflexivity. Qed.
Lemma cexpr_ECall : forall d f l st, cexpr path d (ECall f l) st =
  let '(cf, st) := cexpr path (S d) f st in
  let '(ci, cl, st) := cargs (S (S d)) l st in
  (cf ++ [I OP_STORE_FAST [reg (S d)]] ++ ci ++ cl ++ [I OP_LOAD_FAST [reg (S d)]; I OP_CALL []], st).
Proof. reflexivity. Qed.
Lemma cexpr_ESelf : forall d l st, cexpr path d (ESelf l) st =
  let '(ci, cl, st) := cargs (S d) l st in (ci ++ cl ++ [I OP_CALL_SELF []], st).
Proof. reflexivity. Qed.
Lemma cexpr_EFn : forall d ps body st, exists name st', cexpr path d (EFn ps body) st =
  ([I OP_MAKE_FUNCTION (name :: free_vars ps body)], st').
Proof.
  intros d ps body st.
  change (cexpr path d (EFn ps body) st) with
    (let '(cb, st) :=
       (fix cbody (l : list stmt) (st : cst) {struct l} : list citem * cst :=
          match l with
          | [] => ([], st)
          | s :: l => let '(cs, st) := cstmt path (S d) None s st in
                      let '(cl, st) := cbody l st in (cs ++ cl, st)
          end) body st in
     let cb := if ends_in_ret cb then cb else cb ++ [I OP_VOID []; I OP_RET []] in
     let name := fn_name path (fid st) in
     ([I OP_MAKE_FUNCTION (name :: free_vars ps body)],
      {| fid := S (fid st); lreg := lreg st;
         fbuf := fbuf st ++ [(name, strip ((fix cparams (k : nat) (l : list str) : list citem :=
                                              match l with [] => [] | x :: l => I OP_ARG [sN k] :: I OP_STORE [x] :: cparams (S k) l end) 0 ps ++ cb))] |})).
  destruct ((fix cbody (l : list stmt) (st : cst) {struct l} : list citem * cst :=
          match l with
          | [] => ([], st)
          | s :: l => let '(cs, st) := cstmt path (S d) None s st in
                      let '(cl, st) := cbody l st in (cs ++ cl, st)
          end) body st) as [cb st1].
  eexists. eexists. reflexivity.
Qed.

(* on the pure fragment the generator is `pcode`, and the compilation state is not touched *)
Lemma cexpr_pure : forall e, pure e = true -> forall d st, cexpr path d e st = (map CI (pcode d e), st).
Proof.
  induction e; intros Hp d st; cbn [pure] in Hp; try discriminate;
    try (apply Bool.andb_true_iff in Hp as [Hp1 Hp2]); try reflexivity.
  - rewrite cexpr_EBin, IHe1, IHe2 by assumption. cbn [pcode]. rewrite !map_CI_app. cbn [map].
    destruct o; reflexivity.
  - rewrite cexpr_EAnd, IHe1, IHe2 by assumption. cbn [pcode]. rewrite !map_CI_app, map_length. reflexivity.
  - rewrite cexpr_EOr, IHe1, IHe2 by assumption. cbn [pcode]. rewrite !map_CI_app, map_length. reflexivity.
  - rewrite cexpr_ENot, IHe by assumption. cbn [pcode]. rewrite !map_CI_app. reflexivity.
  - rewrite cexpr_ENeg, IHe by assumption. cbn [pcode]. rewrite !map_CI_app. reflexivity.
  - rewrite cexpr_ENilOr, IHe1, IHe2 by assumption. cbn [pcode]. rewrite !map_CI_app, map_length. reflexivity.
  - rewrite cexpr_EGet, IHe by assumption. cbn [pcode]. rewrite !map_CI_app. reflexivity.
Qed.

Definition code_of (d : nat) (e : expr) (st : cst) : list instr := strip (fst (cexpr path d e st)).

Lemma code_of_pure : forall e d st, pure e = true -> code_of d e st = pcode d e.
Proof. intros e d st H. unfold code_of. rewrite cexpr_pure by exact H. cbn [fst]. apply strip_map_CI. Qed.

Lemma cexpr_pure_state : forall e d st, pure e = true -> snd (cexpr path d e st) = st.
Proof. intros e d st H. rewrite cexpr_pure by exact H. reflexivity. Qed.

(* ================================================================ structural facts, ALL expressions *)
Definition is_CI (c : citem) : Prop := match c with CI _ => True | _ => False end.

Lemma Forall_is_CI_app : forall a b, Forall is_CI a -> Forall is_CI b -> Forall is_CI (a ++ b).
Proof. intros a b Ha Hb. apply Forall_app. now split. Qed.

Definition only_instr (e : expr) : Prop := forall d st, Forall is_CI (fst (cexpr path d e st)).

Lemma cargs_only_instr : forall l, Forall only_instr l ->
  forall k st, Forall is_CI (fst (fst (cargs k l st))) /\ Forall is_CI (snd (fst (cargs k l st))).
Proof.
  induction l as [|a l IH]; intros HF k st.
  - cbn. split; constructor.
  - inversion HF as [|? ? Ha Hl]; subst. cbn [cargs].
    pose proof (Ha k st) as H1. destruct (cexpr path k a st) as [ca st1]. cbn [fst] in H1.
    destruct (IH Hl (S k) st1) as [H2 H3]. destruct (cargs (S k) l st1) as [[ci cl] st2]. cbn [fst snd] in *.
    split.
    + apply Forall_is_CI_app; [exact H1|]. apply Forall_is_CI_app; [repeat constructor|exact H2].
    + constructor; [exact Logic.I|exact H3].
Qed.

Ltac ci_solve :=
  repeat (first [ assumption | apply Forall_is_CI_app | apply Forall_cons | apply Forall_nil | exact Logic.I ]).

Theorem cexpr_only_instructions : forall e d st, Forall is_CI (fst (cexpr path d e st)).
Proof.
  intros e. change (only_instr e).
  apply (expr_ind' only_instr (fun _ => True)); try (intros; exact Logic.I); unfold only_instr.
  - intros z d st. cbn. ci_solve.
  - intros b d st. cbn. ci_solve.
  - intros s d st. cbn. ci_solve.
  - intros d st. cbn. ci_solve.
  - intros x d st. cbn. ci_solve.
  - intros o a b Ha Hb d st. rewrite cexpr_EBin.
    specialize (Ha (S d) st). destruct (cexpr path (S d) a st) as [ca st1].
    specialize (Hb (S d) st1). destruct (cexpr path (S d) b st1) as [cb st2]. cbn [fst] in *.
    destruct o; ci_solve.
  - intros a b Ha Hb d st. rewrite cexpr_EAnd.
    specialize (Ha (S d) st). destruct (cexpr path (S d) a st) as [ca st1].
    specialize (Hb (S d) st1). destruct (cexpr path (S d) b st1) as [cb st2]. cbn [fst] in *. ci_solve.
  - intros a b Ha Hb d st. rewrite cexpr_EOr.
    specialize (Ha (S d) st). destruct (cexpr path (S d) a st) as [ca st1].
    specialize (Hb (S d) st1). destruct (cexpr path (S d) b st1) as [cb st2]. cbn [fst] in *. ci_solve.
  - intros a Ha d st. rewrite cexpr_ENot.
    specialize (Ha (S d) st). destruct (cexpr path (S d) a st) as [ca st1]. cbn [fst] in *. ci_solve.
  - intros a Ha d st. rewrite cexpr_ENeg.
    specialize (Ha (S d) st). destruct (cexpr path (S d) a st) as [ca st1]. cbn [fst] in *. ci_solve.
  - intros f l Hf Hl d st. rewrite cexpr_ECall.
    specialize (Hf (S d) st). destruct (cexpr path (S d) f st) as [cf st1].
    destruct (cargs_only_instr l Hl (S (S d)) st1) as [H2 H3].
    destruct (cargs (S (S d)) l st1) as [[ci cl] st2]. cbn [fst snd] in *. ci_solve.
  - intros l Hl d st. rewrite cexpr_ESelf.
    destruct (cargs_only_instr l Hl (S d) st) as [H2 H3].
    destruct (cargs (S d) l st) as [[ci cl] st2]. cbn [fst snd] in *. ci_solve.
  - intros ps body _ d st. destruct (cexpr_EFn d ps body st) as (name & st' & E). rewrite E. cbn [fst]. ci_solve.
  - intros a b Ha Hb d st. rewrite cexpr_ENilOr.
    specialize (Ha (S d) st). destruct (cexpr path (S d) a st) as [ca st1].
    specialize (Hb (S d) st1). destruct (cexpr path (S d) b st1) as [cb st2]. cbn [fst] in *. ci_solve.
  - intros a sp Ha d st. rewrite cexpr_EGet.
    specialize (Ha (S d) st). destruct (cexpr path (S d) a st) as [ca st1]. cbn [fst] in *. ci_solve.
Qed.

(* the register an instruction WRITES (store_fast / store_skip bind their first argument in the top frame) *)
Definition writes_reg (i : instr) : option str :=
  if ((op i =? OP_STORE_FAST) || (op i =? OP_STORE_SKIP))%N then hd_error (args i) else None.

Definition regs_ge (d : nat) (l : list citem) : Prop :=
  forall i n, In (CI i) l -> writes_reg i = Some n -> exists k, n = reg k /\ d <= k.

Lemma regs_ge_app : forall d a b, regs_ge d a -> regs_ge d b -> regs_ge d (a ++ b).
Proof. intros d a b Ha Hb i n Hin Hn. apply in_app_or in Hin as [H|H]; [exact (Ha i n H Hn)|exact (Hb i n H Hn)]. Qed.
Lemma regs_ge_nil : forall d, regs_ge d [].
Proof. intros d i n []. Qed.
Lemma regs_ge_mono : forall d d' l, d <= d' -> regs_ge d' l -> regs_ge d l.
Proof. intros d d' l Hle H i n Hin Hw. destruct (H i n Hin Hw) as (k & E & L). exists k. split; [exact E|lia]. Qed.
Lemma regs_ge_cons_nowrite : forall d o a l, writes_reg (mkI o a) = None -> regs_ge d l -> regs_ge d (I o a :: l).
Proof.
  intros d o a l Hw H i n [E|Hin] Hn; [|exact (H i n Hin Hn)].
  rewrite I_mkI in E. inversion E; subst i. congruence.
Qed.
Lemma regs_ge_cons_write : forall d o k a l, d <= k -> regs_ge d l -> regs_ge d (I o (reg k :: a) :: l).
Proof.
  intros d o k a l Hle H i n [E|Hin] Hn; [|exact (H i n Hin Hn)].
  rewrite I_mkI in E. inversion E; subst i. unfold writes_reg in Hn. cbn [op args mkI hd_error] in Hn.
  destruct ((o =? OP_STORE_FAST) || (o =? OP_STORE_SKIP))%N; [|discriminate].
  inversion Hn; subst n. exists k. now split.
Qed.

Ltac rg_solve :=
  repeat (first [ assumption
                | apply regs_ge_nil
                | apply regs_ge_app
                | (apply regs_ge_cons_write; [lia|])
                | (apply regs_ge_cons_nowrite; [reflexivity|])
                | (eapply regs_ge_mono; [|eassumption]; lia) ]).

Definition regs_ok (e : expr) : Prop := forall d st, regs_ge d (fst (cexpr path d e st)).

Lemma cargs_regs : forall l, Forall regs_ok l ->
  forall k st, regs_ge k (fst (fst (cargs k l st))) /\ regs_ge k (snd (fst (cargs k l st))).
Proof.
  induction l as [|a l IH]; intros HF k st.
  - cbn. split; apply regs_ge_nil.
  - inversion HF as [|? ? Ha Hl]; subst. cbn [cargs].
    pose proof (Ha k st) as H1. destruct (cexpr path k a st) as [ca st1]. cbn [fst] in H1.
    destruct (IH Hl (S k) st1) as [H2 H3]. destruct (cargs (S k) l st1) as [[ci cl] st2]. cbn [fst snd] in *.
    split; rg_solve.
Qed.

(* C15, static half: every register bound by the code of `cexpr d e` is #k with k >= d
   (calls and self-calls park the callee and the arguments in the ghost registers d+1, d+2, ...) *)
Theorem cexpr_regs_ge_d : forall e d st, regs_ge d (fst (cexpr path d e st)).
Proof.
  intros e. change (regs_ok e).
  apply (expr_ind' regs_ok (fun _ => True)); try (intros; exact Logic.I); unfold regs_ok.
  - intros z d st. cbn. rg_solve.
  - intros b d st. cbn. rg_solve.
  - intros s d st. cbn. rg_solve.
  - intros d st. cbn. rg_solve.
  - intros x d st. cbn. rg_solve.
  - intros o a b Ha Hb d st. rewrite cexpr_EBin.
    specialize (Ha (S d) st). destruct (cexpr path (S d) a st) as [ca st1].
    specialize (Hb (S d) st1). destruct (cexpr path (S d) b st1) as [cb st2]. cbn [fst] in *.
    destruct o; rg_solve.
  - intros a b Ha Hb d st. rewrite cexpr_EAnd.
    specialize (Ha (S d) st). destruct (cexpr path (S d) a st) as [ca st1].
    specialize (Hb (S d) st1). destruct (cexpr path (S d) b st1) as [cb st2]. cbn [fst] in *. rg_solve.
  - intros a b Ha Hb d st. rewrite cexpr_EOr.
    specialize (Ha (S d) st). destruct (cexpr path (S d) a st) as [ca st1].
    specialize (Hb (S d) st1). destruct (cexpr path (S d) b st1) as [cb st2]. cbn [fst] in *. rg_solve.
  - intros a Ha d st. rewrite cexpr_ENot.
    specialize (Ha (S d) st). destruct (cexpr path (S d) a st) as [ca st1]. cbn [fst] in *. rg_solve.
  - intros a Ha d st. rewrite cexpr_ENeg.
    specialize (Ha (S d) st). destruct (cexpr path (S d) a st) as [ca st1]. cbn [fst] in *. rg_solve.
  - intros f l Hf Hl d st. rewrite cexpr_ECall.
    specialize (Hf (S d) st). destruct (cexpr path (S d) f st) as [cf st1].
    destruct (cargs_regs l Hl (S (S d)) st1) as [H2 H3].
    destruct (cargs (S (S d)) l st1) as [[ci cl] st2]. cbn [fst snd] in *. rg_solve.
  - intros l Hl d st. rewrite cexpr_ESelf.
    destruct (cargs_regs l Hl (S d) st) as [H2 H3].
    destruct (cargs (S d) l st) as [[ci cl] st2]. cbn [fst snd] in *. rg_solve.
  - intros ps body _ d st. destruct (cexpr_EFn d ps body st) as (name & st' & E). rewrite E. cbn [fst]. rg_solve.
  - intros a b Ha Hb d st. rewrite cexpr_ENilOr.
    specialize (Ha (S d) st). destruct (cexpr path (S d) a st) as [ca st1].
    specialize (Hb (S d) st1). destruct (cexpr path (S d) b st1) as [cb st2]. cbn [fst] in *. rg_solve.
  - intros a sp Ha d st. rewrite cexpr_EGet.
    specialize (Ha (S d) st). destruct (cexpr path (S d) a st) as [ca st1]. cbn [fst] in *. rg_solve.
Qed.

End WithPath.
