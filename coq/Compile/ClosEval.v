(* C01 / C07, closures -- a fact about the reference semantics used for the step expression of a `from` loop: an expression
   without function literals only looks at the cells of its variables and at the executing function (the values of calls
   do not depend on the caller's scopes), so an extra innermost scope that binds none of its variables is not seen. *)
From Coq Require Import List Arith ZArith Lia Bool.
Import ListNotations.
From MS Require Import Base.Str Vm.Model Lang.Syntax Lang.Eval Compile.Compile Compile.ExprBase Compile.ExprSim.
From MS Require Import Compile.StmtMach Compile.StmtRel Compile.StmtFrag Compile.StmtSim Compile.ClosFrag.
Open Scope nat_scope.

Fixpoint used_l (l : list expr) : list str := match l with [] => [] | a :: l => used_e a ++ used_l l end.
Lemma used_e_ECall : forall f l, used_e (ECall f l) = used_e f ++ used_l l.
Proof. reflexivity. Qed.
Lemma used_e_ESelf : forall l, used_e (ESelf l) = used_l l.
Proof. reflexivity. Qed.
Lemma noefn_ECall : forall f l, noefn (ECall f l) = noefn f && forallb noefn l.
Proof. reflexivity. Qed.
Lemma noefn_ESelf : forall l, noefn (ESelf l) = forallb noefn l.
Proof. reflexivity. Qed.

Definition same_vars (env env' : fenv) (xs : list str) : Prop :=
  forall x, In x xs -> lookup_scopes x (locals env' ++ captured env') = lookup_scopes x (locals env ++ captured env).

Lemma eval_env_irrel : forall fuel e env env' s, noefn e = true -> cur env' = cur env -> same_vars env env' (used_e e) ->
  eval fuel env' e s = eval fuel env e s.
Proof.
  induction fuel as [|fuel IH]; intros e env env' s Hn Hc Hv; [reflexivity|].
  assert (Hl : forall l, forallb noefn l = true -> same_vars env env' (used_l l) -> forall s acc, evals_ fuel env' l s acc = evals_ fuel env l s acc).
  { induction l as [|a l IHl]; intros Hnl Hvl s0 acc; [reflexivity|]. cbn [forallb] in Hnl. apply andb_true_iff in Hnl as [Hna Hnl].
    cbn [evals_]. rewrite (IH a env env' s0 Hna Hc) by (intros x Hx; apply Hvl; cbn [used_l]; apply in_or_app; now left).
    destruct (eval fuel env a s0) as [v s1|s1|f s1|]; try reflexivity. apply IHl; [exact Hnl|]. intros x Hx. apply Hvl. cbn [used_l]. apply in_or_app. now right. }
  assert (H2 : forall a b, noefn a && noefn b = true -> same_vars env env' (used_e a ++ used_e b) ->
            (forall s0, eval fuel env' a s0 = eval fuel env a s0) /\ (forall s0, eval fuel env' b s0 = eval fuel env b s0)).
  { intros a b Hab Hvab. apply andb_true_iff in Hab as [Ha Hb]. split; intros s0; apply IH; try assumption;
      intros x Hx; apply Hvab; apply in_or_app; [now left|now right]. }
  destruct e as [z|bb|t| |x|o a b|a b|a b|a|a|f l|l|ps body|a b|a sp]; try reflexivity.
  - rewrite !eval_EVar. rewrite (Hv x (or_introl eq_refl)). reflexivity.
  - cbn [noefn used_e] in Hn, Hv. destruct (H2 a b Hn Hv) as [Ea Eb]. rewrite !eval_EBin, Ea. destruct (eval fuel env a s) as [va s1|s1|f s1|]; try reflexivity. now rewrite Eb.
  - cbn [noefn used_e] in Hn, Hv. destruct (H2 a b Hn Hv) as [Ea Eb]. rewrite !eval_EAnd, Ea. destruct (eval fuel env a s) as [[?|[|]|?| |? ? ?] s1|s1|f s1|]; try reflexivity. now rewrite Eb.
  - cbn [noefn used_e] in Hn, Hv. destruct (H2 a b Hn Hv) as [Ea Eb]. rewrite !eval_EOr, Ea. destruct (eval fuel env a s) as [[?|[|]|?| |? ? ?] s1|s1|f s1|]; try reflexivity. now rewrite Eb.
  - cbn [noefn used_e] in Hn, Hv. rewrite !eval_ENot, (IH a env env' s Hn Hc Hv). reflexivity.
  - cbn [noefn used_e] in Hn, Hv. rewrite !eval_ENeg, (IH a env env' s Hn Hc Hv). reflexivity.
  - rewrite noefn_ECall in Hn. apply andb_true_iff in Hn as [Hf Hnl]. rewrite used_e_ECall in Hv.
    rewrite !eval_ECall. rewrite (IH f env env' s Hf Hc) by (intros x Hx; apply Hv; apply in_or_app; now left).
    destruct (eval fuel env f s) as [vf s1|s1|fl s1|]; try reflexivity.
    rewrite (Hl l Hnl) by (intros x Hx; apply Hv; apply in_or_app; now right). reflexivity.
  - rewrite noefn_ESelf in Hn. rewrite used_e_ESelf in Hv. rewrite !eval_ESelf, (Hl l Hn Hv), Hc. reflexivity.
  - discriminate Hn.
  - cbn [noefn used_e] in Hn, Hv. destruct (H2 a b Hn Hv) as [Ea Eb]. rewrite !eval_ENilOr, Ea. destruct (eval fuel env a s) as [[?|?|?| |? ? ?] s1|s1|f s1|]; try reflexivity. now rewrite Eb.
  - cbn [noefn used_e] in Hn, Hv. rewrite !eval_EGet, (IH a env env' s Hn Hc Hv). reflexivity.
Qed.

(* ================================================================ the names a statement binds
   A name y that no scope binds, and that a statement binds at most as the fresh counter of a `from` loop (asg), is bound in
   no scope afterwards either: the step expression of a `from` loop reads its captured variables in the frame of the body
   (the VM) / outside the scope of the body (the reference semantics), and both find the captured cell.
   K: scope by scope, the bindings of y are the same. *)
Definition ky (y : str) (sc : scope) : scope := filter (fun p => str_eqb (fst p) y) sc.
Definition K (y : str) (env env' : fenv) : Prop := map (ky y) (locals env') = map (ky y) (locals env).
Lemma K_refl : forall y env, K y env env.
Proof. reflexivity. Qed.
Lemma K_trans : forall y e1 e2 e3, K y e1 e2 -> K y e2 e3 -> K y e1 e3.
Proof. unfold K. intros. congruence. Qed.
Lemma assoc_ky : forall y sc, assoc y sc = match ky y sc with [] => None | p :: _ => Some (snd p) end.
Proof.
  intros y sc. induction sc as [|[k c] t IH]; [reflexivity|]. cbn [ky filter fst assoc]. destruct (str_eqb k y); [reflexivity|exact IH].
Qed.
Lemma ky_nil_assoc : forall y sc, assoc y sc = None -> ky y sc = [].
Proof. intros y sc H. rewrite assoc_ky in H. destruct (ky y sc); [reflexivity|discriminate]. Qed.
Lemma lookup_ky : forall y l l', map (ky y) l' = map (ky y) l -> lookup_scopes y l' = lookup_scopes y l.
Proof.
  intros y l. induction l as [|sc l IH]; intros [|sc' l'] H; try discriminate; [reflexivity|]. cbn [map] in H. inversion H as [[H1 H2]].
  cbn [lookup_scopes]. rewrite !assoc_ky, H1, (IH _ H2). reflexivity.
Qed.
Lemma K_look : forall y e e', K y e e' -> lookup_scopes y (locals e') = lookup_scopes y (locals e).
Proof. intros y e e' H. exact (lookup_ky _ _ _ H). Qed.
Lemma K_tl : forall y e e', K y e e' -> map (ky y) (tl (locals e')) = map (ky y) (tl (locals e)).
Proof. unfold K. intros y e e' H. destruct (locals e) as [|a l], (locals e') as [|a' l']; try discriminate; [reflexivity|]. cbn [map] in H. now inversion H. Qed.
Lemma K_hd : forall y e e', K y e e' -> ky y (hd [] (locals e')) = ky y (hd [] (locals e)).
Proof. unfold K. intros y e e' H. destruct (locals e) as [|a l], (locals e') as [|a' l']; try discriminate; [reflexivity|]. cbn [map] in H. now inversion H. Qed.
Lemma K_ne : forall y e e', K y e e' -> locals e <> [] -> locals e' <> [].
Proof. unfold K. intros y e e' H Hn E. rewrite E in H. destruct (locals e); [congruence|discriminate]. Qed.
Lemma ky_set_other : forall y x c sc, y <> x -> ky y (assoc_set x c sc) = ky y sc.
Proof.
  intros y x c sc Hne. induction sc as [|[k v] t IH]; cbn [assoc_set ky filter fst].
  - rewrite str_eqb_neq by congruence. reflexivity.
  - destruct (str_eqb k x) eqn:E; cbn [filter fst].
    + apply str_eqb_iff in E. subst k. rewrite str_eqb_neq by congruence. reflexivity.
    + fold (ky y (assoc_set x c t)). fold (ky y t). now rewrite IH.
Qed.
Lemma ky_set_new : forall y c sc, ky y sc = [] -> ky y (assoc_set y c sc) = [(y, c)].
Proof.
  intros y c sc. induction sc as [|[k v] t IH]; intros H; cbn [assoc_set ky filter fst].
  - now rewrite str_eqb_refl.
  - cbn [ky filter fst] in H. destruct (str_eqb k y) eqn:E; [discriminate|]. cbn [filter fst]. rewrite E. exact (IH H).
Qed.
Lemma ky_del_other : forall y x sc, y <> x -> ky y (assoc_del x sc) = ky y sc.
Proof.
  intros y x sc Hne. induction sc as [|[k v] t IH]; [reflexivity|]. cbn [assoc_del].
  destruct (str_eqb k x) eqn:E.
  - apply str_eqb_iff in E. subst k. cbn [ky filter fst]. rewrite str_eqb_neq by congruence. reflexivity.
  - cbn [ky filter fst]. fold (ky y (assoc_del x t)). fold (ky y t). now rewrite IH.
Qed.
Lemma ky_del_same : forall y sc, ky y (assoc_del y sc) = tl (ky y sc).
Proof.
  intros y sc. induction sc as [|[k v] t IH]; [reflexivity|]. cbn [assoc_del ky filter fst].
  destruct (str_eqb k y) eqn:E; [reflexivity|]. cbn [filter fst]. rewrite E. exact IH.
Qed.
Lemma K_declare : forall env s x v y, y <> x -> locals env <> [] -> K y env (fst (declare env s x v)).
Proof.
  intros env s x v y Hne Hl. unfold declare, K. destruct (alloc s v) as [s1 c]. destruct (locals env) as [|sc r] eqn:El; [congruence|].
  cbn [fst locals map]. now rewrite ky_set_other.
Qed.
Lemma K_assign : forall env s x v y, y <> x -> locals env <> [] -> K y env (fst (assign env s x v)).
Proof. intros env s x v y Hne Hl. unfold assign. destruct (lookup_scopes x (locals env)); [apply K_refl|now apply K_declare]. Qed.
Lemma K_block : forall y e e', K y (push_scope e) e' -> K y e (pop_scope e').
Proof. intros y e e' H. exact (K_tl _ _ _ H). Qed.

(* the names a statement can bind in a scope that does not bind them yet *)
Lemma asgl_cons : forall st l, asgl (st :: l) = asg st ++ asgl l.
Proof. reflexivity. Qed.

(* y is bound below the innermost scope, which does not bind it / y is bound nowhere *)
Definition Rk (y : str) (env : fenv) : Prop := ky y (hd [] (locals env)) = [] /\ lookup_scopes y (tl (locals env)) <> None.
Definition Uk (y : str) (env : fenv) : Prop := lookup_scopes y (locals env) = None /\ locals env <> [].
Definition Pre (y : str) (env : fenv) (names : list str) : Prop := Rk y env \/ (Uk y env /\ ~ In y names).
Definition PreB (y : str) (env : fenv) (names : list str) : Prop := lookup_scopes y (locals env) <> None \/ (Uk y env /\ ~ In y names).
Lemma Rk_K : forall y e e', K y e e' -> Rk y e -> Rk y e'.
Proof. intros y e e' H [H1 H2]. split; [now rewrite (K_hd _ _ _ H)|]. now rewrite (lookup_ky _ _ _ (K_tl _ _ _ H)). Qed.
Lemma Uk_K : forall y e e', K y e e' -> Uk y e -> Uk y e'.
Proof. intros y e e' H [H1 H2]. split; [now rewrite (K_look _ _ _ H)|exact (K_ne _ _ _ H H2)]. Qed.
Lemma Pre_K : forall y e e' ns, K y e e' -> Pre y e ns -> Pre y e' ns.
Proof. intros y e e' ns H [HR|[HU Hn]]; [left; exact (Rk_K _ _ _ H HR)|right; split; [exact (Uk_K _ _ _ H HU)|exact Hn]]. Qed.
Lemma PreB_K : forall y e e' ns, K y e e' -> PreB y e ns -> PreB y e' ns.
Proof. intros y e e' ns H [HR|[HU Hn]]; [left; now rewrite (K_look _ _ _ H)|right; split; [exact (Uk_K _ _ _ H HU)|exact Hn]]. Qed.
Lemma Rk_bound : forall y e, Rk y e -> lookup_scopes y (locals e) <> None.
Proof.
  intros y e [H1 H2]. destruct (locals e) as [|sc r]; [exact H2|]. cbn [hd tl lookup_scopes] in *. rewrite assoc_ky, H1. exact H2.
Qed.
Lemma Pre_ne : forall y e ns, Pre y e ns -> locals e <> [].
Proof. intros y e ns [[_ H]|[[_ H] _]]; [|exact H]. intros E. rewrite E in H. now apply H. Qed.
Lemma Pre_top : forall y e ns, Pre y e ns -> ky y (hd [] (locals e)) = [].
Proof.
  intros y e ns [[H _]|[[H _] _]]; [exact H|]. destruct (locals e) as [|sc r]; [reflexivity|]. cbn [hd lookup_scopes] in *.
  apply ky_nil_assoc. now destruct (assoc y sc).
Qed.
Lemma Pre_PreB : forall y e ns ns', Pre y e ns -> (In y ns' -> In y ns) -> PreB y e ns'.
Proof. intros y e ns ns' [HR|[HU Hn]] Hs; [left; exact (Rk_bound _ _ HR)|right; split; [exact HU|intros Hi; exact (Hn (Hs Hi))]]. Qed.
Lemma PreB_push : forall y e ns, PreB y e ns -> Pre y (push_scope e) ns.
Proof.
  intros y e ns [HR|[[H1 H2] Hn]]; [left; split; [reflexivity|exact HR]|right]. split; [|exact Hn]. split; [exact H1|discriminate].
Qed.

Ltac K_same H :=
  repeat match type of H with
         | match ?x with _ => _ end = _ => destruct x; try discriminate H
         end;
  inversion H; subst; apply K_refl.

Lemma exec_K : forall y, y <> hid -> forall fuel,
  (forall env st s sig env' s', Eval.exec fuel env st s = SOk sig env' s' -> Pre y env (asg st) -> K y env env') /\
  (forall env l s sig env' s', exec_block fuel env l s = SOk sig env' s' -> Pre y env (asgl l) -> K y env env').
Proof.
  intros y Hh. induction fuel as [|fuel [IHs IHb]]; [split; intros; discriminate|].
  assert (Hib : forall body env s sig env' s', in_block_ fuel body env s = SOk sig env' s' -> PreB y env (asgl body) -> K y env env').
  { intros body env s sig env' s' H HP. unfold in_block_ in H.
    destruct (exec_block fuel (push_scope env) body s) as [g e1 s1|f s1|] eqn:E; try discriminate. inversion H; subst.
    apply K_block. exact (IHb _ _ _ _ _ _ E (PreB_push _ _ _ HP)). }
  split.
  - intros env st s sig env' s' H HP.
    destruct st as [x e|x e|x o e|e|e sp|e|c body|c body els|c body nxt|c body|a b incl step nm collide body| | |[e|]].
    + rewrite exec_SAssign in H. destruct (eval fuel env e s) as [v s1|s1|f s1|]; try discriminate.
      assert (K0 : K y env (fst (assign env s1 x v))).
      { destruct (list_eq_dec N.eq_dec y x) as [->|Hne]; [|apply K_assign; [exact Hne|exact (Pre_ne _ _ _ HP)]].
        destruct HP as [HR|[_ Hn]]; [|exfalso; apply Hn; now left].
        unfold assign. pose proof (Rk_bound _ _ HR) as Hb. destruct (lookup_scopes x (locals env)); [apply K_refl|congruence]. }
      destruct (assign env s1 x v) as [e1 s2]. inversion H; subst. exact K0.
    + change (Eval.exec (S fuel) env (SModify x e) s) with
        (match eval fuel env e s with
         | EVal v s => match lookup_scopes x (captured env) with
                       | Some c => SOk SigNormal env (sset s c v) | None => SFailed (FUnbound x) s end
         | ENoVal s => SFailed (FType 3) s | EFail f s => SFailed f s | EFuel => SFuel end) in H.
      K_same H.
    + rewrite exec_SOpAssign in H. K_same H.
    + rewrite exec_SPrint in H. K_same H.
    + rewrite exec_SAssert in H. K_same H.
    + rewrite exec_SExpr in H. K_same H.
    + rewrite exec_SIf in H. destruct (eval fuel env c s) as [[?|[|]|?| |? ? ?] s1|s1|f s1|]; try discriminate.
      * apply (Hib _ _ _ _ _ _ H). apply (Pre_PreB _ _ _ _ HP). intros Hz. exact Hz.
      * inversion H; subst. apply K_refl.
    + rewrite exec_SIfElse in H. cbn [asg] in HP. destruct (eval fuel env c s) as [[?|[|]|?| |? ? ?] s1|s1|f s1|]; try discriminate.
      * apply (Hib _ _ _ _ _ _ H). apply (Pre_PreB _ _ _ _ HP). intros Hz. apply in_or_app. now left.
      * apply (Hib _ _ _ _ _ _ H). apply (Pre_PreB _ _ _ _ HP). intros Hz. apply in_or_app. now right.
    + rewrite exec_SIfElif in H. cbn [asg] in HP. destruct (eval fuel env c s) as [[?|[|]|?| |? ? ?] s1|s1|f s1|]; try discriminate.
      * apply (Hib _ _ _ _ _ _ H). apply (Pre_PreB _ _ _ _ HP). intros Hz. apply in_or_app. now left.
      * apply (Hib _ _ _ _ _ _ H). apply (Pre_PreB _ _ _ _ HP). intros Hz. apply in_or_app. right.
        unfold asgl in Hz. cbn [flat_map] in Hz. now rewrite app_nil_r in Hz.
    + rewrite exec_SWhile in H. destruct (eval fuel env c s) as [[?|[|]|?| |? ? ?] s1|s1|f s1|]; try discriminate.
      * destruct (in_block_ fuel body env s1) as [g e1 s2|f s2|] eqn:E; try discriminate.
        pose proof (Hib _ _ _ _ _ _ E (Pre_PreB _ _ _ _ HP (fun Hz => Hz))) as K1.
        destruct g as [| | |v].
        -- eapply K_trans; [exact K1|]. exact (IHs _ _ _ _ _ _ H (Pre_K _ _ _ _ K1 HP)).
        -- inversion H; subst. exact K1.
        -- eapply K_trans; [exact K1|]. exact (IHs _ _ _ _ _ _ H (Pre_K _ _ _ _ K1 HP)).
        -- inversion H; subst. exact K1.
      * inversion H; subst. apply K_refl.
    + rewrite exec_SFrom in H.
      destruct (eval fuel env a s) as [va s1|s1|f s1|]; try discriminate.
      destruct (eval fuel env b s1) as [vb s2|s2|f s2|]; try discriminate.
      destruct va as [lo|?|?| |? ? ?]; try discriminate. destruct vb as [hi|?|?| |? ? ?]; try discriminate. cbv zeta in H.
      set (cname := match nm with Some x => x | None => [0%N] end) in *.
      pose proof (Pre_ne _ _ _ HP) as Hne0. pose proof (Pre_top _ _ _ HP) as Htop.
      (* the iterations *)
      assert (Hit : forall n e0 s3, PreB y e0 (asgl body) -> from_iter fuel incl hi step cname collide body n e0 s3 = SOk sig env' s' ->
                exists en, K y e0 en /\ env' = (if collide then en else undeclare en cname)).
      { induction n as [|n IHn]; intros e0 s3 HP0 H0; [discriminate|].
        rewrite from_iter_S in H0.
        destruct (lookup_scopes cname (locals e0)) as [c0|]; try discriminate.
        destruct (sget s3 c0) as [[i|?|?| |? ? ?]|]; try discriminate.
        destruct (if incl then (i <=? hi)%Z else (i <? hi)%Z).
        2:{ inversion H0; subst. exists e0. split; [apply K_refl|reflexivity]. }
        destruct (in_block_ fuel body e0 s3) as [g e1 s4|f s4|] eqn:E; try discriminate.
        pose proof (Hib _ _ _ _ _ _ E HP0) as K1.
        assert (Hnext : forall s5, (let bump := fun (sv : rvalue) (s : rstate) =>
                    match sget s c0, sv with
                    | Some (RInt i'), RInt d => if i32_ok (i' + d)%Z then from_iter fuel incl hi step cname collide body n e1 (sset s c0 (RInt (i' + d)%Z))
                                                else SFailed FOverflow s
                    | _, _ => SFailed (FType 13) s end in
                  match step with
                  | None => bump (RInt 1) s5
                  | Some se => match eval fuel e1 se s5 with
                               | EVal sv s => bump sv s | ENoVal s => SFailed (FType 3) s
                               | EFail f s => SFailed f s | EFuel => SFuel end
                  end) = SOk sig env' s' -> exists en, K y e0 en /\ env' = (if collide then en else undeclare en cname)).
        { intros s5 H5. cbv zeta in H5.
          assert (Hb5 : forall sv s6, match sget s6 c0, sv with
                    | Some (RInt i'), RInt d => if i32_ok (i' + d)%Z then from_iter fuel incl hi step cname collide body n e1 (sset s6 c0 (RInt (i' + d)%Z))
                                                else SFailed FOverflow s6
                    | _, _ => SFailed (FType 13) s6 end = SOk sig env' s' -> exists en, K y e0 en /\ env' = (if collide then en else undeclare en cname)).
          { intros sv s6 H6. destruct (sget s6 c0) as [[i'|?|?| |? ? ?]|]; try discriminate. destruct sv as [d|?|?| |? ? ?]; try discriminate.
            destruct (i32_ok (i' + d)%Z); [|discriminate]. destruct (IHn _ _ (PreB_K _ _ _ _ K1 HP0) H6) as (en & Kn & En).
            exists en. split; [eapply K_trans; eassumption|exact En]. }
          destruct step as [se|]; [|exact (Hb5 (RInt 1) _ H5)].
          destruct (eval fuel e1 se s5) as [sv s6|s6|f s6|]; try discriminate. exact (Hb5 _ _ H5). }
        destruct g as [| | |v].
        - exact (Hnext _ H0).
        - inversion H0; subst. exists e1. split; [exact K1|reflexivity].
        - exact (Hnext _ H0).
        - inversion H0; subst. exists e1. split; [exact K1|reflexivity]. }
      destruct (locals env) as [|sc r] eqn:El; [congruence|]. cbn [hd] in Htop.
      destruct collide.
      * (* the counter is an existing variable, or becomes a variable of this scope *)
        assert (K0 : K y env (fst (assign env s2 cname (RInt lo))) /\ PreB y (fst (assign env s2 cname (RInt lo))) (asgl body)).
        { destruct (list_eq_dec N.eq_dec y cname) as [Ey|Hne].
          - destruct HP as [HR|[_ Hn]].
            + pose proof (Rk_bound _ _ HR) as Hb. unfold assign. rewrite <- Ey. destruct (lookup_scopes y (locals env)) eqn:Ely; [|congruence].
              cbn [fst]. split; [apply K_refl|left; rewrite Ely; exact Hb].
            + exfalso. unfold cname in Ey. destruct nm as [x|]; [|exact (Hh Ey)]. apply Hn. cbn [asg]. left. now rewrite Ey.
          - pose proof (K_assign env s2 cname (RInt lo) y Hne ltac:(rewrite El; discriminate)) as K0. split; [exact K0|].
            apply (PreB_K _ _ _ _ K0). apply (Pre_PreB _ _ _ _ HP). intros Hz. destruct nm as [x|]; cbn [asg]; [right; exact Hz|exact Hz]. }
        destruct (assign env s2 cname (RInt lo)) as [e0 s3]. cbn [fst] in K0. destruct K0 as [K0 P0].
        destruct (Hit _ _ _ P0 H) as (en & Kn & ->). eapply K_trans; eassumption.
      * (* a counter of its own, removed afterwards *)
        unfold declare in H. destruct (alloc s2 (RInt lo)) as [s3 c]. rewrite El in H.
        set (e0 := {| locals := assoc_set cname c sc :: r; captured := captured env; cur := cur env |}) in *.
        destruct (list_eq_dec N.eq_dec y cname) as [Ey|Hne].
        -- assert (P0 : PreB y e0 (asgl body)).
           { left. cbn [e0 locals lookup_scopes]. rewrite <- Ey, assoc_set_same. discriminate. }
           destruct (Hit _ _ _ P0 H) as (en & Kn & ->). unfold K in *. cbn [e0 locals map] in Kn. rewrite El. cbn [map].
           unfold undeclare. destruct (locals en) as [|scn rn] eqn:En; [discriminate|]. cbn [map] in Kn. inversion Kn as [[K1 K2]].
           cbn [locals map]. rewrite K2. f_equal. rewrite <- Ey in *. rewrite ky_del_same, K1, (ky_set_new y c sc Htop), Htop. reflexivity.
        -- assert (K0 : K y env e0) by (unfold K; cbn [e0 locals map]; rewrite El; cbn [map]; now rewrite ky_set_other).
           assert (P0 : PreB y e0 (asgl body)).
           { apply (PreB_K _ _ _ _ K0). apply (Pre_PreB _ _ _ _ HP). intros Hz. unfold cname in Hne. destruct nm as [x|]; cbn [asg]; [|exact Hz].
             apply filter_In. split; [exact Hz|]. rewrite str_eqb_neq by congruence. reflexivity. }
           destruct (Hit _ _ _ P0 H) as (en & Kn & ->). eapply K_trans; [exact K0|]. eapply K_trans; [exact Kn|].
           unfold K, undeclare. destruct (locals en) as [|scn rn] eqn:En; [now rewrite En|]. cbn [locals map]. now rewrite ky_del_other.
    + inversion H; subst. apply K_refl.
    + inversion H; subst. apply K_refl.
    + rewrite exec_SReturn in H. K_same H.
    + inversion H; subst. apply K_refl.
  - intros env l s sig env' s' H HP. destruct l as [|st l]; [inversion H; subst; apply K_refl|].
    rewrite exec_block_cons in H. rewrite asgl_cons in HP.
    destruct (Eval.exec fuel env st s) as [g e1 s1|f s1|] eqn:E; try discriminate.
    assert (HP1 : Pre y env (asg st)) by (destruct HP as [HR|[HU Hn]]; [now left|right; split; [exact HU|intros Hi; apply Hn; apply in_or_app; now left]]).
    pose proof (IHs _ _ _ _ _ _ E HP1) as K1.
    destruct g as [| | |v]; try (inversion H; subst; exact K1).
    eapply K_trans; [exact K1|]. apply (IHb _ _ _ _ _ _ H). apply (Pre_K _ _ _ _ K1).
    destruct HP as [HR|[HU Hn]]; [now left|right; split; [exact HU|intros Hi; apply Hn; apply in_or_app; now right]].
Qed.
