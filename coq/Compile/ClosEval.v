(* C01 / C07, closures -- a fact about the reference semantics used for the step expression of a `from` loop: an expression
   without function literals only looks at the cells of its variables and at the executing function (the values of calls
   do not depend on the caller's scopes), so an extra innermost scope that binds none of its variables is not seen. *)
From Coq Require Import List Arith ZArith Lia Bool.
Import ListNotations.
From MS Require Import Base.Str Vm.Model Lang.Syntax Lang.Eval Compile.Compile Compile.ExprBase Compile.ExprSim.
From MS Require Import Compile.StmtMach Compile.StmtRel Compile.StmtFrag Compile.StmtSim Compile.ClosFrag.
Open Scope nat_scope.

Fixpoint used_l (l : list expr) : list str := match l with [] => [] | a :: l => used_e a ++ used_l l end.
Lemma used_e_ECall : forall f l, used_e (ECall f l) = used_e f ++ used_l l.
Proof. reflexivity. Qed.
Lemma used_e_ESelf : forall l, used_e (ESelf l) = used_l l.
Proof. reflexivity. Qed.
Lemma noefn_ECall : forall f l, noefn (ECall f l) = noefn f && forallb noefn l.
Proof. reflexivity. Qed.
Lemma noefn_ESelf : forall l, noefn (ESelf l) = forallb noefn l.
Proof. reflexivity. Qed.

Definition same_vars (env env' : fenv) (xs : list str) : Prop :=
  forall x, In x xs -> lookup_scopes x (locals env' ++ captured env') = lookup_scopes x (locals env ++ captured env).

Lemma eval_env_irrel : forall fuel e env env' s, noefn e = true -> cur env' = cur env -> same_vars env env' (used_e e) ->
  eval fuel env' e s = eval fuel env e s.
Proof.
  induction fuel as [|fuel IH]; intros e env env' s Hn Hc Hv; [reflexivity|].
  assert (Hl : forall l, forallb noefn l = true -> same_vars env env' (used_l l) -> forall s acc, evals_ fuel env' l s acc = evals_ fuel env l s acc).
  { induction l as [|a l IHl]; intros Hnl Hvl s0 acc; [reflexivity|]. cbn [forallb] in Hnl. apply andb_true_iff in Hnl as [Hna Hnl].
    cbn [evals_]. rewrite (IH a env env' s0 Hna Hc) by (intros x Hx; apply Hvl; cbn [used_l]; apply in_or_app; now left).
    destruct (eval fuel env a s0) as [v s1|s1|f s1|]; try reflexivity. apply IHl; [exact Hnl|]. intros x Hx. apply Hvl. cbn [used_l]. apply in_or_app. now right. }
  assert (H2 : forall a b, noefn a && noefn b = true -> same_vars env env' (used_e a ++ used_e b) ->
            (forall s0, eval fuel env' a s0 = eval fuel env a s0) /\ (forall s0, eval fuel env' b s0 = eval fuel env b s0)).
  { intros a b Hab Hvab. apply andb_true_iff in Hab as [Ha Hb]. split; intros s0; apply IH; try assumption;
      intros x Hx; apply Hvab; apply in_or_app; [now left|now right]. }
  destruct e as [z|bb|t| |x|o a b|a b|a b|a|a|f l|l|ps body|a b|a sp]; try reflexivity.
  - rewrite !eval_EVar. rewrite (Hv x (or_introl eq_refl)). reflexivity.
  - cbn [noefn used_e] in Hn, Hv. destruct (H2 a b Hn Hv) as [Ea Eb]. rewrite !eval_EBin, Ea. destruct (eval fuel env a s) as [va s1|s1|f s1|]; try reflexivity. now rewrite Eb.
  - cbn [noefn used_e] in Hn, Hv. destruct (H2 a b Hn Hv) as [Ea Eb]. rewrite !eval_EAnd, Ea. destruct (eval fuel env a s) as [[?|[|]|?| |? ? ?] s1|s1|f s1|]; try reflexivity. now rewrite Eb.
  - cbn [noefn used_e] in Hn, Hv. destruct (H2 a b Hn Hv) as [Ea Eb]. rewrite !eval_EOr, Ea. destruct (eval fuel env a s) as [[?|[|]|?| |? ? ?] s1|s1|f s1|]; try reflexivity. now rewrite Eb.
  - cbn [noefn used_e] in Hn, Hv. rewrite !eval_ENot, (IH a env env' s Hn Hc Hv). reflexivity.
  - cbn [noefn used_e] in Hn, Hv. rewrite !eval_ENeg, (IH a env env' s Hn Hc Hv). reflexivity.
  - rewrite noefn_ECall in Hn. apply andb_true_iff in Hn as [Hf Hnl]. rewrite used_e_ECall in Hv.
    rewrite !eval_ECall. rewrite (IH f env env' s Hf Hc) by (intros x Hx; apply Hv; apply in_or_app; now left).
    destruct (eval fuel env f s) as [vf s1|s1|fl s1|]; try reflexivity.
    rewrite (Hl l Hnl) by (intros x Hx; apply Hv; apply in_or_app; now right). reflexivity.
  - rewrite noefn_ESelf in Hn. rewrite used_e_ESelf in Hv. rewrite !eval_ESelf, (Hl l Hn Hv), Hc. reflexivity.
  - discriminate Hn.
  - cbn [noefn used_e] in Hn, Hv. destruct (H2 a b Hn Hv) as [Ea Eb]. rewrite !eval_ENilOr, Ea. destruct (eval fuel env a s) as [[?|?|?| |? ? ?] s1|s1|f s1|]; try reflexivity. now rewrite Eb.
  - cbn [noefn used_e] in Hn, Hv. rewrite !eval_EGet, (IH a env env' s Hn Hc Hv). reflexivity.
Qed.

(* ================================================================ the names a statement binds
   A name that is neither assigned nor a loop counter anywhere in a statement is bound in the same scopes before and after:
   the step expression of a `from` loop reads its captured variables in the frame of the body (the VM) / outside the
   scope of the body (the reference semantics), and both find the captured cell. *)
Definition keeps (y : str) (env env' : fenv) : Prop :=
  forall m, lookup_scopes y (skipn m (locals env')) = lookup_scopes y (skipn m (locals env)).
Lemma keeps_refl : forall y env, keeps y env env.
Proof. intros y env m. reflexivity. Qed.
Lemma keeps_trans : forall y e1 e2 e3, keeps y e1 e2 -> keeps y e2 e3 -> keeps y e1 e3.
Proof. intros y e1 e2 e3 H1 H2 m. now rewrite H2, H1. Qed.
Lemma skipn_S_tl : forall A m (l : list A), skipn (S m) l = skipn m (tl l).
Proof. intros A m [|x l]; [now destruct m|reflexivity]. Qed.
Lemma keeps_declare : forall env s x v y, y <> x -> keeps y env (fst (declare env s x v)).
Proof.
  intros env s x v y Hne. unfold declare. destruct (alloc s v) as [s1 c]. destruct (locals env) as [|sc r] eqn:El; cbn [fst]; intros m; cbn [locals]; rewrite El.
  - destruct m as [|m]; cbn [skipn lookup_scopes assoc]; [rewrite str_eqb_neq by congruence; reflexivity|]. now destruct m.
  - destruct m as [|m]; cbn [skipn lookup_scopes]; [rewrite assoc_set_other by exact Hne|]; reflexivity.
Qed.
Lemma keeps_assign : forall env s x v y, y <> x -> keeps y env (fst (assign env s x v)).
Proof.
  intros env s x v y Hne. unfold assign. destruct (lookup_scopes x (locals env)); [apply keeps_refl|now apply keeps_declare].
Qed.
Lemma keeps_undeclare : forall env x y, y <> x -> keeps y env (undeclare env x).
Proof.
  intros env x y Hne. unfold undeclare. destruct (locals env) as [|sc r] eqn:El; [apply keeps_refl|]. intros m. cbn [locals]. rewrite El.
  destruct m as [|m]; cbn [skipn lookup_scopes]; [rewrite assoc_del_other by exact Hne|]; reflexivity.
Qed.
Lemma keeps_block : forall y e e', keeps y (push_scope e) e' -> keeps y e (pop_scope e').
Proof.
  intros y e e' H m. cbn [pop_scope locals]. rewrite <- skipn_S_tl. rewrite (H (S m)). reflexivity.
Qed.
Lemma keeps_look : forall y e e', keeps y e e' -> lookup_scopes y (locals e') = lookup_scopes y (locals e).
Proof. intros y e e' H. exact (H 0). Qed.

Lemma asgl_cons : forall st l, asgl (st :: l) = asg st ++ asgl l.
Proof. reflexivity. Qed.

Ltac keeps_same H :=
  repeat match type of H with
         | match ?x with _ => _ end = _ => destruct x; try discriminate H
         end;
  inversion H; subst; apply keeps_refl.

Lemma exec_keeps : forall fuel,
  (forall env st s sig env' s', Eval.exec fuel env st s = SOk sig env' s' -> forall y, ~ In y (asg st) -> y <> hid -> keeps y env env') /\
  (forall env l s sig env' s', exec_block fuel env l s = SOk sig env' s' -> forall y, ~ In y (asgl l) -> y <> hid -> keeps y env env').
Proof.
  induction fuel as [|fuel [IHs IHb]]; [split; intros; discriminate|].
  assert (Hib : forall body env s sig env' s', in_block_ fuel body env s = SOk sig env' s' ->
            forall y, ~ In y (asgl body) -> y <> hid -> keeps y env env').
  { intros body env s sig env' s' H y Hy Hh. unfold in_block_ in H.
    destruct (exec_block fuel (push_scope env) body s) as [g e1 s1|f s1|] eqn:E; try discriminate. inversion H; subst.
    apply keeps_block. exact (IHb _ _ _ _ _ _ E y Hy Hh). }
  split.
  - intros env st s sig env' s' H y Hy Hh. destruct st as [x e|x e|x o e|e|e sp|e|c body|c body els|c body nxt|c body|a b incl step nm collide body| | |[e|]].
    + rewrite exec_SAssign in H. destruct (eval fuel env e s) as [v s1|s1|f s1|]; try discriminate.
      pose proof (keeps_assign env s1 x v y ltac:(intros ->; apply Hy; now left)) as K.
      destruct (assign env s1 x v) as [e1 s2]. inversion H; subst. exact K.
    + change (Eval.exec (S fuel) env (SModify x e) s) with
        (match eval fuel env e s with
         | EVal v s => match lookup_scopes x (captured env) with
                       | Some c => SOk SigNormal env (sset s c v) | None => SFailed (FUnbound x) s end
         | ENoVal s => SFailed (FType 3) s | EFail f s => SFailed f s | EFuel => SFuel end) in H.
      keeps_same H.
    + rewrite exec_SOpAssign in H. keeps_same H.
    + rewrite exec_SPrint in H. keeps_same H.
    + rewrite exec_SAssert in H. keeps_same H.
    + rewrite exec_SExpr in H. keeps_same H.
    + rewrite exec_SIf in H. destruct (eval fuel env c s) as [[?|[|]|?| |? ? ?] s1|s1|f s1|]; try discriminate.
      * exact (Hib _ _ _ _ _ _ H y Hy Hh).
      * inversion H; subst. apply keeps_refl.
    + rewrite exec_SIfElse in H. cbn [asg] in Hy. destruct (eval fuel env c s) as [[?|[|]|?| |? ? ?] s1|s1|f s1|]; try discriminate.
      * apply (Hib _ _ _ _ _ _ H y); [|exact Hh]. intros Hi. apply Hy. apply in_or_app. now left.
      * apply (Hib _ _ _ _ _ _ H y); [|exact Hh]. intros Hi. apply Hy. apply in_or_app. now right.
    + rewrite exec_SIfElif in H. cbn [asg] in Hy. destruct (eval fuel env c s) as [[?|[|]|?| |? ? ?] s1|s1|f s1|]; try discriminate.
      * apply (Hib _ _ _ _ _ _ H y); [|exact Hh]. intros Hi. apply Hy. apply in_or_app. now left.
      * apply (Hib _ _ _ _ _ _ H y); [|exact Hh]. intros Hi. apply Hy. apply in_or_app. right. unfold asgl in Hi. cbn [flat_map] in Hi. now rewrite app_nil_r in Hi.
    + rewrite exec_SWhile in H. destruct (eval fuel env c s) as [[?|[|]|?| |? ? ?] s1|s1|f s1|]; try discriminate.
      * destruct (in_block_ fuel body env s1) as [g e1 s2|f s2|] eqn:E; try discriminate.
        pose proof (Hib _ _ _ _ _ _ E y Hy Hh) as K1.
        destruct g as [| | |v].
        -- eapply keeps_trans; [exact K1|]. exact (IHs _ _ _ _ _ _ H y Hy Hh).
        -- inversion H; subst. exact K1.
        -- eapply keeps_trans; [exact K1|]. exact (IHs _ _ _ _ _ _ H y Hy Hh).
        -- inversion H; subst. exact K1.
      * inversion H; subst. apply keeps_refl.
    + rewrite exec_SFrom in H. cbn [asg] in Hy.
      destruct (eval fuel env a s) as [va s1|s1|f s1|]; try discriminate.
      destruct (eval fuel env b s1) as [vb s2|s2|f s2|]; try discriminate.
      destruct va as [lo|?|?| |? ? ?]; try discriminate. destruct vb as [hi|?|?| |? ? ?]; try discriminate. cbv zeta in H.
      set (cname := match nm with Some x => x | None => [0%N] end) in *.
      assert (Hyc : y <> cname).
      { unfold cname. destruct nm as [x|]; [|exact Hh]. intros ->. apply Hy. cbn [app]. now left. }
      assert (Hyb : ~ In y (asgl body)) by (intros Hi; apply Hy; apply in_or_app; now right).
      assert (K0 : keeps y env (fst (if collide then assign env s2 cname (RInt lo) else declare env s2 cname (RInt lo)))).
      { destruct collide; [now apply keeps_assign|now apply keeps_declare]. }
      destruct (if collide then assign env s2 cname (RInt lo) else declare env s2 cname (RInt lo)) as [e0 s3]. cbn [fst] in K0.
      eapply keeps_trans; [exact K0|]. clear K0.
      assert (Hfin : forall e1, keeps y e1 (if collide then e1 else undeclare e1 cname)).
      { intros e1. destruct collide; [apply keeps_refl|now apply keeps_undeclare]. }
      generalize dependent s3. generalize dependent e0. generalize fuel at 2 as n. induction n as [|n IHn]; intros e0 s3 H; [discriminate|].
      rewrite from_iter_S in H.
      destruct (lookup_scopes cname (locals e0)) as [c0|]; try discriminate.
      destruct (sget s3 c0) as [[i|?|?| |? ? ?]|]; try discriminate.
      destruct (if incl then (i <=? hi)%Z else (i <? hi)%Z).
      2:{ inversion H; subst. apply Hfin. }
      destruct (in_block_ fuel body e0 s3) as [g e1 s4|f s4|] eqn:E; try discriminate.
      pose proof (Hib _ _ _ _ _ _ E y Hyb Hh) as K1. eapply keeps_trans; [exact K1|].
      assert (Hnext : forall s5, (let bump := fun (sv : rvalue) (s : rstate) =>
                  match sget s c0, sv with
                  | Some (RInt i'), RInt d => if i32_ok (i' + d)%Z then from_iter fuel incl hi step cname collide body n e1 (sset s c0 (RInt (i' + d)%Z))
                                              else SFailed FOverflow s
                  | _, _ => SFailed (FType 13) s end in
                match step with
                | None => bump (RInt 1) s5
                | Some se => match eval fuel e1 se s5 with
                             | EVal sv s => bump sv s | ENoVal s => SFailed (FType 3) s
                             | EFail f s => SFailed f s | EFuel => SFuel end
                end) = SOk sig env' s' -> keeps y e1 env').
      { intros s5 H5. cbv zeta in H5.
        assert (Hb5 : forall sv s6, match sget s6 c0, sv with
                  | Some (RInt i'), RInt d => if i32_ok (i' + d)%Z then from_iter fuel incl hi step cname collide body n e1 (sset s6 c0 (RInt (i' + d)%Z))
                                              else SFailed FOverflow s6
                  | _, _ => SFailed (FType 13) s6 end = SOk sig env' s' -> keeps y e1 env').
        { intros sv s6 H6. destruct (sget s6 c0) as [[i'|?|?| |? ? ?]|]; try discriminate. destruct sv as [d|?|?| |? ? ?]; try discriminate.
          destruct (i32_ok (i' + d)%Z); [|discriminate]. exact (IHn _ _ H6). }
        destruct step as [se|]; [|exact (Hb5 (RInt 1) _ H5)].
        destruct (eval fuel e1 se s5) as [sv s6|s6|f s6|]; try discriminate. exact (Hb5 _ _ H5). }
      destruct g as [| | |v].
      * exact (Hnext _ H).
      * inversion H; subst. apply Hfin.
      * exact (Hnext _ H).
      * inversion H; subst. apply Hfin.
    + inversion H; subst. apply keeps_refl.
    + inversion H; subst. apply keeps_refl.
    + rewrite exec_SReturn in H. keeps_same H.
    + inversion H; subst. apply keeps_refl.
  - intros env l s sig env' s' H y Hy Hh. destruct l as [|st l]; [inversion H; subst; apply keeps_refl|].
    rewrite exec_block_cons in H. rewrite asgl_cons in Hy.
    destruct (Eval.exec fuel env st s) as [g e1 s1|f s1|] eqn:E; try discriminate.
    pose proof (IHs _ _ _ _ _ _ E y ltac:(intros Hi; apply Hy; apply in_or_app; now left) Hh) as K1.
    destruct g as [| | |v]; try (inversion H; subst; exact K1).
    eapply keeps_trans; [exact K1|]. apply (IHb _ _ _ _ _ _ H y); [|exact Hh]. intros Hi. apply Hy. apply in_or_app. now right.
Qed.
